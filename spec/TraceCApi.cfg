SPECIFICATION CTrSpec
POSTCONDITION Done
CHECK_DEADLOCK FALSE
