----------------------------- MODULE TraceCApi -----------------------------
(***************************************************************************)
(* C19 - trace validation of call sequences made through the C interface   *)
(* (oxidd-ffi-c), recorded by ffi-shim/oxc.                                *)
(*                                                                         *)
(* The events use the vocabulary of TraceManager (reset / add_vars / op /  *)
(* clone / drop / gc / snap / obs / reorder / cofnone / begin): every C    *)
(* call is the SAME abstract action of Manager.tla as the corresponding    *)
(* Rust call, the shadow handle table `hs` has one slot per owned C        *)
(* reference (oxidd_*_ref = Clone, oxidd_*_unref = Drop, a returned handle *)
(* = NewHandle), so `hs` IS the ownership ledger of CApi.tla.  The actions *)
(* below re-use TraceManager's state updates and obligation operators      *)
(* (OpObs, SnapObs, ... keep their owners C01..C09 and stay inactive unless*)
(* those ids are activated) and add the obligations owned by C19:          *)
(*                                                                         *)
(*  capi.sem:<op>     the returned C handle denotes Expected(r), computed  *)
(*                    by the same operator that judges the Rust API        *)
(*  capi.mirror:<op>  the same call on the Rust API (second manager) gave  *)
(*                    the same function and the same node count            *)
(*  capi.rc           every stored node: observed reference count = owned  *)
(*                    C references per the ledger + stored parent edges +  *)
(*                    internal (ZBDD tautology chain)                      *)
(*  capi.invalid:<op> invalid in => invalid out                            *)
(*  capi.valid:<op>   valid in (and memory left) => valid out              *)
(*  capi.mgr.*        manager handles: +1 / -1, the manager lives exactly  *)
(*                    as long as a manager or function reference is owned  *)
(*  capi.empty        after unref of everything + gc: no inner node (ZBDD: *)
(*                    only the manager's own chain)                        *)
(*                                                                         *)
(* An `abort` event (the driver process died in a C call) has no action.   *)
(***************************************************************************)
EXTENDS TraceManager

VARIABLE cx     \* [mr: owned manager references, cap: inner node capacity]
cvars == <<kind, n, l2v, hs, gcN, roN, l, nf, aux, fl, cx>>

(* the ledger arithmetic of CApi.tla (pure operators only; the state
   machine part of that module is model-checked separately, MC_CApi.cfg) *)
L == INSTANCE CApi WITH NN <- 0, Kids <- <<>>, MaxOwn <- 0, MaxM <- 0,
                        own <- <<>>, mown <- 0, store <- {}, rc <- <<>>,
                        mrc <- 0, gcs <- 0, last <- <<>>

P == "C19"
(* a manager with fewer than 100 nodes has no background collection; the
   drivers use such managers to provoke out-of-memory: there - and only
   there - an invalid result of an operation on valid operands is expected *)
Tiny == cx.cap < 100

InvIn(r) == \E i \in 1 .. Len(r.a) : r.a[i] = -1
KnownOps == {"t", "f", "var", "not_var", "not", "ite", "restrict", "subst", "make_node",
             "cof_t", "cof_f"} \cup BinOps \cup QuantOps \cup AQuantOps \cup ZOps

----------------------------------------------------------------------------
CTrReset ==
  /\ Ev("reset")
  /\ kind' = Rec[l].kind /\ n' = 0 /\ l2v' = <<>> /\ hs' = NoHandles
  /\ gcN' = 0 /\ roN' = 0 /\ aux' = AuxInit
  /\ cx' = [mr |-> 1, cap |-> Rec[l].cap]
  /\ Step(<< O(P, "capi.mgr.new", ~Rec[l].minvalid /\ Rec[l].thr_now > Rec[l].thr_base) >>)

(* ---- operations returning a function handle ---- *)
CSem(r, val) ==
  IF r.op \in {"pick_cube_dd", "pick_cube_dd_set"}
  THEN /\ ArgsLive(r)
       /\ IF Val(r.a[1]) = {} THEN val = {}
          ELSE IsCube(n, val) /\ val \subseteq Val(r.a[1])
  ELSE IF r.op = "import" THEN ArgsLive(r)       \* round trip: owned by C15
  ELSE ArgsLive(r) /\ val = Expected(r)

COpObs(r, val) ==
  IF InvIn(r)
  THEN << O(P, "capi.invalid:" \o r.op, L!InvalidRule(TRUE, Has(r, "res"))) >>
  ELSE IF Has(r, "res")
  THEN << O(P, "capi.valid:" \o r.op, Tiny /\ r.mst # "ok") >>
  ELSE (IF r.op \in KnownOps THEN OpObs(r, val) ELSE <<>>) \o
       << O(P, "capi.graph", OpGraphOk(r)),
          O(P, "capi.sem:" \o r.op, CSem(r, val)),
          O(P, "capi.eval", SeqToSet(r.tt) = val),
          O(P, "capi.canon", \A s \in Live : (Val(s) = val) <=> (EdgeOf(s) = r.e)),
          O(P, "capi.nc", r.cnc = r.nc /\ r.nc = Len(r.g) + Cardinality(TermIds(r.g, r.e))),
          O(P, "capi.mirror:" \o r.op,
              IF r.mst = "ok" THEN SeqToSet(r.mtt) = val /\ r.mnc = r.nc ELSE Tiny),
          O("C15", "sem:import", r.op = "import" => val = Val(r.a[1])) >>
CTrOp ==
  /\ Ev("op")
  /\ IF Has(Rec[l], "res")
     THEN /\ hs' = hs
          /\ Step(COpObs(Rec[l], {}))
     ELSE /\ hs' = Put(Rec[l].h, Rec[l].e, OpValue(Rec[l]))
          /\ Step(COpObs(Rec[l], hs'[Rec[l].h].v))
  /\ aux' = [aux EXCEPT !.fresh = FALSE]
  /\ UNCHANGED <<kind, n, l2v, gcN, roN, cx>>

(* cofactors of a terminal: documented to return invalid functions *)
CTrCofNone ==
  /\ Ev("cofnone")
  /\ Step(<< O("C02", "cofnone", TopVar(Val(Rec[l].a)) = 0),
             O(P, "capi.sem:cofnone", Rec[l].a \in Live /\ TopVar(Val(Rec[l].a)) = 0),
             O(P, "capi.mirror:cofnone", Rec[l].mnone \/ Tiny) >>)
  /\ UNCHANGED <<kind, n, l2v, hs, gcN, roN, aux, cx>>

(* oxidd_*_ref: +1, returns its argument; a reference taken by a
   substitution object (`into`) is a clone as well *)
CTrClone ==
  /\ Ev("clone")
  /\ Step(<< O(P, "capi.ref.same", Rec[l].same),
             O(P, "capi.ref.live", Rec[l].a \in Live /\ Rec[l].h \notin Live) >>)
  /\ Clone(Rec[l].a, Rec[l].h)
  /\ aux' = [aux EXCEPT !.fresh = FALSE]
  /\ cx' = cx

(* oxidd_*_unref, substitution_free, or a reference consumed by make_node: -1 *)
CTrDrop ==
  /\ Ev("drop")
  /\ Step(<< O(P, "capi.unref.live", Rec[l].a \in Live) >>)
  /\ Drop(Rec[l].a)
  /\ aux' = [aux EXCEPT !.fresh = FALSE]
  /\ cx' = cx

(* ref / unref / node_level of the invalid handle, substitute(f, NULL) *)
CTrNoop ==
  /\ Ev("noop")
  /\ Step(<< O(P, "capi.invalid:" \o Rec[l].what, L!InvalidRule(TRUE, Rec[l].ret_invalid)) >>)
  /\ UNCHANGED <<kind, n, l2v, hs, gcN, roN, aux, cx>>

CTrGc ==
  /\ Ev("gc")
  /\ Step(<< O("C05", "gc.ret", Rec[l].ret = Rec[l].before - Rec[l].after),
             O("C05", "gc.before", aux.fresh => Rec[l].before = aux.cnt),
             O(P, "capi.gc.ret", Rec[l].ret = Rec[l].before - Rec[l].after),
             O(P, "capi.gc.before", aux.fresh => Rec[l].before = aux.cnt),
             \* (approx_num_inner_nodes is documented to be approximate: logged only)
             O(P, "capi.gc.view", Rec[l].after = Rec[l].rafter /\ Rec[l].gcc = Rec[l].rgcc) >>)
  /\ aux' = [aux EXCEPT !.fresh = FALSE, !.afterGc = TRUE]
  /\ Gc
  /\ cx' = cx

(* ---- variables ---- *)
CAddVarsObs(r) ==
  LET exp == l2v \o [i \in 1 .. r.k |-> n + i - 1] IN
  AddVarsObs(r) \o
  << O(P, "capi.add_vars.n", r.n = n + r.k /\ r.nl = r.n /\ r.range = <<n, n + r.k>>),
     O(P, "capi.add_vars.order", r.l2v = exp /\ IsPerm(r.l2v, n + r.k)
                                 /\ r.v2l = [i \in 1 .. n + r.k |-> InvPerm(r.l2v)[i - 1]]),
     O(P, "capi.add_vars.all", r.dup = -1 => r.k = r.req),
     O(P, "capi.mirror:add_vars", r.mrange = r.range /\ r.mdup = r.dup /\ r.mn = r.n /\ r.ml2v = r.l2v) >>
CTrAddVars ==
  /\ Ev("add_vars")
  /\ Step(CAddVarsObs(Rec[l]))
  /\ n' = n + Rec[l].k
  /\ l2v' = IF IsPerm(Rec[l].l2v, n + Rec[l].k) THEN Rec[l].l2v
             ELSE l2v \o [i \in 1 .. Rec[l].k |-> n + i - 1]
  /\ hs' = [s \in Live |-> [hs[s] EXCEPT !.v = Extend(kind, n, n + Rec[l].k, @)]]
  /\ aux' = [aux EXCEPT !.fresh = FALSE]
  /\ UNCHANGED <<kind, gcN, roN, cx>>

CReorderObs(r) ==
  LET good == IsPerm(r.l2v, n) IN
  ReorderObs(r) \o
  << O(P, "capi.reorder.perm", good /\ (good => r.v2l = [i \in 1 .. n |-> InvPerm(r.l2v)[i - 1]])),
     O(P, "capi.reorder.request", good => RespectsReq(r.l2v, r.req)),
     O(P, "capi.mirror:reorder", r.ml2v = r.l2v) >>
CTrReorder ==
  /\ Ev("reorder")
  /\ Step(CReorderObs(Rec[l]))
  /\ l2v' = IF IsPerm(Rec[l].l2v, n) THEN Rec[l].l2v ELSE l2v
  /\ roN' = roN + 1
  /\ aux' = [aux EXCEPT !.fresh = FALSE, !.afterRo = TRUE]
  /\ UNCHANGED <<kind, n, hs, gcN, cx>>

(* ---- manager references ---- *)
CTrMgr ==
  /\ Ev("mgr")
  /\ LET d == IF Rec[l].what = "unref" THEN L!Delta("unref")
              ELSE IF Rec[l].what = "ref" THEN L!Delta("ref") ELSE L!Delta("returned")
     IN  cx' = [cx EXCEPT !.mr = @ + d]
  /\ Step(<< O(P, "capi.mgr.same", Rec[l].same),
             O(P, "capi.mgr.nonneg", cx'.mr >= 0),
             O(P, "capi.mgr.containing", Rec[l].what = "containing" => Rec[l].a \in Live) >>)
  /\ UNCHANGED <<kind, n, l2v, hs, gcN, roN, aux>>

(* the manager's threads exist iff somebody still owns a reference *)
CTrMend ==
  /\ Ev("mend")
  /\ Step(<< O(P, "capi.mgr.alive",
                (Rec[l].now > Rec[l].base) <=> L!ManagerAlive(cx.mr, Cardinality(Live))) >>)
  /\ UNCHANGED <<kind, n, l2v, hs, gcN, roN, aux, cx>>

(* ---- queries: C result, value prescribed by the specification, mirror ---- *)
CubeOk(c, S) ==     \* c: sequence over {-1, 0, 1}, one entry per variable
  IF S = {} THEN c = <<>>
  ELSE /\ Len(c) = n
       /\ \A a \in Asg(n) :
            (\A v \in 0 .. n-1 : c[v + 1] = -1 \/ (c[v + 1] = 1) = Bit(a, v)) => a \in S
NatStr(k) == ToString(k)
QFnObs(r) ==
  LET c == r.c
      S == Val(r.a)
      top == TopVar(S)
  IN << O(P, "capi.q.live", r.a \in Live),
        O(P, "capi.q.sat", (c.sat <=> S # {}) /\ (c.valid <=> S = Asg(n))),
        O(P, "capi.q.sat_count", r.vars = n => (c.scd_exact /\ c.scd_int = Cardinality(S)
                                                 /\ c.scs = NatStr(Cardinality(S)))),
        O(P, "capi.q.level", IF top = 0 THEN c.level = -1 /\ c.var = -1
                             ELSE c.level = top - 1 /\ c.var = l2v[top]),
        O(P, "capi.q.pick_cube", CubeOk(c.cube, S)),
        O(P, "capi.q.canonsize", n <= NCanon => c.nc = CanonSize(kind, n, l2v, S)),
        O(P, "capi.mirror:q", IF r.has_r THEN r.r = c ELSE Tiny) >>
CTrQ ==
  /\ Ev("q")
  /\ Step(IF Rec[l].what = "fn" THEN QFnObs(Rec[l])
          ELSE << O(P, "capi.mirror:" \o Rec[l].what, Rec[l].c = Rec[l].r) >>)
  /\ UNCHANGED <<kind, n, l2v, hs, gcN, roN, aux, cx>>

(* export / import / DOT dump: operands are borrowed (the snapshot that
   follows checks the counters); the call succeeds or fails like the mirrored
   Rust call (whether an export can be read back at all is C15's business).
   With an invalid function among the roots the interface may refuse. *)
CTrIo ==
  /\ Ev("io")
  /\ Step(<< O("C15", "io:" \o Rec[l].what, Rec[l].inv_in \/ (Rec[l].c_ok /\ Rec[l].c_size > 0)),
             O(P, "capi.mirror:" \o Rec[l].what, Rec[l].inv_in \/ Tiny \/ Rec[l].r_ok = Rec[l].c_ok),
             \* DOT dump: the same function boxes as the Rust dump of the same (function, name)
             \* pairs: labels in order, and boxes point to the same node exactly when they do there
             O(P, "capi.mirror.labels:" \o Rec[l].what,
               (Has(Rec[l], "c_labels") /\ Rec[l].c_ok /\ Rec[l].r_ok) =>
                 LET c == Rec[l].c_labels r == Rec[l].r_labels IN
                 /\ Len(c) = Len(r)
                 /\ \A i \in 1 .. Len(c) : c[i][1] = r[i][1]
                 \* (in a manager that ran out of memory the two sides may hold different diagrams)
                 /\ Tiny \/ \A i, j \in 1 .. Len(c) : (c[i][2] = c[j][2]) <=> (r[i][2] = r[j][2])) >>)
  /\ UNCHANGED <<kind, n, l2v, hs, gcN, roN, aux, cx>>

(* ---- observations through the C interface (eval, node_count, satisfiable,
   valid, handle bits): same judgement as TraceManager's `obs` ---- *)
CObsObs(r) ==
  LET H == r.hs
      I == 1 .. Len(H)
      known == \A i \in I : H[i][1] \in Live
      V == [i \in I |-> IF known THEN Val(H[i][1]) ELSE {}]
  IN ObsObs(r) \o
     << O(P, "capi.obs.slots", known),
        O(P, "capi.obs.edge", known => \A i \in I : EdgeOf(H[i][1]) = <<H[i][2], H[i][3]>>),
        O(P, "capi.obs.eval", known => \A i \in I : SeqToSet(H[i][4]) = V[i]),
        O(P, "capi.obs.bits", known => \A i, j \in I : (H[i][6] = H[j][6]) <=> (V[i] = V[j])),
        O(P, "capi.obs.sat", known => \A i \in I : (H[i][8] <=> V[i] # {}) /\ (H[i][9] <=> V[i] = Asg(n))),
        O(P, "capi.obs.canonsize", (known /\ n <= NCanon) =>
              \A i \in I : H[i][5] = CanonSize(kind, n, l2v, V[i])) >>
CTrObs ==
  /\ Ev("obs")
  /\ Step(CObsObs(Rec[l]))
  /\ UNCHANGED <<kind, n, l2v, hs, gcN, roN, aux, cx>>

(* ---- the ledger against the reference counters of the real store ----
   nodes <<id, lvlListed, lvlStored, rc, c0id, c0tag, c1id, c1tag>>,
   hs <<slot, id, tag>> (the driver's view of what it owns),
   hrc <<slot, rc>>: the counter of an owned handle's node read through the
   handle itself *)
CSnapObs(r) ==
  LET N == r.nodes
      I == 1 .. Len(N)
      g == [i \in I |-> <<N[i][1], N[i][3], N[i][5], N[i][6], N[i][7], N[i][8]>>]
      ok == GraphOk(g) /\ r.l2v = l2v /\ r.n = n
      m == IF ok THEN SemMap(kind, n, l2v, g) ELSE EmptyMap
      H == r.hs
      J == 1 .. Len(H)
      hOk == ok /\ \A j \in J : H[j][2] < 0 \/ H[j][2] \in DOMAIN m
      stable == hOk /\ \A j \in J : H[j][1] \in Live =>
                  (EdgeOf(H[j][1]) = <<H[j][2], H[j][3]>>
                   /\ EdgeSemM(kind, n, m, H[j][2], H[j][3]) = Val(H[j][1]))
      childIds == [k \in 1 .. 2 * Len(N) |-> N[(k + 1) \div 2][IF k % 2 = 1 THEN 5 ELSE 7]]
      ownedIds == [s \in Live |-> hs[s].id]             \* THE LEDGER (specification state)
      owned(id) == Cardinality({s \in Live : ownedIds[s] = id})
      below(lv) == {a \in Asg(n) : \A k \in 1 .. lv : ~Bit(a, l2v[k])}
      internal(i) == IF kind = "zbdd" /\ m[N[i][1]] = below(N[i][3]) THEN 1 ELSE 0
      rcOk == ok => \A i \in I :
                N[i][4] = L!RcRequired(owned(N[i][1]), L!Occ(childIds, N[i][1]), internal(i))
      rcOf(id) == LET i == CHOOSE j \in I : N[j][1] = id IN N[i][4]
      hrcOk == \A k \in 1 .. Len(r.hrc) :
                 /\ r.hrc[k][1] \in Live
                 /\ \E i \in I : N[i][1] = hs[r.hrc[k][1]].id
                 /\ r.hrc[k][2] = rcOf(hs[r.hrc[k][1]].id)
  IN SnapObs(r) \o
     << O(P, "capi.snap.state", r.l2v = l2v /\ r.n = n /\ r.nl = r.n),
        O(P, "capi.snap.graph", ok /\ r.ninner = Len(N)),
        O(P, "capi.snap.slots", {H[j][1] : j \in J} = Live),
        O(P, "capi.snap.stable", stable),
        O(P, "capi.rc", rcOk),
        O(P, "capi.hrc", hrcOk),
        O(P, "capi.mgr.count", r.mrefs = cx.mr),
        O(P, "capi.gc.complete", (aux.afterGc /\ ok) => \A i \in I : N[i][4] > 0),
        O(P, "capi.empty", (aux.afterGc /\ ok /\ Live = {}) => \A i \in I : internal(i) = 1) >>
CTrSnap ==
  /\ Ev("snap")
  /\ Step(CSnapObs(Rec[l]))
  /\ aux' = [fresh |-> TRUE, cnt |-> Len(Rec[l].nodes), afterGc |-> FALSE, afterRo |-> FALSE,
             gcSeen |-> Rec[l].gc, roSeen |-> Rec[l].ro]
  /\ UNCHANGED <<kind, n, l2v, hs, gcN, roN, cx>>

CTrBegin == TrBegin /\ cx' = cx

----------------------------------------------------------------------------
CTrInit == TrInit /\ cx = [mr |-> 0, cap |-> 0]

CTrNext ==
  \/ CTrReset \/ CTrAddVars \/ CTrOp \/ CTrCofNone \/ CTrClone \/ CTrDrop \/ CTrNoop
  \/ CTrGc \/ CTrReorder \/ CTrObs \/ CTrSnap \/ CTrMgr \/ CTrMend \/ CTrQ \/ CTrIo
  \/ CTrBegin

CTrSpec == CTrInit /\ [][CTrNext]_cvars
=============================================================================
