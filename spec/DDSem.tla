------------------------------- MODULE DDSem -------------------------------
(***************************************************************************)
(* Denotational semantics of decision diagrams and of the operations on    *)
(* them.  Pure definitions, no state.  This module is the only oracle of   *)
(* the conformance checks: the harness never decides what a value should   *)
(* be.                                                                     *)
(*                                                                         *)
(* Representation.  Variables are numbered 0..n-1.  An assignment is the   *)
(* integer a in 0..2^n-1 whose bit v is the value of variable v.  A Boolean*)
(* function is the SET of its satisfying assignments.  A ZBDD family of    *)
(* subsets of the variables uses the same encoding (a subset is the integer*)
(* with exactly its members' bits set), so that the "Boolean view" of a    *)
(* ZBDD handle over all variables of the manager (characteristic function, *)
(* variables not mentioned are false) is the very same set.                *)
(*                                                                         *)
(* Edges of a stored diagram are pairs <<id, tag>>; id < 0 is a terminal   *)
(* with code -1-id: bdd 0=False 1=True; bcdd 0=True (tag 1 = complement);  *)
(* zbdd 0=Empty 1=Base; tdd 0=False 1=Unknown 2=True.                      *)
(***************************************************************************)
EXTENDS Integers, Sequences, FiniteSets, TLC

Asg(n) == 0 .. (2^n - 1)
Bit(a, v) == (a \div (2^v)) % 2 = 1
SetBit(a, v, b) == IF b THEN (IF Bit(a, v) THEN a ELSE a + 2^v)
                        ELSE (IF Bit(a, v) THEN a - 2^v ELSE a)

----------------------------------------------------------------------------
(* Propositional connectives, pointwise *)

Not(n, S) == Asg(n) \ S
Xor(S, T) == (S \ T) \cup (T \ S)

BinOps == {"and", "or", "xor", "equiv", "nand", "nor", "imp", "imp_strict"}

BinOp(op, n, S, T) ==
  CASE op = "and"        -> S \cap T
    [] op = "or"         -> S \cup T
    [] op = "xor"        -> Xor(S, T)
    [] op = "equiv"      -> Asg(n) \ Xor(S, T)
    [] op = "nand"       -> Asg(n) \ (S \cap T)
    [] op = "nor"        -> Asg(n) \ (S \cup T)
    [] op = "imp"        -> (Asg(n) \ S) \cup T
    [] op = "imp_strict" -> T \ S

Ite(n, S, T, E) == (S \cap T) \cup (E \ S)

VarFn(n, v)    == {a \in Asg(n) : Bit(a, v)}
NotVarFn(n, v) == {a \in Asg(n) : ~Bit(a, v)}

----------------------------------------------------------------------------
(* Cofactors, quantification, restriction, substitution *)

Cof(n, S, v, b) == {a \in Asg(n) : SetBit(a, v, b) \in S}

Depends(n, S, v) == Cof(n, S, v, TRUE) # Cof(n, S, v, FALSE)
Support(n, S) == {v \in 0 .. n-1 : Depends(n, S, v)}

QComb(q, n, T, E) ==
  CASE q = "exists" -> T \cup E
    [] q = "forall" -> T \cap E
    [] q = "unique" -> Xor(T, E)

(* iterated over the listed variables, one at a time *)
RECURSIVE QuantFrom(_, _, _, _, _)
QuantFrom(q, n, S, V, v) ==
  IF v = n THEN S
  ELSE LET S1 == QuantFrom(q, n, S, V, v + 1)
       IN  IF v \in V THEN QComb(q, n, Cof(n, S1, v, TRUE), Cof(n, S1, v, FALSE))
           ELSE S1
Quant(q, n, S, V) == QuantFrom(q, n, S, V, 0)

(* cofactor w.r.t. a partial assignment: P = variables set to true, Ng = false *)
RECURSIVE RestrictFrom(_, _, _, _, _)
RestrictFrom(n, S, P, Ng, v) ==
  IF v = n THEN S
  ELSE LET S1 == RestrictFrom(n, S, P, Ng, v + 1)
       IN  IF v \in P THEN Cof(n, S1, v, TRUE)
           ELSE IF v \in Ng THEN Cof(n, S1, v, FALSE) ELSE S1
Restrict(n, S, P, Ng) == RestrictFrom(n, S, P, Ng, 0)

(* A cube: conjunction of literals.  IsCube(S) iff S is a non-empty subcube. *)
CubeOf(n, P, Ng) == {a \in Asg(n) : (\A v \in P : Bit(a, v)) /\ (\A v \in Ng : ~Bit(a, v))}
CubePos(n, S) == {v \in 0 .. n-1 : \A a \in S : Bit(a, v)}
CubeNeg(n, S) == {v \in 0 .. n-1 : \A a \in S : ~Bit(a, v)}
IsCube(n, S) == S # {} /\ S = CubeOf(n, CubePos(n, S), CubeNeg(n, S))

(* simultaneous substitution: R is a function from a set of variables to
   Boolean functions (sets) *)
SubstAsg(n, a, R) ==
  LET bitval(v) == IF v \in DOMAIN R THEN a \in R[v] ELSE Bit(a, v)
      RECURSIVE Enc(_)
      Enc(v) == IF v = n THEN 0 ELSE (IF bitval(v) THEN 2^v ELSE 0) + Enc(v + 1)
  IN  Enc(0)
Subst(n, S, R) == {a \in Asg(n) : SubstAsg(n, a, R) \in S}

----------------------------------------------------------------------------
(* ZBDD set-family operations (same integer encoding of members) *)

Singleton(v) == {2^v}
Subset0(S, v) == {a \in S : ~Bit(a, v)}
Subset1(S, v) == {SetBit(a, v, FALSE) : a \in {b \in S : Bit(b, v)}}
Change(S, v)  == {SetBit(a, v, ~Bit(a, v)) : a \in S}
MakeNode(v, Hi, Lo) == Lo \cup {SetBit(a, v, TRUE) : a \in Hi}

----------------------------------------------------------------------------
(* Changing the number of variables from n to m >= n *)

Extend(kind, n, m, S) ==
  IF kind = "zbdd" THEN S        \* new variables are false / not members
  ELSE {a \in Asg(m) : (a % (2^n)) \in S}

----------------------------------------------------------------------------
(* Graph semantics: the independent node-by-node interpretation of a stored*)
(* diagram.  `g` is a sequence of node records <<id, lvl, c0id, c0tag,     *)
(* c1id, c1tag>> listed children-first; the result maps node id to the     *)
(* denotation of the (untagged) node.                                      *)
(***************************************************************************)

TermSem(kind, n, code) ==
  CASE kind = "bdd"  -> IF code = 1 THEN Asg(n) ELSE {}
    [] kind = "bcdd" -> Asg(n)
    [] kind = "zbdd" -> IF code = 1 THEN {0} ELSE {}

EdgeSemM(kind, n, m, id, tag) ==
  LET base == IF id < 0 THEN TermSem(kind, n, -1 - id) ELSE m[id]
  IN  IF kind = "bcdd" /\ tag = 1 THEN Asg(n) \ base ELSE base

NodeSem(kind, n, l2v, m, nd) ==
  LET v  == l2v[nd[2] + 1]
      c0 == EdgeSemM(kind, n, m, nd[3], nd[4])
      c1 == EdgeSemM(kind, n, m, nd[5], nd[6])
  IN  IF kind = "zbdd" THEN c1 \cup {SetBit(a, v, TRUE) : a \in c0}
      ELSE {a \in c0 : Bit(a, v)} \cup {a \in c1 : ~Bit(a, v)}

RECURSIVE SemMapFrom(_, _, _, _, _, _)
SemMapFrom(kind, n, l2v, g, i, m) ==
  IF i > Len(g) THEN m
  ELSE SemMapFrom(kind, n, l2v, g, i + 1,
                  (g[i][1] :> NodeSem(kind, n, l2v, m, g[i])) @@ m)

EmptyMap == [x \in {} |-> {}]
SemMap(kind, n, l2v, g) == SemMapFrom(kind, n, l2v, g, 1, EmptyMap)

(* all children of every node of g are terminals or listed earlier in g *)
ChildrenFirst(g) ==
  \A i \in 1 .. Len(g) :
     \A c \in {g[i][3], g[i][5]} : c < 0 \/ \E j \in 1 .. i-1 : g[j][1] = c

----------------------------------------------------------------------------
(* Size of THE reduced ordered diagram of a function, defined without any  *)
(* graph.  Pre(k): assignments of the variables on levels 0..k-1 (given as *)
(* integers over those variables' bits).                                   *)
(***************************************************************************)

PrefixVars(l2v, k) == {l2v[i] : i \in 1 .. k}
PrefixMask(l2v, k, a) ==       \* a restricted to the prefix variables
  LET RECURSIVE M(_)
      M(i) == IF i > k THEN 0
              ELSE (IF Bit(a, l2v[i]) THEN 2^(l2v[i]) ELSE 0) + M(i + 1)
  IN M(1)
Prefixes(n, l2v, k) == {PrefixMask(l2v, k, a) : a \in Asg(n)}

(* BDD-style sub-function: cylinder over Asg(n) *)
SubFn(n, l2v, k, p, S) ==
  {a \in Asg(n) : (a - PrefixMask(l2v, k, a) + p) \in S}
AllSubFn(n, l2v, S) ==
  UNION {{SubFn(n, l2v, k, p, S) : p \in Prefixes(n, l2v, k)} : k \in 0 .. n}

(* ZBDD-style sub-family: members agreeing with p on the prefix, prefix removed *)
SubFam(n, l2v, k, p, S) ==
  {a - p : a \in {b \in S : PrefixMask(l2v, k, b) = p}}
AllSubFam(n, l2v, S) ==
  UNION {{SubFam(n, l2v, k, p, S) : p \in Prefixes(n, l2v, k)} : k \in 0 .. n}
ZbddEmptyReachable(n, l2v, S) ==
  \/ S = {}
  \/ \E k \in 0 .. n-1 : \E p \in Prefixes(n, l2v, k) :
        LET F == SubFam(n, l2v, k, p, S)
        IN  F # {} /\ \A a \in F : Bit(a, l2v[k + 1])

CanonSize(kind, n, l2v, S) ==
  CASE kind = "bdd"  -> Cardinality(AllSubFn(n, l2v, S))
    [] kind = "bcdd" -> Cardinality({ {F, Asg(n) \ F} : F \in AllSubFn(n, l2v, S) })
    [] kind = "zbdd" -> Cardinality(AllSubFam(n, l2v, S) \ {{}})
                        + (IF ZbddEmptyReachable(n, l2v, S) THEN 1 ELSE 0)

----------------------------------------------------------------------------
(* helpers *)
SeqToSet(s) == {s[i] : i \in 1 .. Len(s)}
IsPerm(s, n) == Len(s) = n /\ SeqToSet(s) = 0 .. n-1
InvPerm(s) == [v \in 0 .. Len(s)-1 |-> (CHOOSE i \in 1 .. Len(s) : s[i] = v) - 1]
=============================================================================
