SPECIFICATION Spec
CONSTANTS
  S = 5
  CH = 2
  Apps = {a1, a2}
  Dedicated = {gc}
  Collectors = {gc}
  MaxSteps = 7
  GuardVariant = "code"
INVARIANTS TypeOK FreeListsSound Disjoint ChunksOwned CapacityRestored CountExact
CHECK_DEADLOCK FALSE
