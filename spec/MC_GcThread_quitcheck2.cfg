SPECIFICATION FairSpec
CONSTANTS
  Droppers = {d1, d2}
  Allocs = 2
  CheckBeforeWait = TRUE
  SeqDrops = FALSE
INVARIANTS TypeOK FreedOnlyWhenUnused NoEarlyExit NoLeak
PROPERTY Terminates
CHECK_DEADLOCK FALSE
