----------------------------- MODULE StoreTerm -----------------------------
(***************************************************************************)
(* Companion of Store.tla for diagrams with a DYNAMIC terminal manager     *)
(* (MTBDD; oxidd-manager-index/src/terminal_manager/dynamic.rs): terminal  *)
(* nodes are reference counted and stored in a table of their own, which   *)
(* Manager::gc() sweeps AFTER the inner-node levels and BEFORE post_gc()   *)
(* unlocks the apply cache.  Apply-cache entries hold uncounted edges, so  *)
(* the position of the unlock relative to the terminal sweep matters:      *)
(*                                                                         *)
(*   gc():  pre_gc (clear + lock the cache) -> levels -> terminals -> post_gc *)
(*                                                                         *)
(* Application threads execute the terminal case of an apply algorithm     *)
(* ("the result of this operator on these operands is the constant v"):    *)
(*   Start -> CacheGet -> (hit: clone the cached edge -> Publish)          *)
(*         -> GetEdge (terminal table mutex: find + retain, or insert)     *)
(*         -> CacheAdd -> Publish (keep the handle or drop the result)     *)
(* The environment clones and drops handles without any lock.              *)
(*                                                                         *)
(* EarlyUnlock = TRUE moves post_gc in front of the terminal sweep (the    *)
(* order of a seeded change): TLC then finds the dangling cache entry.     *)
(***************************************************************************)
EXTENDS Integers, FiniteSets, Sequences, TLC

CONSTANTS TermVals,     \* terminal values that operations can produce
          Threads, MaxOps, MaxHandles,
          EarlyUnlock

NoVal == -1

VARIABLES present,     \* terminals in the table
          trc,         \* reference counter (incl. the table's reference)
          ext,         \* user handles
          cache,       \* NoVal or the cached result (key = value here)
          cacheLock,   \* "free" | "gc"
          tlock,       \* terminal table mutex: "free" | thread | "gc"
          gcPc,        \* "idle" | "levels" | "terms" | "post"
          pc, req, own, done,
          dangling     \* a freed terminal was handed out (what the code cannot see)

vars == <<present, trc, ext, cache, cacheLock, tlock, gcPc, pc, req, own, done, dangling>>

Init ==
  /\ present = {} /\ trc = [v \in TermVals |-> 0] /\ ext = [v \in TermVals |-> 0]
  /\ cache = NoVal /\ cacheLock = "free" /\ tlock = "free" /\ gcPc = "idle"
  /\ pc = [t \in Threads |-> "idle"] /\ req = [t \in Threads |-> NoVal]
  /\ own = [t \in Threads |-> NoVal] /\ done = [t \in Threads |-> 0]
  /\ dangling = FALSE

Start(t) ==
  /\ pc[t] = "idle" /\ done[t] < MaxOps
  /\ \E v \in TermVals : req' = [req EXCEPT ![t] = v]
  /\ pc' = [pc EXCEPT ![t] = "cacheGet"]
  /\ UNCHANGED <<present, trc, ext, cache, cacheLock, tlock, gcPc, own, done, dangling>>

(* try-lock of the bucket; a hit clones the stored edge (lock-free fetch_add) *)
CacheGet(t) ==
  /\ pc[t] = "cacheGet"
  /\ IF cacheLock = "free" /\ cache = req[t]
     THEN /\ trc' = [trc EXCEPT ![cache] = @ + 1]
          /\ own' = [own EXCEPT ![t] = cache]
          /\ dangling' = (dangling \/ cache \notin present)
          /\ pc' = [pc EXCEPT ![t] = "publish"]
     ELSE /\ pc' = [pc EXCEPT ![t] = "getEdge"]
          /\ UNCHANGED <<trc, own, dangling>>
  /\ UNCHANGED <<present, ext, cache, cacheLock, tlock, gcPc, req, done>>

(* DynamicTerminalManager::get_edge: one critical section under state.lock() *)
GetEdge(t) ==
  /\ pc[t] = "getEdge" /\ tlock = "free"
  /\ LET v == req[t] IN
     IF v \in present
     THEN /\ trc' = [trc EXCEPT ![v] = @ + 1] /\ UNCHANGED present
     ELSE /\ present' = present \cup {v} /\ trc' = [trc EXCEPT ![v] = 2]
  /\ own' = [own EXCEPT ![t] = req[t]]
  /\ pc' = [pc EXCEPT ![t] = "cacheAdd"]
  /\ UNCHANGED <<ext, cache, cacheLock, tlock, gcPc, req, done, dangling>>

CacheAdd(t) ==
  /\ pc[t] = "cacheAdd"
  /\ cache' = IF cacheLock = "free" THEN own[t] ELSE cache
  /\ pc' = [pc EXCEPT ![t] = "publish"]
  /\ UNCHANGED <<present, trc, ext, cacheLock, tlock, gcPc, req, own, done, dangling>>

Publish(t) ==
  /\ pc[t] = "publish"
  /\ LET v == own[t] IN
     \/ /\ ext[v] < MaxHandles /\ ext' = [ext EXCEPT ![v] = @ + 1] /\ UNCHANGED trc
     \/ /\ trc' = [trc EXCEPT ![v] = @ - 1] /\ UNCHANGED ext      \* result dropped at once
  /\ own' = [own EXCEPT ![t] = NoVal]
  /\ pc' = [pc EXCEPT ![t] = "idle"]
  /\ done' = [done EXCEPT ![t] = @ + 1]
  /\ UNCHANGED <<present, cache, cacheLock, tlock, gcPc, req, dangling>>

HandleDrop(v) ==
  /\ ext[v] > 0
  /\ ext' = [ext EXCEPT ![v] = @ - 1] /\ trc' = [trc EXCEPT ![v] = @ - 1]
  /\ UNCHANGED <<present, cache, cacheLock, tlock, gcPc, pc, req, own, done, dangling>>
HandleClone(v) ==
  /\ ext[v] > 0 /\ ext[v] < MaxHandles
  /\ ext' = [ext EXCEPT ![v] = @ + 1] /\ trc' = [trc EXCEPT ![v] = @ + 1]
  /\ UNCHANGED <<present, cache, cacheLock, tlock, gcPc, pc, req, own, done, dangling>>

----------------------------------------------------------------------------
GcStart ==               \* pre_gc: clear the cache and keep it locked
  /\ gcPc = "idle" /\ cacheLock = "free"
  /\ cache' = NoVal /\ cacheLock' = "gc" /\ gcPc' = "levels"
  /\ UNCHANGED <<present, trc, ext, tlock, pc, req, own, done, dangling>>
GcLevels ==              \* the inner-node levels (Store.tla); then, in the seeded order, post_gc
  /\ gcPc = "levels"
  /\ gcPc' = "terms"
  /\ cacheLock' = IF EarlyUnlock THEN "free" ELSE cacheLock
  /\ UNCHANGED <<present, trc, ext, cache, tlock, pc, req, own, done, dangling>>
GcTerms ==               \* terminal_manager.gc(): one critical section under state.lock()
  /\ gcPc = "terms" /\ tlock = "free"
  /\ LET dead == {v \in present : trc[v] = 1} IN
     /\ present' = present \ dead
     /\ trc' = [v \in TermVals |-> IF v \in dead THEN 0 ELSE trc[v]]
  /\ gcPc' = "post"
  /\ UNCHANGED <<ext, cache, cacheLock, tlock, pc, req, own, done, dangling>>
GcPost ==                \* post_gc: unlock the cache
  /\ gcPc = "post"
  /\ cacheLock' = "free" /\ gcPc' = "idle"
  /\ UNCHANGED <<present, trc, ext, cache, tlock, pc, req, own, done, dangling>>

Next ==
  \/ \E t \in Threads : Start(t) \/ CacheGet(t) \/ GetEdge(t) \/ CacheAdd(t) \/ Publish(t)
  \/ \E v \in TermVals : HandleDrop(v) \/ HandleClone(v)
  \/ GcStart \/ GcLevels \/ GcTerms \/ GcPost

Spec == Init /\ [][Next]_vars

----------------------------------------------------------------------------
Owners(v) == Cardinality({t \in Threads : own[t] = v})
(* C05: exact counters for stored terminals *)
RcExact == \A v \in present : trc[v] = 1 + ext[v] + Owners(v)
(* C05/C07: no handle, edge in flight or servable cache entry refers to a freed terminal *)
NoDangling ==
  /\ ~dangling
  /\ \A v \in TermVals : ext[v] > 0 => v \in present
  /\ \A t \in Threads : own[t] # NoVal => own[t] \in present
  /\ (cacheLock = "free" /\ cache # NoVal) => cache \in present
(* C05: the sweep frees exactly the terminals nothing refers to *)
SweepExact == [][gcPc = "terms" /\ gcPc' = "post" =>
                   present' = {v \in present : ext[v] + Owners(v) > 0}]_vars
=============================================================================
