------------------------------- MODULE HashTbl -------------------------------
(***************************************************************************)
(* C17, abstract specification of `linear_hashtbl::raw::RawTable`.         *)
(*                                                                         *)
(* A table is a finite set of elements <<key, value>> in which no two      *)
(* elements have the same key (the `eq` closure handed to the table        *)
(* compares keys).  Every operation of the public API is given with its    *)
(* exact result.  Where the API leaves something open (the order in which  *)
(* iter / drain / into_iter / retain visit the elements) every allowed     *)
(* outcome is accepted.                                                    *)
(*                                                                         *)
(* The first part consists of constant-level operators on sets; they are   *)
(* used by the trace specification TraceHashTbl.  The second part is the   *)
(* state machine (variables `set`, `last`) that the implementation-shaped  *)
(* model HashTblImpl has to refine: `last` is the call just performed      *)
(* together with everything it returned.                                   *)
(***************************************************************************)
EXTENDS Naturals, Sequences, FiniteSets

CONSTANTS Key,      \* keys
          Val,      \* payloads
          Tab,      \* table handles (more than one for clone)
          Preds,    \* retain predicates, given as the set of accepted keys
          ResArgs   \* arguments of reserve / with_capacity

----------------------------------------------------------------------------
(* operators on sets of elements *)

KeysOf(S)       == {e[1] : e \in S}
Lookup(S, k)    == {e \in S : e[1] = k}            \* {} = None, {e} = Some(e)
WellFormed(S)   == \A e1, e2 \in S : e1[1] = e2[1] => e1 = e2

InsertRes(S, k)    == IF Lookup(S, k) = {} THEN "inserted" ELSE "found"
InsertSet(S, k, v) == IF Lookup(S, k) = {} THEN S \cup {<<k, v>>} ELSE S
RemoveSet(S, k)    == S \ Lookup(S, k)
Kept(S, P)         == {e \in S : e[1] \in P}
Rejected(S, P)     == S \ Kept(S, P)

ToSet(seq) == {seq[i] : i \in 1 .. Len(seq)}
(* `seq` lists every element of S exactly once *)
IsListingOf(seq, S) == Len(seq) = Cardinality(S) /\ ToSet(seq) = S
(* all listings of S (membership in this set is decided without enumerating it) *)
OrderingsOf(S) ==
  {s \in [1 .. Cardinality(S) -> S] : \A i, j \in 1 .. Cardinality(S) : i # j => s[i] # s[j]}

----------------------------------------------------------------------------
(* the state machine *)

VARIABLES set,      \* set[t]: the elements of table t
          last      \* the last call and its complete result

avars == <<set, last>>

(* the set of call records with the given field values *)
R(op, t, u, k, v, p, n, res, cnt, outS, seenS) ==
  [op : {op}, t : {t}, u : {u}, k : {k}, v : {v}, p : {p}, n : {n},
   res : {res}, cnt : {cnt}, out : outS, seen : seenS]

NoCall == [op |-> "init", t |-> 0, u |-> 0, k |-> 0, v |-> 0, p |-> {}, n |-> 0,
           res |-> "ok", cnt |-> 0, out |-> <<>>, seen |-> <<>>]

AInit == set = [t \in Tab |-> {}] /\ last = NoCall

(* RawTable::new / with_capacity(n); also the state after into_iter consumed the table *)
ANew(t, n) ==
  /\ set' = [set EXCEPT ![t] = {}]
  /\ last' \in R("new", t, 0, 0, 0, {}, n, "ok", 0, {<<>>}, {<<>>})

(* find_or_find_insert_slot(hash(k), |e| e.key = k), then, in the Err case,
   insert_in_slot_unchecked: Ok = the element present (returned in `out`) *)
AInsert(t, k, v) ==
  /\ set' = [set EXCEPT ![t] = InsertSet(@, k, v)]
  /\ last' \in R("insert", t, 0, k, v, {}, 0, InsertRes(set[t], k),
                 Cardinality(InsertSet(set[t], k, v)), OrderingsOf(Lookup(set[t], k)), {<<>>})

(* find: Some(slot) iff present; the element in that slot is the one present *)
AFind(t, k) ==
  /\ UNCHANGED set
  /\ last' \in R("find", t, 0, k, 0, {}, 0, IF Lookup(set[t], k) = {} THEN "none" ELSE "found",
                 Cardinality(set[t]), OrderingsOf(Lookup(set[t], k)), {<<>>})

AGet(t, k) ==
  /\ UNCHANGED set
  /\ last' \in R("get", t, 0, k, 0, {}, 0, IF Lookup(set[t], k) = {} THEN "none" ELSE "found",
                 Cardinality(set[t]), OrderingsOf(Lookup(set[t], k)), {<<>>})

(* remove_entry: returns the element, or None *)
ARemove(t, k) ==
  /\ set' = [set EXCEPT ![t] = RemoveSet(@, k)]
  /\ last' \in R("remove", t, 0, k, 0, {}, 0, IF Lookup(set[t], k) = {} THEN "none" ELSE "found",
                 Cardinality(RemoveSet(set[t], k)), OrderingsOf(Lookup(set[t], k)), {<<>>})

(* retain(|e| e.key \in P, drop): keeps exactly the accepted elements, `drop`
   gets every rejected element exactly once (`out`), the predicate is only
   called on elements of the table (`seen`) *)
ARetain(t, P) ==
  /\ set' = [set EXCEPT ![t] = Kept(@, P)]
  /\ last' \in R("retain", t, 0, 0, 0, P, 0, "ok", Cardinality(Kept(set[t], P)),
                 OrderingsOf(Rejected(set[t], P)), Seq(set[t]))

(* drain / into_iter: every element exactly once; the table is empty after *)
ADrain(t) ==
  /\ set' = [set EXCEPT ![t] = {}]
  /\ last' \in R("drain", t, 0, 0, 0, {}, 0, "ok", 0, OrderingsOf(set[t]), {<<>>})

AIntoIter(t) ==
  /\ set' = [set EXCEPT ![t] = {}]
  /\ last' \in R("into_iter", t, 0, 0, 0, {}, 0, "ok", 0, OrderingsOf(set[t]), {<<>>})

AIter(t) ==
  /\ UNCHANGED set
  /\ last' \in R("iter", t, 0, 0, 0, {}, 0, "ok", Cardinality(set[t]), OrderingsOf(set[t]), {<<>>})

ALen(t) ==
  /\ UNCHANGED set
  /\ last' \in R("len", t, 0, 0, 0, {}, 0, "ok", Cardinality(set[t]), {<<>>}, {<<>>})

AClear(t) ==
  /\ set' = [set EXCEPT ![t] = {}]
  \* clear(), clear_no_drop() and reset_no_drop() all empty the table
  /\ \E o \in {"clear", "clear_nd", "reset_nd"} : last' \in R(o, t, 0, 0, 0, {}, 0, "ok", 0, {<<>>}, {<<>>})

(* reserve has no observable effect *)
AReserve(t, n) ==
  /\ UNCHANGED set
  /\ last' \in R("reserve", t, 0, 0, 0, {}, n, "ok", Cardinality(set[t]), {<<>>}, {<<>>})

(* u := t.clone(): equal sets; independent afterwards because every other
   action changes set[t] of its own table only *)
AClone(t, u) ==
  /\ t # u
  /\ set' = [set EXCEPT ![u] = set[t]]
  /\ last' \in R("clone", t, u, 0, 0, {}, 0, "ok", Cardinality(set[t]), {<<>>}, {<<>>})

ANext ==
  \E t \in Tab :
    \/ \E n \in ResArgs : ANew(t, n) \/ AReserve(t, n)
    \/ \E k \in Key : AFind(t, k) \/ AGet(t, k) \/ ARemove(t, k) \/ \E v \in Val : AInsert(t, k, v)
    \/ \E P \in Preds : ARetain(t, P)
    \/ ADrain(t) \/ AIntoIter(t) \/ AIter(t) \/ ALen(t) \/ AClear(t)
    \/ \E u \in Tab : AClone(t, u)

ASpec == AInit /\ [][ANext]_avars

ATypeOK == \A t \in Tab : set[t] \subseteq Key \X Val /\ WellFormed(set[t])
=============================================================================
