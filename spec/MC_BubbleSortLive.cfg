SPECIFICATION FairSpec
CONSTANTS
  N = 4
  Workers = {w1, w2}
INVARIANTS NoOverlap SortedAtEnd
PROPERTIES Terminates
CHECK_DEADLOCK TRUE
