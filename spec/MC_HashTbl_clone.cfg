SPECIFICATION Spec
CONSTANTS
  Key <- KeysEnv
  Val = {0, 1}
  Tab = {1, 2}
  Preds <- SomePreds
  ResArgs = {0, 1}
  InitCaps = {0}
  H <- HWrap
  MinCap = 16
  MaxOps <- MaxOpsEnv
VIEW View
CONSTRAINT Bound
ACTION_CONSTRAINT ExportTrans
INVARIANTS AbsOK NoHang ProbeTerminates FreeSound LoadBound LenExact KeysUnique Reachable StructOK ExportState
PROPERTY Refines
CHECK_DEADLOCK FALSE
