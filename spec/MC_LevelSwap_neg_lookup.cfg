SPECIFICATION Spec
CONSTANTS
  NV = 3
  Kind = "bdd"
  U = 0
  MaxLive = 2
  MaxDead = 0
  MaxNodes = 24
  Variant = "no_old_upper_lookup"
INVARIANTS SemPreserved WellFormed RcExact NoDangling
CHECK_DEADLOCK FALSE
