---------------------------- MODULE TraceDddmp ----------------------------
(***************************************************************************)
(* Trace validation for C15 (DDDMP export / import).  A history recorded   *)
(* by harness/src/drv_dddmp.rs: the manager is projected by a `pre` event  *)
(* (variables, order, names, every live handle with its stored sub-graph), *)
(* then `export` (settings, outcome, the tokenised file), `header`         *)
(* (DumpHeader accessors), `import_same`, `import_fresh`, and - for the    *)
(* mutation driver - `import_bad` events follow.  All requirements are     *)
(* named obligations computed from Dddmp.tla / DDSem.tla; the harness only *)
(* calls and logs.  A `panic` outcome satisfies no obligation.             *)
(***************************************************************************)
EXTENDS Dddmp, Json, IOUtils

Rec == ndJsonDeserialize(IOEnv.TRACE)
MaxFail == 100000    \* never cut a trace short: every event is judged

(* st: the projected manager [kind, n, l2v, names, binsup]; vals: slot ->
   [e, v] (edge, denotation); ex: the last export *)
VARIABLES l, nf, fl, st, vals, ex
tvars == <<l, nf, fl, st, vals, ex>>

Act(p) == ("ACT_" \o p) \in DOMAIN IOEnv
O(p, name, ok) == IF Act(p) THEN <<p, name, ok>> ELSE <<p, name, TRUE>>
Has(r, f) == f \in DOMAIN r
FailNames(obs) ==
  LET bad == SelectSeq(obs, LAMBDA o : ~o[3])
  IN  [i \in 1 .. Len(bad) |-> <<bad[i][1], bad[i][2]>>]
Ev(e) == l <= Len(Rec) /\ nf < MaxFail /\ Rec[l].ev = e
Step(obs) ==
  /\ l' = l + 1
  /\ fl' = FailNames(obs)
  /\ nf' = nf + (IF fl' = <<>> THEN 0 ELSE 1)
  /\ (fl' # <<>>) => PrintT(<<"OBL_FAIL", l, fl'>>)

St0 == [kind |-> "bdd", n |-> 0, l2v |-> <<>>, names |-> <<>>, binsup |-> FALSE, g |-> <<>>]
Ex0 == [valid |-> FALSE]
NoVals == [s \in {} |-> 0]

TrReset ==
  /\ Ev("reset")
  /\ st' = [St0 EXCEPT !.kind = Rec[l].kind]
  /\ vals' = NoVals /\ ex' = Ex0
  /\ Step(<<>>)

(* calls that build the functions (validated by TraceManager for the
   properties they belong to); the `pre` event projects their effect *)
Noise == {"begin", "add_vars", "reorder", "op", "adopt", "clone", "drop", "gc", "snap", "obs",
          "construct_mismatch"}
TrNoise ==
  /\ l <= Len(Rec) /\ nf < MaxFail /\ Rec[l].ev \in Noise
  /\ Step(<<>>)
  /\ UNCHANGED <<st, vals, ex>>

----------------------------------------------------------------------------
(* pre: hs = <<slot, id, tag, tt>>, g = children-first sub-graph *)
PreGraphOk(r) ==
  /\ ChildrenFirst(r.g)
  /\ IsPerm(r.l2v, r.n) /\ Len(r.names) = r.n
  /\ \A i \in 1 .. Len(r.g) : r.g[i][2] \in 0 .. r.n - 1
  /\ \A j \in 1 .. Len(r.hs) : r.hs[j][2] < 0 \/ \E i \in 1 .. Len(r.g) : r.g[i][1] = r.hs[j][2]
PreVals(r, kind) ==
  LET H == r.hs
      J == 1 .. Len(H)
      ok == PreGraphOk(r)
      mt == kind = "mtbdd"
      m == IF ~ok THEN EmptyMap
           ELSE IF mt THEN MtSemMap(r.n, r.l2v, r.g, r.terms) ELSE SemMap(kind, r.n, r.l2v, r.g)
      idx == [s \in {H[j][1] : j \in J} |-> CHOOSE j \in J : H[j][1] = s]
  IN  [s \in DOMAIN idx |->
         [e |-> <<H[idx[s]][2], H[idx[s]][3]>>,
          v |-> IF ~ok THEN {}
                ELSE IF mt THEN MtEdge(r.n, m, r.terms, H[idx[s]][2])
                ELSE EdgeSemM(kind, r.n, m, H[idx[s]][2], H[idx[s]][3])]]
TrPre ==
  /\ Ev("pre")
  /\ st' = [kind |-> st.kind, n |-> Rec[l].n, l2v |-> Rec[l].l2v, names |-> Rec[l].names,
            binsup |-> Rec[l].binsup, g |-> Rec[l].g]
  /\ vals' = PreVals(Rec[l], st.kind)
  /\ ex' = Ex0
  /\ Step(<< O("C15", "pre.graph", PreGraphOk(Rec[l])),
             O("C02", "pre.eval", \A j \in 1 .. Len(Rec[l].hs) :
                  \/ Rec[l].n > 10
                  \/ (IF st.kind = "mtbdd" THEN MtTable(Rec[l].n, Rec[l].hs[j][4])
                       ELSE SeqToSet(Rec[l].hs[j][4])) = vals'[Rec[l].hs[j][1]].v) >>)

----------------------------------------------------------------------------
(* export *)

(* nodes reachable from the root ids in the children-first graph g *)
RECURSIVE ReachFrom(_, _, _)
ReachFrom(g, i, R) ==
  IF i = 0 THEN R
  ELSE ReachFrom(g, i - 1, IF g[i][1] \in R THEN R \cup {g[i][3], g[i][5]} ELSE R)

Cls(r) == r.res.c
ModeOf(set) == IF set.ascii \/ ~st.binsup THEN "A" ELSE "B"

(* everything later events need to know about this export *)
ExRec(r) ==
  LET R == r.roots
      known == \A j \in 1 .. Len(R) : R[j] \in DOMAIN vals
      V == IF known THEN [j \in 1 .. Len(R) |-> vals[R[j]].v] ELSE <<>>
      S == SuppOf(st.kind, st.n, V)
      ids == SortedSeq(S)
      withN == Has(r, "rnames")
  IN  [valid |-> TRUE, known |-> known, V |-> V, S |-> S, ids |-> ids,
       order |-> SuppOrder(st.l2v, S),
       perm |-> [j \in 1 .. Len(ids) |-> LevelOf(st.l2v, ids[j])],
       set |-> r.set, withN |-> withN, rn |-> IF withN THEN r.rnames ELSE <<>>,
       file |-> r.file, cls |-> Cls(r), mode |-> ModeOf(r.set),
       tag |-> ":" \o ModeOf(r.set) \o ":" \o r.set.ver,
       ne |-> NamesExported(r.set.strict, st.names),
       dd |-> Trim(DdChars(r.set.dd))]

(* the names the file gives to the variables, from the first complete field *)
FileVarNames(f) ==
  IF HasKey(f, ".varnames") THEN Toks(f, ".varnames")
  ELSE IF HasKey(f, ".orderedvarnames") /\ Len(Toks(f, ".orderedvarnames")) = st.n
       THEN [v \in 1 .. st.n |-> Toks(f, ".orderedvarnames")[LevelOf(st.l2v, v - 1) + 1]]
  ELSE <<>>
NamesWritten(f) == HasKey(f, ".varnames") \/ HasKey(f, ".suppvarnames") \/ HasKey(f, ".orderedvarnames")

ExportObs(r, x, nn) ==
  LET f == r.file
      set == r.set
      n == st.n
      tg == x.tag
      vt == ":" \o set.ver
      written == NamesWritten(f)
      E == FileVarNames(f)
      V == 0 .. n - 1
      countOk ==
        /\ Len(E) = n
        /\ HasKey(f, ".orderedvarnames") => Len(Toks(f, ".orderedvarnames")) = n
        /\ HasKey(f, ".suppvarnames") => Len(Toks(f, ".suppvarnames")) = Len(x.ids)
      judge == written /\ x.ne # "no" /\ countOk
      replOk == \A v \in V : st.names[v + 1] # <<>> => VarNameOk(st.names, v, E[v + 1])
      genOk == \A v \in V : st.names[v + 1] = <<>> => VarNameOk(st.names, v, E[v + 1])
      fieldsOk ==
        /\ (set.ver = "3.0") <=> HasKey(f, ".varnames")
        /\ HasKey(f, ".varnames") \/ HasKey(f, ".orderedvarnames")
        /\ HasKey(f, ".orderedvarnames") =>
             Toks(f, ".orderedvarnames") = [k \in 1 .. n |-> E[st.l2v[k] + 1]]
        /\ HasKey(f, ".suppvarnames") =>
             Toks(f, ".suppvarnames") = [j \in 1 .. Len(x.ids) |-> E[x.ids[j] + 1]]
  IN
  IF Cls(r) = "panic" THEN << O("C15", "export.nopanic" \o tg \o ":" \o r.res.pc, FALSE) >>
  ELSE
  << O("C15", "export.roots_known", x.known),
     \* a needed replacement is reported / nothing else is
     O("C15", "strict.reported" \o vt,
        StrictOutcomeOk(set.strict, st.names, set.dd, x.withN, x.rn, Cls(r) = "err", written)
        \/ Cls(r) = "err"),
     O("C15", "strict.spurious" \o vt,
        StrictOutcomeOk(set.strict, st.names, set.dd, x.withN, x.rn, Cls(r) = "err", written)
        \/ Cls(r) # "err"),
     O("C15", "export.complete" \o tg, FileComplete(f)),
     O("C15", "header.version" \o vt, Strs(f, ".ver") = << "DDDMP-" \o set.ver >>),
     O("C15", "header.mode" \o tg, Strs(f, ".mode") = << x.mode >>),
     O("C15", "header.counts" \o tg,
        /\ Num1(f, ".nvars", NaN) = n
        /\ Num1(f, ".nsuppvars", NaN) = Len(x.ids)
        /\ Num1(f, ".nroots", NaN) = Len(r.roots)
        /\ Len(Nums(f, ".rootids")) = Len(r.roots)),
     O("C15", "header.support" \o tg, Nums(f, ".ids") = x.ids),
     O("C15", "header.order" \o tg, Nums(f, ".permids") = x.perm),
     O("C15", "header.nnodes" \o tg, Num1(f, ".nnodes", NaN) = nn),
     \* are names written at all / one name per variable / characters replaced /
     \* names generated for unnamed variables / uniqueness retained / the
     \* fields agree with each other
     O("C15", "sanitise.varnames.presence" \o vt,
        CASE x.ne = "no" -> ~written [] x.ne = "yes" -> written [] OTHER -> TRUE),
     O("C15", "sanitise.varnames.count" \o vt, (written /\ x.ne # "no") => countOk),
     O("C15", "sanitise.varnames.replace" \o vt, judge => replOk),
     O("C15", "sanitise.varnames.generated" \o vt, judge => genOk),
     O("C15", "sanitise.varnames.unique" \o vt, judge => Distinct(E)),
     O("C15", "header.names" \o vt, (judge /\ replOk /\ genOk /\ Distinct(E)) => fieldsOk),
     O("C15", "sanitise.rootnames" \o vt,
        IF ~x.withN THEN ~HasKey(f, ".rootnames")
        ELSE Len(r.roots) > 0 =>
               Toks(f, ".rootnames") = [j \in 1 .. Len(x.rn) |-> SanitiseFun(x.rn[j], j - 1)]),
     O("C15", "header.dd" \o vt,
        IF set.dd = <<>> THEN ~HasKey(f, ".dd")
        ELSE HasKey(f, ".dd") /\ Line(f, ".dd").v = x.dd),
     O("C15", "export.filesem" \o vt,
        (x.mode = "A" /\ Strs(f, ".mode") = << "A" >> /\ x.known /\ FileComplete(f)) =>
           LET fs == FileSem(st.kind, n, x.order, f)
           IN  fs.st = "ok" /\ fs.roots = x.V) >>

(* number of nodes (inner and terminal) reachable from the roots *)
NodeCount(R) ==
  LET ids == {vals[R[j]].e[1] : j \in 1 .. Len(R)}
  IN  Cardinality(ReachFrom(st.g, Len(st.g), ids))

TrExport ==
  /\ Ev("export")
  /\ ex' = ExRec(Rec[l])
  /\ Step(ExportObs(Rec[l], ex', IF ex'.known THEN NodeCount(Rec[l].roots) ELSE -1))
  /\ UNCHANGED <<st, vals>>

----------------------------------------------------------------------------
(* what the accessors of any DumpHeader promise (doc comments of
   support_vars, support_var_order, support_var_to_level, var_names,
   root_names) *)
HeaderContract(h) ==
  LET k == Len(h.ids)
      lvl(v) == h.permids[CHOOSE j \in 1 .. k : h.ids[j] = v]
  IN  /\ h.nsupp = k /\ Len(h.order) = k /\ Len(h.permids) = k
      /\ \A j \in 1 .. k : h.ids[j] < h.nvars /\ h.permids[j] < h.nvars
      /\ \A j \in 1 .. k - 1 : h.ids[j] < h.ids[j + 1]
      /\ Distinct(h.permids)
      /\ SeqToSet(h.order) = SeqToSet(h.ids)
      /\ SeqToSet(h.order) = SeqToSet(h.ids) =>
            \A j \in 1 .. k - 1 : lvl(h.order[j]) < lvl(h.order[j + 1])
      /\ Has(h, "names") => Len(h.names) = h.nvars
      /\ Has(h, "rnames") => Len(h.rnames) = h.nroots

(* header: DumpHeader::load of the exported bytes, against the manager *)
HeaderObs(r) ==
  LET tg == ex.tag
      vt == ":" \o ex.set.ver
      h == r.h
  IN
  IF Cls(r) = "panic" THEN << O("C15", "import.nopanic:header" \o tg \o ":" \o r.res.pc, FALSE) >>
  ELSE IF Cls(r) = "err" THEN << O("C15", "export.accepted_by_import:header" \o tg \o ":" \o r.res.ec, FALSE) >>
  ELSE
  << O("C15", "header.contract" \o tg, HeaderContract(h)),
     O("C15", "header.counts" \o tg,
        h.nvars = st.n /\ h.nroots = Len(ex.V) /\ h.nnodes = Num1(ex.file, ".nnodes", NaN)),
     O("C15", "header.support" \o tg, h.ids = ex.ids /\ h.nsupp = Len(ex.ids)),
     O("C15", "header.order" \o tg, h.order = ex.order /\ h.permids = ex.perm),
     \* relative to the names the file carries (judged against the manager at
     \* the export event).  A 2.0 file has no field that tells the number of
     \* a variable outside the support: such names survive as a set.
     O("C15", "header.names" \o vt,
        LET E == FileVarNames(ex.file)
            H == h.names
            rest == {v \in 0 .. st.n - 1 : v \notin ex.S}
        IN  IF ~NamesWritten(ex.file) THEN ~Has(h, "names")
            ELSE (VarNamesOk(st.names, E) /\ st.n > 0) =>
                   /\ Has(h, "names") /\ Len(H) = st.n
                   /\ \A v \in ex.S : H[v + 1] = E[v + 1]
                   /\ {H[v + 1] : v \in rest} = {E[v + 1] : v \in rest}
                   /\ Distinct(H)
                   /\ ex.set.ver = "3.0" => H = E),
     O("C15", "header.roots" \o vt,
        IF ~ex.withN THEN ~Has(h, "rnames")
        ELSE Len(ex.V) > 0 =>
               (Has(h, "rnames") /\
                h.rnames = [j \in 1 .. Len(ex.rn) |-> SanitiseFun(ex.rn[j], j - 1)])),
     O("C15", "header.dd" \o vt,
        IF ex.dd = <<>> THEN ~Has(h, "dd") ELSE Has(h, "dd") /\ h.dd = ex.dd) >>
TrHeader ==
  /\ Ev("header") /\ ex.valid
  /\ Step(HeaderObs(Rec[l]))
  /\ UNCHANGED <<st, vals, ex>>

----------------------------------------------------------------------------
(* import into the manager the file was exported from *)
SameObs(r) ==
  LET tg == ex.tag
      c == Cls(r)
  IN
  IF c = "panic" THEN << O("C15", "import.nopanic:same" \o tg \o ":" \o r.res.pc, FALSE) >>
  ELSE
  << O("C15", "export.accepted_by_import:same" \o tg \o (IF c = "err" THEN ":" \o r.res.ec ELSE ""), c = "ok"),
     O("C15", "roundtrip.same" \o tg,
        c = "ok" => (/\ Len(r.eq) = Len(ex.V)
                     /\ \A j \in 1 .. Len(r.eq) : r.eq[j]
                     /\ r.es = r.orig)) >>
TrImportSame ==
  /\ Ev("import_same") /\ ex.valid
  /\ Step(SameObs(Rec[l]))
  /\ UNCHANGED <<st, vals, ex>>

----------------------------------------------------------------------------
(* import into a fresh manager.  r.n, r.l2v: the fresh manager; r.sv: the
   support_vars argument; r.es: imported edges; r.g: their sub-graph;
   r.snap: all stored nodes; r.tts: truth tables by eval *)
FreshGraphOk(r) ==
  /\ ChildrenFirst(r.g) /\ IsPerm(r.l2v, r.n)
  /\ \A i \in 1 .. Len(r.g) : r.g[i][2] \in 0 .. r.n - 1
  /\ \A j \in 1 .. Len(r.es) : r.es[j][1] < 0 \/ \E i \in 1 .. Len(r.g) : r.g[i][1] = r.es[j][1]
GraphVals(kind, r) ==
  IF kind = "mtbdd"
  THEN LET m == MtSemMap(r.n, r.l2v, r.g, r.terms)
       IN  [j \in 1 .. Len(r.es) |-> MtEdge(r.n, m, r.terms, r.es[j][1])]
  ELSE LET m == SemMap(kind, r.n, r.l2v, r.g)
       IN  [j \in 1 .. Len(r.es) |-> EdgeSemM(kind, r.n, m, r.es[j][1], r.es[j][2])]
TtVals(r) == [j \in 1 .. Len(r.tts) |->
                IF st.kind = "mtbdd" THEN MtTable(r.n, r.tts[j]) ELSE SeqToSet(r.tts[j])]
RootsInSnap(r) ==
  \A j \in 1 .. Len(r.es) : r.es[j][1] < 0 \/ \E i \in 1 .. Len(r.snap) : r.snap[i][1] = r.es[j][1]

FreshObs(r) ==
  LET tg == ex.tag
      vt == ":" \o ex.set.ver
      hc == r.hres.c
      c == IF Has(r, "res") THEN Cls(r) ELSE "none"
      kind == st.kind
  IN
  IF hc = "panic" THEN << O("C15", "import.nopanic:header" \o tg \o ":" \o r.hres.pc, FALSE) >>
  ELSE IF hc = "err" THEN << O("C15", "export.accepted_by_import:header" \o tg \o ":" \o r.hres.ec, FALSE) >>
  ELSE IF c = "panic" THEN << O("C15", "import.nopanic:fresh" \o tg \o ":" \o r.res.pc, FALSE) >>
  ELSE IF c # "ok" THEN
    << O("C15", "export.accepted_by_import:fresh" \o tg \o (IF c = "err" THEN ":" \o r.res.ec ELSE ""), c \notin {"err"}),
       \* the order announced by the header could not be established
       O("C15", "header.order" \o tg, c \notin {"precond", "setup_panic", "skipped"}) >>
  ELSE
  << O("C15", "roundtrip.fresh" \o tg,
        r.n = st.n /\ FreshGraphOk(r) /\ GraphVals(kind, r) = ex.V),
     O("C15", "roundtrip.fresh.eval" \o tg, Has(r, "tts") => (r.n = st.n /\ TtVals(r) = ex.V)),
     O("C15", "import.filesem" \o vt,
        (ex.mode = "A" /\ Has(r, "tts") /\ FileComplete(ex.file)) =>
           LET fs == FileSem(kind, r.n, r.sv, ex.file)
           IN  fs.st = "ok" /\ fs.roots = TtVals(r)),
     O("C15", "import.wellformed" \o tg, SnapWellFormed(kind, r.n, r.snap) /\ RootsInSnap(r)),
     O("C15", "import.noleak" \o tg, r.after = r.base),
     \* the names of the header can be given to the variables of a manager
     O("C15", "header.names.usable" \o vt, r.named \in {"ok", "none"}) >>
TrImportFresh ==
  /\ Ev("import_fresh") /\ ex.valid
  /\ Step(FreshObs(Rec[l]))
  /\ UNCHANGED <<st, vals, ex>>

(* import into a fresh manager that has `extra` further variables, placed
   above the support variables ("a fresh manager with a compatible order"):
   the same functions, not depending on the further variables.  Header and
   order problems are judged by import_fresh. *)
Lift(kind, n0, n1, S) ==
  IF kind = "zbdd" THEN S ELSE {a \in Asg(n1) : (a % (2^n0)) \in S}
LargerObs(r) ==
  LET tg == ex.tag
      c == IF Has(r, "res") THEN Cls(r) ELSE "none"
      kind == st.kind
  IN
  IF r.hres.c # "ok" \/ kind = "mtbdd" THEN <<>>
  ELSE IF c = "panic" THEN << O("C15", "import.nopanic:larger" \o tg \o ":" \o r.res.pc, FALSE) >>
  ELSE IF c = "err" THEN << O("C15", "export.accepted_by_import:larger" \o tg \o ":" \o r.res.ec, FALSE) >>
  ELSE IF c # "ok" THEN <<>>
  ELSE
  << O("C15", "roundtrip.larger" \o tg,
        /\ r.n = st.n + r.extra /\ FreshGraphOk(r)
        /\ GraphVals(kind, r) = [j \in 1 .. Len(ex.V) |-> Lift(kind, st.n, r.n, ex.V[j])]),
     O("C15", "import.wellformed:larger" \o tg, SnapWellFormed(kind, r.n, r.snap) /\ RootsInSnap(r)),
     O("C15", "import.noleak:larger" \o tg, r.after = r.base) >>
TrImportLarger ==
  /\ Ev("import_larger") /\ ex.valid
  /\ Step(LargerObs(Rec[l]))
  /\ UNCHANGED <<st, vals, ex>>

----------------------------------------------------------------------------
(* mutated / truncated bytes *)
BadObs(r) ==
  LET hc == r.hres.c
      c == IF Has(r, "res") THEN Cls(r) ELSE "none"
      kind == st.kind
      md == IF Has(r, "file") THEN r.file.mode ELSE "?"
  IN
  IF hc = "panic" THEN << O("C15", "import.nopanic:header:" \o r.hres.pc, FALSE) >>
  ELSE IF hc = "err" THEN <<>>
  ELSE IF ~HeaderContract(r.h) THEN << O("C15", "header.contract:mutated", FALSE) >>
  ELSE IF c = "panic" THEN << O("C15", "import.nopanic:import:" \o r.res.pc, FALSE) >>
  ELSE IF c \in {"setup_panic", "precond"} THEN << O("C15", "header.order:mutated", FALSE) >>
  ELSE IF c # "ok" THEN
    << O("C15", "import.noleak:err", (Has(r, "after") /\ Has(r, "base")) => r.after = r.base) >>
  ELSE
  << O("C15", "import.wellformed:mutated:" \o md,
        FreshGraphOk(r) /\ SnapWellFormed(kind, r.n, r.snap) /\ RootsInSnap(r)),
     O("C15", "import.noleak:mutated", r.after = r.base),
     O("C15", "import.graph_eval:mutated",
        (Has(r, "tts") /\ FreshGraphOk(r)) => GraphVals(kind, r) = TtVals(r)),
     O("C15", "import.rejects_malformed:" \o md,
        (md = "A" /\ Has(r, "tts")) => FileSem(kind, r.n, r.sv, r.file).st # "bad"),
     O("C15", "import.filesem:mutated",
        (md = "A" /\ Has(r, "tts")) =>
           LET fs == FileSem(kind, r.n, r.sv, r.file)
           IN  fs.st = "ok" => fs.roots = TtVals(r)) >>
TrImportBad ==
  /\ Ev("import_bad")
  /\ Step(BadObs(Rec[l]))
  /\ UNCHANGED <<st, vals, ex>>

----------------------------------------------------------------------------
TrInit == l = 1 /\ nf = 0 /\ fl = <<>> /\ st = St0 /\ vals = NoVals /\ ex = Ex0
TrNext == TrReset \/ TrNoise \/ TrPre \/ TrExport \/ TrHeader \/ TrImportSame
          \/ TrImportFresh \/ TrImportLarger \/ TrImportBad
TrSpec == TrInit /\ [][TrNext]_tvars
Done == PrintT(<<"TRACE_DONE", TLCGet("stats").diameter - 1, Len(Rec)>>)
=============================================================================
