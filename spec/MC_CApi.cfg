\* bounded model of the ownership ledger (C19): 4 node ids, at most 2 owned
\* references per handle value, at most 2 manager references, 2 collections
SPECIFICATION CSpec
CONSTANTS
  NN = 4
  Kids <- MCKids
  MaxOwn = 2
  MaxM = 2
CONSTRAINT Bounded
INVARIANTS
  TypeOk
  LedgerNonNegative
  RcBalanced
  ManagerBalanced
  Closed
  InvalidPropagates
  EmptyAfterGc
PROPERTY Refines
CHECK_DEADLOCK FALSE
