-------------------------- MODULE TraceBubbleSort --------------------------
(***************************************************************************)
(* V binding of BubbleSort.tla (property C08): the level-swap events that  *)
(* the hook `oxidd_reorder::verif::EVENTS` records during set_var_order    *)
(* are checked to be a behaviour of the specification.                     *)
(*                                                                         *)
(* Trace events (one NDJSON line each):                                    *)
(*   {"ev":"sort","seq":[..],"workers":k,"conc":b}  a sort of `seq` begins *)
(*   {"ev":"b","i":i}   level swap of positions i, i+1 begins              *)
(*   {"ev":"e","i":i}   ... has ended                                      *)
(*   {"ev":"sorted"}    the sort returned                                  *)
(*                                                                         *)
(* The hook records "b" after the critical section that chose the swap and *)
(* "e" before the critical section that follows it, so the critical        *)
(* sections themselves (Fetch, AfterSwap) are unlogged: they are silent    *)
(* steps of the trace specification, taken between the events.  A swap in  *)
(* progress is identified by its position (positions of concurrent swaps   *)
(* are disjoint by NoOverlap, and the trace spec checks that too).         *)
(*                                                                         *)
(* N is a constant of BubbleSort; sequences shorter than N are padded      *)
(* with N-k..N-1 in order: those elements are larger than all others and   *)
(* sorted, so no step of the algorithm ever looks at them differently from *)
(* "end of sequence" (every comparison with them is "no inversion").       *)
(* Workers beyond the recorded number start in "done".  Workers are        *)
(* interchangeable, so silent steps pick the smallest eligible worker.     *)
(***************************************************************************)
EXTENDS Integers, Sequences, FiniteSets, TLC, Json, IOUtils

CONSTANTS N, Workers

VARIABLES seq, blocked, tasks, inProgress, pc, cur, waiting, init,
          l,       \* next trace line
          ob,      \* per worker: observation state of the swap at cur[w]
          mode,    \* "idle" | "conc" | "seq"
          sq       \* remaining swap indices of a sequential sort

BS == INSTANCE BubbleSort

Rec == ndJsonDeserialize(IOEnv.TRACE)
Len0 == Len(Rec)

tvars == <<seq, blocked, tasks, inProgress, pc, cur, waiting, init, l, ob, mode, sq>>

(* the recorded sequence holds target level numbers: only their order matters *)
Rank(s, j) == Cardinality({k \in 1 .. Len(s) : s[k] < s[j]})
Distinct(s) == \A j, k \in 1 .. Len(s) : j # k => s[j] # s[k]
Pad(s) == [i \in 0 .. N - 1 |-> IF i < Len(s) THEN Rank(s, i + 1) ELSE i]

(* the deterministic sequential bubble_sort: list of swap indices *)
RECURSIVE SeqPass(_, _, _, _, _)
SeqPass(s, i, n, newn, acc) ==
  IF i >= n THEN <<s, newn, acc>>
  ELSE IF s[i - 1] > s[i]
       THEN SeqPass([s EXCEPT ![i - 1] = s[i], ![i] = s[i - 1]], i + 1, n, i, Append(acc, i - 1))
       ELSE SeqPass(s, i + 1, n, newn, acc)
RECURSIVE SeqSort(_, _, _)
SeqSort(s, n, acc) ==
  IF n <= 1 THEN acc
  ELSE LET p == SeqPass(s, 1, n, 0, acc) IN SeqSort(p[1], p[2], p[3])

IsEvent(e) == l <= Len0 /\ Rec[l].ev = e

Idle ==
  /\ seq = [i \in 0 .. N - 1 |-> i] /\ blocked = {} /\ tasks = <<>> /\ inProgress = 0
  /\ pc = [w \in Workers |-> "done"] /\ cur = [w \in Workers |-> 0] /\ waiting = {}

IdleNext ==
  /\ seq' = [i \in 0 .. N - 1 |-> i] /\ blocked' = {} /\ tasks' = <<>> /\ inProgress' = 0
  /\ pc' = [w \in Workers |-> "done"] /\ cur' = [w \in Workers |-> 0] /\ waiting' = {}

TInit ==
  /\ Idle /\ init = [i \in 0 .. N - 1 |-> i]
  /\ l = 1 /\ ob = [w \in Workers |-> "none"] /\ mode = "idle" /\ sq = <<>>

StartSort ==
  /\ IsEvent("sort") /\ mode = "idle"
  /\ LET r == Rec[l]
         s == Pad(r.seq)
         p == BS!Prepare(s, 0, {}, <<>>)
     IN
     /\ Len(r.seq) <= N /\ Distinct(r.seq)
     /\ init' = s /\ seq' = s
     /\ IF r.conc
        THEN /\ blocked' = p[1] /\ tasks' = p[2]
             /\ pc' = [w \in Workers |-> IF p[2] # <<>> /\ w <= r.workers THEN "fetch" ELSE "done"]
             /\ mode' = "conc" /\ sq' = <<>>
        ELSE /\ blocked' = {} /\ tasks' = <<>> /\ pc' = [w \in Workers |-> "done"]
             /\ mode' = "seq" /\ sq' = SeqSort(s, N, <<>>)
     /\ inProgress' = 0 /\ cur' = [w \in Workers |-> 0] /\ waiting' = {}
     /\ ob' = [w \in Workers |-> "none"]
     /\ l' = l + 1

(* ---- concurrent sort ---- *)
Eligible(S) == IF S = {} THEN {} ELSE {CHOOSE w \in S : \A x \in S : w <= x}

SilentFetch ==
  /\ mode = "conc"
  /\ \E w \in Eligible({x \in Workers : pc[x] = "fetch" /\ x \notin waiting}) :
       BS!Fetch(w)
  /\ UNCHANGED <<l, ob, mode, sq>>

SilentAfterSwap ==
  /\ mode = "conc"
  /\ \E w \in Workers :
       /\ pc[w] = "swapping" /\ ob[w] = "ended"
       /\ BS!AfterSwap(w)
       /\ ob' = [ob EXCEPT ![w] = "none"]
  /\ UNCHANGED <<l, mode, sq>>

EvBegin ==
  /\ mode = "conc" /\ IsEvent("b")
  /\ \E w \in Workers :
       /\ pc[w] = "swapping" /\ cur[w] = Rec[l].i /\ ob[w] = "none"
       /\ ob' = [ob EXCEPT ![w] = "begun"]
  /\ l' = l + 1
  /\ UNCHANGED <<seq, blocked, tasks, inProgress, pc, cur, waiting, init, mode, sq>>

EvEnd ==
  /\ mode = "conc" /\ IsEvent("e")
  /\ \E w \in Workers :
       /\ pc[w] = "swapping" /\ cur[w] = Rec[l].i /\ ob[w] = "begun"
       /\ ob' = [ob EXCEPT ![w] = "ended"]
  /\ l' = l + 1
  /\ UNCHANGED <<seq, blocked, tasks, inProgress, pc, cur, waiting, init, mode, sq>>

EvSortedConc ==
  /\ mode = "conc" /\ IsEvent("sorted")
  /\ BS!Finished /\ BS!IsSorted(seq) /\ tasks = <<>> /\ inProgress = 0
  /\ IdleNext /\ init' = [i \in 0 .. N - 1 |-> i]
  /\ ob' = [w \in Workers |-> "none"] /\ mode' = "idle" /\ sq' = <<>>
  /\ l' = l + 1

(* ---- sequential sort: swap k begins and ends, in the order of SeqSort ---- *)
EvSeqBegin ==
  /\ mode = "seq" /\ IsEvent("b")
  /\ sq # <<>> /\ Head(sq) = Rec[l].i /\ ob[1] = "none"
  /\ seq[Rec[l].i] > seq[Rec[l].i + 1]
  /\ ob' = [ob EXCEPT ![1] = "begun"]
  /\ l' = l + 1
  /\ UNCHANGED <<seq, blocked, tasks, inProgress, pc, cur, waiting, init, mode, sq>>

EvSeqEnd ==
  /\ mode = "seq" /\ IsEvent("e")
  /\ sq # <<>> /\ Head(sq) = Rec[l].i /\ ob[1] = "begun"
  /\ LET i == Rec[l].i IN seq' = [seq EXCEPT ![i] = seq[i + 1], ![i + 1] = seq[i]]
  /\ sq' = Tail(sq)
  /\ ob' = [ob EXCEPT ![1] = "none"]
  /\ l' = l + 1
  /\ UNCHANGED <<blocked, tasks, inProgress, pc, cur, waiting, init, mode>>

EvSortedSeq ==
  /\ mode = "seq" /\ IsEvent("sorted")
  /\ sq = <<>> /\ BS!IsSorted(seq) /\ ob[1] = "none"
  /\ IdleNext /\ init' = [i \in 0 .. N - 1 |-> i]
  /\ ob' = [w \in Workers |-> "none"] /\ mode' = "idle"
  /\ UNCHANGED sq
  /\ l' = l + 1

TNext ==
  \/ StartSort
  \/ SilentFetch \/ SilentAfterSwap \/ EvBegin \/ EvEnd \/ EvSortedConc
  \/ EvSeqBegin \/ EvSeqEnd \/ EvSortedSeq

TraceSpec == TInit /\ [][TNext]_tvars

(* workers are interchangeable: states that differ only in which worker does
   what are the same state for the search (VIEW) *)
WState(w) == <<pc[w], IF pc[w] = "swapping" THEN cur[w] ELSE 0,
               IF pc[w] = "swapping" THEN ob[w] ELSE "none", w \in waiting>>
WBag == [t \in {WState(w) : w \in Workers} |-> Cardinality({w \in Workers : WState(w) = t})]
View == <<seq, blocked, tasks, inProgress, WBag, init, l, mode, sq>>

(* the model's invariants, evaluated in every state of every explanation *)
NoOverlap == mode = "conc" => BS!NoOverlap
SwapsAreInversions == mode = "conc" => BS!SwapsAreInversions
IsPermutation == BS!IsPermutation

(* progress register: highest trace line consumed on any branch *)
Progress ==
  /\ (IF l > TLCGet(7) THEN TLCSet(7, l) ELSE TRUE)
  /\ TRUE
InitReg == TLCSet(7, 0)
ASSUME InitReg

TraceAccepted ==
  LET done == TLCGet(7) - 1 IN
  /\ PrintT(<<"TRACE_DONE", done, Len0>>)
  /\ (done # Len0 => PrintT(<<"UNMATCHED", done + 1, Rec[done + 1]>>))
  /\ TRUE
=============================================================================
