SPECIFICATION TrSpec
POSTCONDITION Done
CHECK_DEADLOCK FALSE
