SPECIFICATION TrSpec
POSTCONDITION Done
CHECK_DEADLOCK FALSE
CONSTANTS
  Key <- NoKeys
  Val <- NoKeys
  Tab <- NoKeys
  Preds <- NoKeys
  ResArgs <- NoKeys
