------------------------------ MODULE SubstId ------------------------------
(***************************************************************************)
(* Substitution objects and the apply cache (oxidd-core                    *)
(* util/substitution.rs: new_substitution_id(), Subst::new();              *)
(* oxidd-rules-bdd apply_rec.rs: substitute() caches its results under     *)
(* the key (Substitute, f, id) - the replacement functions are NOT part of *)
(* the key).  Several application threads create substitution objects and  *)
(* apply them to one diagram f of one manager.                             *)
(*                                                                         *)
(*   Subst::new:   id := ID.fetch_add(1)            one atomic step        *)
(*   substitute:   if cache has (f, id) return it;  result := f[repl];     *)
(*                 cache.add((f, id), result)                              *)
(*   gc:           clears the apply cache                                  *)
(*   drop(subst):  nothing (ids are never handed out again)                *)
(*                                                                         *)
(* With Atomic = FALSE the allocation is a load followed by a separate     *)
(* store - the variant the conformance check conc.substid.unique exists to *)
(* detect in the code; TLC must reject it (MC_SubstId_split.cfg).  With    *)
(* Reuse = TRUE dropped ids are handed out again without clearing the      *)
(* cache: also rejected (MC_SubstId_reuse.cfg), which is why the counter   *)
(* is monotone.                                                            *)
(*                                                                         *)
(* The result of substitute(f, s) is abstracted to the replacement value   *)
(* s.repl (f is fixed, so the result is a function of the replacement).    *)
(***************************************************************************)
EXTENDS Integers, FiniteSets, TLC

CONSTANTS Threads, Repl, MaxObjs, MaxApplies, Atomic, Reuse

VARIABLES ctr,      \* the global counter
          free,     \* ids given back (only used when Reuse)
          pc, tmp,  \* per thread: "idle" | "loaded", the value loaded
          objs,     \* live substitution objects: [n, id, repl]
          made,     \* objects created so far
          cache,    \* id -> cached result
          applies,  \* substitute calls so far
          wrong     \* a substitute call returned something else than f[repl]

vars == <<ctr, free, pc, tmp, objs, made, cache, applies, wrong>>

Init ==
  /\ ctr = 0 /\ free = {} /\ pc = [t \in Threads |-> "idle"] /\ tmp = [t \in Threads |-> 0]
  /\ objs = {} /\ made = 0 /\ cache = [i \in {} |-> 0] /\ applies = 0 /\ wrong = FALSE

NewObj(id, r) == [n |-> made, id |-> id, repl |-> r]

AllocAtomic(t) ==
  /\ Atomic /\ pc[t] = "idle" /\ made < MaxObjs
  /\ \E r \in Repl :
       IF Reuse /\ free # {}
       THEN \E i \in free : /\ objs' = objs \cup {NewObj(i, r)} /\ free' = free \ {i} /\ UNCHANGED ctr
       ELSE /\ objs' = objs \cup {NewObj(ctr, r)} /\ ctr' = ctr + 1 /\ UNCHANGED free
  /\ made' = made + 1
  /\ UNCHANGED <<pc, tmp, cache, applies, wrong>>

AllocLoad(t) ==
  /\ ~Atomic /\ pc[t] = "idle" /\ made < MaxObjs
  /\ tmp' = [tmp EXCEPT ![t] = ctr] /\ pc' = [pc EXCEPT ![t] = "loaded"]
  /\ UNCHANGED <<ctr, free, objs, made, cache, applies, wrong>>

AllocStore(t) ==
  /\ pc[t] = "loaded"
  /\ ctr' = tmp[t] + 1
  /\ \E r \in Repl : objs' = objs \cup {NewObj(tmp[t], r)}
  /\ made' = made + 1 /\ pc' = [pc EXCEPT ![t] = "idle"]
  /\ UNCHANGED <<free, tmp, cache, applies, wrong>>

Apply(o) ==
  /\ applies < MaxApplies
  /\ applies' = applies + 1
  /\ IF o.id \in DOMAIN cache
     THEN /\ wrong' = (wrong \/ cache[o.id] # o.repl) /\ UNCHANGED cache
     ELSE /\ cache' = (o.id :> o.repl) @@ cache /\ UNCHANGED wrong
  /\ UNCHANGED <<ctr, free, pc, tmp, objs, made>>

Gc == /\ cache' = [i \in {} |-> 0]
      /\ UNCHANGED <<ctr, free, pc, tmp, objs, made, applies, wrong>>

DropObj(o) ==
  /\ objs' = objs \ {o}
  /\ free' = IF Reuse THEN free \cup {o.id} ELSE free
  /\ UNCHANGED <<ctr, pc, tmp, made, cache, applies, wrong>>

DoApply == \E o \in objs : Apply(o)
DoDrop == \E o \in objs : DropObj(o)

Next ==
  \/ \E t \in Threads : AllocAtomic(t)
  \/ \E t \in Threads : AllocLoad(t)
  \/ \E t \in Threads : AllocStore(t)
  \/ DoApply \/ DoDrop
  \/ Gc

Spec == Init /\ [][Next]_vars

(* what Substitution::id promises: substitutions in use with one manager have distinct ids *)
UniqueIds == \A a, b \in objs : a.id = b.id => a = b
(* what the user relies on (C04, C07): every substitute call returns f[repl] *)
ResultsRight == ~wrong
=============================================================================
