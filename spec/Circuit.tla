------------------------------- MODULE Circuit -------------------------------
(***************************************************************************)
(* Combinational circuits as data and the contract of                      *)
(* `oxidd_parser::Circuit::simplify` (property C18).                       *)
(*                                                                         *)
(* A literal is a triple <<t, i, s>>:                                      *)
(*   t = 0  constant; s = 0 is FALSE, s = 1 is TRUE (TRUE is the negated   *)
(*          FALSE, exactly as in the library);  i = 0                      *)
(*   t = 1  circuit input number i (0-based)                               *)
(*   t = 2  gate number i (0-based)                                        *)
(*   t = 3  Literal::UNDEF: an input whose number is larger than every     *)
(*          possible number of inputs;  i = 0                              *)
(*   s = 1  the literal is negated.                                        *)
(* A circuit is [n |-> number of inputs, gates |-> sequence of             *)
(* [k |-> "and" | "or" | "xor", ins |-> sequence of literals]].            *)
(*                                                                         *)
(* Domain: gate literals refer to existing gates (`RefsInRange`).  The     *)
(* documentation of `simplify` says nothing about dangling gate numbers;   *)
(* they are outside the contract modelled here.                            *)
(***************************************************************************)
EXTENDS Integers, Sequences, FiniteSets, TLC, IOUtils

Kinds == {"and", "or", "xor"}

FalseLit == <<0, 0, 0>>
TrueLit  == <<0, 0, 1>>
UndefLit == <<3, 0, 0>>
UndefNo  == 1000000          \* input number standing for Literal::UNDEF

IsConst(x) == x[1] = 0
IsInput(x) == x[1] = 1 \/ x[1] = 3
IsGate(x)  == x[1] = 2
IsNeg(x)   == x[3] = 1
InputNo(x) == IF x[1] = 3 THEN UndefNo ELSE x[2]
GateIx(x)  == x[2] + 1                  \* 1-based index into c.gates
Positive(x) == <<x[1], x[2], 0>>
Flip(x, b) == IF b THEN <<x[1], x[2], 1 - x[3]>> ELSE x
VarOf(x)   == <<x[1], x[2]>>            \* the literal disregarding its polarity
GateLit(ix) == <<2, ix - 1, 0>>

Range(s) == {s[i] : i \in 1 .. Len(s)}
NG(c) == Len(c.gates)
Ins(c, j) == c.gates[j].ins
AllLits(c) == UNION {Range(Ins(c, j)) : j \in 1 .. NG(c)}

(* every gate literal (in a gate or among the roots) names an existing gate *)
RefsInRange(c, roots) ==
  \A x \in AllLits(c) \cup Range(roots) : IsGate(x) => GateIx(x) \in 1 .. NG(c)

----------------------------------------------------------------------------
(* reachability, cycles, unknown inputs *)

GateRefs(c, j) == {GateIx(x) : x \in {y \in Range(Ins(c, j)) : IsGate(y)}}

RECURSIVE ReachFrom(_, _, _)
ReachFrom(c, seen, frontier) ==
  IF frontier = {} THEN seen
  ELSE LET s2 == seen \cup frontier
       IN  ReachFrom(c, s2, (UNION {GateRefs(c, j) : j \in frontier}) \ s2)

RootGates(roots) == {GateIx(x) : x \in {y \in Range(roots) : IsGate(y)}}
Reach(c, roots) == ReachFrom(c, {}, RootGates(roots))

(* gate j lies on a cycle: it can be reached from one of its own inputs *)
OnCycle(c, j) == j \in ReachFrom(c, {}, GateRefs(c, j))
CyclicGates(c, roots) == {j \in Reach(c, roots) : OnCycle(c, j)}
ReachableCycle(c, roots) == CyclicGates(c, roots) # {}

(* "unknown inputs (input_number >= self.inputs().len(), including
   Literal::UNDEF)" *)
IsUnknown(c, x) == IsInput(x) /\ InputNo(x) >= c.n
ReachLits(c, roots) == UNION {Range(Ins(c, j)) : j \in Reach(c, roots)}
ReachUnknown(c, roots) == {VarOf(x) : x \in {y \in ReachLits(c, roots) : IsUnknown(c, y)}}
ReachableUnknownInput(c, roots) == ReachUnknown(c, roots) # {}

----------------------------------------------------------------------------
(* Semantics.  Definitional form: recursive evaluation under an assignment
   asg (a function from input numbers to BOOLEAN); it is defined on the
   acyclic part of the circuit only (on a cycle the recursion does not
   terminate). *)

Parity(S) == Cardinality(S) % 2 = 1

RECURSIVE Eval(_, _, _)
Eval(c, x, asg) ==
  LET b == IF IsConst(x) THEN FALSE
           ELSE IF IsInput(x) THEN asg[InputNo(x)]
           ELSE LET g == c.gates[GateIx(x)]
                    v == [i \in 1 .. Len(g.ins) |-> Eval(c, g.ins[i], asg)]
                IN  CASE g.k = "and" -> \A i \in 1 .. Len(g.ins) : v[i]
                      [] g.k = "or"  -> \E i \in 1 .. Len(g.ins) : v[i]
                      [] g.k = "xor" -> Parity({i \in 1 .. Len(g.ins) : v[i]})
  IN  b # IsNeg(x)

(* Tabular form used for checking (no re-evaluation of shared gates): the
   truth table of a literal is a function from assignment numbers
   0 .. 2^K - 1 to BOOLEAN, where ks is the sequence of the K input numbers
   that matter and bit p-1 of the assignment number is the value of input
   ks[p].  `GateTables` is the least fixed point "a gate has a table once all
   gates it refers to have one": its domain is exactly the set of gates in S
   that neither lie on nor depend on a cycle (nor on a gate outside S). *)

Pow2(k) == 2 ^ k
AsgNos(ks) == 0 .. Pow2(Len(ks)) - 1
PosOf(ks, no) == CHOOSE p \in 1 .. Len(ks) : ks[p] = no
AsgOf(ks, a) == [no \in Range(ks) |-> (a \div Pow2(PosOf(ks, no) - 1)) % 2 = 1]

InputTables(ks) ==
  [no \in Range(ks) |-> [a \in AsgNos(ks) |-> (a \div Pow2(PosOf(ks, no) - 1)) % 2 = 1]]

LitTable(x, ks, it, m) ==
  LET A == AsgNos(ks) IN
  IF IsConst(x) THEN [a \in A |-> IsNeg(x)]
  ELSE LET base == IF IsInput(x) THEN it[InputNo(x)] ELSE m[GateIx(x)]
       IN  IF IsNeg(x) THEN [a \in A |-> ~base[a]] ELSE base

GateTable(g, ks, it, m) ==
  LET I == 1 .. Len(g.ins)
      t == [i \in I |-> LitTable(g.ins[i], ks, it, m)]
  IN  CASE g.k = "and" -> [a \in AsgNos(ks) |-> \A i \in I : t[i][a]]
        [] g.k = "or"  -> [a \in AsgNos(ks) |-> \E i \in I : t[i][a]]
        [] g.k = "xor" -> [a \in AsgNos(ks) |-> Parity({i \in I : t[i][a]})]

RECURSIVE GateTablesR(_, _, _, _, _)
GateTablesR(c, S, ks, it, m) ==
  LET ready == {j \in S \ DOMAIN m : GateRefs(c, j) \subseteq DOMAIN m}
  IN  IF ready = {} THEN m
      ELSE GateTablesR(c, S, ks, it,
                       m @@ [j \in ready |-> GateTable(c.gates[j], ks, it, m)])
GateTables(c, S, ks) == GateTablesR(c, S, ks, InputTables(ks), <<>>)

(* the gates of S that have a table: those that neither lie on nor depend
   on a cycle *)
RECURSIVE EvaluableR(_, _, _)
EvaluableR(c, S, D) ==
  LET ready == {j \in S \ D : GateRefs(c, j) \subseteq D}
  IN  IF ready = {} THEN D ELSE EvaluableR(c, S, D \cup ready)
Evaluable(c, S) == EvaluableR(c, S, {})

(* ascending sequence of a finite set of numbers *)
KeySeq(S) == [i \in 1 .. Cardinality(S) |-> CHOOSE x \in S : Cardinality({y \in S : y < x}) = i - 1]

----------------------------------------------------------------------------
(* The five documented conditions of the normal form ("Simplify the circuit
   such that ...") *)

\* 1. no gate has constant inputs
NF1(c) == \A j \in 1 .. NG(c) : \A x \in Range(Ins(c, j)) : ~IsConst(x)
\* 2. no inputs of XOR gates are negated (only the output)
NF2(c) == \A j \in 1 .. NG(c) : c.gates[j].k = "xor" => \A x \in Range(Ins(c, j)) : ~IsNeg(x)
\* 3. for every gate, all its inputs are distinct (disregarding polarities)
NF3(c) == \A j \in 1 .. NG(c) :
            \A p, q \in 1 .. Len(Ins(c, j)) : p < q => VarOf(Ins(c, j)[p]) # VarOf(Ins(c, j)[q])
\* 4. all gates have at least two inputs
NF4(c) == \A j \in 1 .. NG(c) : Len(Ins(c, j)) >= 2
\* 5. there are no two structurally equivalent gates (same kind and inputs,
\*    disregarding the input order)
Count(s, x) == Cardinality({p \in 1 .. Len(s) : s[p] = x})
SameInputs(s, t) == Len(s) = Len(t) /\ \A x \in Range(s) \cup Range(t) : Count(s, x) = Count(t, x)
NF5(c) == \A j, k \in 1 .. NG(c) :
            j < k => ~(c.gates[j].k = c.gates[k].k /\ SameInputs(Ins(c, j), Ins(c, k)))

(* "the gates in the returned circuit are topologically sorted" *)
TopoSorted(c) == \A j \in 1 .. NG(c) : \A k \in GateRefs(c, j) : k < j

(* a literal that is "valid in" circuit c *)
ValidLit(c, x) ==
  \/ IsConst(x) /\ x[2] = 0
  \/ x[1] = 1 /\ x[2] \in 0 .. c.n - 1
  \/ IsGate(x) /\ GateIx(x) \in 1 .. NG(c)
WellFormed(c) == \A j \in 1 .. NG(c) : c.gates[j].k \in Kinds /\ \A x \in Range(Ins(c, j)) : ValidLit(c, x)

(* Literal::apply_gate_map *)
ApplyMap(map, x) ==
  IF IsGate(x)
  THEN IF GateIx(x) \in 1 .. Len(map) THEN Flip(map[GateIx(x)], IsNeg(x)) ELSE UndefLit
  ELSE x

----------------------------------------------------------------------------
(* The contract of simplify(c, roots).

   ok(nc, map):  allowed iff
     - the fragment reachable from the roots has no cycle,
     - no unknown input survives into the result (nc is well-formed over the
       inputs of c, every reachable gate is mapped to a literal valid in nc);
       what the documentation requires when an unknown input is referenced
       by a reachable gate but does not influence it (and(FALSE, x9)) is not
       spelled out -- both an error and a result are accepted then,
     - nc has the same inputs, is topologically sorted, satisfies NF1 .. NF5,
       and contains images of reachable gates only,
     - map has one entry per gate of c, and the entry of every reachable gate
       denotes in nc the function that the gate denotes in c (for all
       assignments to the known AND the referenced unknown inputs, so that
       dropping a dependence on an unknown input is not an equivalence).
       Entries of unreachable gates are not constrained by the documentation
       (the code leaves UNDEF there).
   err(x):  allowed iff x is a gate on a reachable cycle, or x is an unknown
     input that a reachable gate refers to.
   Roots that are input literals are passed through apply_gate_map unchanged;
   the documentation speaks of the "reachable circuit fragment" only, so an
   unknown input used directly as a root is tolerated with either outcome. *)

InputKeys(c, roots) ==
  (0 .. c.n - 1) \cup {InputNo(x) : x \in {y \in ReachLits(c, roots) \cup Range(roots) : IsInput(y)}}

ErrAllowed(c, roots, x) ==
  \/ IsGate(x) /\ GateIx(x) \in CyclicGates(c, roots)
  \/ IsInput(x) /\ IsUnknown(c, x) /\ VarOf(x) \in ReachUnknown(c, roots)

MapValid(c, roots, nc, map) ==
  /\ Len(map) = NG(c)
  /\ \A j \in Reach(c, roots) : ValidLit(nc, map[j])
OnlyReachable(c, roots, nc, map) ==
  \A k \in 1 .. NG(nc) : \E j \in Reach(c, roots) : VarOf(map[j]) = <<2, k - 1>>

(* truth-table comparison; requires acyclic reachable part, WellFormed(nc),
   TopoSorted(nc) and MapValid *)
MapEquivalent(c, roots, nc, map, ks) ==
  LET R == Reach(c, roots)
      it == InputTables(ks)
      old == GateTables(c, R, ks)
      new == GateTables(nc, 1 .. NG(nc), ks)
  IN  \A j \in R : LitTable(map[j], ks, it, new) = old[j]
RootsEquivalent(c, roots, nc, nroots, ks) ==
  LET it == InputTables(ks)
      old == GateTables(c, Reach(c, roots), ks)
      new == GateTables(nc, 1 .. NG(nc), ks)
  IN  \A i \in 1 .. Len(roots) :
        LitTable(nroots[i], ks, it, new) = LitTable(roots[i], ks, it, old)

GateMapConsistent(c, roots, nc, map, ks) ==
  /\ MapValid(c, roots, nc, map)
  /\ MapEquivalent(c, roots, nc, map, ks)

OkAllowed(c, roots, nc, map) ==
  LET ks == KeySeq(InputKeys(c, roots))
      nroots == [i \in 1 .. Len(roots) |-> ApplyMap(map, roots[i])]
  IN  /\ ~ReachableCycle(c, roots)
      /\ nc.n = c.n /\ WellFormed(nc) /\ TopoSorted(nc)
      /\ NF1(nc) /\ NF2(nc) /\ NF3(nc) /\ NF4(nc) /\ NF5(nc)
      /\ GateMapConsistent(c, roots, nc, map, ks)
      /\ OnlyReachable(c, roots, nc, map)
      /\ RootsEquivalent(c, roots, nc, nroots, ks)

(* an error is REQUIRED when the reachable fragment has a cycle; with a
   reachable unknown input an `ok` outcome can only satisfy OkAllowed when the
   input does not influence any reachable gate *)
ErrRequired(c, roots) == ReachableCycle(c, roots)

----------------------------------------------------------------------------
(* A reference simplifier, written directly from the documentation.  It is
   NOT used to judge the library (the library may number and order gates
   differently); the design-level model check (MC_Circuit.cfg) uses it to show
   that the contract above is satisfiable -- for every tiny circuit it yields
   an allowed outcome -- and that a circuit in normal form is not folded any
   further. *)

RECURSIVE TopoR(_, _, _, _)
TopoR(c, S, done, seq) ==
  LET ready == {j \in S \ done : GateRefs(c, j) \subseteq done}
  IN  IF ready = {} THEN seq
      ELSE LET j == CHOOSE x \in ready : \A y \in ready : x <= y
           IN  TopoR(c, S, done \cup {j}, Append(seq, j))

SubSeqAt(s, I) == LET ks == KeySeq(I) IN [p \in 1 .. Len(ks) |-> s[ks[p]]]
FirstOccurrences(s) == SubSeqAt(s, {i \in 1 .. Len(s) : \A p \in 1 .. i - 1 : s[p] # s[i]})

RefFinish(st, k, ins, neg) ==
  IF Len(ins) = 0 THEN [gates |-> st.gates, lit |-> Flip(IF k = "and" THEN TrueLit ELSE FalseLit, neg)]
  ELSE IF Len(ins) = 1 THEN [gates |-> st.gates, lit |-> Flip(ins[1], neg)]
  ELSE LET same == {e \in 1 .. Len(st.gates) : st.gates[e].k = k /\ SameInputs(st.gates[e].ins, ins)}
       IN  IF same # {} THEN [gates |-> st.gates, lit |-> Flip(GateLit(CHOOSE e \in same : TRUE), neg)]
           ELSE [gates |-> Append(st.gates, [k |-> k, ins |-> ins]),
                 lit |-> Flip(GateLit(Len(st.gates) + 1), neg)]

RefGate(st, g) ==
  LET I == 1 .. Len(g.ins)
      mapped == [i \in I |-> IF IsGate(g.ins[i]) THEN Flip(st.map[GateIx(g.ins[i])], IsNeg(g.ins[i]))
                             ELSE g.ins[i]]
  IN  IF g.k = "xor"
      THEN LET neg == Parity({i \in I : IsNeg(mapped[i])})
               pos == SelectSeq([i \in I |-> Positive(mapped[i])], LAMBDA x : x # FalseLit)
               odd == SelectSeq(FirstOccurrences(pos), LAMBDA x : Count(pos, x) % 2 = 1)
           IN  RefFinish(st, "xor", odd, neg)
      ELSE LET dom == IF g.k = "and" THEN FalseLit ELSE TrueLit
               idn == IF g.k = "and" THEN TrueLit ELSE FalseLit
               rest == FirstOccurrences(SelectSeq(mapped, LAMBDA x : x # idn))
           IN  IF (\E i \in I : mapped[i] = dom)
                  \/ (\E p, q \in 1 .. Len(rest) : rest[p] = Flip(rest[q], TRUE))
               THEN [gates |-> st.gates, lit |-> dom]
               ELSE RefFinish(st, g.k, rest, FALSE)

RECURSIVE RefFold(_, _, _, _)
RefFold(c, order, p, st) ==
  IF p > Len(order) THEN st
  ELSE LET r == RefGate(st, c.gates[order[p]])
       IN  RefFold(c, order, p + 1, [gates |-> r.gates, map |-> st.map @@ (order[p] :> r.lit)])

RefSimplify(c, roots) ==
  LET R == Reach(c, roots)
      cyc == CyclicGates(c, roots)
      unk == ReachUnknown(c, roots)
  IN  IF cyc # {} THEN [ok |-> FALSE, err |-> GateLit(CHOOSE j \in cyc : TRUE)]
      ELSE IF unk # {} THEN LET v == CHOOSE v \in unk : TRUE IN [ok |-> FALSE, err |-> <<v[1], v[2], 0>>]
      ELSE LET st == RefFold(c, TopoR(c, R, {}, <<>>), 1, [gates |-> <<>>, map |-> <<>>])
           IN  [ok |-> TRUE, c |-> [n |-> c.n, gates |-> st.gates],
                map |-> [j \in 1 .. NG(c) |-> IF j \in R THEN st.map[j] ELSE UndefLit]]

----------------------------------------------------------------------------
(* Design-level model check (spec/MC_Circuit.cfg): ALL circuits with <= MCN
   inputs (plus the first unknown input), <= 2 gates of <= 2 literals, with
   two root sets each; `Pick` computes the reference outcome.  Invariants:
     EvalIsTable     the tabular evaluator used for trace validation agrees
                     with the recursive definition Eval on every evaluable gate
     OutcomeAllowed  the reference outcome satisfies the contract (so the
                     contract is satisfiable: no correct implementation can be
                     flagged for lack of an allowed answer)
     ErrorWhenRequired
     NormalFormIsFixed  simplifying the result again folds nothing *)

MCN == IF "MC_NMAX" \in DOMAIN IOEnv THEN atoi(IOEnv.MC_NMAX) ELSE 1
MCLits(n, g) ==
  {FalseLit, TrueLit} \cup {<<1, i, s>> : i \in 0 .. n, s \in 0 .. 1}
                     \cup {<<2, j, s>> : j \in 0 .. g - 1, s \in 0 .. 1}
MCGates(n, g) == {[k |-> k, ins |-> s] : k \in Kinds, s \in UNION {[1 .. len -> MCLits(n, g)] : len \in 0 .. 2}}
MCRoots(c) == {<<GateLit(1)>>, <<Flip(GateLit(NG(c)), TRUE), GateLit(1)>>}

VARIABLE mcst
(* two phases so that TLC's workers share the work: the initial states fix
   the first gate, `Pick` adds nothing or one more gate, chooses the roots and
   computes the reference outcome *)
MCRefs(g) == {x[2] : x \in {y \in Range(g.ins) : IsGate(y)}}
MCFirst(n) == {[n |-> n, g1 |-> g] : g \in MCGates(n, 2)}
MCInit == mcst \in UNION {MCFirst(n) : n \in 0 .. MCN}
MCDone(c, r) == [c |-> c, roots |-> r, out |-> RefSimplify(c, r)]
Pick ==
  /\ "g1" \in DOMAIN mcst
  /\ \/ /\ 1 \notin MCRefs(mcst.g1)
        /\ LET c == [n |-> mcst.n, gates |-> <<mcst.g1>>]
           IN  \E r \in MCRoots(c) : mcst' = MCDone(c, r)
     \/ \E g2 \in MCGates(mcst.n, 2) :
          LET c == [n |-> mcst.n, gates |-> <<mcst.g1, g2>>]
          IN  \E r \in MCRoots(c) : mcst' = MCDone(c, r)
MCSpec == MCInit /\ [][Pick]_mcst

EvalIsTable ==
  ("out" \in DOMAIN mcst) =>
    LET c == mcst.c
        roots == mcst.roots
        R == Reach(c, roots)
        ks == KeySeq(InputKeys(c, roots))
        m == GateTables(c, R, ks)
    IN  /\ DOMAIN m = Evaluable(c, R)
        /\ \A j \in DOMAIN m : \A a \in AsgNos(ks) : m[j][a] = Eval(c, GateLit(j), AsgOf(ks, a))

OutcomeAllowed ==
  ("out" \in DOMAIN mcst) =>
    IF mcst.out.ok THEN OkAllowed(mcst.c, mcst.roots, mcst.out.c, mcst.out.map)
                        /\ ~ReachableUnknownInput(mcst.c, mcst.roots)
    ELSE ErrAllowed(mcst.c, mcst.roots, mcst.out.err)

ErrorWhenRequired ==
  ("out" \in DOMAIN mcst /\ ErrRequired(mcst.c, mcst.roots)) => ~mcst.out.ok

NormalFormIsFixed ==
  ("out" \in DOMAIN mcst /\ mcst.out.ok) =>
    LET nc == mcst.out.c
        nroots == [i \in 1 .. Len(mcst.roots) |-> ApplyMap(mcst.out.map, mcst.roots[i])]
        again == RefSimplify(nc, nroots)
        R == Reach(nc, nroots)
    IN  /\ again.ok
        /\ NG(again.c) = Cardinality(R)
        /\ \A j \in R : IsGate(again.map[j]) /\ ~IsNeg(again.map[j])
                         /\ again.c.gates[GateIx(again.map[j])].k = nc.gates[j].k
                         /\ Len(again.c.gates[GateIx(again.map[j])].ins) = Len(nc.gates[j].ins)
=============================================================================
