SPECIFICATION Spec
CONSTANTS
  Threads = {t1, t2, t3}
  Repl = {10, 11}
  MaxObjs = 4
  MaxApplies = 4
  Atomic = FALSE
  Reuse = FALSE
INVARIANTS UniqueIds ResultsRight
CHECK_DEADLOCK FALSE
