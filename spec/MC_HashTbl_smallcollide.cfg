SPECIFICATION Spec
CONSTANTS
  Key <- KeysEnv
  Val = {0}
  Tab = {1}
  Preds <- SomePreds
  ResArgs = {0, 1, 2, 5}
  InitCaps = {0, 2}
  H <- HSmallCollide
  MinCap = 4
  MaxOps <- MaxOpsEnv
VIEW View
CONSTRAINT Bound
ACTION_CONSTRAINT ExportTrans
INVARIANTS AbsOK NoHang ProbeTerminates FreeSound LoadBound LenExact KeysUnique Reachable StructOK ExportState
PROPERTY Refines
CHECK_DEADLOCK FALSE
