---------------------------- MODULE TraceCircuit ----------------------------
(***************************************************************************)
(* Trace validation for property C18 (binding V): every NDJSON event        *)
(* recorded from oxidd-parser is one step; the requirements of Circuit.tla *)
(* are evaluated by TLC on the logged arguments and results as NAMED       *)
(* OBLIGATIONS <<"C18", name, ok>>.  There is no shadow state: every       *)
(* event is self-contained (states = events).                              *)
(*                                                                         *)
(* Events                                                                  *)
(*   reset       {kind, tag}                    start of a history         *)
(*   simplify    {via, c, roots, res}           Circuit::simplify (via =   *)
(*               res = {ok: {c, map, roots}}    "circuit") or Problem::    *)
(*                   | {err: literal}           simplify (via = "problem") *)
(*                   | {panic: message, pclass: first words of message}    *)
(*   parse       {fmt, api, cls, ac, res}       one parser call            *)
(*               res = {ok: {p: projection}} | {err: class} | {panic: msg} *)
(*               cls = "valid" | "trunc" | "mut" | "gen"                   *)
(*   aiger-pair  {aag: res, aig: res}           the ASCII and the binary   *)
(*               serialisation of the same and-inverter graph              *)
(* A projection of a problem is {c, roots, det, dbg}: circuit, the root    *)
(* literals reachable through the public accessors, the accessible         *)
(* details, and the (total) Debug rendering.                               *)
(***************************************************************************)
EXTENDS Circuit, Json, IOUtils

Rec == ndJsonDeserialize(IOEnv.TRACE)
MaxFail == 100000

VARIABLES l, nf, fl
tvars == <<l, nf, fl, mcst>>   \* mcst: variable of Circuit.tla's design-level model, unused here

Act(p) == ("ACT_" \o p) \in DOMAIN IOEnv
O(p, name, ok) == IF Act(p) THEN <<p, name, ok>> ELSE <<p, name, TRUE>>
Has(r, f) == f \in DOMAIN r
P == "C18"
PI == "C18I"   \* informational observations: never a violation of C18 (see lib/chk_c18.py)

Ev(e) == l <= Len(Rec) /\ nf < MaxFail /\ Rec[l].ev = e

FailNames(obs) ==
  LET bad == SelectSeq(obs, LAMBDA o : ~o[3])
  IN  [i \in 1 .. Len(bad) |-> <<bad[i][1], bad[i][2]>>]
Step(obs) ==
  /\ l' = l + 1
  /\ fl' = FailNames(obs)
  /\ nf' = nf + (IF fl' = <<>> THEN 0 ELSE 1)
  /\ (fl' # <<>>) => PrintT(<<"OBL_FAIL", l, fl'>>)
  /\ UNCHANGED mcst

----------------------------------------------------------------------------
(* shape of logged data (a malformed log is a harness error, reported under
   its own name so that it is never mistaken for a property violation) *)

LitShape(x) == /\ Len(x) = 3 /\ x[1] \in 0 .. 3 /\ x[3] \in 0 .. 1 /\ x[2] >= 0
               /\ (x[1] \in {0, 3} => x[2] = 0)
CircuitShape(c) ==
  /\ c.n >= 0
  /\ \A j \in 1 .. NG(c) : c.gates[j].k \in Kinds /\ \A x \in Range(Ins(c, j)) : LitShape(x)

(* literals of a result: anything but a dangling gate number / UNDEF *)
LooseValid(c, x) == IsConst(x) \/ x[1] = 1 \/ (IsGate(x) /\ GateIx(x) \in 1 .. NG(c))

----------------------------------------------------------------------------
(* simplify *)

SimplifyOkObs(c, roots, k) ==
  LET nc == k.c
      map == k.map
      R == Reach(c, roots)
      cyc == ReachableCycle(c, roots)
      shape == CircuitShape(nc) /\ \A j \in 1 .. Len(map) : LitShape(map[j])
      wf == shape /\ \A x \in AllLits(nc) : LooseValid(nc, x)
      mapv == shape /\ Len(map) = NG(c) /\ \A j \in R : LooseValid(nc, map[j])
      \* unknown inputs that survived into the result
      resLits == IF shape THEN AllLits(nc) \cup {map[j] : j \in R \cap (1 .. Len(map))} ELSE {}
      survivors == {x \in resLits : x[1] = 1 /\ x[2] >= c.n}
      topo == wf /\ TopoSorted(nc)
      keys == InputKeys(c, roots)
      covered == \A x \in resLits : IsInput(x) => InputNo(x) \in keys
      evalOk == ~cyc /\ wf /\ mapv /\ topo /\ covered
      ks == KeySeq(keys)
      it == InputTables(ks)
      old == IF evalOk THEN GateTables(c, R, ks) ELSE <<>>
      new == IF evalOk THEN GateTables(nc, 1 .. NG(nc), ks) ELSE <<>>
      nroots == [i \in 1 .. Len(roots) |-> ApplyMap(map, roots[i])]
  IN << O(P, "simplify.missed_error.cycle", ~cyc),
        O(P, "simplify.missed_error.unknown", survivors = {}),
        O(P, "simplify.wf", wf),
        O(P, "simplify.inputs", nc.n = c.n),
        O(P, "simplify.topo", wf => topo),
        O(P, "simplify.nf1", shape => NF1(nc)),
        O(P, "simplify.nf2", shape => NF2(nc)),
        O(P, "simplify.nf3", shape => NF3(nc)),
        O(P, "simplify.nf4", shape => NF4(nc)),
        O(P, "simplify.nf5", shape => NF5(nc)),
        O(P, "simplify.gatemap",
             mapv /\ (evalOk => \A j \in R : LitTable(map[j], ks, it, new) = old[j])),
        O(P, "simplify.reach", mapv => OnlyReachable(c, roots, nc, map)),
        O(P, "simplify.roots", shape => k.roots = nroots),
        O(P, "simplify.equiv",
             evalOk => \A i \in 1 .. Len(roots) :
                          LitTable(nroots[i], ks, it, new) = LitTable(roots[i], ks, it, old)),
        \* tolerated by the contract (see Circuit.tla), counted for the report
        O(PI, "simplify.info.masked_unknown", survivors # {} \/ ~ReachableUnknownInput(c, roots)),
        O(PI, "simplify.info.unknown_root", \A i \in 1 .. Len(roots) : ~IsUnknown(c, roots[i])) >>

SimplifyErrObs(c, roots, x) ==
  IF ~LitShape(x) THEN << O(P, "harness.shape", FALSE) >>
  ELSE << O(P, "simplify.err.kind", ~IsConst(x)),
          O(P, "simplify.err.cycle", IsGate(x) => GateIx(x) \in CyclicGates(c, roots)),
          O(P, "simplify.err.unknown",
               IsInput(x) => (IsUnknown(c, x) /\ VarOf(x) \in ReachUnknown(c, roots))) >>

PClass(res) == IF Has(res, "pclass") THEN res.pclass ELSE "panic"

SimplifyObs(r) ==
  IF ~(CircuitShape(r.c) /\ (\A i \in 1 .. Len(r.roots) : LitShape(r.roots[i]))
       /\ RefsInRange(r.c, r.roots))
  \* a malformed problem returned by a parser is reported at its parse event
  \* (parse.wf); a malformed circuit built by a driver is a harness error
  THEN IF r.via = "problem" THEN <<>> ELSE << O(P, "harness.domain", FALSE) >>
  ELSE IF Has(r.res, "panic") THEN << O(P, "simplify.panic:" \o PClass(r.res), FALSE) >>
  ELSE IF Has(r.res, "err") THEN SimplifyErrObs(r.c, r.roots, r.res.err)
  ELSE SimplifyOkObs(r.c, r.roots, r.res.ok)

TrSimplify == Ev("simplify") /\ Step(SimplifyObs(Rec[l]))

----------------------------------------------------------------------------
(* parsers: "return a problem or a diagnostic for arbitrary input bytes
   without panicking"; a returned problem is a well-formed circuit over its
   own inputs (and acyclic when the acyclicity check was requested); an
   input that is a member of the format is accepted *)

ProblemWF(p, ac) ==
  /\ CircuitShape(p.c) /\ \A i \in 1 .. Len(p.roots) : LitShape(p.roots[i])
  /\ WellFormed(p.c)
  /\ \A i \in 1 .. Len(p.roots) : ValidLit(p.c, p.roots[i])
  /\ ac => \A j \in 1 .. NG(p.c) : ~OnCycle(p.c, j)

Suffix(r) == r.fmt \o (IF r.api = "parse" THEN "" ELSE ":" \o r.api)

ParseObs(r) ==
  IF Has(r.res, "panic") THEN << O(P, "parse.panic:" \o Suffix(r) \o ":" \o PClass(r.res), FALSE) >>
  \* rejecting a member of the format is not a violation of C18 as stated
  \* ("a problem or a diagnostic"): informational
  ELSE IF Has(r.res, "err") THEN << O(PI, "parse.valid_rejected:" \o Suffix(r), r.cls # "valid") >>
  ELSE IF Has(r.res.ok, "p") THEN << O(P, "parse.wf:" \o Suffix(r), ProblemWF(r.res.ok.p, r.ac = 1)) >>
  ELSE <<>>

TrParse == Ev("parse") /\ Step(ParseObs(Rec[l]))

PairObs(r) ==
  LET bothOk == Has(r.aag, "ok") /\ Has(r.aig, "ok") IN
  << O(P, "parse.panic:aiger:pair", ~Has(r.aag, "panic") /\ ~Has(r.aig, "panic")),
     O(P, "aiger.pair.ok", (Has(r.aag, "err") \/ Has(r.aig, "err")) => FALSE),
     O(P, "aiger.pair.equal", bothOk => r.aag.ok.p = r.aig.ok.p) >>

TrPair == Ev("aiger-pair") /\ Step(PairObs(Rec[l]))

TrReset == Ev("reset") /\ Step(<<>>)

----------------------------------------------------------------------------
TrInit == l = 1 /\ nf = 0 /\ fl = <<>> /\ mcst = <<>>
TrNext == TrReset \/ TrSimplify \/ TrParse \/ TrPair
TrSpec == TrInit /\ [][TrNext]_tvars

(* acceptance: every event consumed *)
Done ==
  LET d == TLCGet("stats").diameter
  IN  /\ PrintT(<<"TRACE_DONE", d - 1, Len(Rec)>>)
      /\ TRUE
=============================================================================
