SPECIFICATION Spec
CONSTANTS
  N = 5
  Workers = {w1, w2, w3}
INVARIANTS NoOverlap SwapsAreInversions SortedAtEnd NoStuck IsPermutation
CHECK_DEADLOCK TRUE
