----------------------------- MODULE LevelSwap -----------------------------
(***************************************************************************)
(* oxidd_reorder::level_swap (crates/oxidd-reorder/src/lib.rs), the one    *)
(* primitive every reordering is made of (properties C08, C01, C03, C05):  *)
(* the adjacent levels U and U+1 of a stored diagram are exchanged in      *)
(* place.  Nodes of the old upper level that do not depend on the lower    *)
(* variable move down unchanged; the others keep their identity (handles   *)
(* and parents keep pointing to them) and get new children built from the  *)
(* grand-cofactors through the diagram rules.                              *)
(*                                                                         *)
(* The module is a transcription: one step per node of the old upper       *)
(* level, taken in ANY order (the code iterates over a hash table), with   *)
(* the look-ups in the old upper and the new lower table, the reference    *)
(* counting and the removal of children that lost their last parent.       *)
(* Initial states: the canonical store of every set of up to MaxLive live  *)
(* functions (plus MaxDead dead ones) over NV variables.  Checked: every   *)
(* handle denotes the same function under the new order, the store is      *)
(* again ordered, reduced and duplicate free, every node is listed in the  *)
(* table of its level, reference counts are exact.                         *)
(*                                                                         *)
(* Kind = "bdd" | "zbdd" (no complement edges).  Variant # "code" switches *)
(* to a defective variant (non-vacuity checks):                            *)
(*   "no_old_upper_lookup"  a new child is only looked up in the new lower *)
(*                          table (seeded change C01-swap-oldupper)        *)
(*   "bdd_skip_rule"        a child that skips the lower level has the     *)
(*                          cofactors (c, c) also for ZBDDs (repaired      *)
(*                          defect 9c6acaa)                                *)
(***************************************************************************)
EXTENDS DDSem, IOUtils

CONSTANTS NV, Kind, U, MaxLive, MaxDead, MaxNodes, Variant

ASSUME U \in 0 .. NV - 2

AllA == Asg(NV)
AllKeys == 0 .. (2^(2^NV) - 1)
SomeKeys == {0, 1, 6, 23, 24, 27, 30, 43, 77, 85, 105, 120, 128, 150, 160, 170, 178, 202, 204, 232, 240, 254, 255}
(* truth tables (as integers, bit a = value under assignment a) to choose the
   functions from: environment LS_MODE = "all" takes every function; the
   first function then comes from the residue class LS_SHARD modulo LS_SHARDS
   (several TLC runs share the work) *)
EnvHas(x) == x \in DOMAIN IOEnv
AllMode == EnvHas("LS_MODE") /\ IOEnv.LS_MODE = "all"
Shards == IF EnvHas("LS_SHARDS") THEN atoi(IOEnv.LS_SHARDS) ELSE 1
Shard == IF EnvHas("LS_SHARD") THEN atoi(IOEnv.LS_SHARD) ELSE 0
FuncKeys1 == IF AllMode THEN {k \in AllKeys : k % Shards = Shard} ELSE SomeKeys
FuncKeys == IF AllMode THEN AllKeys ELSE SomeKeys
T0 == -1     \* False / Empty
T1 == -2     \* True  / Base
Ids == 1 .. MaxNodes

VARIABLES used, lvl, hi, lo, rc,    \* node store
          upperT, lowerT,           \* unique tables of the (new) upper / lower level
          otherT,                   \* table of the remaining level(s): level -> set of ids
          oldUpper, todo,           \* the taken table of the old upper level; nodes still to visit
          roots,                    \* live handles: function -> id
          phase                     \* "swap" | "done"
vars == <<used, lvl, hi, lo, rc, upperT, lowerT, otherT, oldUpper, todo, roots, phase>>

----------------------------------------------------------------------------
(* canonical diagrams under the identity order (level l <-> variable l) *)
IsTermFn(g) == IF Kind = "zbdd" THEN g = {} \/ g = {0} ELSE g = {} \/ g = AllA
TermOf(g) == IF g = {} THEN T0 ELSE T1
TopLevel(g) ==
  IF Kind = "zbdd"
  THEN CHOOSE l \in 0 .. NV - 1 : (\E a \in g : Bit(a, l)) /\ \A k \in 0 .. l - 1 : \A a \in g : ~Bit(a, k)
  ELSE CHOOSE l \in 0 .. NV - 1 : Depends(NV, g, l) /\ \A k \in 0 .. l - 1 : ~Depends(NV, g, k)
HiFn(g) == IF Kind = "zbdd" THEN Subset1(g, TopLevel(g)) ELSE Cof(NV, g, TopLevel(g), TRUE)
LoFn(g) == IF Kind = "zbdd" THEN Subset0(g, TopLevel(g)) ELSE Cof(NV, g, TopLevel(g), FALSE)

RECURSIVE SubFns(_)
SubFns(g) == IF IsTermFn(g) THEN {} ELSE {g} \cup SubFns(HiFn(g)) \cup SubFns(LoFn(g))

RECURSIVE KeyOf(_)
KeyOf(g) == IF g = {} THEN 0 ELSE LET a == CHOOSE x \in g : TRUE IN 2^a + KeyOf(g \ {a})
FnOfKey(k) == {a \in AllA : Bit(k, a)}
(* the functions of S in the order of their keys *)
RECURSIVE SortKeys(_)
SortKeys(K) == IF K = {} THEN <<>>
               ELSE LET m == CHOOSE x \in K : \A y \in K : x <= y IN <<m>> \o SortKeys(K \ {m})

----------------------------------------------------------------------------
(* semantics of a stored edge under a level -> variable map *)
RECURSIVE SemOf(_, _, _, _, _)
SemOf(L, H, Lw, ord, e) ==
  IF e = T0 THEN {}
  ELSE IF e = T1 THEN (IF Kind = "zbdd" THEN {0} ELSE AllA)
  ELSE LET v == ord[L[e]]
           sh == SemOf(L, H, Lw, ord, H[e])
           sl == SemOf(L, H, Lw, ord, Lw[e])
       IN  IF Kind = "zbdd" THEN MakeNode(v, sh, sl)
           ELSE {a \in AllA : IF Bit(a, v) THEN a \in sh ELSE a \in sl}

LevelOf(L, e) == IF e > 0 THEN L[e] ELSE 99

----------------------------------------------------------------------------
(* TLC does not cache LET definitions: every intermediate value is passed
   on as an operator argument (evaluated once) *)
IdOf(fns, g) == IF IsTermFn(g) THEN TermOf(g) ELSE CHOOSE i \in 1 .. Len(fns) : fns[i] = g

Init4(live, fns, lv, hiE, loE, rootIds) ==
  LET n == Len(fns) IN
  /\ n + 2 * Cardinality({i \in 1 .. n : lv[i] = U}) <= MaxNodes
  /\ used = [i \in Ids |-> i <= n]
  /\ lvl = [i \in Ids |-> IF i <= n THEN lv[i] ELSE 0]
  /\ hi = [i \in Ids |-> IF i <= n THEN hiE[i] ELSE T0]
  /\ lo = [i \in Ids |-> IF i <= n THEN loE[i] ELSE T0]
  /\ roots = [g \in live |-> IdOf(fns, g)]
  /\ rc = [i \in Ids |-> IF i <= n
                         THEN 1 + Cardinality({j \in 1 .. n : hiE[j] = i}) + Cardinality({j \in 1 .. n : loE[j] = i})
                                + (IF i \in rootIds THEN 1 ELSE 0)
                         ELSE 0]
  \* upper.swap(&mut lower); old_upper = take(&mut lower)
  /\ upperT = {i \in 1 .. n : lv[i] = U + 1}
  /\ lowerT = {}
  /\ otherT = [l \in (0 .. NV - 1) \ {U, U + 1} |-> {i \in 1 .. n : lv[i] = l}]
  /\ oldUpper = {i \in 1 .. n : lv[i] = U}
  /\ todo = {i \in 1 .. n : lv[i] = U}
  /\ phase = "swap"

Init3(live, fns) ==
  Init4(live, fns,
        [i \in 1 .. Len(fns) |-> TopLevel(fns[i])],
        [i \in 1 .. Len(fns) |-> IdOf(fns, HiFn(fns[i]))],
        [i \in 1 .. Len(fns) |-> IdOf(fns, LoFn(fns[i]))],
        {IdOf(fns, g) : g \in live})
Init2(live, ks) == Init3(live, [i \in 1 .. Len(ks) |-> FnOfKey(ks[i])])
Init1(live, all) == Init2({g \in live : ~IsTermFn(g)}, SortKeys({KeyOf(g) : g \in UNION {SubFns(x) : x \in all}}))

Init ==
  \E k1 \in FuncKeys1 : \E k2 \in (IF MaxLive >= 2 THEN {x \in FuncKeys : k1 <= x} ELSE {k1}) :
  \E kd \in (IF MaxDead >= 1 THEN FuncKeys ELSE {0}) :
    Init1({FnOfKey(k1), FnOfKey(k2)}, {FnOfKey(k1), FnOfKey(k2), FnOfKey(kd)})

----------------------------------------------------------------------------
(* the store as a record, for the sequential updates inside one step *)
St == [used |-> used, lvl |-> lvl, hi |-> hi, lo |-> lo, rc |-> rc, lowerT |-> lowerT, upperT |-> upperT]

Retain(st, e) == IF e > 0 THEN [st EXCEPT !.rc[e] = @ + 1] ELSE st
Release(st, e) == IF e > 0 THEN [st EXCEPT !.rc[e] = @ - 1] ELSE st

(* DiagramRules::reduce for a node (level U_pre, children t, e): the result
   edge (owned, counted) and the store afterwards.  t and e are owned edges
   handed over by the caller. *)
MakeChild(st, t, e) ==
  IF (Kind = "bdd" /\ t = e) THEN [st |-> Release(st, e), edge |-> t]         \* Reduced: one of the two copies is dropped
  ELSE IF (Kind = "zbdd" /\ t = T0) THEN [st |-> st, edge |-> e]
  ELSE
    LET inOld == {n \in oldUpper : st.used[n] /\ st.lvl[n] = U /\ st.hi[n] = t /\ st.lo[n] = e}
        inLow == {n \in st.lowerT : st.used[n] /\ st.lvl[n] = U /\ st.hi[n] = t /\ st.lo[n] = e}
    IN
    IF Variant # "no_old_upper_lookup" /\ inOld # {}
    THEN \* old_upper.get(&node): drop the new node (its children), clone the existing one
         LET n == CHOOSE x \in inOld : TRUE
         IN  [st |-> Retain(Release(Release(st, t), e), n), edge |-> n]
    ELSE IF inLow # {}
    THEN LET n == CHOOSE x \in inLow : TRUE
         IN  [st |-> Retain(Release(Release(st, t), e), n), edge |-> n]
    ELSE \* get_or_insert_unchecked: a new node in the new lower table
         LET n == CHOOSE x \in Ids : ~st.used[x]
         IN  [st |-> [st EXCEPT !.used[n] = TRUE, !.lvl[n] = U, !.hi[n] = t, !.lo[n] = e,
                                !.rc[n] = 2, !.lowerT = @ \cup {n}],
              edge |-> n]

(* the old child of the rewritten node is released; a node of the old lower
   level that lost its last parent is removed from its table and freed *)
DropOldChild(st, c) ==
  IF c > 0 /\ st.lvl[c] = U + 1 /\ st.rc[c] - 1 = 1
  THEN LET s1 == [st EXCEPT !.rc[c] = 0, !.used[c] = FALSE, !.upperT = @ \ {c}]
       IN  Release(Release(s1, st.hi[c]), st.lo[c])
  ELSE Release(st, c)

(* the rewrite of node e (children ch1, ch2 with grand-cofactor pairs g1, g2),
   written as a chain of operators so that every intermediate store is
   evaluated once *)
Rw4(e, s7) ==
  /\ used' = s7.used /\ lvl' = s7.lvl /\ hi' = s7.hi /\ lo' = s7.lo /\ rc' = s7.rc
  /\ lowerT' = s7.lowerT /\ upperT' = s7.upperT
Rw3(e, ch2, a2edge, s4) ==
  \* set_child(1), the old child is dropped; the node stays at the (new) upper level
  Rw4(e, [DropOldChild([s4 EXCEPT !.lo[e] = a2edge], ch2) EXCEPT !.lvl[e] = U + 1, !.upperT = @ \cup {e}])
Rw2(e, ch1, ch2, a1edge, a2) ==
  \* set_child(0), then the old child is dropped
  Rw3(e, ch2, a2.edge, DropOldChild([a2.st EXCEPT !.hi[e] = a1edge], ch1))
Rw1(e, ch1, ch2, g1, g2, a1) ==
  Rw2(e, ch1, ch2, a1.edge, MakeChild(Retain(Retain(a1.st, g1[2]), g2[2]), g1[2], g2[2]))
(* new child i = reduce(level U_pre, (g1[i], g2[i])), every grandchild edge cloned first *)
Rewrite(e, ch1, ch2, g1, g2) ==
  Rw1(e, ch1, ch2, g1, g2, MakeChild(Retain(Retain(St, g1[1]), g2[1]), g1[1], g2[1]))

Step(e) ==
  /\ phase = "swap" /\ e \in todo
  /\ LET ch1 == hi[e]  ch2 == lo[e]
         atLower(c) == c > 0 /\ lvl[c] = U + 1
     IN
     IF ~atLower(ch1) /\ ~atLower(ch2)
     THEN \* all children are below the lower level: the node moves down as it is
          /\ lowerT' = lowerT \cup {e}
          /\ UNCHANGED <<used, lvl, hi, lo, rc, upperT>>
     ELSE LET gcof(c) == IF atLower(c) THEN <<hi[c], lo[c]>>
                         ELSE IF Kind = "zbdd" /\ Variant # "bdd_skip_rule" THEN <<T0, c>>
                         ELSE <<c, c>>
              g1 == gcof(ch1)  g2 == gcof(ch2)
          IN  Rewrite(e, ch1, ch2, g1, g2)
  /\ todo' = todo \ {e}
  /\ UNCHANGED <<otherT, oldUpper, roots, phase>>

(* the caller writes the new level numbers (update_level_no) *)
Finish ==
  /\ phase = "swap" /\ todo = {}
  /\ lvl' = [i \in Ids |-> IF i \in upperT THEN U ELSE IF i \in lowerT THEN U + 1 ELSE lvl[i]]
  /\ phase' = "done"
  /\ UNCHANGED <<used, hi, lo, rc, upperT, lowerT, otherT, oldUpper, todo, roots>>

Next == (\E e \in todo : Step(e)) \/ Finish \/ (phase = "done" /\ UNCHANGED vars)
Spec == Init /\ [][Next]_vars

----------------------------------------------------------------------------
NewOrd == [l \in 0 .. NV - 1 |-> IF l = U THEN U + 1 ELSE IF l = U + 1 THEN U ELSE l]
TableOf(l) == IF l = U THEN upperT ELSE IF l = U + 1 THEN lowerT ELSE otherT[l]
UsedIds == {i \in Ids : used[i]}

(* C08: every handle denotes the same function under the new order *)
SemPreserved ==
  phase = "done" => \A g \in DOMAIN roots : SemOf(lvl, hi, lo, NewOrd, roots[g]) = g
(* C03 / C01: ordered, reduced, duplicate free, every node in its level's table *)
WellFormed ==
  phase = "done" =>
    /\ \A i \in UsedIds :
         /\ LevelOf(lvl, hi[i]) > lvl[i] /\ LevelOf(lvl, lo[i]) > lvl[i]
         /\ (hi[i] > 0 => used[hi[i]]) /\ (lo[i] > 0 => used[lo[i]])
         /\ IF Kind = "zbdd" THEN hi[i] # T0 ELSE hi[i] # lo[i]
         /\ i \in TableOf(lvl[i])
    /\ \A l \in 0 .. NV - 1 : \A i \in TableOf(l) : used[i] /\ lvl[i] = l
    /\ \A i, j \in UsedIds : i # j => <<lvl[i], hi[i], lo[i]>> # <<lvl[j], hi[j], lo[j]>>
(* C05: exact reference counts *)
RcExact ==
  phase = "done" =>
    \A i \in UsedIds :
      rc[i] = 1 + Cardinality({j \in UsedIds : hi[j] = i}) + Cardinality({j \in UsedIds : lo[j] = i})
                + Cardinality({g \in DOMAIN roots : roots[g] = i})
(* no step ever frees a node that something still refers to *)
NoDangling ==
  /\ \A g \in DOMAIN roots : used[roots[g]]
  /\ \A i \in UsedIds : (hi[i] > 0 => used[hi[i]]) /\ (lo[i] > 0 => used[lo[i]])
=============================================================================
