------------------------------ MODULE SlotAlloc ------------------------------
(***************************************************************************)
(* Node slot allocation of oxidd-manager-index (manager.rs: add_node,      *)
(* get_slot_from_shared, free_slot, LocalStoreStateGuard::drop and the     *)
(* hand-back at the end of a background collection); properties C05 (full  *)
(* capacity available again), C14 (retry after drop + gc), C07.            *)
(*                                                                         *)
(* Slots are "uninit", hold a node, or are free and then carry the link    *)
(* next_free.  Free slots form singly linked lists.  The SHARED state      *)
(* (under one mutex) holds a stack of list heads and the index `allocated` *)
(* below which every slot has been handed out; slots are handed out in     *)
(* chunks of CH.  Every thread has a LOCAL state: the head of its own free *)
(* list, the index `initialized` into its current chunk, and a delta of    *)
(* the node count.  Application threads own a local state only for the     *)
(* duration of a manager session (with_manager_*: a guard whose drop hands *)
(* everything back); pool workers and the collector thread are dedicated   *)
(* to the store for ever.                                                  *)
(*                                                                         *)
(* One action per critical section / thread-local step.  Which nodes die   *)
(* and when is left open: any thread inside a session (gc() is called from *)
(* application threads) or the collector may free any node slot.           *)
(***************************************************************************)
EXTENDS Integers, Sequences, FiniteSets, TLC

CONSTANTS S,          \* number of slots (0 .. S-1)
          CH,         \* chunk size
          Apps,       \* application threads (sessions)
          Dedicated,  \* pool workers / collector thread (always attached)
          Collectors, \* the dedicated threads that hand their list back (the collector thread)
          MaxSteps,   \* bound on allocations + frees (state space)
          GuardVariant \* "code" | "no_next_free_check" (seed C05-localstate-leak) | "keep_head" (seed C07-bggc-stale-head)

Threads == Apps \cup Dedicated
Slots == 0 .. S - 1
NoSlot == -1              \* the code uses id 0 (a terminal) for "none"

VARIABLES st,        \* slot -> "uninit" | "node" | "free"
          link,      \* slot -> next free slot or NoSlot (meaningful for free slots and prepared chunk slots)
          lists,     \* shared: sequence (stack) of list heads
          allocated, \* shared: all slots below have been handed out
          count,     \* shared: eventually consistent node count
          head,      \* thread -> head of the local free list or NoSlot
          init,      \* thread -> index of the next slot of the local chunk (multiple of CH: none)
          delta,     \* thread -> local change of the node count
          attached,  \* thread -> has a local state for this store
          ooms,      \* allocation failures so far (each leaves the shared count one too high)
          steps

vars == <<st, link, lists, allocated, count, head, init, delta, attached, ooms, steps>>

Init ==
  /\ st = [s \in Slots |-> "uninit"] /\ link = [s \in Slots |-> NoSlot]
  /\ lists = <<>> /\ allocated = 0 /\ count = 0
  /\ head = [t \in Threads |-> NoSlot] /\ init = [t \in Threads |-> 0]
  /\ delta = [t \in Threads |-> 0]
  /\ attached = [t \in Threads |-> t \in Dedicated]
  /\ ooms = 0 /\ steps = 0

NextMultiple(i) == (i \div CH + 1) * CH

----------------------------------------------------------------------------
(* with_manager_shared / exclusive on an application thread: prepare_local_state *)
SessionBegin(t) ==
  /\ t \in Apps /\ ~attached[t]
  /\ attached' = [attached EXCEPT ![t] = TRUE]
  /\ head' = [head EXCEPT ![t] = NoSlot] /\ init' = [init EXCEPT ![t] = 0]
  /\ UNCHANGED <<st, link, lists, allocated, count, delta, ooms, steps>>

(* add_node: local free list, then the local chunk, then the shared state *)
AddNode(t) ==
  /\ attached[t] /\ steps < MaxSteps
  /\ steps' = steps + 1
  /\ UNCHANGED attached
  /\ IF head[t] # NoSlot
     THEN \* use_free_slot
          /\ st' = [st EXCEPT ![head[t]] = "node"]
          /\ head' = [head EXCEPT ![t] = link[head[t]]]
          /\ delta' = [delta EXCEPT ![t] = @ + 1]
          /\ UNCHANGED <<link, lists, allocated, count, init>>
     ELSE IF init[t] % CH # 0
     THEN /\ st' = [st EXCEPT ![init[t]] = "node"]
          /\ init' = [init EXCEPT ![t] = @ + 1]
          /\ delta' = [delta EXCEPT ![t] = @ + 1]
          /\ UNCHANGED <<link, lists, allocated, count, head>>
     ELSE \* get_slot_from_shared (one critical section); the local delta (+1) is flushed
          /\ count' = count + delta[t] + 1
          /\ delta' = [delta EXCEPT ![t] = 0]
          /\ IF lists # <<>>
             THEN LET id == lists[Len(lists)] IN
                  /\ lists' = SubSeq(lists, 1, Len(lists) - 1)
                  /\ st' = [st EXCEPT ![id] = "node"]
                  /\ head' = [head EXCEPT ![t] = link[id]]     \* the whole rest of the list becomes local
                  /\ UNCHANGED <<link, allocated, init>>
             ELSE IF allocated + CH < S
             THEN /\ st' = [st EXCEPT ![allocated] = "node"]
                  /\ init' = [init EXCEPT ![t] = allocated + 1]
                  /\ allocated' = NextMultiple(allocated)
                  /\ UNCHANGED <<link, lists, head>>
             ELSE IF allocated < S
             THEN /\ st' = [st EXCEPT ![allocated] = "node"]
                  /\ allocated' = allocated + 1
                  /\ UNCHANGED <<link, lists, head, init>>
             ELSE \* out of memory (the count was already changed: the code does that, too)
                  UNCHANGED <<st, link, lists, allocated, head, init>>
  /\ ooms' = IF head[t] = NoSlot /\ init[t] % CH = 0 /\ lists = <<>> /\ allocated >= S THEN ooms + 1 ELSE ooms

(* free_slot on an attached thread (a collection runs on it) *)
FreeSlot(t, s) ==
  /\ attached[t] /\ st[s] = "node" /\ steps < MaxSteps
  /\ steps' = steps + 1
  /\ st' = [st EXCEPT ![s] = "free"]
  /\ link' = [link EXCEPT ![s] = head[t]]
  /\ IF delta[t] - 1 > -CH
     THEN /\ head' = [head EXCEPT ![t] = s]
          /\ delta' = [delta EXCEPT ![t] = @ - 1]
          /\ UNCHANGED <<lists, count>>
     ELSE \* flush: the local list goes to the shared state
          /\ lists' = Append(lists, s)
          /\ head' = [head EXCEPT ![t] = NoSlot]
          /\ count' = count + delta[t] - 1
          /\ delta' = [delta EXCEPT ![t] = 0]
  /\ UNCHANGED <<allocated, init, attached, ooms>>

(* LocalStoreStateGuard::drop at the end of a session *)
SessionEnd(t) ==
  /\ t \in Apps /\ attached[t]
  /\ attached' = [attached EXCEPT ![t] = FALSE]
  /\ LET needed == (GuardVariant # "no_next_free_check" /\ head[t] # NoSlot)
                   \/ init[t] % CH # 0 \/ delta[t] # 0
     IN
     IF needed
     THEN \* return_preallocated: the rest of the chunk is prepended to the local list
          LET start == init[t]
              end == NextMultiple(start)
              chunk == IF start % CH # 0 THEN start .. end - 1 ELSE {}
              first == IF chunk # {} THEN start ELSE head[t]
          IN
          /\ st' = [s \in Slots |-> IF s \in chunk THEN "free" ELSE st[s]]
          /\ link' = [s \in Slots |-> IF s \in chunk
                                      THEN (IF s = end - 1 THEN head[t] ELSE s + 1)
                                      ELSE link[s]]
          /\ lists' = IF first # NoSlot THEN Append(lists, first) ELSE lists
          /\ count' = count + delta[t]
          /\ delta' = [delta EXCEPT ![t] = 0]
          /\ head' = [head EXCEPT ![t] = NoSlot] /\ init' = [init EXCEPT ![t] = 0]
     ELSE UNCHANGED <<st, link, lists, count, delta, head, init>>
  /\ UNCHANGED <<allocated, ooms, steps>>

(* the collector thread after a background collection *)
HandBack(t) ==
  /\ t \in Collectors /\ head[t] # NoSlot
  /\ lists' = Append(lists, head[t])
  /\ count' = count + delta[t]
  /\ delta' = [delta EXCEPT ![t] = 0]
  /\ head' = IF GuardVariant = "keep_head" THEN head ELSE [head EXCEPT ![t] = NoSlot]
  /\ UNCHANGED <<st, link, allocated, init, attached, ooms, steps>>

Next ==
  \/ \E t \in Threads : SessionBegin(t) \/ AddNode(t) \/ SessionEnd(t) \/ HandBack(t)
  \/ \E t \in Threads : \E s \in Slots : FreeSlot(t, s)

Spec == Init /\ [][Next]_vars

----------------------------------------------------------------------------
(* the slots of the list starting at h (bounded walk: a cycle shows up as a repetition) *)
RECURSIVE Walk(_, _, _)
Walk(h, acc, n) == IF h = NoSlot \/ n = 0 THEN acc ELSE Walk(link[h], Append(acc, h), n - 1)
ListOf(h) == Walk(h, <<>>, S + 1)
SeqSet(q) == {q[i] : i \in 1 .. Len(q)}
NoRepeat(q) == Cardinality(SeqSet(q)) = Len(q)

SharedIdx == 1 .. Len(lists)
LocalT == {t \in Threads : head[t] # NoSlot}
Nodes == {s \in Slots : st[s] = "node"}
ChunkOf(t) == IF attached[t] /\ init[t] % CH # 0 THEN init[t] .. NextMultiple(init[t]) - 1 ELSE {}

TypeOK ==
  /\ allocated \in 0 .. S
  /\ \A t \in Threads : head[t] \in Slots \cup {NoSlot} /\ init[t] \in 0 .. S

(* every free list is acyclic and holds free slots only *)
FreeListsSound ==
  /\ \A i \in SharedIdx : NoRepeat(ListOf(lists[i])) /\ \A s \in SeqSet(ListOf(lists[i])) : st[s] = "free"
  /\ \A t \in LocalT : NoRepeat(ListOf(head[t])) /\ \A s \in SeqSet(ListOf(head[t])) : st[s] = "free"
(* no slot is in two lists: nobody else can hand out a slot that a thread is about to use *)
Disjoint ==
  /\ \A i, j \in SharedIdx : i # j => SeqSet(ListOf(lists[i])) \cap SeqSet(ListOf(lists[j])) = {}
  /\ \A t, u \in LocalT : t # u => SeqSet(ListOf(head[t])) \cap SeqSet(ListOf(head[u])) = {}
  /\ \A i \in SharedIdx : \A t \in LocalT : SeqSet(ListOf(lists[i])) \cap SeqSet(ListOf(head[t])) = {}
(* the rest of a thread's chunk is untouched and below `allocated` *)
ChunksOwned ==
  /\ \A t \in Threads : \A s \in ChunkOf(t) : st[s] = "uninit" /\ s < allocated
  /\ \A t, u \in Threads : t # u => ChunkOf(t) \cap ChunkOf(u) = {}
  /\ \A s \in Slots : s >= allocated => st[s] = "uninit"

InLists == UNION {SeqSet(ListOf(lists[i])) : i \in SharedIdx}
(* C05 / C14: when no session is open and the collector has handed its list
   back, every slot that holds no node can be handed out again, and the
   shared node count is exact *)
Quiescent == (\A t \in Apps : ~attached[t]) /\ (\A t \in Collectors : head[t] = NoSlot /\ delta[t] = 0)
CapacityRestored ==
  Quiescent => Cardinality(Nodes) + Cardinality(InLists) + (S - allocated)
                 + Cardinality(UNION {ChunkOf(t) : t \in Dedicated}) = S
(* the shared count is exact up to one per failed allocation (get_slot_from_shared
   adds the node before it finds out that there is no slot; the count only
   feeds approx_num_inner_nodes() and the trigger of the background collector) *)
CountExact ==
  (Quiescent /\ \A t \in Dedicated : delta[t] = 0) => count = Cardinality(Nodes) + ooms
=============================================================================
