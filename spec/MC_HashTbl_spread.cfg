SPECIFICATION Spec
CONSTANTS
  Key <- KeysEnv
  Val = {0}
  Tab = {1}
  Preds <- SomePreds
  ResArgs = {0, 1, 3, 20}
  InitCaps = {0, 3}
  H <- HSpread
  MinCap = 16
  MaxOps <- MaxOpsEnv
VIEW View
CONSTRAINT Bound
ACTION_CONSTRAINT ExportTrans
INVARIANTS AbsOK NoHang ProbeTerminates FreeSound LoadBound LenExact KeysUnique Reachable StructOK ExportState
PROPERTY Refines
CHECK_DEADLOCK FALSE
