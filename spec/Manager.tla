------------------------------ MODULE Manager ------------------------------
(***************************************************************************)
(* The abstract manager (level A): what a user of the OxiDD API can        *)
(* observe.  State: the variable order, the handle table (slot -> stored   *)
(* edge and denoted function), the collection / reordering counters.       *)
(*                                                                         *)
(* One action per public API call.  Each action takes the call's arguments *)
(* and the *observed* outcome (edge `e` of the returned handle and the     *)
(* denotation `val` of that edge obtained by interpreting the stored graph *)
(* with DDSem!SemMap).  The operator <Name>Val gives the value the property*)
(* prescribes; `strict` makes it an enabling condition.  Trace validation  *)
(* (TraceManager) evaluates the same <Name>Val operators as named          *)
(* obligations so that a rejection can be attributed to a property.        *)
(***************************************************************************)
EXTENDS DDSem

VARIABLES
  kind,   \* "bdd" | "bcdd" | "zbdd"
  n,      \* number of variables
  l2v,    \* sequence: level+1 -> variable
  hs,     \* handle table: slot -> [id, tag, v]
  gcN,    \* lower bound on the number of collections (gc_count)
  roN     \* number of reorderings

mvars == <<kind, n, l2v, hs, gcN, roN>>

NoHandles == [s \in {} |-> 0]

MInit(k) ==
  /\ kind = k /\ n = 0 /\ l2v = <<>> /\ hs = NoHandles /\ gcN = 0 /\ roN = 0

Live == DOMAIN hs
Val(s) == hs[s].v
EdgeOf(s) == <<hs[s].id, hs[s].tag>>
Put(s, e, val) == [x \in DOMAIN hs \cup {s} |->
                     IF x = s THEN [id |-> e[1], tag |-> e[2], v |-> val] ELSE hs[x]]

----------------------------------------------------------------------------
(* Expected values *)

ConstVal(c) == IF c THEN Asg(n) ELSE {}
VarVal(v) == VarFn(n, v)
NotVarVal(v) == NotVarFn(n, v)
Op1Val(op, a) == Not(n, Val(a))                              \* op = "not"
Op2Val(op, a, b) == BinOp(op, n, Val(a), Val(b))
IteVal(a, b, c) == Ite(n, Val(a), Val(b), Val(c))

(* variable sets are passed as conjunctions of positive literals *)
VarSetOf(c) == Support(n, Val(c))
QuantVal(q, a, c) == Quant(q, n, Val(a), VarSetOf(c))
ApplyQuantVal(q, op, a, b, c) == Quant(q, n, BinOp(op, n, Val(a), Val(b)), VarSetOf(c))
(* restrict: the second operand is a cube (conjunction of literals) *)
RestrictVal(a, c) == Restrict(n, Val(a), CubePos(n, Val(c)), CubeNeg(n, Val(c)))
(* substitution: pairs = sequence of <<variable, slot>> *)
SubstFn(pairs) ==
  [v \in {pairs[i][1] : i \in 1 .. Len(pairs)} |->
     LET i == CHOOSE j \in 1 .. Len(pairs) : pairs[j][1] = v IN Val(pairs[i][2])]
SubstValue(a, pairs) == Subst(n, Val(a), SubstFn(pairs))

(* ZBDD family operations *)
ZVal(op, args, v) ==
  CASE op = "union"     -> Val(args[1]) \cup Val(args[2])
    [] op = "intsec"    -> Val(args[1]) \cap Val(args[2])
    [] op = "diff"      -> Val(args[1]) \ Val(args[2])
    [] op = "subset0"   -> Subset0(Val(args[1]), v)
    [] op = "subset1"   -> Subset1(Val(args[1]), v)
    [] op = "change"    -> Change(Val(args[1]), v)
    [] op = "singleton" -> Singleton(v)
    [] op = "empty"     -> {}
    [] op = "base"      -> {0}

----------------------------------------------------------------------------
(* Actions *)

(* An operation returned a handle in slot h with edge e denoting val. *)
NewHandle(h, e, val, expected, strict) ==
  /\ h \notin Live
  /\ strict => val = expected
  /\ hs' = Put(h, e, val)
  /\ UNCHANGED <<kind, n, l2v, gcN, roN>>

Clone(a, h) ==
  /\ a \in Live /\ h \notin Live
  /\ hs' = Put(h, EdgeOf(a), Val(a))
  /\ UNCHANGED <<kind, n, l2v, gcN, roN>>

Drop(a) ==
  /\ a \in Live
  /\ hs' = [x \in Live \ {a} |-> hs[x]]
  /\ UNCHANGED <<kind, n, l2v, gcN, roN>>

(* add k variables: new variables get the next numbers and the bottom-most
   levels; every handle keeps its function (ZBDD: its family) *)
AddVars(k) ==
  /\ n' = n + k
  /\ l2v' = l2v \o [i \in 1 .. k |-> n + i - 1]
  /\ hs' = [s \in Live |-> [hs[s] EXCEPT !.v = Extend(kind, n, n + k, @)]]
  /\ UNCHANGED <<kind, gcN, roN>>

(* a collection: no handle changes *)
Gc ==
  /\ gcN' = gcN + 1
  /\ UNCHANGED <<kind, n, l2v, hs, roN>>

(* reordering to `newOrder`: handles keep edge and function *)
Inversions(from, to) ==
  LET pos == InvPerm(to)
  IN  Cardinality({p \in (1 .. Len(from)) \X (1 .. Len(from)) :
                     p[1] < p[2] /\ pos[from[p[1]]] > pos[from[p[2]]]})
RespectsReq(order, req) ==
  LET pos == InvPerm(order)
  IN  \A i, j \in 1 .. Len(req) : i < j => pos[req[i]] < pos[req[j]]
PermSeqs(k) == {p \in [1 .. k -> 0 .. k-1] : \A i, j \in 1 .. k : i # j => p[i] # p[j]}
MinInversions(req) ==
  LET cands == {p \in PermSeqs(n) : RespectsReq(p, req)}
      invs  == {Inversions(l2v, p) : p \in cands}
  IN  CHOOSE m \in invs : \A x \in invs : m <= x
SetVarOrder(req, newOrder, strict) ==
  /\ strict => /\ IsPerm(newOrder, n)
               /\ RespectsReq(newOrder, req)
               /\ Inversions(l2v, newOrder) = MinInversions(req)
  /\ l2v' = newOrder
  /\ roN' = roN + 1 /\ gcN' = gcN + 1
  /\ UNCHANGED <<kind, n, hs>>
=============================================================================
