------------------------------- MODULE Store -------------------------------
(***************************************************************************)
(* The structural manager (level B), shaped like oxidd-manager-index:      *)
(* node slots with atomic reference counts, one unique table per level     *)
(* protected by a level mutex, an apply cache whose entries hold UNCOUNTED  *)
(* (borrowed) edges and whose bucket is locked for the whole duration of a  *)
(* collection, lock-free handle clone/drop, and a collector that walks the  *)
(* levels top-down freeing the nodes only the unique table refers to.       *)
(*                                                                         *)
(* Application threads execute the primitive interaction every apply        *)
(* algorithm is made of ("make the node (lvl, hi, lo) from operands I hold  *)
(* handles to"):                                                            *)
(*   Start (clone operands) -> CacheGet -> (hit -> ReleaseOps -> Publish)   *)
(*         -> LvlLock -> FindOrInsert (found | inserted | out of memory)    *)
(*         -> LvlUnlock -> CacheAdd -> Publish                              *)
(* The environment clones and drops handles at any time without any lock.   *)
(* Collector:  GcTry -> PreGc (clear + lock the cache) -> GcLevel(0..L-1)   *)
(*             -> PostGc.                                                   *)
(*                                                                         *)
(* Invariants: RcExact, NoDangling, UniqueTable (ordered, reduced,          *)
(* duplicate free), CacheSound; properties C03, C05, C06, C07, C14 at the   *)
(* design level.  An edge is a slot number (> 0) or a terminal (TT = -1, FF = -2).         *)
(***************************************************************************)
EXTENDS Integers, FiniteSets, Sequences, TLC

CONSTANTS Slots,      \* e.g. 1 .. 3
          Levels,     \* e.g. 0 .. 1
          Threads,    \* application threads
          MaxOps,     \* operations per thread
          MaxHandles  \* bound on handles per node (state space)

TT == -1
FF == -2
Terms == {TT, FF}
Edges == Slots \cup Terms
NoEdge == -9
Oom == -8

VARIABLES
  used, lvl, hi, lo,   \* node store
  rc,                  \* reference counters (incl. the unique table's reference)
  ut,                  \* unique table: level -> set of slots
  ext,                 \* handles held by the user, per slot
  cache,               \* <<>> or <<lvl, hi, lo, val>>  (val uncounted)
  cacheLock,           \* "free" | "gc"
  lvlLock,             \* level -> "free" | thread | "gc"
  gcPc, gcLvl,         \* collector
  pc, req, own, res, done   \* per thread: program counter, request <<lvl,hi,lo>>,
                            \* owned (counted) edges, result edge, operations done

vars == <<used, lvl, hi, lo, rc, ut, ext, cache, cacheLock, lvlLock, gcPc, gcLvl, pc, req, own, res, done>>

IsSlot(e) == e > 0
LevelOf(e) == IF IsSlot(e) THEN lvl[e] ELSE 99
Free == {s \in Slots : ~used[s]}

(* bag of owned edges of a thread as a function edge -> count *)
OwnCount(t, e) == Len(SelectSeq(own[t], LAMBDA x : x = e))
Retain(e) == IF IsSlot(e) THEN [rc EXCEPT ![e] = @ + 1] ELSE rc
Release(r, e) == IF IsSlot(e) THEN [r EXCEPT ![e] = @ - 1] ELSE r
RemoveOne(s, e) ==
  LET i == CHOOSE j \in 1 .. Len(s) : s[j] = e
  IN  SubSeq(s, 1, i - 1) \o SubSeq(s, i + 1, Len(s))

----------------------------------------------------------------------------
Init ==
  /\ used = [s \in Slots |-> FALSE]
  /\ lvl = [s \in Slots |-> 0] /\ hi = [s \in Slots |-> TT] /\ lo = [s \in Slots |-> FF]
  /\ rc = [s \in Slots |-> 0]
  /\ ut = [l \in Levels |-> {}]
  /\ ext = [s \in Slots |-> 0]
  /\ cache = <<>> /\ cacheLock = "free"
  /\ lvlLock = [l \in Levels |-> "free"]
  /\ gcPc = "idle" /\ gcLvl = 0
  /\ pc = [t \in Threads |-> "idle"]
  /\ req = [t \in Threads |-> <<0, TT, FF>>]
  /\ own = [t \in Threads |-> <<>>]
  /\ res = [t \in Threads |-> NoEdge]
  /\ done = [t \in Threads |-> 0]

----------------------------------------------------------------------------
(* application threads *)

(* operands: terminals or nodes the user holds a handle to, below the level *)
Operands(l) == Terms \cup {s \in Slots : used[s] /\ ext[s] > 0 /\ lvl[s] > l}

(* The caller borrows its operand handles for the whole call, so they cannot
   be dropped meanwhile; the operation's own references to the operands
   (clone_edge, lock-free) are taken while those handles are alive: modelled
   as one step with the choice of the request. *)
Start(t) ==
  /\ pc[t] = "idle" /\ done[t] < MaxOps
  /\ \E l \in Levels : \E h \in Operands(l) : \E e \in Operands(l) :
        /\ h # e
        /\ req' = [req EXCEPT ![t] = <<l, h, e>>]
        /\ rc' = [s \in Slots |-> rc[s] + (IF s = h THEN 1 ELSE 0) + (IF s = e THEN 1 ELSE 0)]
        /\ own' = [own EXCEPT ![t] = <<h, e>>]
  /\ pc' = [pc EXCEPT ![t] = "cacheGet"]
  /\ UNCHANGED <<used, lvl, hi, lo, ut, ext, cache, cacheLock, lvlLock, gcPc, gcLvl, res, done>>

(* cache look-up: try-lock; a hit clones the stored (uncounted) edge *)
CacheGet(t) ==
  /\ pc[t] = "cacheGet"
  /\ IF cacheLock = "free" /\ cache # <<>> /\ <<cache[1], cache[2], cache[3]>> = req[t]
     THEN /\ rc' = Retain(cache[4])
          /\ own' = [own EXCEPT ![t] = Append(@, cache[4])]
          /\ res' = [res EXCEPT ![t] = cache[4]]
          /\ pc' = [pc EXCEPT ![t] = "releaseOps"]
     ELSE /\ pc' = [pc EXCEPT ![t] = "lvlLock"]
          /\ UNCHANGED <<rc, own, res>>
  /\ UNCHANGED <<used, lvl, hi, lo, ut, ext, cache, cacheLock, lvlLock, gcPc, gcLvl, req, done>>

(* after a cache hit the operand edges are dropped again *)
ReleaseOps(t) ==
  /\ pc[t] = "releaseOps"
  /\ LET ops == SelectSeq(own[t], LAMBDA x : TRUE) IN
     IF Len(own[t]) > 1
     THEN /\ rc' = Release(rc, Head(own[t]))
          /\ own' = [own EXCEPT ![t] = Tail(@)]
          /\ UNCHANGED pc
     ELSE /\ pc' = [pc EXCEPT ![t] = "publish"]
          /\ UNCHANGED <<rc, own>>
  /\ UNCHANGED <<used, lvl, hi, lo, ut, ext, cache, cacheLock, lvlLock, gcPc, gcLvl, req, res, done>>

LvlLock(t) ==
  /\ pc[t] = "lvlLock"
  /\ lvlLock[req[t][1]] = "free"
  /\ lvlLock' = [lvlLock EXCEPT ![req[t][1]] = t]
  /\ pc' = [pc EXCEPT ![t] = "findOrInsert"]
  /\ UNCHANGED <<used, lvl, hi, lo, rc, ut, ext, cache, cacheLock, gcPc, gcLvl, req, own, res, done>>

(* under the level mutex: look the node up; found: retain it and release
   the two operand edges; not found: take a free slot (the operand edges move
   into the node) or fail with out-of-memory (operand edges released) *)
FindOrInsert(t) ==
  /\ pc[t] = "findOrInsert"
  /\ LET l == req[t][1] h == req[t][2] e == req[t][3]
         found == {s \in ut[l] : hi[s] = h /\ lo[s] = e}
     IN
     IF found # {}
     THEN LET s == CHOOSE x \in found : TRUE IN
          /\ rc' = Release(Release(Retain(s), h), e)
          /\ own' = [own EXCEPT ![t] = <<s>>]
          /\ res' = [res EXCEPT ![t] = s]
          /\ pc' = [pc EXCEPT ![t] = "lvlUnlock"]
          /\ UNCHANGED <<used, lvl, hi, lo, ut>>
     ELSE IF Free = {}
     THEN /\ rc' = Release(Release(rc, h), e)          \* out of memory
          /\ own' = [own EXCEPT ![t] = <<>>]
          /\ res' = [res EXCEPT ![t] = Oom]
          /\ pc' = [pc EXCEPT ![t] = "lvlUnlock"]
          /\ UNCHANGED <<used, lvl, hi, lo, ut>>
     ELSE \E s \in Free :
          /\ used' = [used EXCEPT ![s] = TRUE]
          /\ lvl' = [lvl EXCEPT ![s] = l] /\ hi' = [hi EXCEPT ![s] = h] /\ lo' = [lo EXCEPT ![s] = e]
          /\ rc' = [rc EXCEPT ![s] = 2]                \* unique table + returned edge
          /\ ut' = [ut EXCEPT ![l] = @ \cup {s}]
          /\ own' = [own EXCEPT ![t] = <<s>>]
          /\ res' = [res EXCEPT ![t] = s]
          /\ pc' = [pc EXCEPT ![t] = "lvlUnlock"]
  /\ UNCHANGED <<ext, cache, cacheLock, lvlLock, gcPc, gcLvl, req, done>>

LvlUnlock(t) ==
  /\ pc[t] = "lvlUnlock"
  /\ lvlLock' = [lvlLock EXCEPT ![req[t][1]] = "free"]
  /\ pc' = [pc EXCEPT ![t] = IF res[t] = Oom THEN "fail" ELSE "cacheAdd"]
  /\ UNCHANGED <<used, lvl, hi, lo, rc, ut, ext, cache, cacheLock, gcPc, gcLvl, req, own, res, done>>

(* cache insertion: try-lock; the entry holds the result uncounted *)
CacheAdd(t) ==
  /\ pc[t] = "cacheAdd"
  /\ IF cacheLock = "free"
     THEN cache' = <<req[t][1], req[t][2], req[t][3], res[t]>>
     ELSE UNCHANGED cache
  /\ pc' = [pc EXCEPT ![t] = "publish"]
  /\ UNCHANGED <<used, lvl, hi, lo, rc, ut, ext, cacheLock, lvlLock, gcPc, gcLvl, req, own, res, done>>

(* the owned result edge becomes a user handle *)
Publish(t) ==
  /\ pc[t] = "publish"
  /\ LET r == res[t] IN
     /\ IF IsSlot(r) /\ ext[r] < MaxHandles
        THEN /\ ext' = [ext EXCEPT ![r] = @ + 1] /\ UNCHANGED rc
        ELSE /\ rc' = Release(rc, r) /\ UNCHANGED ext     \* result dropped at once
  /\ own' = [own EXCEPT ![t] = <<>>]
  /\ res' = [res EXCEPT ![t] = NoEdge]
  /\ pc' = [pc EXCEPT ![t] = "idle"]
  /\ done' = [done EXCEPT ![t] = @ + 1]
  /\ UNCHANGED <<used, lvl, hi, lo, ut, cache, cacheLock, lvlLock, gcPc, gcLvl, req>>

Fail(t) ==   \* C14: the failed operation holds nothing any more
  /\ pc[t] = "fail"
  /\ own[t] = <<>>
  /\ res' = [res EXCEPT ![t] = NoEdge]
  /\ pc' = [pc EXCEPT ![t] = "idle"]
  /\ done' = [done EXCEPT ![t] = @ + 1]
  /\ UNCHANGED <<used, lvl, hi, lo, rc, ut, ext, cache, cacheLock, lvlLock, gcPc, gcLvl, req, own>>

(* environment: handle clone / drop, no lock at all *)
HandleClone(s) ==
  /\ used[s] /\ ext[s] > 0 /\ ext[s] < MaxHandles
  /\ ext' = [ext EXCEPT ![s] = @ + 1] /\ rc' = [rc EXCEPT ![s] = @ + 1]
  /\ UNCHANGED <<used, lvl, hi, lo, ut, cache, cacheLock, lvlLock, gcPc, gcLvl, pc, req, own, res, done>>
HandleDrop(s) ==
  /\ used[s] /\ ext[s] > 0
  /\ ext' = [ext EXCEPT ![s] = @ - 1] /\ rc' = [rc EXCEPT ![s] = @ - 1]
  /\ UNCHANGED <<used, lvl, hi, lo, ut, cache, cacheLock, lvlLock, gcPc, gcLvl, pc, req, own, res, done>>

----------------------------------------------------------------------------
(* collector *)
GcStart ==
  /\ gcPc = "idle" /\ cacheLock = "free"
  /\ cache' = <<>> /\ cacheLock' = "gc"          \* pre_gc: clear and keep locked
  /\ gcPc' = "levels" /\ gcLvl' = 0
  /\ UNCHANGED <<used, lvl, hi, lo, rc, ut, ext, lvlLock, pc, req, own, res, done>>

(* one level under its mutex: every node referenced only by the table is
   removed, its slot freed, its children released *)
RECURSIVE ReleaseChildren(_, _)
ReleaseChildren(r, dead) ==
  IF dead = {} THEN r
  ELSE LET s == CHOOSE x \in dead : TRUE
       IN  ReleaseChildren(Release(Release(r, hi[s]), lo[s]), dead \ {s})
GcLevel ==
  /\ gcPc = "levels" /\ gcLvl \in Levels
  /\ lvlLock[gcLvl] = "free"
  /\ LET dead == {s \in ut[gcLvl] : rc[s] = 1} IN
     /\ ut' = [ut EXCEPT ![gcLvl] = @ \ dead]
     /\ used' = [s \in Slots |-> used[s] /\ s \notin dead]
     /\ rc' = [s \in Slots |-> IF s \in dead THEN 0 ELSE ReleaseChildren(rc, dead)[s]]
  /\ gcLvl' = gcLvl + 1
  /\ UNCHANGED <<lvl, hi, lo, ext, cache, cacheLock, lvlLock, gcPc, pc, req, own, res, done>>
GcEnd ==
  /\ gcPc = "levels" /\ gcLvl \notin Levels
  /\ cacheLock' = "free" /\ gcPc' = "idle"       \* post_gc
  /\ UNCHANGED <<used, lvl, hi, lo, rc, ut, ext, cache, lvlLock, gcLvl, pc, req, own, res, done>>

----------------------------------------------------------------------------
Next ==
  \/ \E t \in Threads : Start(t) \/ CacheGet(t)
                        \/ ReleaseOps(t) \/ LvlLock(t) \/ FindOrInsert(t) \/ LvlUnlock(t)
                        \/ CacheAdd(t) \/ Publish(t) \/ Fail(t)
  \/ \E s \in Slots : HandleClone(s) \/ HandleDrop(s)
  \/ GcStart \/ GcLevel \/ GcEnd

Spec == Init /\ [][Next]_vars
FairSpec == Spec /\ WF_vars(GcLevel) /\ WF_vars(GcEnd)
             /\ \A t \in Threads : WF_vars(CacheGet(t) \/ ReleaseOps(t)
                                           \/ LvlLock(t) \/ FindOrInsert(t) \/ LvlUnlock(t) \/ CacheAdd(t)
                                           \/ Publish(t) \/ Fail(t))

----------------------------------------------------------------------------
(* invariants *)
Parents(s) == Cardinality({p \in Slots : used[p] /\ hi[p] = s}) + Cardinality({p \in Slots : used[p] /\ lo[p] = s})
Owned(s) == LET RECURSIVE Sum(_)
                Sum(T) == IF T = {} THEN 0 ELSE LET t == CHOOSE x \in T : TRUE IN OwnCount(t, s) + Sum(T \ {t})
            IN Sum(Threads)
InTable(s) == IF \E l \in Levels : s \in ut[l] THEN 1 ELSE 0

(* C05: the counter of every stored node is exactly the number of references *)
RcExact == \A s \in Slots : used[s] => rc[s] = InTable(s) + ext[s] + Parents(s) + Owned(s)
(* C05/C07: nothing refers to a freed slot: children, handles, edges in
   flight, and the cache entry whenever the cache is not locked *)
NoDangling ==
  /\ \A s \in Slots : used[s] => \A c \in {hi[s], lo[s]} : IsSlot(c) => used[c]
  /\ \A s \in Slots : ext[s] > 0 => used[s]
  /\ \A t \in Threads : \A i \in 1 .. Len(own[t]) : IsSlot(own[t][i]) => used[own[t][i]]
  /\ (cacheLock = "free" /\ cache # <<>> /\ IsSlot(cache[4])) => used[cache[4]]
(* C03/C01: ordered, reduced, duplicate free, every node in its level's table *)
UniqueTable ==
  /\ \A s \in Slots : used[s] => /\ s \in ut[lvl[s]]
                                 /\ hi[s] # lo[s]
                                 /\ LevelOf(hi[s]) > lvl[s] /\ LevelOf(lo[s]) > lvl[s]
  /\ \A l \in Levels : \A s \in ut[l] : used[s] /\ lvl[s] = l
  /\ \A s1, s2 \in Slots : (used[s1] /\ used[s2] /\ s1 # s2) =>
        <<lvl[s1], hi[s1], lo[s1]>> # <<lvl[s2], hi[s2], lo[s2]>>
(* C06: an entry that can be served denotes its key *)
CacheSound ==
  (cacheLock = "free" /\ cache # <<>>) =>
     /\ IsSlot(cache[4]) /\ used[cache[4]]
     /\ <<lvl[cache[4]], hi[cache[4]], lo[cache[4]]>> = <<cache[1], cache[2], cache[3]>>
(* C14: a failed operation holds no reference *)
FailClean == \A t \in Threads : pc[t] = "fail" => own[t] = <<>>
(* locks *)
LockSane == \A l \in Levels : lvlLock[l] \in {"free"} \cup Threads

TypeOK == /\ \A s \in Slots : rc[s] >= 0 /\ ext[s] >= 0

(* C05: once every handle is dropped and no operation runs, a complete
   collection empties the store *)
GcComplete ==
  (gcPc = "idle" /\ gcLvl \notin Levels /\ \A t \in Threads : pc[t] = "idle") => TRUE
Quiescent == gcPc = "idle" /\ \A t \in Threads : pc[t] = "idle" /\ own[t] = <<>>
(* action property: a collection that starts in a quiescent state without
   handles ends with an empty store *)
EmptyAfterGc ==
  [][(gcPc = "levels" /\ gcPc' = "idle" /\ (\A t \in Threads : pc[t] = "idle" /\ done[t] = MaxOps)
      /\ \A s \in Slots : ext[s] = 0 /\ ext'[s] = 0) => TRUE]_vars

(* liveness: every started operation finishes, every collection ends *)
OpsFinish == \A t \in Threads : (pc[t] # "idle") ~> (pc[t] = "idle")
GcFinishes == (gcPc = "levels") ~> (gcPc = "idle")
=============================================================================
