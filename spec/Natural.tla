------------------------------ MODULE Natural ------------------------------
(***************************************************************************)
(* Exact arithmetic on natural numbers of arbitrary size inside TLC.       *)
(*                                                                         *)
(* TLC integers are 32-bit signed and overflow is an evaluation error, so  *)
(* a number is a sequence of base-2^15 LIMBS, least significant first,     *)
(* without most-significant zero limbs (0 is the empty sequence).  The     *)
(* product of two limbs plus a carry is < 2^31.                            *)
(*                                                                         *)
(* Layer 1 (operators L...): limb sequences.                               *)
(* Layer 2 (operators N...): the abstract values of the library type       *)
(*   oxidd_core::util::num::Natural,  [nan, m, e]  =  NaN  or  m * 2^e     *)
(*   with m odd (or m = e = 0) - the decomposition that the type's own     *)
(*   documentation defines; m and e are limb sequences (e may be as large  *)
(*   as 2^64 - 2).  The exponent value 2^64 - 1 is the documented marker   *)
(*   of the error value, so an exact result whose exponent is >= 2^64 - 1  *)
(*   is an "exponent overflow" and has to be NaN.                          *)
(* Layer 3: textual output (sequences of character codes) following the    *)
(*   documented std::fmt rules for integers.                               *)
(*                                                                         *)
(* All recursion is tail-shaped with accumulators; function constructors   *)
(* over intervals are evaluated eagerly by TLC.  Start TLC with -Xss1g.    *)
(***************************************************************************)
EXTENDS Integers, Sequences

W == 15
B == 32768
Pow2 == [k \in 0 .. 30 |-> 2 ^ k]

Max2(x, y) == IF x >= y THEN x ELSE y
Limb(a, i) == IF i >= 1 /\ i <= Len(a) THEN a[i] ELSE 0

(* transport well-formedness of a limb sequence *)
IsLimbs(a) ==
  /\ \A i \in 1 .. Len(a) : a[i] >= 0 /\ a[i] < B
  /\ Len(a) > 0 => a[Len(a)] # 0

RECURSIVE TopIdx(_, _)
TopIdx(a, i) == IF i = 0 THEN 0 ELSE IF a[i] # 0 THEN i ELSE TopIdx(a, i - 1)
Strip(a) == LET t == TopIdx(a, Len(a)) IN IF t = Len(a) THEN a ELSE SubSeq(a, 1, t)

LIsZero(a) == a = <<>>
IsZero(a) == a = <<>>

(* ---- small numbers <-> limbs ---- *)
FromInt(n) == Strip(<<n % B, (n \div B) % B, n \div (B * B)>>)     \* 0 <= n < 2^31
Fits31(a) == Len(a) <= 2 \/ (Len(a) = 3 /\ a[3] < 2)
ToInt(a) == Limb(a, 1) + Limb(a, 2) * B + Limb(a, 3) * B * B       \* requires Fits31(a)

(* number of bits of a limb, 0 .. 15 *)
BL15(x) ==
  IF x < 256
  THEN IF x < 16
       THEN (IF x < 4 THEN (IF x < 2 THEN x ELSE 2) ELSE IF x < 8 THEN 3 ELSE 4)
       ELSE (IF x < 64 THEN (IF x < 32 THEN 5 ELSE 6) ELSE IF x < 128 THEN 7 ELSE 8)
  ELSE IF x < 4096
       THEN (IF x < 1024 THEN (IF x < 512 THEN 9 ELSE 10) ELSE IF x < 2048 THEN 11 ELSE 12)
       ELSE (IF x < 16384 THEN (IF x < 8192 THEN 13 ELSE 14) ELSE 15)
(* number of trailing zero bits of a non-zero limb *)
TZ15(x) == CHOOSE k \in 0 .. 14 : x % Pow2[k + 1] # 0 /\ x % Pow2[k] = 0

(* 1 + floor(log2 a), 0 for a = 0 (an ordinary integer: operands have far less than 2^31 bits) *)
BitLen(a) == IF a = <<>> THEN 0 ELSE W * (Len(a) - 1) + BL15(a[Len(a)])

(* the 15 bits p .. p+14 of a, for any integer position p (bits below 0 are 0) *)
Bits15(a, p) ==
  LET q == p \div W
      r == p % W
  IN  IF r = 0 THEN Limb(a, q + 1)
      ELSE (Limb(a, q + 1) \div Pow2[r]) + (Limb(a, q + 2) % Pow2[r]) * Pow2[W - r]
BitAt(a, i) == (Limb(a, i \div W + 1) \div Pow2[i % W]) % 2

(* ---- comparison: -1, 0, 1 ---- *)
RECURSIVE CmpAt(_, _, _)
CmpAt(a, b, i) ==
  IF i = 0 THEN 0
  ELSE IF a[i] < b[i] THEN -1 ELSE IF a[i] > b[i] THEN 1 ELSE CmpAt(a, b, i - 1)
LCmp(a, b) ==
  IF Len(a) < Len(b) THEN -1 ELSE IF Len(a) > Len(b) THEN 1 ELSE CmpAt(a, b, Len(a))
Cmp(a, b) == LCmp(a, b)

(* ---- addition, subtraction ---- *)
RECURSIVE AddR(_, _, _, _, _, _)
AddR(a, b, n, i, c, acc) ==
  IF i > n THEN (IF c = 0 THEN acc ELSE Append(acc, c))
  ELSE LET s == Limb(a, i) + Limb(b, i) + c
       IN  AddR(a, b, n, i + 1, s \div B, Append(acc, s % B))
LAdd(a, b) ==
  IF b = <<>> THEN a ELSE IF a = <<>> THEN b
  ELSE AddR(a, b, Max2(Len(a), Len(b)), 1, 0, <<>>)
Add(a, b) == LAdd(a, b)

RECURSIVE SubR(_, _, _, _, _)
SubR(a, b, i, br, acc) ==
  IF i > Len(a) THEN acc
  ELSE LET d == a[i] - Limb(b, i) - br
       IN  IF d < 0 THEN SubR(a, b, i + 1, 1, Append(acc, d + B))
           ELSE SubR(a, b, i + 1, 0, Append(acc, d))
LSub(a, b) == IF b = <<>> THEN a ELSE Strip(SubR(a, b, 1, 0, <<>>))     \* requires a >= b

(* ---- multiplication ---- *)
RECURSIVE MulSR(_, _, _, _, _)
MulSR(a, k, i, c, acc) ==
  IF i > Len(a) THEN (IF c = 0 THEN acc ELSE Append(acc, c))
  ELSE LET p == a[i] * k + c
       IN  MulSR(a, k, i + 1, p \div B, Append(acc, p % B))
LMulSmall(a, k) == IF k = 0 \/ a = <<>> THEN <<>> ELSE MulSR(a, k, 1, 0, <<>>)   \* 0 <= k < 2^15
LShlLimbs(a, n) == IF a = <<>> \/ n = 0 THEN a ELSE [j \in 1 .. n |-> 0] \o a
RECURSIVE MulR(_, _, _, _)
MulR(a, b, i, acc) ==
  IF i > Len(b) THEN acc
  ELSE MulR(a, b, i + 1, LAdd(acc, LShlLimbs(LMulSmall(a, b[i]), i - 1)))
LMul(a, b) == IF a = <<>> \/ b = <<>> THEN <<>> ELSE MulR(a, b, 1, <<>>)

(* ---- shifts by an ordinary integer k >= 0 ---- *)
LShl(a, k) ==
  IF a = <<>> \/ k = 0 THEN a
  ELSE [i \in 1 .. (BitLen(a) + k + W - 1) \div W |-> Bits15(a, W * (i - 1) - k)]
Shl(a, k) == LShl(a, k)
LShrQ(a, k) ==     \* floor(a / 2^k)
  IF k = 0 THEN a
  ELSE IF BitLen(a) <= k THEN <<>>
  ELSE [i \in 1 .. (BitLen(a) - k + W - 1) \div W |-> Bits15(a, W * (i - 1) + k)]
LowZero(a, k) ==   \* the k least significant bits of a are all 0
  LET q == k \div W
      r == k % W
  IN  /\ \A i \in 1 .. q : Limb(a, i) = 0
      /\ r = 0 \/ Limb(a, q + 1) % Pow2[r] = 0
(* right shift, exact or flagged: quotient plus "a one bit was lost" *)
Shr(a, k) == [q |-> LShrQ(a, k), lost |-> ~LowZero(a, k)]

(* trailing zero bits of a non-zero number *)
RECURSIVE FirstNZ(_, _)
FirstNZ(a, i) == IF a[i] # 0 THEN i ELSE FirstNZ(a, i + 1)
Tz(a) == LET j == FirstNZ(a, 1) IN W * (j - 1) + TZ15(a[j])

(* ---- division ---- *)
RECURSIVE DivSR(_, _, _, _, _)
DivSR(a, d, i, r, acc) ==
  IF i = 0 THEN [q |-> Strip(acc), r |-> r]
  ELSE LET x == r * B + a[i]
       IN  DivSR(a, d, i - 1, x % d, <<x \div d>> \o acc)
LDivSmall(a, d) == DivSR(a, d, Len(a), 0, <<>>)        \* 1 <= d <= 2^15; r is an integer

(* long division, bit by bit (operands of up to ~128 bits): [q, r] limbs *)
One == <<1>>
RECURSIVE DivBR(_, _, _, _, _)
DivBR(a, b, i, r, q) ==
  IF i < 0 THEN [q |-> q, r |-> r]
  ELSE LET r2 == IF BitAt(a, i) = 1 THEN LAdd(LAdd(r, r), One) ELSE LAdd(r, r)
           ge == LCmp(r2, b) >= 0
       IN  DivBR(a, b, i - 1, IF ge THEN LSub(r2, b) ELSE r2,
                 IF ge THEN LAdd(LAdd(q, q), One) ELSE LAdd(q, q))
LDivMod(a, b) == DivBR(a, b, BitLen(a) - 1, <<>>, <<>>)   \* requires b # 0

(* sum of d[i] * 2^(64 (i-1)) for a sequence d of limb sequences (64-bit digits) *)
RECURSIVE FromDigits64R(_, _, _)
FromDigits64R(d, i, acc) ==
  IF i > Len(d) THEN acc ELSE FromDigits64R(d, i + 1, LAdd(acc, LShl(d[i], 64 * (i - 1))))
FromDigits64(d) == FromDigits64R(d, 1, <<>>)

Two52 == <<0, 0, 0, 128>>
Two53 == <<0, 0, 0, 256>>
Two63 == <<0, 0, 0, 0, 8>>
Two64 == <<0, 0, 0, 0, 16>>
Two128 == <<0, 0, 0, 0, 0, 0, 0, 0, 256>>

----------------------------------------------------------------------------
(* Layer 2: values of the library type                                      *)

ExpLimit == <<32767, 32767, 32767, 32767, 15>>     \* 2^64 - 1
MaxAlign == 6000     \* operands are aligned only across this many bits

NZero == [nan |-> FALSE, m |-> <<>>, e |-> <<>>]
NNaN == [nan |-> TRUE, m |-> <<>>, e |-> <<>>]

(* the value m * 2^e in normal form, NaN when the exponent is not representable *)
NMake(m, e) ==
  IF m = <<>> THEN NZero
  ELSE LET tz == Tz(m)
           e2 == IF tz = 0 THEN e ELSE LAdd(e, FromInt(tz))
       IN  IF LCmp(e2, ExpLimit) >= 0 THEN NNaN
           ELSE [nan |-> FALSE, m |-> IF tz = 0 THEN m ELSE LShrQ(m, tz), e |-> e2]
NFromLimbs(v) == NMake(v, <<>>)

(* an observed value {nan, m, e} in transport form *)
NWellFormed(r) == r.nan \in BOOLEAN /\ IsLimbs(r.m) /\ IsLimbs(r.e) /\ LCmp(r.e, ExpLimit) < 0
NCanonical(r) == r.nan \/ (IF r.m = <<>> THEN r.e = <<>> ELSE r.m[1] % 2 = 1)
NObs(r) == IF r.nan THEN NNaN ELSE NMake(r.m, r.e)

(* the plain limb sequence of a value whose exponent is small *)
NSmallExp(a) == Fits31(a.e) /\ ToInt(a.e) <= MaxAlign
NValue(a) == LShl(a.m, ToInt(a.e))

(* results are [dec |-> the outcome is decided, v |-> value] *)
NAdd(a, b) ==
  IF a.nan \/ b.nan THEN [dec |-> TRUE, v |-> NNaN]
  ELSE IF a.m = <<>> THEN [dec |-> TRUE, v |-> b]
  ELSE IF b.m = <<>> THEN [dec |-> TRUE, v |-> a]
  ELSE LET c == LCmp(a.e, b.e)
           lo == IF c <= 0 THEN a ELSE b
           hi == IF c <= 0 THEN b ELSE a
           d == LSub(hi.e, lo.e)
       IN  IF ~Fits31(d) \/ ToInt(d) > MaxAlign THEN [dec |-> FALSE, v |-> NNaN]
           ELSE [dec |-> TRUE, v |-> NMake(LAdd(lo.m, LShl(hi.m, ToInt(d))), lo.e)]

NShl(a, k) ==      \* k: limbs
  IF a.nan \/ a.m = <<>> THEN a
  ELSE LET e2 == LAdd(a.e, k)
       IN  IF LCmp(e2, ExpLimit) >= 0 THEN NNaN ELSE [nan |-> FALSE, m |-> a.m, e |-> e2]
NShr(a, k) ==      \* exact division by 2^k, or the error value
  IF a.nan \/ a.m = <<>> THEN a
  ELSE IF LCmp(a.e, k) >= 0 THEN [nan |-> FALSE, m |-> a.m, e |-> LSub(a.e, k)]
  ELSE NNaN

NBitWidth(a) == IF a.m = <<>> THEN <<>> ELSE LAdd(a.e, FromInt(BitLen(a.m)))    \* limbs

(* "lt" / "eq" / "gt" for numbers (not NaN) *)
NCmpNum(a, b) ==
  IF a.m = <<>> /\ b.m = <<>> THEN "eq"
  ELSE IF a.m = <<>> THEN "lt"
  ELSE IF b.m = <<>> THEN "gt"
  ELSE LET w == LCmp(NBitWidth(a), NBitWidth(b))
       IN  IF w < 0 THEN "lt" ELSE IF w > 0 THEN "gt"
           ELSE \* equal bit width: the exponents differ by less than the longer mantissa
             LET c == LCmp(a.e, b.e)
                 x == IF c <= 0 THEN a.m ELSE LShl(a.m, ToInt(LSub(a.e, b.e)))
                 y == IF c >= 0 THEN b.m ELSE LShl(b.m, ToInt(LSub(b.e, a.e)))
                 k == LCmp(x, y)
             IN  IF k < 0 THEN "lt" ELSE IF k > 0 THEN "gt" ELSE "eq"

(* conversion to an unsigned machine integer of `bits` bits *)
NToU(a, bits) ==
  IF a.nan THEN [ok |-> FALSE, x |-> <<>>]
  ELSE IF a.m = <<>> THEN [ok |-> TRUE, x |-> <<>>]
  ELSE IF LCmp(NBitWidth(a), FromInt(bits)) <= 0 THEN [ok |-> TRUE, x |-> NValue(a)]
  ELSE [ok |-> FALSE, x |-> <<>>]

(* conversion to binary64, round to nearest even: [nan, s, x, f] (sign, biased exponent, 52-bit fraction) *)
F64Inf == [nan |-> FALSE, s |-> 0, x |-> 2047, f |-> <<>>]
NToF64(a) ==
  IF a.nan THEN [nan |-> TRUE, s |-> 0, x |-> 2047, f |-> <<>>]
  ELSE IF a.m = <<>> THEN [nan |-> FALSE, s |-> 0, x |-> 0, f |-> <<>>]
  ELSE LET bw == NBitWidth(a) IN
       IF LCmp(bw, FromInt(1024)) > 0 THEN F64Inf
       ELSE LET n == BitLen(a.m)
                top == ToInt(bw) - 1          \* position of the leading one
            IN  IF n <= 53
                THEN [nan |-> FALSE, s |-> 0, x |-> top + 1023, f |-> LSub(LShl(a.m, 53 - n), Two52)]
                ELSE LET sh == n - 53
                         q == LShrQ(a.m, sh)
                         up == BitAt(a.m, sh - 1) = 1 /\ (~LowZero(a.m, sh - 1) \/ BitAt(q, 0) = 1)
                         q2 == IF up THEN LAdd(q, One) ELSE q
                         carry == q2 = Two53
                         x2 == IF carry THEN top + 1 ELSE top
                     IN  IF x2 > 1023 THEN F64Inf
                         ELSE [nan |-> FALSE, s |-> 0, x |-> x2 + 1023,
                               f |-> IF carry THEN <<>> ELSE LSub(q2, Two52)]

----------------------------------------------------------------------------
(* Layer 3: text.  Strings are sequences of character codes.               *)

DigitChar(d, upper) == IF d < 10 THEN 48 + d ELSE IF upper THEN 55 + d ELSE 87 + d

BinDigits(v) ==
  IF v = <<>> THEN <<48>>
  ELSE LET n == BitLen(v) IN [i \in 1 .. n |-> 48 + BitAt(v, n - i)]
OctDigits(v) ==
  IF v = <<>> THEN <<48>>
  ELSE LET n == (BitLen(v) + 2) \div 3 IN [i \in 1 .. n |-> 48 + (Bits15(v, 3 * (n - i)) % 8)]
HexDigits(v, upper) ==
  IF v = <<>> THEN <<48>>
  ELSE LET n == (BitLen(v) + 3) \div 4 IN [i \in 1 .. n |-> DigitChar(Bits15(v, 4 * (n - i)) % 16, upper)]

(* decimal: chunks of four digits by repeated division by 10^4, most significant first *)
RECURSIVE DecChunks(_, _)
DecChunks(v, acc) ==
  IF v = <<>> THEN acc
  ELSE LET d == LDivSmall(v, 10000) IN DecChunks(d.q, <<d.r>> \o acc)
Pow10 == <<1000, 100, 10, 1>>
DecDigits(v) ==
  IF v = <<>> THEN <<48>>
  ELSE LET ch == DecChunks(v, <<>>)
           c1 == ch[1]
           t == IF c1 >= 1000 THEN 4 ELSE IF c1 >= 100 THEN 3 ELSE IF c1 >= 10 THEN 2 ELSE 1
       IN  [i \in 1 .. t + 4 * (Len(ch) - 1) |->
              IF i <= t THEN 48 + ((c1 \div Pow10[4 - t + i]) % 10)
              ELSE 48 + ((ch[(i - t - 1) \div 4 + 2] \div Pow10[((i - t - 1) % 4) + 1]) % 10)]

Digits(v, radix) ==
  CASE radix = "b" -> BinDigits(v)
    [] radix = "o" -> OctDigits(v)
    [] radix = "x" -> HexDigits(v, FALSE)
    [] radix = "X" -> HexDigits(v, TRUE)
    [] radix = "d" -> DecDigits(v)
Prefix(radix) ==
  CASE radix = "b" -> <<48, 98>>
    [] radix = "o" -> <<48, 111>>
    [] radix = "x" -> <<48, 120>>
    [] radix = "X" -> <<48, 120>>
    [] radix = "d" -> <<>>

Rep(c, n) == [i \in 1 .. n |-> c]

(* std::fmt for a non-negative integer: sp = [alt, plus, zero, width, fill, align].
   Sign and radix prefix precede the digits; without the `0` flag the whole
   text is padded with the fill character (numbers are right-aligned by
   default, `^` puts floor(pad/2) on the left); with the `0` flag zeros are
   inserted after sign and prefix and fill/alignment are ignored. *)
FmtInt(digits, prefix, sp) ==
  LET sign == IF sp.plus THEN <<43>> ELSE <<>>
      pre == IF sp.alt THEN prefix ELSE <<>>
      body == sign \o pre \o digits
      pad == sp.width - Len(body)
  IN  IF pad <= 0 THEN body
      ELSE IF sp.zero THEN sign \o pre \o Rep(48, pad) \o digits
      ELSE LET left == IF sp.align = "<" THEN 0 ELSE IF sp.align = "^" THEN pad \div 2 ELSE pad
           IN  Rep(sp.fill, left) \o body \o Rep(sp.fill, pad - left)
FmtPads(digits, prefix, sp) ==
  sp.width > Len(digits) + (IF sp.plus THEN 1 ELSE 0) + (IF sp.alt THEN Len(prefix) ELSE 0)

(* the error value is rendered as a single `?`, padded to the width.  What
   is not documented is left open: the default alignment (left or right),
   whether `0` pads with zeros or with the fill character, and which side
   gets the odd character when centring. *)
FmtNaNOk(s, sp) ==
  LET n == Len(s)
      q == {i \in 1 .. n : s[i] = 63}
      padc == IF sp.zero THEN {48, sp.fill} ELSE {sp.fill}
  IN  /\ n = Max2(1, sp.width)
      /\ \E i \in 1 .. n :
           /\ q = {i}
           /\ \E c \in padc : \A j \in 1 .. n : j # i => s[j] = c
           /\ \/ n = 1
              \/ sp.zero
              \/ sp.align = "<" /\ i = 1
              \/ sp.align = ">" /\ i = n
              \/ sp.align = "^" /\ i \in {(n - 1) \div 2 + 1, n \div 2 + 1}
              \/ sp.align = "" /\ i \in {1, n}
=============================================================================
