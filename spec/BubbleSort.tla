----------------------------- MODULE BubbleSort -----------------------------
(***************************************************************************)
(* concurrent_bubble_sort of oxidd-reorder/src/set_var_order/mod.rs        *)
(* (property C08): W workers sort `seq` by adjacent swaps only; a swap of  *)
(* positions i, i+1 is a level swap in the decision diagram and takes time,*)
(* so several may be in progress, but never two that share a position.     *)
(*                                                                         *)
(* Shared state under one mutex: seq, blocked (positions reserved by a     *)
(* swap in progress or scheduled), tasks (stack of scheduled swaps),       *)
(* inProgress (workers currently owning a chain of swaps); a condition     *)
(* variable signals "task available or done".  The model is a direct       *)
(* transcription: every critical section is one action, the level swap     *)
(* itself (outside the mutex) is the state "swapping".                     *)
(***************************************************************************)
EXTENDS Integers, Sequences, FiniteSets, TLC

CONSTANTS N,        \* number of positions
          Workers   \* set of worker ids

Pos == 0 .. N - 1
Perms == {p \in [Pos -> Pos] : \A i, j \in Pos : i # j => p[i] # p[j]}

VARIABLES seq, blocked, tasks, inProgress, pc, cur, waiting, init

vars == <<seq, blocked, tasks, inProgress, pc, cur, waiting, init>>

(* the sequential preparation: scan left to right, schedule every inversion
   whose positions are free *)
RECURSIVE Prepare(_, _, _, _)
Prepare(s, i, b, t) ==
  IF i + 1 >= N THEN <<b, t>>
  ELSE IF s[i] > s[i + 1] THEN Prepare(s, i + 2, b \cup {i, i + 1}, Append(t, i))
  ELSE Prepare(s, i + 1, b, t)

Init ==
  /\ init \in Perms
  /\ seq = init
  /\ LET p == Prepare(init, 0, {}, <<>>) IN blocked = p[1] /\ tasks = p[2]
  /\ inProgress = 0
  /\ cur = [w \in Workers |-> 0]
  /\ waiting = {}
  \* no task at all: the broadcast is not even started
  /\ pc = [w \in Workers |-> IF Prepare(init, 0, {}, <<>>)[2] = <<>> THEN "done" ELSE "fetch"]

Top(t) == t[Len(t)]
Pop(t) == SubSeq(t, 1, Len(t) - 1)

(* wait for a new task (mutex held): pop one, or finish if nothing is in
   progress, or block on the condition variable *)
Fetch(w) ==
  /\ pc[w] = "fetch" /\ w \notin waiting
  /\ IF tasks # <<>>
     THEN /\ cur' = [cur EXCEPT ![w] = Top(tasks)]
          /\ tasks' = Pop(tasks)
          /\ inProgress' = inProgress + 1
          /\ pc' = [pc EXCEPT ![w] = "swapping"]
          /\ UNCHANGED waiting
     ELSE IF inProgress = 0
     THEN /\ pc' = [pc EXCEPT ![w] = "done"]
          /\ UNCHANGED <<cur, tasks, inProgress, waiting>>
     ELSE /\ waiting' = waiting \cup {w}            \* cond.wait
          /\ UNCHANGED <<cur, tasks, inProgress, pc>>
  /\ UNCHANGED <<seq, blocked, init>>

(* the level swap finished; critical section after it *)
AfterSwap(w) ==
  /\ pc[w] = "swapping"
  /\ LET i == cur[w]
         s1 == [seq EXCEPT ![i] = seq[i + 1], ![i + 1] = seq[i]]
         swapBefore == i > 0 /\ s1[i - 1] > s1[i] /\ (i - 1) \notin blocked
         b1 == IF swapBefore THEN blocked \cup {i - 1} ELSE blocked \ {i}
         after == i + 2 < N /\ s1[i + 1] > s1[i + 2] /\ (i + 2) \notin b1
     IN
     /\ seq' = s1
     /\ IF after
        THEN IF ~swapBefore
             THEN \* continue with the swap to the right
                  /\ blocked' = b1 \cup {i + 2}
                  /\ cur' = [cur EXCEPT ![w] = i + 1]
                  /\ UNCHANGED <<tasks, inProgress, pc, waiting>>
             ELSE \* both: hand the right one over, continue to the left
                  /\ blocked' = b1 \cup {i + 2}
                  /\ tasks' = Append(tasks, i + 1)
                  /\ waiting' = IF waiting = {} THEN {} ELSE waiting \ {CHOOSE x \in waiting : TRUE}
                  /\ cur' = [cur EXCEPT ![w] = i - 1]
                  /\ UNCHANGED <<inProgress, pc>>
        ELSE IF swapBefore
             THEN /\ blocked' = b1 \ {i + 1}
                  /\ cur' = [cur EXCEPT ![w] = i - 1]
                  /\ UNCHANGED <<tasks, inProgress, pc, waiting>>
             ELSE \* chain ended: take another task or go back to waiting
                  /\ blocked' = b1 \ {i + 1}
                  /\ IF tasks # <<>>
                     THEN /\ cur' = [cur EXCEPT ![w] = Top(tasks)]
                          /\ tasks' = Pop(tasks)
                          /\ UNCHANGED <<inProgress, pc, waiting>>
                     ELSE /\ inProgress' = inProgress - 1
                          /\ IF inProgress - 1 # 0
                             THEN /\ pc' = [pc EXCEPT ![w] = "fetch"]
                                  /\ UNCHANGED waiting
                             ELSE /\ pc' = [pc EXCEPT ![w] = "done"]
                                  /\ waiting' = {}                 \* notify_all
                          /\ UNCHANGED <<cur, tasks>>
  /\ UNCHANGED init

(* notify_one wakes an arbitrary waiter: explore every choice *)
AfterSwapAny(w) ==
  \/ AfterSwap(w)
  \/ /\ pc[w] = "swapping" /\ Cardinality(waiting) > 1
     /\ \E x \in waiting :
          LET i == cur[w]
              s1 == [seq EXCEPT ![i] = seq[i + 1], ![i + 1] = seq[i]]
              swapBefore == i > 0 /\ s1[i - 1] > s1[i] /\ (i - 1) \notin blocked
              b1 == IF swapBefore THEN blocked \cup {i - 1} ELSE blocked \ {i}
              after == i + 2 < N /\ s1[i + 1] > s1[i + 2] /\ (i + 2) \notin b1
          IN /\ after /\ swapBefore
             /\ seq' = s1 /\ blocked' = b1 \cup {i + 2}
             /\ tasks' = Append(tasks, i + 1)
             /\ waiting' = waiting \ {x}
             /\ cur' = [cur EXCEPT ![w] = i - 1]
             /\ UNCHANGED <<inProgress, pc, init>>

Finished == \A w \in Workers : pc[w] = "done"
Next ==
  \/ \E w \in Workers : Fetch(w) \/ AfterSwapAny(w)
  \/ (Finished /\ UNCHANGED vars)

Spec == Init /\ [][Next]_vars
FairSpec == Spec /\ \A w \in Workers : WF_vars(Fetch(w)) /\ WF_vars(AfterSwapAny(w))

----------------------------------------------------------------------------
Swapping == {w \in Workers : pc[w] = "swapping"}
(* C08: two swaps in progress never touch a common position *)
NoOverlap == \A a, b \in Swapping : a # b => (cur[a] - cur[b] >= 2 \/ cur[b] - cur[a] >= 2)
(* a swap in progress is a real inversion (the sort is stable: equal or
   ordered neighbours are never swapped) and its positions are reserved *)
SwapsAreInversions ==
  \A w \in Swapping : seq[cur[w]] > seq[cur[w] + 1] /\ {cur[w], cur[w] + 1} \subseteq blocked
IsSorted(s) == \A i \in 0 .. N - 2 : s[i] <= s[i + 1]
SortedAtEnd == Finished => (IsSorted(seq) /\ tasks = <<>> /\ inProgress = 0)
(* no lost wake-up: whenever nobody can move, everybody is done *)
NoStuck ==
  (\A w \in Workers : pc[w] = "done" \/ w \in waiting) => Finished
IsPermutation == {seq[i] : i \in Pos} = Pos
(* liveness *)
Terminates == <>Finished
=============================================================================
