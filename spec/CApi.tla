-------------------------------- MODULE CApi --------------------------------
(***************************************************************************)
(* C19 - the ownership discipline of the C interface (oxidd-ffi-c).        *)
(*                                                                         *)
(* A C function handle `oxidd_*_t` is a plain value (manager pointer, edge *)
(* index); equal values denote the same node.  What the client *owns* is a *)
(* number of references per handle value - the LEDGER.  The interface      *)
(* promises:                                                               *)
(*                                                                         *)
(*   Returns   a function documented to return a function/manager handle   *)
(*             returns ONE owned reference:            ledger[result] + 1  *)
(*   Borrows   handles passed as operands are not consumed:   unchanged    *)
(*   Ref       oxidd_*_ref(f) / oxidd_*_manager_ref(m):       + 1          *)
(*   Unref     oxidd_*_unref(f) / oxidd_*_manager_unref(m):   - 1          *)
(*   Consumes  the documented exception oxidd_zbdd_make_node(var, hi, lo): *)
(*             - 1 on hi and on lo                                         *)
(*   Invalid   an invalid handle (p = NULL, produced on out-of-memory) owns *)
(*             nothing; ref/unref of it are no-ops; an operation with an   *)
(*             invalid operand returns an invalid handle                   *)
(*                                                                         *)
(* The implementation keeps a reference counter per node and one per       *)
(* manager.  The ledger BALANCES iff at every point                        *)
(*                                                                         *)
(*   rc(node)    = ledger references to the node + edges of stored parent  *)
(*                 nodes + references held by the manager itself           *)
(*   rc(manager) = owned manager handles + owned function handles          *)
(*                 (the manager lives exactly as long as this is > 0)      *)
(*                                                                         *)
(* and after unref of everything and a collection no node is left.         *)
(*                                                                         *)
(* Part 1 holds the ledger arithmetic as pure operators; TraceCApi.tla     *)
(* evaluates them on the reference counts observed in the real library     *)
(* after every call.  Part 2 is a small state machine of client and        *)
(* implementation, model-checked with TLC (MC_CApi.cfg) for the ledger     *)
(* invariants and for the refinement statement: every C call is the        *)
(* corresponding abstract action of Manager.tla.                           *)
(***************************************************************************)
EXTENDS Integers, Sequences, FiniteSets, TLC

----------------------------------------------------------------------------
(* Part 1: ledger arithmetic (pure) *)

(* number of positions of sequence `s` holding x *)
Occ(s, x) == Cardinality({k \in 1 .. Len(s) : s[k] = x})

(* the reference count a node must show: `owned` ledger references, `parents`
   stored edges pointing to it, `internal` references of the manager itself
   (the ZBDD tautology chain) *)
RcRequired(owned, parents, internal) == owned + parents + internal

(* change of the ledger entry of one handle by one call *)
Delta(role) ==
  CASE role = "returned" -> 1
    [] role = "borrowed" -> 0
    [] role = "ref"      -> 1
    [] role = "unref"    -> -1
    [] role = "consumed" -> -1
    [] role = "invalid"  -> 0

(* invalid in => invalid out *)
InvalidRule(anyOperandInvalid, resultInvalid) == anyOperandInvalid => resultInvalid

(* the manager exists exactly as long as somebody holds a reference *)
ManagerAlive(managerRefs, functionRefs) == managerRefs + functionRefs > 0

----------------------------------------------------------------------------
(* Part 2: bounded model.

   Node ids 1..NN form a fixed DAG template: Kids[k] is the sequence of the
   two children of node k, 0 = terminal (the template plays the role of the
   canonical diagrams of NN functions; Den(k) is the denoted function).  An
   operation "returns node k": the implementation looks k up or creates it
   together with its missing descendants.  *)
CONSTANTS NN,        \* number of node ids
          Kids,      \* [1..NN -> Seq(0..NN)] children, smaller ids only
          MaxOwn,    \* bound on ledger entries (state constraint)
          MaxM       \* bound on owned manager references

VARIABLES
  own,      \* ledger: node id -> owned references (client view)
  mown,     \* ledger: owned manager references (client view)
  store,    \* implementation: set of stored node ids
  rc,       \* implementation: node id -> reference counter
  mrc,      \* implementation: manager reference counter (0 = destroyed)
  gcs,      \* number of collections
  last      \* [call, invIn, invOut]: the last call and its invalid flags

cvars == <<own, mown, store, rc, mrc, gcs, last>>
Nodes == 1 .. NN

Parents(k, st) ==     \* stored edges pointing to k
  LET S == {<<p, i>> \in st \X (1 .. 2) : Kids[p][i] = k} IN Cardinality(S)
SumOwn == LET RECURSIVE S(_)
              S(k) == IF k = 0 THEN 0 ELSE own[k] + S(k - 1)
          IN S(NN)

(* creating node k creates its missing descendants first; every new node
   takes one reference on each child *)
RECURSIVE Create(_, _, _)
Create(k, st, cnt) ==      \* returns <<store, rc>>
  IF k = 0 \/ k \in st THEN <<st, cnt>>
  ELSE LET a == Create(Kids[k][1], st, cnt)
           b == Create(Kids[k][2], a[1], a[2])
           c1 == Kids[k][1]
           c2 == Kids[k][2]
           inc(f, c) == IF c = 0 THEN f ELSE [f EXCEPT ![c] = @ + 1]
       IN  <<b[1] \cup {k}, inc(inc(b[2], c1), c2)>>

CInit ==
  /\ own = [k \in Nodes |-> 0] /\ mown = 1
  /\ store = {} /\ rc = [k \in Nodes |-> 0] /\ mrc = 1 /\ gcs = 0
  /\ last = [call |-> "manager_new", invIn |-> FALSE, invOut |-> FALSE]

Alive == mrc > 0
Call(c, i, o) == last' = [call |-> c, invIn |-> i, invOut |-> o]

(* an operation (constructor, connective, quantifier, cofactor, ...) whose
   operands are borrowed and whose result is node k: +1 on k *)
Returns(k) ==
  /\ Alive
  /\ LET cr == Create(k, store, rc) IN
       /\ store' = cr[1]
       /\ rc' = [cr[2] EXCEPT ![k] = @ + 1]
  /\ own' = [own EXCEPT ![k] = @ + Delta("returned")]
  /\ mrc' = mrc + 1                    \* the handle holds a manager reference
  /\ Call("op", FALSE, FALSE)
  /\ UNCHANGED <<mown, gcs>>

(* the operation runs out of memory, or an operand is invalid: invalid
   result, nothing changes *)
ReturnsInvalid(anyInvalidOperand) ==
  /\ Alive
  /\ Call("op", anyInvalidOperand, TRUE)
  /\ UNCHANGED <<own, mown, store, rc, mrc, gcs>>

Ref(k) ==
  /\ Alive /\ own[k] > 0
  /\ own' = [own EXCEPT ![k] = @ + Delta("ref")]
  /\ rc' = [rc EXCEPT ![k] = @ + 1]
  /\ mrc' = mrc + 1
  /\ Call("ref", FALSE, FALSE)
  /\ UNCHANGED <<mown, store, gcs>>

Unref(k) ==
  /\ Alive /\ own[k] > 0
  /\ own' = [own EXCEPT ![k] = @ + Delta("unref")]
  /\ rc' = [rc EXCEPT ![k] = @ - 1]
  /\ mrc' = mrc - 1
  /\ Call("unref", FALSE, FALSE)
  /\ UNCHANGED <<mown, store, gcs>>

(* ref / unref of the invalid handle *)
RefInvalid ==
  /\ Call("ref", TRUE, TRUE)
  /\ UNCHANGED <<own, mown, store, rc, mrc, gcs>>

(* oxidd_zbdd_make_node(var, hi, lo): hi and lo are consumed, var borrowed.
   The consumed references become the child edges of the new node, or are
   released if the node exists already. *)
MakeNode(k) ==
  /\ Alive /\ Kids[k][1] # 0 /\ Kids[k][2] # 0
  /\ LET hi == Kids[k][1]
         lo == Kids[k][2]
     IN /\ IF hi = lo THEN own[hi] >= 2 ELSE own[hi] >= 1 /\ own[lo] >= 1
        /\ own' = [x \in Nodes |->
                     own[x] + (IF x = k THEN Delta("returned") ELSE 0)
                            + (IF x = hi THEN Delta("consumed") ELSE 0)
                            + (IF x = lo THEN Delta("consumed") ELSE 0)]
        /\ IF k \in store
           THEN /\ store' = store
                /\ rc' = [x \in Nodes |->
                            rc[x] + (IF x = k THEN 1 ELSE 0)
                                  - (IF x = hi THEN 1 ELSE 0) - (IF x = lo THEN 1 ELSE 0)]
           ELSE /\ store' = store \cup {k}
                /\ rc' = [rc EXCEPT ![k] = 1]   \* the edges take over the two references
  /\ mrc' = mrc - 1                              \* - 2 consumed handles + 1 result
  /\ Call("make_node", FALSE, FALSE)
  /\ UNCHANGED <<mown, gcs>>

(* collection: removes every node without references, top-down *)
RECURSIVE Sweep(_, _, _)
Sweep(k, st, cnt) ==       \* ids are topologically ordered: parents have larger ids
  IF k = 0 THEN <<st, cnt>>
  ELSE IF k \in st /\ cnt[k] = 0
       THEN LET dec(f, c) == IF c = 0 THEN f ELSE [f EXCEPT ![c] = @ - 1]
            IN  Sweep(k - 1, st \ {k}, dec(dec(cnt, Kids[k][1]), Kids[k][2]))
       ELSE Sweep(k - 1, st, cnt)
Gc ==
  /\ Alive /\ mown > 0
  /\ LET r == Sweep(NN, store, rc) IN store' = r[1] /\ rc' = r[2]
  /\ gcs' = gcs + 1
  /\ Call("gc", FALSE, FALSE)
  /\ UNCHANGED <<own, mown, mrc>>

MgrRef ==
  /\ Alive /\ mown > 0
  /\ mown' = mown + Delta("ref") /\ mrc' = mrc + 1
  /\ Call("manager_ref", FALSE, FALSE)
  /\ UNCHANGED <<own, store, rc, gcs>>
MgrUnref ==
  /\ Alive /\ mown > 0
  /\ mown' = mown + Delta("unref") /\ mrc' = mrc - 1
  /\ Call("manager_unref", FALSE, FALSE)
  /\ UNCHANGED <<own, store, rc, gcs>>
(* oxidd_*_containing_manager(f): a new owned manager reference *)
ContainingManager(k) ==
  /\ Alive /\ own[k] > 0
  /\ mown' = mown + Delta("returned") /\ mrc' = mrc + 1
  /\ Call("containing_manager", FALSE, FALSE)
  /\ UNCHANGED <<own, store, rc, gcs>>

CNext ==
  \/ \E k \in Nodes : Returns(k) \/ Ref(k) \/ Unref(k) \/ MakeNode(k) \/ ContainingManager(k)
  \/ \E b \in BOOLEAN : ReturnsInvalid(b)
  \/ RefInvalid \/ Gc \/ MgrRef \/ MgrUnref

CSpec == CInit /\ [][CNext]_cvars

Bounded == (\A k \in Nodes : own[k] <= MaxOwn) /\ mown <= MaxM /\ gcs <= 2

(* constants of the bounded configuration MC_CApi.cfg: node 1 is a leaf,
   2 = (1, terminal), 3 = (1, 2) shares node 1 with 2, 4 = (3, 3) *)
MCKids == << <<0, 0>>, <<1, 0>>, <<1, 2>>, <<3, 3>> >>

----------------------------------------------------------------------------
(* Invariants *)

TypeOk ==
  /\ own \in [Nodes -> Nat] /\ mown \in Nat /\ store \subseteq Nodes
  /\ rc \in [Nodes -> Int] /\ mrc \in Int /\ gcs \in Nat

LedgerNonNegative == (\A k \in Nodes : own[k] >= 0 /\ rc[k] >= 0) /\ mown >= 0 /\ mrc >= 0

(* the ledger balances *)
RcBalanced ==
  \A k \in Nodes :
     /\ k \in store => rc[k] = RcRequired(own[k], Parents(k, store), 0)
     /\ k \notin store => rc[k] = 0 /\ own[k] = 0
ManagerBalanced ==
  /\ mrc = mown + SumOwn
  /\ Alive <=> ManagerAlive(mown, SumOwn)
(* a stored node's children are stored *)
Closed == \A k \in store : \A i \in 1 .. 2 : Kids[k][i] = 0 \/ Kids[k][i] \in store

InvalidPropagates == InvalidRule(last.invIn, last.invOut)

(* after all handles are unref'ed and a collection is run the manager holds
   no nodes *)
EmptyAfterGc == (last.call = "gc" /\ SumOwn = 0) => store = {}

----------------------------------------------------------------------------
(* Refinement: every C call is the corresponding abstract action of
   Manager.tla.  The abstract handle table has one slot per owned reference:
   slot <<k, j>> (j-th reference to node k) holds edge <<k, 0>> denoting
   Den(k). *)
Den(k) == {k}
HsBar == [s \in {x \in Nodes \X (1 .. MaxOwn + 2) : x[2] <= own[x[1]]}
           |-> [id |-> s[1], tag |-> 0, v |-> Den(s[1])]]

M == INSTANCE Manager WITH kind <- "bdd", n <- 0, l2v <- <<>>, hs <- HsBar,
                           gcN <- gcs, roN <- 0

Without(t, s) == [x \in DOMAIN t \ {s} |-> t[x]]
(* make_node = NewHandle for the result, then Drop of the two consumed slots *)
MakeNodeAbs(k) ==
  LET hi == Kids[k][1]
      lo == Kids[k][2]
      t1 == M!Put(<<k, own[k] + 1>>, <<k, 0>>, Den(k))
      t2 == Without(t1, <<hi, own[hi]>>)
      t3 == Without(t2, <<lo, IF hi = lo THEN own[lo] - 1 ELSE own[lo]>>)
  IN  /\ hi # 0 /\ lo # 0
      /\ <<k, own[k] + 1>> \notin M!Live
      /\ HsBar' = t3

CallIs(c) == last'.call = c /\ ~last'.invOut
Refines ==
  [][ /\ CallIs("op") =>
           \E k \in Nodes : M!NewHandle(<<k, own[k] + 1>>, <<k, 0>>, Den(k), Den(k), TRUE)
      /\ CallIs("make_node") => \E k \in Nodes : MakeNodeAbs(k)
      /\ CallIs("ref") => \E k \in Nodes : M!Clone(<<k, 1>>, <<k, own[k] + 1>>)
      /\ CallIs("unref") => \E k \in Nodes : M!Drop(<<k, own[k]>>)
      /\ CallIs("gc") => M!Gc
      /\ last'.invOut => HsBar' = HsBar /\ UNCHANGED <<own, mown, store, rc, mrc, gcs>>
      /\ last'.call \in {"manager_ref", "manager_unref", "containing_manager"} =>
           HsBar' = HsBar /\ UNCHANGED <<store, rc, gcs>>
    ]_cvars
=============================================================================
