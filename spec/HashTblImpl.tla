------------------------------ MODULE HashTblImpl ------------------------------
(***************************************************************************)
(* C17, implementation-shaped model: a transcription of                    *)
(* /repo/crates/linear-hashtbl/src/raw.rs (RawTable<T, S, A>).             *)
(*                                                                         *)
(*   data : Box<[Slot]>   a sequence of slots, slot i of the code is       *)
(*                        data[i + 1]; a slot is FREE, TOMBSTONE or        *)
(*                        occupied(status = hash, element = <<k, v>>)      *)
(*   len, free            the two counters of the struct                   *)
(*   RATIO_N/RATIO_D = 3/4, MIN_CAP = MinCap (16 in the code; a constant   *)
(*                        here so that one configuration can scale it down *)
(*                        and reach growth over three capacities)          *)
(*                                                                         *)
(* Every function is transcribed statement by statement, including what    *)
(* the code does NOT do (clear leaves `free` alone and stops at the last   *)
(* element, Drain stops at the last element, retain walks back to front,   *)
(* the early returns on len = 0, ...).  A loop of the code that cannot     *)
(* terminate (probe without FREE slot) or an `unreachable_unchecked` that  *)
(* is reached yields the table value `Hung`.                               *)
(*                                                                         *)
(* The hash function H : Key -> Nat is a constant chosen per configuration *)
(* (the API takes the hash as an argument, the harness passes the same     *)
(* values).  TLC checks: refinement of HashTbl (Refines), ProbeTerminates, *)
(* free-slot accounting (FreeSound, LoadBound), LenExact, KeysUnique,      *)
(* Reachable, StructOK.                                                    *)
(*                                                                         *)
(* `path` (not part of the VIEW) records how a state was reached first;    *)
(* with HT_EXPORT set the paths are printed: a cover of every reachable    *)
(* table layout, replayed on the real RawTable by driver hashtbl-replay.   *)
(***************************************************************************)
EXTENDS Integers, Sequences, FiniteSets, TLC, Json, IOUtils

CONSTANTS Key, Val, Tab, Preds, ResArgs,
          InitCaps,   \* arguments of with_capacity used by `new`
          H,          \* hash function
          MinCap,     \* MIN_CAP
          MaxOps      \* bound on the number of calls (0 = unbounded)

RatioN == 3
RatioD == 4

VARIABLES tabs,     \* tabs[t]: the RawTable struct
          nops,     \* number of calls so far (0 if unbounded)
          last,     \* [tab, ev, sit, chg]: result of the last call
          path,     \* calls from the initial state (first arrival)
          aset      \* aset[t] = Abs(tabs[t]) (kept as a variable only so that TLC
                    \* computes the refinement mapping once per step; see AbsOK)

vars == <<tabs, nops, last, path, aset>>
View == <<tabs, nops>>

----------------------------------------------------------------------------
(* configuration helpers: values taken from the environment, hash families *)

EnvNum(name, dflt) == IF name \in DOMAIN IOEnv THEN atoi(IOEnv[name]) ELSE dflt
KeysEnv   == 1 .. EnvNum("HT_KEYS", 5)
MaxOpsEnv == EnvNum("HT_MAXOPS", 6)
SkipInv(name) == ("HT_SKIP_" \o name) \in DOMAIN IOEnv

HTuple(tp) == [k \in Key |-> tp[k]]
(* every key has the same hash *)
HCollide == [k \in Key |-> 5]
(* equal below the mask of capacity 16 (slot 3), all different above it *)
HAbove   == [k \in Key |-> 3 + 16 * k]
(* home slots 14, 15, 15, 14, 0, 15, 0, 14: clusters wrap around the last slot *)
HWrap    == HTuple(<<14, 15, 31, 30, 0, 47, 16, 46>>)
(* home slots 0, 1, 2, 4, 5, 8, 12, 13: spread, some adjacent *)
HSpread  == HTuple(<<0, 1, 2, 20, 21, 8, 12, 29>>)
(* for MinCap = 4: masks 3, 7, 15 *)
HSmall   == HTuple(<<0, 1, 5, 3, 7, 2, 6, 4>>)
HSmallCollide == [k \in Key |-> 3]
(* identity-like: key k lives in slot k - 1 *)
HIdent   == [k \in Key |-> k - 1]

AllPreds == SUBSET Key
(* retain predicates: keep none, keep all, keep odd keys, keep upper half, keep lower half *)
SomePreds == {{}, Key, {k \in Key : k % 2 = 1}, {k \in Key : 2 * k > Cardinality(Key)},
              {k \in Key : 2 * k <= Cardinality(Key)}}
             \cup {Key \ {k} : k \in Key}     \* drop one element only: no rehash afterwards

----------------------------------------------------------------------------
(* slots and tables *)

FREE == [st |-> 0, h |-> 0, k |-> 0, v |-> 0]
TOMB == [st |-> 1, h |-> 0, k |-> 0, v |-> 0]
Occ(h, k, v) == [st |-> 2, h |-> h, k |-> k, v |-> v]
El(s) == <<s.k, s.v>>

Hung == [data |-> <<>>, len |-> 0, free |-> 0, hung |-> TRUE]
Cap(tb) == Len(tb.data)
(* the refinement mapping: the elements in occupied slots *)
Abs(tb) == {El(tb.data[i]) : i \in {j \in 1 .. Cap(tb) : tb.data[j].st = 2}}
MinOf(S) == CHOOSE x \in S : \A y \in S : x <= y
Max2(a, b) == IF a >= b THEN a ELSE b

Pow2s == {1, 2, 4, 8, 16, 32, 64, 128, 256}
NextPow2(n) == MinOf({p \in Pow2s : p >= n})          \* 0.next_power_of_two() = 1

(* fn next_capacity(requested) *)
NextCap(r) == IF r = 0 THEN 0 ELSE Max2(NextPow2((r * RatioD) \div RatioN), MinCap)

(* RawTable::new() / with_capacity(c) *)
WithCap(c) ==
  LET cap == NextCap(c)
  IN  [data |-> [i \in 1 .. cap |-> FREE], len |-> 0, free |-> cap, hung |-> FALSE]

NumSt(d, s) == Cardinality({i \in 1 .. Len(d) : d[i].st = s})
(* indices (1-based) of the occupied slots in ascending order *)
OccSeq(d) == SelectSeq([i \in 1 .. Len(d) |-> i], LAMBDA i : d[i].st = 2)

(* first FREE slot (0-based) at or after `start`, cyclically; -1: the loop of
   the code does not terminate *)
FirstFreeFrom(d, start) ==
  LET ds == {x \in 0 .. Len(d) - 1 : d[((start + x) % Len(d)) + 1].st = 0}
  IN  IF ds = {} THEN -1 ELSE (start + MinOf(ds)) % Len(d)

(* fn reserve_rehash(additional): old slots are moved in index order *)
RECURSIVE RehashFrom(_, _, _)
RehashFrom(old, i, new) ==
  IF i > Len(old) THEN [d |-> new, ok |-> TRUE]
  ELSE IF old[i].st # 2 THEN RehashFrom(old, i + 1, new)
  ELSE LET j == FirstFreeFrom(new, old[i].h % Len(new))
       IN  IF j = -1 THEN [d |-> new, ok |-> FALSE]
           ELSE RehashFrom(old, i + 1, [new EXCEPT ![j + 1] = old[i]])

Rehash(tb, additional) ==
  LET nc == NextCap(tb.len + additional)
  IN  IF nc = 0 THEN [tb EXCEPT !.data = <<>>, !.free = 0]
      ELSE LET r == RehashFrom(tb.data, 1, [i \in 1 .. nc |-> FREE])
           IN  IF r.ok THEN [data |-> r.d, len |-> tb.len, free |-> nc - tb.len, hung |-> FALSE]
               ELSE Hung

(* fn reserve(additional) *)
NeedsRehash(tb, additional) ==
  tb.free < additional + (Cap(tb) \div RatioD) * (RatioD - RatioN)
Reserve(tb, additional) == IF NeedsRehash(tb, additional) THEN Rehash(tb, additional) ELSE tb

RehashSit(old, new) ==
  IF Cap(old) = 0 THEN "+alloc"
  ELSE IF Cap(new) > Cap(old) THEN "+grow"
  ELSE IF Cap(new) < Cap(old) THEN "+shrink"
  ELSE "+rehash"

(* the probe distances at which the loop of find / find_or_find_insert_slot
   stops: a FREE slot, or a slot with status = hash whose element is `eq` *)
Stops(d, start, h, k) ==
  {x \in 0 .. Len(d) - 1 : LET s == d[((start + x) % Len(d)) + 1]
                           IN  s.st = 0 \/ (s.st = 2 /\ s.h = h /\ s.k = k)}
TombsBefore(d, start, dist) == {x \in 0 .. dist - 1 : d[((start + x) % Len(d)) + 1].st = 1}
ProbeSit(d, start, dist) ==
  (IF dist > 0 THEN "+probe" ELSE "") \o (IF start + dist >= Len(d) THEN "+wrap" ELSE "")
  \o (IF TombsBefore(d, start, dist) # {} THEN "+tomb" ELSE "")

(* fn find(hash, eq): -1 = None, -2 = does not terminate, else Some(index) *)
Find(tb, h, k) ==
  IF tb.len = 0 THEN [i |-> -1, sit |-> "+empty"]
  ELSE LET cap == Cap(tb)
           start == h % cap
           ds == Stops(tb.data, start, h, k)
       IN  IF ds = {} THEN [i |-> -2, sit |-> "+hang"]
           ELSE LET dist == MinOf(ds)
                    i == (start + dist) % cap
                IN  [i |-> IF tb.data[i + 1].st = 0 THEN -1 ELSE i, sit |-> ProbeSit(tb.data, start, dist)]

----------------------------------------------------------------------------
(* the calls: each yields [tab: table after, ev: call + result, sit: situation] *)

Ev(op, t, u, k, v, p, n, res, cnt, out, seen) ==
  [op |-> op, t |-> t, u |-> u, k |-> k, v |-> v, p |-> p, n |-> n,
   res |-> res, cnt |-> cnt, out |-> out, seen |-> seen]
HangEv(op, t, k, v, p, n) ==
  [tab |-> Hung, ev |-> Ev(op, t, 0, k, v, p, n, "hang", 0, <<>>, <<>>), sit |-> "hang"]

OpNew(t, c) ==
  [tab |-> WithCap(c), ev |-> Ev("new", t, 0, 0, 0, {}, c, "ok", 0, <<>>, <<>>),
   sit |-> IF c = 0 THEN "new" ELSE "with_capacity"]

(* find_or_find_insert_slot(H[k], eq k); in the Err case insert_in_slot_unchecked *)
OpInsert(tb, t, k, v) ==
  LET h == H[k]
      t1 == Reserve(tb, 1)                                     \* self.reserve(1)
      rs == IF NeedsRehash(tb, 1) THEN RehashSit(tb, t1) ELSE ""
  IN  IF t1.hung \/ Cap(t1) = 0 THEN HangEv("insert", t, k, v, {}, 0)
      ELSE
      LET cap == Cap(t1)
          start == h % cap
          ds == Stops(t1.data, start, h, k)
      IN  IF ds = {} THEN HangEv("insert", t, k, v, {}, 0)
          ELSE
          LET dist == MinOf(ds)
              i == (start + dist) % cap
              s == t1.data[i + 1]
              tombs == TombsBefore(t1.data, start, dist)
              ps == ProbeSit(t1.data, start, dist)
          IN  IF s.st = 2
              THEN [tab |-> t1, ev |-> Ev("insert", t, 0, k, v, {}, 0, "found", t1.len, <<El(s)>>, <<>>),
                    sit |-> "found" \o rs \o ps]
              ELSE
              LET j == IF tombs = {} THEN i ELSE (start + MinOf(tombs)) % cap   \* first_tombstone.unwrap_or(index)
                  t2 == [t1 EXCEPT !.data[j + 1] = Occ(h, k, v), !.len = @ + 1,
                                   !.free = IF t1.data[j + 1].st # 1 THEN @ - 1 ELSE @]
              IN  [tab |-> t2, ev |-> Ev("insert", t, 0, k, v, {}, 0, "inserted", t2.len, <<>>, <<>>),
                   sit |-> (IF tombs = {} THEN "fresh" ELSE "reuse") \o rs \o ps]

OpFind(tb, t, k, op) ==
  LET f == Find(tb, H[k], k)
  IN  IF f.i = -2 THEN HangEv(op, t, k, 0, {}, 0)
      ELSE IF f.i = -1 THEN [tab |-> tb, ev |-> Ev(op, t, 0, k, 0, {}, 0, "none", tb.len, <<>>, <<>>),
                             sit |-> "miss" \o f.sit]
      ELSE [tab |-> tb, ev |-> Ev(op, t, 0, k, 0, {}, 0, "found", tb.len, <<El(tb.data[f.i + 1])>>, <<>>),
            sit |-> "hit" \o f.sit]

(* remove_entry = find + remove_at_slot_unchecked *)
OpRemove(tb, t, k) ==
  LET f == Find(tb, H[k], k)
  IN  IF f.i = -2 THEN HangEv("remove", t, k, 0, {}, 0)
      ELSE IF f.i = -1 THEN [tab |-> tb, ev |-> Ev("remove", t, 0, k, 0, {}, 0, "none", tb.len, <<>>, <<>>),
                             sit |-> "none" \o f.sit]
      ELSE
      LET cap == Cap(tb)
          nxt == (f.i + 1) % cap                                  \* (slot + 1) & (len - 1)
          tofree == tb.data[nxt + 1].st = 0
          t2 == [tb EXCEPT !.data[f.i + 1] = IF tofree THEN FREE ELSE TOMB,
                           !.free = IF tofree THEN @ + 1 ELSE @, !.len = @ - 1]
      IN  [tab |-> t2, ev |-> Ev("remove", t, 0, k, 0, {}, 0, "found", t2.len, <<El(tb.data[f.i + 1])>>, <<>>),
           sit |-> (IF tofree THEN "tofree" ELSE "totomb") \o (IF f.i = cap - 1 THEN "+lastslot" ELSE "") \o f.sit]

(* retain(predicate = key \in P, drop): the loop `for slot in data.iter_mut().rev()`;
   st = [d, len, free, lif (last_is_free), rem (i), seen, dropped, ub] and, for the
   situation tag only, which branches were taken: t2f (tombstone -> FREE), tk
   (tombstone kept), rf / rt (rejected element -> FREE / TOMBSTONE) *)
RECURSIVE RetainFrom(_, _, _)
RetainFrom(st, j, P) ==
  IF j = 0 THEN [st EXCEPT !.ub = TRUE]                           \* unreachable_unchecked()
  ELSE
  LET s == st.d[j] IN
  IF s.st = 0 THEN RetainFrom([st EXCEPT !.lif = TRUE], j - 1, P)
  ELSE IF s.st = 1 THEN
    IF st.lif THEN RetainFrom([st EXCEPT !.d[j] = FREE, !.free = @ + 1, !.t2f = TRUE], j - 1, P)
    ELSE RetainFrom([st EXCEPT !.tk = TRUE], j - 1, P)
  ELSE
    LET st1 == IF s.k \in P
               THEN [st EXCEPT !.lif = FALSE, !.seen = Append(@, El(s)), !.rem = @ - 1]
               ELSE [st EXCEPT !.len = @ - 1, !.d[j] = IF st.lif THEN FREE ELSE TOMB,
                               !.free = IF st.lif THEN @ + 1 ELSE @,
                               !.seen = Append(@, El(s)), !.dropped = Append(@, El(s)), !.rem = @ - 1,
                               !.rf = @ \/ st.lif, !.rt = @ \/ ~st.lif]
    IN  IF st1.rem = 0 THEN st1 ELSE RetainFrom(st1, j - 1, P)

OpRetain(tb, t, P) ==
  IF tb.len = 0
  THEN [tab |-> tb, ev |-> Ev("retain", t, 0, 0, 0, P, 0, "ok", 0, <<>>, <<>>), sit |-> "empty"]
  ELSE
  LET st == RetainFrom([d |-> tb.data, len |-> tb.len, free |-> tb.free,
                        lif |-> tb.data[1].st = 0, rem |-> tb.len, seen |-> <<>>, dropped |-> <<>>,
                        t2f |-> FALSE, tk |-> FALSE, rf |-> FALSE, rt |-> FALSE, ub |-> FALSE], Cap(tb), P)
  IN  IF st.ub THEN HangEv("retain", t, 0, 0, P, 0)
      ELSE
      LET t1 == [data |-> st.d, len |-> st.len, free |-> st.free, hung |-> FALSE]
          shrink == st.len < (Cap(tb) \div RatioD) * (RatioD - RatioN) /\ Cap(tb) >= MinCap
          t2 == IF shrink THEN Rehash(t1, 0) ELSE t1
      IN  IF t2.hung THEN HangEv("retain", t, 0, 0, P, 0)
          ELSE [tab |-> t2, ev |-> Ev("retain", t, 0, 0, 0, P, 0, "ok", t2.len, st.dropped, st.seen),
                sit |-> (IF st.dropped = <<>> THEN "keepall" ELSE IF st.len = 0 THEN "dropall" ELSE "drop")
                        \o (IF st.t2f THEN "+t2f" ELSE "") \o (IF st.tk THEN "+tk" ELSE "")
                        \o (IF st.rf THEN "+rf" ELSE "") \o (IF st.rt THEN "+rt" ELSE "")
                        \* the element in the last slot is dropped while slot 0 (its cyclic
                        \* successor) holds a tombstone / an element: must not become FREE
                        \o (IF tb.data[Cap(tb)].st > 1 /\ El(tb.data[Cap(tb)])[1] \notin P
                            THEN (IF tb.data[1].st = 1 THEN "+last0tomb" ELSE IF tb.data[1].st > 1 THEN "+last0occ" ELSE "+last0free")
                                 \* ... while a kept element's probe chain wraps around through the last slot
                                 \o (IF \E p \in 2 .. Cap(tb) : tb.data[p].st > 1 /\ tb.data[p].k \in P
                                                                  /\ (tb.data[p].h % Cap(tb)) + 1 > p
                                     THEN "+wrapkept" ELSE "")
                            ELSE "")
                        \o (IF ~shrink THEN "" ELSE IF Cap(t2) = 0 THEN "+shrink0"
                            ELSE IF Cap(t2) < Cap(tb) THEN "+shrink" ELSE "+rehash")]

(* the first `len` occupied slots in index order: what Iter / IntoIter / Drain
   yield and what clear resets; `short`: fewer occupied slots than len
   (unwrap_unchecked of None / unreachable_unchecked) *)
Walk(tb) ==
  LET oc == OccSeq(tb.data)
  IN  IF Len(oc) < tb.len THEN [short |-> TRUE, out |-> <<>>, lastI |-> 0]
      ELSE [short |-> FALSE, out |-> [j \in 1 .. tb.len |-> El(tb.data[oc[j]])],
            lastI |-> IF tb.len = 0 THEN 0 ELSE oc[tb.len]]
TrailSit(tb, w) ==
  IF tb.len = 0 THEN (IF NumSt(tb.data, 1) > 0 THEN "empty+tombs" ELSE "empty")
  ELSE IF \E i \in w.lastI + 1 .. Cap(tb) : tb.data[i].st = 1 THEN "trailtombs" ELSE "full"

OpIter(tb, t) ==
  LET w == Walk(tb)
  IN  IF w.short THEN HangEv("iter", t, 0, 0, {}, 0)
      ELSE [tab |-> tb, ev |-> Ev("iter", t, 0, 0, 0, {}, 0, "ok", tb.len, w.out, <<>>), sit |-> "iter"]

OpLen(tb, t) ==
  [tab |-> tb, ev |-> Ev("len", t, 0, 0, 0, {}, 0, "ok", tb.len, <<>>, <<>>), sit |-> "len"]

(* into_iter consumes the table; the handle then denotes RawTable::new() *)
OpIntoIter(tb, t) ==
  LET w == Walk(tb)
  IN  IF w.short THEN HangEv("into_iter", t, 0, 0, {}, 0)
      ELSE [tab |-> WithCap(0), ev |-> Ev("into_iter", t, 0, 0, 0, {}, 0, "ok", 0, w.out, <<>>),
            sit |-> TrailSit(tb, w)]

(* drain(): len = 0, free = data.len(); Drain::next marks the slots up to the
   last element FREE, Drop for Drain then marks all remaining slots FREE
   (fix b7b8f7e in /repo).
   (Variant HT_VARIANT_drain_partial: the code before that fix, where Drop for
   Drain stopped after the last element and left trailing tombstones although
   `free` counts every slot: FreeSound is violated, lookups can hang.) *)
DrainAll == "HT_VARIANT_drain_partial" \notin DOMAIN IOEnv
OpDrain(tb, t) ==
  LET w == Walk(tb)
  IN  IF w.short THEN HangEv("drain", t, 0, 0, {}, 0)
      ELSE [tab |-> [data |-> [i \in 1 .. Cap(tb) |-> IF i <= w.lastI \/ DrainAll THEN FREE ELSE tb.data[i]],
                     len |-> 0, free |-> Cap(tb), hung |-> FALSE],
            ev |-> Ev("drain", t, 0, 0, 0, {}, 0, "ok", 0, w.out, <<>>), sit |-> TrailSit(tb, w)]

(* clear(): returns at once if len = 0, else marks the slots up to the last
   element FREE; `free` is not touched *)
OpClear(tb, t) ==
  LET w == Walk(tb)
  IN  IF w.short THEN HangEv("clear", t, 0, 0, {}, 0)
      ELSE [tab |-> [tb EXCEPT !.data = [i \in 1 .. Cap(tb) |-> IF i <= w.lastI THEN FREE ELSE tb.data[i]],
                               !.len = 0],
            ev |-> Ev("clear", t, 0, 0, 0, {}, 0, "ok", 0, <<>>, <<>>), sit |-> TrailSit(tb, w)]

(* clear_no_drop(): the same slot walk as clear() *)
OpClearNd(tb, t) ==
  LET w == Walk(tb)
  IN  IF w.short THEN HangEv("clear_nd", t, 0, 0, {}, 0)
      ELSE [tab |-> [tb EXCEPT !.data = [i \in 1 .. Cap(tb) |-> IF i <= w.lastI THEN FREE ELSE tb.data[i]],
                               !.len = 0],
            ev |-> Ev("clear_nd", t, 0, 0, 0, {}, 0, "ok", 0, <<>>, <<>>), sit |-> TrailSit(tb, w)]

(* reset_no_drop(): len = 0, the slot array is replaced by an empty one, free = 0
   (fix in /repo; variant HT_VARIANT_reset_stale: the code before that fix left
   `free` untouched, so the next reserve(1) saw free slots in an array of length 0) *)
ResetStale == "HT_VARIANT_reset_stale" \in DOMAIN IOEnv
OpReset(tb, t) ==
  [tab |-> [data |-> <<>>, len |-> 0, free |-> IF ResetStale THEN tb.free ELSE 0, hung |-> FALSE],
   ev |-> Ev("reset_nd", t, 0, 0, 0, {}, 0, "ok", 0, <<>>, <<>>), sit |-> "reset"]

OpReserve(tb, t, n) ==
  LET t1 == Reserve(tb, n)
  IN  IF t1.hung THEN HangEv("reserve", t, 0, 0, {}, n)
      ELSE [tab |-> t1, ev |-> Ev("reserve", t, 0, 0, 0, {}, n, "ok", t1.len, <<>>, <<>>),
            sit |-> IF NeedsRehash(tb, n) THEN "reserve" \o RehashSit(tb, t1) ELSE "reserve+noop"]

OpClone(tb, t, u) ==
  [tab |-> tb, ev |-> Ev("clone", t, u, 0, 0, {}, 0, "ok", tb.len, <<>>, <<>>), sit |-> "clone"]

----------------------------------------------------------------------------
(* state machine *)

NoCall == [op |-> "init", t |-> 0, u |-> 0, k |-> 0, v |-> 0, p |-> {}, n |-> 0,
           res |-> "ok", cnt |-> 0, out |-> <<>>, seen |-> <<>>]

Init ==
  /\ tabs = [t \in Tab |-> WithCap(0)]
  /\ nops = 0
  /\ last = [tab |-> WithCap(0), ev |-> NoCall, sit |-> "init", chg |-> FALSE]
  /\ path = <<>>
  /\ aset = [t \in Tab |-> {}]

Cmd(l) == <<l.ev.op, l.ev.t, l.ev.u, l.ev.k, l.ev.v, l.ev.p, l.ev.n, l.sit>>
WithChg(r, old) == [tab |-> r.tab, ev |-> r.ev, sit |-> r.sit, chg |-> r.tab # old]

(* the call result is computed once, as the value of last' *)
Commit(t) ==
  /\ tabs' = [tabs EXCEPT ![t] = last'.tab]
  /\ nops' = IF MaxOps = 0 THEN 0 ELSE nops + 1
  /\ path' = Append(path, Cmd(last'))
  /\ aset' = [aset EXCEPT ![t] = Abs(last'.tab)]

(* HT_DISABLE_<op>: the check is re-run without a call that violated an
   invariant, to look for violations that do not need this call *)
On(op) == ~(("HT_DISABLE_" \o op) \in DOMAIN IOEnv)
Live(t) == ~tabs[t].hung

DoNew(t, c)       == On("new") /\ Live(t) /\ last' = WithChg(OpNew(t, c), tabs[t]) /\ Commit(t)
DoInsert(t, k, v) == On("insert") /\ Live(t) /\ last' = WithChg(OpInsert(tabs[t], t, k, v), tabs[t]) /\ Commit(t)
DoFind(t, k)      == On("find") /\ Live(t) /\ last' = WithChg(OpFind(tabs[t], t, k, "find"), tabs[t]) /\ Commit(t)
DoGet(t, k)       == On("get") /\ Live(t) /\ last' = WithChg(OpFind(tabs[t], t, k, "get"), tabs[t]) /\ Commit(t)
DoRemove(t, k)    == On("remove") /\ Live(t) /\ last' = WithChg(OpRemove(tabs[t], t, k), tabs[t]) /\ Commit(t)
DoRetain(t, P)    == On("retain") /\ Live(t) /\ last' = WithChg(OpRetain(tabs[t], t, P), tabs[t]) /\ Commit(t)
DoDrain(t)        == On("drain") /\ Live(t) /\ last' = WithChg(OpDrain(tabs[t], t), tabs[t]) /\ Commit(t)
DoIntoIter(t)     == On("into_iter") /\ Live(t) /\ last' = WithChg(OpIntoIter(tabs[t], t), tabs[t]) /\ Commit(t)
DoIter(t)         == On("iter") /\ Live(t) /\ last' = WithChg(OpIter(tabs[t], t), tabs[t]) /\ Commit(t)
DoLen(t)          == On("len") /\ Live(t) /\ last' = WithChg(OpLen(tabs[t], t), tabs[t]) /\ Commit(t)
DoClear(t)        == On("clear") /\ Live(t) /\ last' = WithChg(OpClear(tabs[t], t), tabs[t]) /\ Commit(t)
DoClearNd(t)      == On("clear_nd") /\ Live(t) /\ last' = WithChg(OpClearNd(tabs[t], t), tabs[t]) /\ Commit(t)
DoReset(t)        == On("reset_nd") /\ Live(t) /\ last' = WithChg(OpReset(tabs[t], t), tabs[t]) /\ Commit(t)
DoReserve(t, n)   == On("reserve") /\ Live(t) /\ last' = WithChg(OpReserve(tabs[t], t, n), tabs[t]) /\ Commit(t)
DoClone(t, u) ==
  /\ On("clone") /\ t # u /\ Live(t) /\ Live(u)
  /\ last' = WithChg(OpClone(tabs[t], t, u), tabs[u])
  /\ Commit(u)

Next ==
  \E t \in Tab :
    \/ \E c \in InitCaps : DoNew(t, c)
    \/ \E k \in Key, v \in Val : DoInsert(t, k, v)
    \/ \E k \in Key : DoFind(t, k)
    \/ \E k \in Key : DoGet(t, k)
    \/ \E k \in Key : DoRemove(t, k)
    \/ \E P \in Preds : DoRetain(t, P)
    \/ DoDrain(t) \/ DoIntoIter(t) \/ DoIter(t) \/ DoLen(t) \/ DoClear(t) \/ DoClearNd(t) \/ DoReset(t)
    \/ \E n \in ResArgs : DoReserve(t, n)
    \/ \E u \in Tab : DoClone(t, u)

Spec == Init /\ [][Next]_vars

(* JSON form of a path: [[op, t, u, k, v, [accepted keys], n, situation], ...] *)
KeySeq(S) == SelectSeq([i \in 1 .. 64 |-> i], LAMBDA i : i \in S)
CmdJ(c) == <<c[1], c[2], c[3], c[4], c[5], KeySeq(c[6]), c[7], c[8]>>
PathJson(p) == ToJson([i \in 1 .. Len(p) |-> CmdJ(p[i])])

Bound == MaxOps = 0 \/ nops <= MaxOps

----------------------------------------------------------------------------
(* refinement: the abstract set is the set of elements in occupied slots *)

A == INSTANCE HashTbl WITH set <- aset, last <- last.ev
AbsOK == aset = [t \in Tab |-> Abs(tabs[t])]
(* A!ANext with the witnesses taken from the call record (equivalent to
   checking A!ASpec, but TLC need not search for the abstract action) *)
RefStep ==
  LET e == last'.ev IN
  CASE e.op = "new"       -> e.n \in ResArgs /\ A!ANew(e.t, e.n)
    [] e.op = "insert"    -> A!AInsert(e.t, e.k, e.v)
    [] e.op = "find"      -> A!AFind(e.t, e.k)
    [] e.op = "get"       -> A!AGet(e.t, e.k)
    [] e.op = "remove"    -> A!ARemove(e.t, e.k)
    [] e.op = "retain"    -> A!ARetain(e.t, e.p)
    [] e.op = "drain"     -> A!ADrain(e.t)
    [] e.op = "into_iter" -> A!AIntoIter(e.t)
    [] e.op = "iter"      -> A!AIter(e.t)
    [] e.op = "len"       -> A!ALen(e.t)
    [] e.op \in {"clear", "clear_nd", "reset_nd"} -> A!AClear(e.t)
    [] e.op = "reserve"   -> e.n \in ResArgs /\ A!AReserve(e.t, e.n)
    [] e.op = "clone"     -> A!AClone(e.t, e.u)
    [] OTHER              -> FALSE
Refines == A!AInit /\ [][SkipInv("Refines") \/ RefStep \/ ~PrintT("BAD Refines " \o PathJson(path'))]_vars

----------------------------------------------------------------------------
(* invariants *)

(* a violated invariant prints the calls that lead to the violating state
   (line "BAD <name> <json>"): the check replays them on the real table *)
Chk(name, cond) == SkipInv(name) \/ cond \/ ~PrintT("BAD " \o name \o " " \o PathJson(path))

NoHang == Chk("NoHang", \A t \in Tab : ~tabs[t].hung)

(* whenever a probe loop can start there is a FREE slot (and the
   debug_assert of find holds): find / remove_entry probe if len > 0,
   find_or_find_insert_slot probes the table left by reserve(1) *)
ProbeTerminates ==
  Chk("ProbeTerminates",
      \A t \in Tab : Live(t) =>
        /\ tabs[t].len > 0 => tabs[t].free # 0 /\ NumSt(tabs[t].data, 0) > 0
        /\ LET r == Reserve(tabs[t], 1) IN ~r.hung /\ Cap(r) > 0 /\ NumSt(r.data, 0) > 0)

(* the counter never claims more FREE slots than there are *)
FreeSound == Chk("FreeSound", \A t \in Tab : tabs[t].free <= NumSt(tabs[t].data, 0))
(* at least a quarter of the slots is accounted FREE *)
LoadBound == Chk("LoadBound", \A t \in Tab : tabs[t].free >= 0 /\ RatioD * tabs[t].free >= Cap(tabs[t]))
LenExact  == Chk("LenExact", \A t \in Tab : tabs[t].len = NumSt(tabs[t].data, 2))
KeysUnique ==
  Chk("KeysUnique",
      \A t \in Tab : LET oc == OccSeq(tabs[t].data)
                     IN  Cardinality({tabs[t].data[oc[j]].k : j \in 1 .. Len(oc)}) = Len(oc))
(* every element is reachable from its home slot without crossing a FREE slot *)
Reachable ==
  Chk("Reachable",
      \A t \in Tab : \A i \in 1 .. Cap(tabs[t]) :
         LET d == tabs[t].data cap == Cap(tabs[t]) IN
         d[i].st = 2 => \A x \in 0 .. ((i - 1 - (d[i].h % cap)) + cap) % cap : d[(((d[i].h % cap) + x) % cap) + 1].st # 0)
StructOK ==
  Chk("StructOK", \A t \in Tab : Cap(tabs[t]) = 0 \/ (Cap(tabs[t]) \in Pow2s /\ Cap(tabs[t]) >= MinCap))

----------------------------------------------------------------------------
(* export of behaviours (binding T).  Evaluated as an invariant, i.e. once
   per distinct state, with the path on which the state was found first;
   only arrivals by a call that changed the table are printed (every layout
   is first reached by such a call).  ExportTrans (an action constraint)
   additionally prints a random sample of ALL transitions. *)
ASSUME ("HT_EXPORT" \in DOMAIN IOEnv) => PrintT("HASH " \o ToJson([i \in 1 .. Cardinality(Key) |-> H[i]]))
ExportState ==
  ("HT_EXPORT" \in DOMAIN IOEnv /\ last.chg) => PrintT("PATH " \o PathJson(path))
ExportTrans ==
  ("HT_TRANS" \in DOMAIN IOEnv /\ RandomElement(1 .. atoi(IOEnv.HT_TRANS)) = 1)
     => PrintT("PATH " \o PathJson(path'))
=============================================================================
