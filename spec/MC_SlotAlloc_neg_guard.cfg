SPECIFICATION Spec
CONSTANTS
  S = 5
  CH = 2
  Apps = {a1, a2}
  Dedicated = {gc}
  Collectors = {gc}
  MaxSteps = 7
  GuardVariant = "no_next_free_check"
INVARIANTS TypeOK FreeListsSound Disjoint ChunksOwned CapacityRestored CountExact
CHECK_DEADLOCK FALSE
