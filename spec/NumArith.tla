------------------------------ MODULE NumArith ------------------------------
(***************************************************************************)
(* Exact scalar arithmetic of the MTBDD terminal types (property C10).     *)
(*                                                                         *)
(* I64:  values [tag \in {"num","pinf","ninf","nan"}, neg, mag] with the   *)
(*   magnitude as limbs (Natural.tla).  add/sub/mul give the exact integer *)
(*   when it lies in [-2^63, 2^63-1] and the infinity of the exact         *)
(*   result's sign otherwise; div truncates toward zero, x/0 is the        *)
(*   infinity of the sign of x, 0/0, inf-inf, 0*inf, inf/inf are NaN.      *)
(*   Cases on which the property sentence is silent but which the crate's  *)
(*   own unit test (`agrees_with_float`) and the remark "0 * NaN is still  *)
(*   NaN" in oxidd-rules-mtbdd/src/lib.rs fix are specified as extended    *)
(*   real / IEEE arithmetic and carry their own class in the obligation    *)
(*   name: a NaN operand gives NaN ("nan"), inf+x = inf, inf*x = +-inf by  *)
(*   the sign rule, x/inf = 0, inf/x = +-inf ("inf").  MIN / -1 (exact     *)
(*   quotient 2^63, class "overflow_pos") must be +inf: no finite value is *)
(*   the truncated quotient and NaN is reserved for undefined forms.       *)
(*   NaN = NaN holds (NumberBase::nan documentation) and hence             *)
(*   partial_cmp(NaN, NaN) = Equal; NaN is unordered with everything else. *)
(*                                                                         *)
(* F64:  only the EXACT DYADIC FRAGMENT is decided.  A finite binary64 is  *)
(*   s * m * 2^e with an integer mantissa m; sum, difference, product and  *)
(*   (when the divisor's odd part divides the dividend's) quotient are     *)
(*   computed exactly; the operation is judged when the exact result is 0, *)
(*   is representable (<= 53 significant bits, 2^-1074 <= lsb, < 2^1024)   *)
(*   or has magnitude >= 2^1024 (IEEE: +-inf).  NOT DECIDED (the event is  *)
(*   accepted and counted as undecided): every result that needs IEEE      *)
(*   rounding - inexact sums/products/quotients, underflow, and the band   *)
(*   between the largest finite value and 2^1024.  Decided in addition:    *)
(*   the NaN/inf algebra, the documented normal form (one NaN bit pattern, *)
(*   no negative zero) of every result, Eq/Hash/partial_cmp consistency    *)
(*   (NaN = NaN, NaN unordered with the rest, exact order otherwise).      *)
(***************************************************************************)
EXTENDS Natural

(* ---- signed integers [neg, mag]; zero is not negative ---- *)
SInt(neg, mag) == [neg |-> neg /\ mag # <<>>, mag |-> mag]
SNeg(x) == SInt(~x.neg, x.mag)
SAdd(x, y) ==
  IF x.neg = y.neg THEN SInt(x.neg, LAdd(x.mag, y.mag))
  ELSE LET c == LCmp(x.mag, y.mag)
       IN  IF c = 0 THEN SInt(FALSE, <<>>)
           ELSE IF c > 0 THEN SInt(x.neg, LSub(x.mag, y.mag))
           ELSE SInt(y.neg, LSub(y.mag, x.mag))
SMul(x, y) == SInt(x.neg # y.neg, LMul(x.mag, y.mag))
STruncDiv(x, y) == SInt(x.neg # y.neg, LDivMod(x.mag, y.mag).q)     \* y # 0
SSign(x) == IF x.mag = <<>> THEN 0 ELSE IF x.neg THEN -1 ELSE 1
SCmp(x, y) ==
  IF x.neg # y.neg THEN (IF x.neg THEN -1 ELSE 1)
  ELSE IF x.neg THEN LCmp(y.mag, x.mag) ELSE LCmp(x.mag, y.mag)
InI64(x) == IF x.neg THEN LCmp(x.mag, Two63) <= 0 ELSE LCmp(x.mag, Two63) < 0

(* ---- I64 ---- *)
INum(s) == [tag |-> "num", neg |-> s.neg, mag |-> s.mag]
IPInf == [tag |-> "pinf", neg |-> FALSE, mag |-> <<>>]
INInf == [tag |-> "ninf", neg |-> TRUE, mag |-> <<>>]
INaN == [tag |-> "nan", neg |-> FALSE, mag |-> <<>>]
IInf(neg) == IF neg THEN INInf ELSE IPInf

(* transport form {t, bits}: bits = the 64-bit two's complement pattern *)
IWellFormed(r) ==
  /\ r.t \in {"num", "pinf", "ninf", "nan"}
  /\ IsLimbs(r.bits) /\ LCmp(r.bits, Two64) < 0
  /\ r.t # "num" => r.bits = <<>>
IDec(r) ==
  CASE r.t = "num" -> IF LCmp(r.bits, Two63) < 0 THEN INum(SInt(FALSE, r.bits))
                      ELSE INum(SInt(TRUE, LSub(Two64, r.bits)))
    [] r.t = "pinf" -> IPInf
    [] r.t = "ninf" -> INInf
    [] r.t = "nan" -> INaN

IIsNum(v) == v.tag = "num"
IIsInf(v) == v.tag \in {"pinf", "ninf"}
ISInt(v) == [neg |-> v.neg, mag |-> v.mag]
ISign(v) == IF IIsInf(v) THEN (IF v.neg THEN -1 ELSE 1) ELSE SSign(ISInt(v))
INegate(v) == IF IIsNum(v) THEN INum(SNeg(ISInt(v))) ELSE IF v.tag = "pinf" THEN INInf
              ELSE IF v.tag = "ninf" THEN IPInf ELSE v
(* exact integer -> I64 with saturation; class of the case *)
ISat(s) == IF InI64(s) THEN [v |-> INum(s), cls |-> "finite"]
           ELSE [v |-> IInf(s.neg), cls |-> IF s.neg THEN "overflow_neg" ELSE "overflow_pos"]

(* a + b where b may be the (unrepresentable) negation of MIN: operands are exact integers *)
IAddX(a, b) ==
  IF a.tag = "nan" \/ b.tag = "nan" THEN [v |-> INaN, cls |-> "nan"]
  ELSE IF IIsNum(a) /\ IIsNum(b) THEN ISat(SAdd(ISInt(a), ISInt(b)))
  ELSE IF IIsInf(a) /\ IIsInf(b) /\ a.tag # b.tag THEN [v |-> INaN, cls |-> "undef"]
  ELSE [v |-> IF IIsInf(a) THEN a ELSE b, cls |-> "inf"]

IMulX(a, b) ==
  IF a.tag = "nan" \/ b.tag = "nan" THEN [v |-> INaN, cls |-> "nan"]
  ELSE IF IIsNum(a) /\ IIsNum(b) THEN ISat(SMul(ISInt(a), ISInt(b)))
  ELSE IF ISign(a) = 0 \/ ISign(b) = 0 THEN [v |-> INaN, cls |-> "undef"]
  ELSE [v |-> IInf(ISign(a) # ISign(b)), cls |-> "inf"]

IDivX(a, b) ==
  IF a.tag = "nan" \/ b.tag = "nan" THEN [v |-> INaN, cls |-> "nan"]
  ELSE IF IIsInf(a) /\ IIsInf(b) THEN [v |-> INaN, cls |-> "undef"]
  ELSE IF IIsNum(b) /\ ISign(b) = 0
       THEN (IF ISign(a) = 0 THEN [v |-> INaN, cls |-> "undef"]
             ELSE [v |-> IInf(ISign(a) < 0), cls |-> "by_zero"])
  ELSE IF IIsInf(b) THEN [v |-> INum(SInt(FALSE, <<>>)), cls |-> "inf"]
  ELSE IF IIsInf(a) THEN [v |-> IInf(ISign(a) # ISign(b)), cls |-> "inf"]
  ELSE ISat(STruncDiv(ISInt(a), ISInt(b)))

I64Op(op, a, b) ==
  CASE op = "add" -> IAddX(a, b)
    [] op = "sub" -> IAddX(a, INegate(b))
    [] op = "mul" -> IMulX(a, b)
    [] op = "div" -> IDivX(a, b)

(* rank for the order  -inf < numbers < +inf *)
ICmp(a, b) ==
  IF a.tag = "nan" /\ b.tag = "nan" THEN [c |-> "eq", cls |-> "nan"]
  ELSE IF a.tag = "nan" \/ b.tag = "nan" THEN [c |-> "none", cls |-> "nan"]
  ELSE IF IIsNum(a) /\ IIsNum(b)
       THEN LET k == SCmp(ISInt(a), ISInt(b))
            IN  [c |-> IF k < 0 THEN "lt" ELSE IF k > 0 THEN "gt" ELSE "eq", cls |-> "finite"]
  ELSE LET ra == IF IIsNum(a) THEN 0 ELSE ISign(a)
           rb == IF IIsNum(b) THEN 0 ELSE ISign(b)
       IN  [c |-> IF ra < rb THEN "lt" ELSE IF ra > rb THEN "gt" ELSE "eq", cls |-> "inf"]

(* decimal text of an integer *)
IDecimal(s) == (IF s.neg THEN <<45>> ELSE <<>>) \o DecDigits(s.mag)

----------------------------------------------------------------------------
(* ---- F64: transport form {s, x, f} = sign bit, biased exponent, fraction limbs ---- *)
FWellFormed(r) ==
  r.s \in {0, 1} /\ r.x \in 0 .. 2047 /\ IsLimbs(r.f) /\ LCmp(r.f, Two52) < 0
CanonNaNFrac == <<0, 0, 0, 64>>        \* f64::NAN = 0x7ff8_0000_0000_0000
(* the documented normal form: a single NaN, no negative zero *)
FIsNormalised(r) ==
  /\ (r.x = 2047 /\ r.f # <<>>) => (r.s = 0 /\ r.f = CanonNaNFrac)
  /\ (r.x = 0 /\ r.f = <<>>) => r.s = 0

FNaN == [k |-> "nan", neg |-> FALSE, m |-> <<>>, e |-> 0]
FInf(neg) == [k |-> "inf", neg |-> neg, m |-> <<>>, e |-> 0]
FZero == [k |-> "fin", neg |-> FALSE, m |-> <<>>, e |-> 0]
(* finite value s * m * 2^e in normal form (m odd; zero is +0: the type has no negative zero) *)
FFin(neg, m, e) ==
  IF m = <<>> THEN FZero
  ELSE LET tz == Tz(m) IN [k |-> "fin", neg |-> neg, m |-> IF tz = 0 THEN m ELSE LShrQ(m, tz), e |-> e + tz]
FDec(r) ==
  IF r.x = 2047 THEN (IF r.f = <<>> THEN FInf(r.s = 1) ELSE FNaN)
  ELSE IF r.x = 0 THEN FFin(r.s = 1, r.f, -1074)
  ELSE FFin(r.s = 1, LAdd(r.f, Two52), r.x - 1075)

FIsZero(v) == v.k = "fin" /\ v.m = <<>>
FTop(v) == v.e + BitLen(v.m)          \* 1 + exponent of the leading one
FRepresentable(v) == BitLen(v.m) <= 53 /\ v.e >= -1074 /\ FTop(v) <= 1024
(* judge an exact finite result *)
FJudge(v) ==
  IF v.m = <<>> THEN [dec |-> TRUE, v |-> FZero, cls |-> "zero"]
  ELSE IF FRepresentable(v) THEN [dec |-> TRUE, v |-> v, cls |-> "exact"]
  ELSE IF FTop(v) > 1024 THEN [dec |-> TRUE, v |-> FInf(v.neg), cls |-> "overflow"]
  ELSE [dec |-> FALSE, v |-> v, cls |-> "inexact"]

FAddExact(a, b) ==
  IF a.m = <<>> THEN b ELSE IF b.m = <<>> THEN a
  ELSE LET e0 == IF a.e <= b.e THEN a.e ELSE b.e
           s == SAdd(SInt(a.neg, LShl(a.m, a.e - e0)), SInt(b.neg, LShl(b.m, b.e - e0)))
       IN  FFin(s.neg, s.mag, e0)
FNegate(v) == IF v.k = "nan" \/ FIsZero(v) THEN v ELSE [v EXCEPT !.neg = ~v.neg]

FAddX(a, b) ==
  IF a.k = "nan" \/ b.k = "nan" THEN [dec |-> TRUE, v |-> FNaN, cls |-> "nan"]
  ELSE IF a.k = "inf" /\ b.k = "inf" /\ a.neg # b.neg THEN [dec |-> TRUE, v |-> FNaN, cls |-> "undef"]
  ELSE IF a.k = "inf" THEN [dec |-> TRUE, v |-> a, cls |-> "inf"]
  ELSE IF b.k = "inf" THEN [dec |-> TRUE, v |-> b, cls |-> "inf"]
  ELSE FJudge(FAddExact(a, b))

FMulX(a, b) ==
  IF a.k = "nan" \/ b.k = "nan" THEN [dec |-> TRUE, v |-> FNaN, cls |-> "nan"]
  ELSE IF a.k = "inf" \/ b.k = "inf"
       THEN (IF FIsZero(a) \/ FIsZero(b) THEN [dec |-> TRUE, v |-> FNaN, cls |-> "undef"]
             ELSE [dec |-> TRUE, v |-> FInf(a.neg # b.neg), cls |-> "inf"])
  ELSE IF a.m = <<>> \/ b.m = <<>> THEN [dec |-> TRUE, v |-> FZero, cls |-> "zero"]
  ELSE FJudge(FFin(a.neg # b.neg, LMul(a.m, b.m), a.e + b.e))

FDivX(a, b) ==
  IF a.k = "nan" \/ b.k = "nan" THEN [dec |-> TRUE, v |-> FNaN, cls |-> "nan"]
  ELSE IF a.k = "inf" /\ b.k = "inf" THEN [dec |-> TRUE, v |-> FNaN, cls |-> "undef"]
  ELSE IF FIsZero(b)
       THEN (IF FIsZero(a) THEN [dec |-> TRUE, v |-> FNaN, cls |-> "undef"]
             ELSE [dec |-> TRUE, v |-> FInf(a.neg), cls |-> "by_zero"])     \* the divisor is +0: sign of x
  ELSE IF a.k = "inf" THEN [dec |-> TRUE, v |-> FInf(a.neg # b.neg), cls |-> "inf"]
  ELSE IF b.k = "inf" THEN [dec |-> TRUE, v |-> FZero, cls |-> "inf"]
  ELSE IF a.m = <<>> THEN [dec |-> TRUE, v |-> FZero, cls |-> "zero"]
  ELSE LET d == IF b.m = One THEN [q |-> a.m, r |-> <<>>] ELSE LDivMod(a.m, b.m)
       IN  IF d.r = <<>> THEN FJudge(FFin(a.neg # b.neg, d.q, a.e - b.e))
           ELSE [dec |-> FALSE, v |-> FZero, cls |-> "inexact"]

F64Op(op, a, b) ==
  CASE op = "add" -> FAddX(a, b)
    [] op = "sub" -> FAddX(a, FNegate(b))
    [] op = "mul" -> FMulX(a, b)
    [] op = "div" -> FDivX(a, b)

(* order of the magnitudes of two non-zero finite values *)
FCmpMag(a, b) ==
  IF FTop(a) # FTop(b) THEN (IF FTop(a) < FTop(b) THEN -1 ELSE 1)
  ELSE LET e0 == IF a.e <= b.e THEN a.e ELSE b.e
       IN  LCmp(LShl(a.m, a.e - e0), LShl(b.m, b.e - e0))
FRank(v) == IF v.k = "inf" THEN (IF v.neg THEN -2 ELSE 2)
            ELSE IF v.m = <<>> THEN 0 ELSE IF v.neg THEN -1 ELSE 1
FCmp(a, b) ==
  IF a.k = "nan" /\ b.k = "nan" THEN [c |-> "eq", cls |-> "nan"]
  ELSE IF a.k = "nan" \/ b.k = "nan" THEN [c |-> "none", cls |-> "nan"]
  ELSE LET ra == FRank(a)
           rb == FRank(b)
       IN  IF ra # rb THEN [c |-> IF ra < rb THEN "lt" ELSE "gt", cls |-> IF a.k = "inf" \/ b.k = "inf" THEN "inf" ELSE "finite"]
           ELSE IF ra \in {-2, 0, 2} THEN [c |-> "eq", cls |-> IF ra = 0 THEN "finite" ELSE "inf"]
           ELSE LET k == IF ra = 1 THEN FCmpMag(a, b) ELSE FCmpMag(b, a)
                IN  [c |-> IF k < 0 THEN "lt" ELSE IF k > 0 THEN "gt" ELSE "eq", cls |-> "finite"]
=============================================================================
