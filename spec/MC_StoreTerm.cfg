SPECIFICATION Spec
CONSTANTS
  TermVals = {10, 11}
  Threads = {t1, t2}
  MaxOps = 2
  MaxHandles = 2
  EarlyUnlock = FALSE
INVARIANTS RcExact NoDangling
PROPERTY SweepExact
CHECK_DEADLOCK FALSE
