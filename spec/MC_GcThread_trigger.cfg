SPECIFICATION FairSpec
CONSTANTS
  Droppers = {d1}
  Allocs = 2
  CheckBeforeWait = TRUE
  SeqDrops = FALSE
INVARIANTS TypeOK NoLostTrigger
CHECK_DEADLOCK FALSE
