------------------------------- MODULE Dddmp -------------------------------
(***************************************************************************)
(* The DDDMP exchange format as documented by oxidd-dump (module docs of   *)
(* dddmp, ExportSettings::{strict, export, export_with_names,              *)
(* diagram_name}, DumpHeader accessors, import).  Pure definitions.        *)
(*                                                                         *)
(*  (a) Sanitise: what becomes of a name that the format cannot carry;     *)
(*  (b) the header contract: which header fields a correct export of a set *)
(*      of roots from a manager state must carry;                          *)
(*  (c) FileSem: the denotation of an ASCII node list, defined for every   *)
(*      token sequence (also for mutated files);                           *)
(*  (d) the outcome classes of export and import.                          *)
(*                                                                         *)
(* Names are sequences of byte codes (UTF-8).  A tokenised file is a       *)
(* record [hdr, hasnodes, mode, lines | binlen, endok]; a header line is   *)
(* [k: key, v: trimmed value bytes, b: tokens as bytes, s: tokens as       *)
(* strings, i: tokens as numbers (NaN if a token is not a small decimal    *)
(* integer)]; a node-section line is [s, i].  Where the documentation does *)
(* not fix something, every outcome is accepted.                           *)
(***************************************************************************)
EXTENDS DDSem

NaN == 2000000000

----------------------------------------------------------------------------
(* (a) names *)

US == 95                                  \* '_'
IsCtl(c) == c < 32 \/ c = 127             \* ASCII control characters
NeedsRepl(c) == IsCtl(c) \/ c = 32        \* ... and the space
Clean(s) == \A j \in 1 .. Len(s) : ~NeedsRepl(s[j])
SanChars(s) == [j \in 1 .. Len(s) |-> IF NeedsRepl(s[j]) THEN US ELSE s[j]]

RECURSIVE Dec(_)
Dec(i) == IF i < 10 THEN <<48 + i>> ELSE Dec(i \div 10) \o <<48 + (i % 10)>>
Under(k) == [j \in 1 .. k |-> US]
RECURSIVE LeadU(_)
LeadU(s) == IF s # <<>> /\ s[1] = US THEN 1 + LeadU(Tail(s)) ELSE 0
MaxOf(S) == IF S = {} THEN 0 ELSE CHOOSE x \in S : \A y \in S : y <= x

(* function (root) names: "Each space or ASCII control character will be
   replaced by an underscore.  Empty names will be replaced by _f{i}" *)
SanitiseFun(name, i) == IF name = <<>> THEN <<US, 102>> \o Dec(i) ELSE SanChars(name)
FunNeedsRepl(name) == name = <<>> \/ ~Clean(name)

(* variable names: space/control -> '_'; "Empty variable names are replaced
   by _x{i}.  To retain uniqueness, as many underscores are added to the
   prefix as there are in the longest prefix over all present variable
   names."  Whether the longest underscore prefix is taken before or after
   the replacement of characters is not said: both are accepted.  What
   happens when two names coincide after the replacement is not said either,
   only that uniqueness is to be retained: the plain replacement and a
   generated prefix _..x{i}_ before it are both accepted, the exported names
   must be pairwise distinct. *)
LeadCounts(names) ==
  { 1 + MaxOf({LeadU(names[j]) : j \in 1 .. Len(names)}),
    1 + MaxOf({LeadU(SanChars(names[j])) : j \in 1 .. Len(names)}) }
GenVar(k, i) == Under(k) \o <<120>> \o Dec(i)
VarNameOk(names, i, tok) ==          \* i: variable number (0-based)
  LET nm == names[i + 1] IN
  IF nm = <<>> THEN \E k \in LeadCounts(names) : tok = GenVar(k, i)
  ELSE IF Clean(nm) THEN tok = nm
  ELSE \/ tok = SanChars(nm)
       \/ \E k \in LeadCounts(names) : tok = GenVar(k, i) \o <<US>> \o SanChars(nm)
Distinct(s) == \A i, j \in 1 .. Len(s) : i # j => s[i] # s[j]
(* E: the exported name of every variable (sequence indexed by variable + 1) *)
VarNamesOk(names, E) ==
  /\ Len(E) = Len(names)
  /\ \A v \in 0 .. Len(names) - 1 : VarNameOk(names, v, E[v + 1])
  /\ Distinct(E)

AllNamed(names) == \A j \in 1 .. Len(names) : names[j] # <<>>
SomeNamed(names) == \E j \in 1 .. Len(names) : names[j] # <<>>
(* "In strict mode, no variable names will be exported unless all variables
   are named."  Relaxed mode relabels.  "yes" | "no" | "open" *)
NamesExported(strict, names) ==
  IF Len(names) = 0 THEN "open"
  ELSE IF AllNamed(names) THEN "yes"
  ELSE IF strict THEN "no"
  ELSE IF SomeNamed(names) THEN "yes" ELSE "open"
VarReplNeeded(names) == \E j \in 1 .. Len(names) : names[j] = <<>> \/ ~Clean(names[j])

(* diagram name: "Control characters will be replaced by spaces"; the value
   of a header field is what remains after trimming blanks *)
DdChars(s) == [j \in 1 .. Len(s) |-> IF IsCtl(s[j]) THEN 32 ELSE s[j]]
IsBlank(c) == c = 32 \/ c = 9
RECURSIVE TrimL(_)
TrimL(s) == IF s # <<>> /\ IsBlank(s[1]) THEN TrimL(Tail(s)) ELSE s
RECURSIVE TrimR(_)
TrimR(s) == IF s # <<>> /\ IsBlank(s[Len(s)]) THEN TrimR(SubSeq(s, 1, Len(s) - 1)) ELSE s
Trim(s) == TrimR(TrimL(s))
DdNeedsRepl(s) == \E j \in 1 .. Len(s) : IsCtl(s[j])

(* strict mode: "an error will be generated upon any replacement ... only
   after the file was written" *)
ReplacementHappens(strict, names, dd, withRootNames, rnames) ==
  \/ DdNeedsRepl(dd)
  \/ NamesExported(strict, names) = "yes" /\ VarReplNeeded(names)
  \/ withRootNames /\ \E j \in 1 .. Len(rnames) : FunNeedsRepl(rnames[j])
  \* an export of names that was left open and did replace something
StrictOutcomeOk(strict, names, dd, withRootNames, rnames, isErr, namesWritten) ==
  IF ~strict THEN ~isErr
  ELSE LET must == ReplacementHappens(strict, names, dd, withRootNames, rnames)
           may  == must \/ (namesWritten /\ NamesExported(strict, names) = "open" /\ VarReplNeeded(names))
       IN  (must => isErr) /\ (isErr => may)

----------------------------------------------------------------------------
(* MTBDDs: a function is a map from the assignments to values <<tag, int>>
   ("n" number, "p" +infinity, "m" -infinity, "x" not a number).  A stored
   graph lists rows <<id, lvl, then, 0, else, 0>> children first, a negative
   child -k is the k-th entry of the event's terminal table. *)
MtConst(n, val) == [a \in Asg(n) |-> val]
MtNode(n, v, T, E) == [a \in Asg(n) |-> IF Bit(a, v) THEN T[a] ELSE E[a]]
MtSupport(n, F) == {v \in 0 .. n-1 : \E a \in Asg(n) : F[a] # F[SetBit(a, v, ~Bit(a, v))]}
MtEdge(n, m, terms, id) == IF id < 0 THEN MtConst(n, terms[-id]) ELSE m[id]
RECURSIVE MtSemMapFrom(_, _, _, _, _, _)
MtSemMapFrom(n, l2v, g, terms, i, m) ==
  IF i > Len(g) THEN m
  ELSE MtSemMapFrom(n, l2v, g, terms, i + 1,
         (g[i][1] :> MtNode(n, l2v[g[i][2] + 1], MtEdge(n, m, terms, g[i][3]),
                            MtEdge(n, m, terms, g[i][5]))) @@ m)
MtSemMap(n, l2v, g, terms) == MtSemMapFrom(n, l2v, g, terms, 1, EmptyMap)
MtTable(n, vt) == [a \in Asg(n) |-> vt[a + 1]]

----------------------------------------------------------------------------
(* (b) header contract *)

HasKey(f, key) == \E j \in 1 .. Len(f.hdr) : f.hdr[j].k = key
LastIdx(f, key) == CHOOSE j \in 1 .. Len(f.hdr) :
                      f.hdr[j].k = key /\ \A q \in j + 1 .. Len(f.hdr) : f.hdr[q].k # key
Line(f, key) == f.hdr[LastIdx(f, key)]
Nums(f, key) == IF HasKey(f, key) THEN Line(f, key).i ELSE <<>>
Toks(f, key) == IF HasKey(f, key) THEN Line(f, key).b ELSE <<>>
Strs(f, key) == IF HasKey(f, key) THEN Line(f, key).s ELSE <<>>
Num1(f, key, dflt) ==      \* a field holding exactly one number
  IF ~HasKey(f, key) THEN dflt
  ELSE IF Len(Line(f, key).i) = 1 THEN Line(f, key).i[1] ELSE NaN

(* support: the variables on whose levels the dump has nodes.  For reduced
   BDDs/BCDDs these are the variables a root depends on, for ZBDDs the
   variables occurring in a member of a root family, for MTBDDs the variables
   whose value matters. *)
SuppOf(kind, n, vals) ==
  IF kind = "mtbdd" THEN UNION {MtSupport(n, vals[j]) : j \in 1 .. Len(vals)}
  ELSE IF kind = "zbdd" THEN {v \in 0 .. n-1 : \E j \in 1 .. Len(vals) : \E a \in vals[j] : Bit(a, v)}
  ELSE UNION {Support(n, vals[j]) : j \in 1 .. Len(vals)}
RECURSIVE SortedSeq(_)
SortedSeq(S) == IF S = {} THEN <<>>
                ELSE LET m == CHOOSE x \in S : \A y \in S : x <= y IN <<m>> \o SortedSeq(S \ {m})
LevelOf(l2v, v) == (CHOOSE k \in 1 .. Len(l2v) : l2v[k] = v) - 1
(* the support variables from the top-most to the bottom-most *)
SuppOrder(l2v, S) == SelectSeq(l2v, LAMBDA v : v \in S)

----------------------------------------------------------------------------
(* (c) denotation of an ASCII node list.  `x` = 1 if node lines carry an
   extra-info column (.varinfo other than 4).  A line is
     <id> [<info>] <var index | terminal> <then> <else>
   a negative child is a complemented edge, a line with a 0 child is a
   terminal.  The variable index counts the support variables from the
   top-most (0) downwards; `L` maps it to the manager's variable (the
   `support_vars` argument of import).  The complement of a function is
   taken over all n variables of the manager (not_edge), for every kind.
   Status: "ok" (m is defined), "bad" (the format is violated: the importer
   must reject), "open" (a terminal the specification does not know). *)

(* d: the description as string, num: its numeric view (NaN if it is not a
   small decimal integer) *)
TermKnown(kind, d, num) ==
  CASE kind = "zbdd" -> d \in {"E", "B"}
    [] kind = "mtbdd" -> num # NaN \/ d \in {"NaN", "+Inf", "-Inf"}
    [] OTHER -> d \in {"T", "F"}
TermDen(kind, n, d, num) ==
  CASE kind = "zbdd" -> (IF d = "B" THEN {0} ELSE {})
    [] kind = "mtbdd" -> MtConst(n, IF num # NaN THEN <<"n", num>>
                                    ELSE IF d = "+Inf" THEN <<"p", 0>>
                                    ELSE IF d = "-Inf" THEN <<"m", 0>> ELSE <<"x", 0>>)
    [] OTHER -> (IF d = "T" THEN Asg(n) ELSE {})

ChildDen(n, m, c) == IF c < 0 THEN Asg(n) \ m[-c] ELSE m[c]
InnerDen(kind, n, v, T, E) ==
  CASE kind = "zbdd" -> E \cup {SetBit(a, v, TRUE) : a \in T}
    [] kind = "mtbdd" -> MtNode(n, v, T, E)
    [] OTHER -> {a \in T : Bit(a, v)} \cup {a \in E : ~Bit(a, v)}

RECURSIVE FileSemFrom(_, _, _, _, _, _, _, _)
FileSemFrom(kind, n, L, x, lines, nn, k, m) ==
  IF k > nn THEN [st |-> "ok", m |-> m]
  ELSE
    LET ln == lines[k] IN
    IF Len(ln.i) # 4 + x \/ ln.i[1] # k \/ ln.i[3 + x] = NaN \/ ln.i[4 + x] = NaN
    THEN [st |-> "bad", m |-> m]
    ELSE
      LET t == ln.i[3 + x]
          e == ln.i[4 + x]
      IN  IF t = 0 \/ e = 0
          THEN IF TermKnown(kind, ln.s[2 + x], ln.i[2 + x])
               THEN FileSemFrom(kind, n, L, x, lines, nn, k + 1,
                                (k :> TermDen(kind, n, ln.s[2 + x], ln.i[2 + x])) @@ m)
               ELSE [st |-> "open", m |-> m]
          ELSE LET j == ln.i[2 + x]
                   at == IF t < 0 THEN -t ELSE t
                   ae == IF e < 0 THEN -e ELSE e
               IN  IF j = NaN \/ j < 0 \/ j >= Len(L) \/ at >= k \/ ae >= k
                   THEN [st |-> "bad", m |-> m]
                   ELSE IF kind = "mtbdd" /\ (t < 0 \/ e < 0)
                   THEN [st |-> "open", m |-> m]    \* no complement of a number
                   ELSE FileSemFrom(kind, n, L, x, lines, nn, k + 1,
                          (k :> InnerDen(kind, n, L[j + 1], ChildDen(n, m, t), ChildDen(n, m, e))) @@ m)

(* the whole file: [st, roots] with roots = denotations of .rootids *)
FileSem(kind, n, L, f) ==
  LET nn == Num1(f, ".nnodes", 0)
      nr == Num1(f, ".nroots", 0)
      R  == Nums(f, ".rootids")
      vi == IF HasKey(f, ".varinfo") THEN Strs(f, ".varinfo") ELSE <<"4">>
      x  == IF vi = <<"4">> THEN 0 ELSE 1
  IN  IF ~f.hasnodes \/ nn = NaN \/ nr = NaN \/ Len(R) # nr
         \/ (\E j \in 1 .. Len(R) : R[j] = NaN \/ R[j] = 0 \/ R[j] > nn \/ -R[j] > nn)
         \/ Len(f.lines) # nn + 1 \/ f.lines[nn + 1].s # <<".end">>
      THEN [st |-> "bad", roots |-> <<>>]
      ELSE LET r == FileSemFrom(kind, n, L, x, f.lines, nn, 1, EmptyMap)
           IN  IF r.st # "ok" THEN [st |-> r.st, roots |-> <<>>]
               ELSE IF kind = "mtbdd" /\ \E j \in 1 .. Len(R) : R[j] < 0
               THEN [st |-> "open", roots |-> <<>>]
               ELSE [st |-> "ok", roots |-> [j \in 1 .. Len(R) |-> ChildDen(n, r.m, R[j])]]

(* a complete file: header ended by .nodes, node section ended by .end *)
FileComplete(f) ==
  /\ f.hasnodes
  /\ IF f.mode = "B" THEN f.endok
     ELSE LET nn == Num1(f, ".nnodes", 0)
          IN  nn # NaN /\ Len(f.lines) = nn + 1 /\ f.lines[nn + 1].s = <<".end">>

----------------------------------------------------------------------------
(* (d) outcome classes.  Export: "ok" | "err" (strict mode) | "panic";
   Import: "ok" | "err" | "panic".  A panic is never acceptable; a file
   written by a successful export must be accepted; any other input may be
   rejected; whatever is accepted must denote what the file says. *)
ResClass(res) == IF res = "ok" THEN "ok"
                 ELSE IF res \in {"precond", "skipped"} THEN res
                 ELSE IF "panic" \in DOMAIN res THEN "panic"
                 ELSE IF "setup_panic" \in DOMAIN res THEN "setup_panic"
                 ELSE "err"

----------------------------------------------------------------------------
(* structural sanity of a stored diagram given as snapshot rows
   <<id, lvlListed, lvlStored, rc, c0id, c0tag, c1id, c1tag>>: ordered,
   reduced, no duplicates, children present *)
SnapWellFormed(kind, n, N) ==
  LET I == 1 .. Len(N)
      ids == {N[i][1] : i \in I}
      lvl(id) == N[CHOOSE i \in I : N[i][1] = id][3]
  IN  /\ Cardinality(ids) = Len(N)
      /\ \A i \in I :
           /\ N[i][2] = N[i][3] /\ N[i][3] \in 0 .. n - 1
           /\ \A c \in {N[i][5], N[i][7]} : c < 0 \/ (c \in ids /\ lvl(c) > N[i][3])
           /\ CASE kind \in {"bdd", "mtbdd"} -> <<N[i][5], N[i][6]>> # <<N[i][7], N[i][8]>>
                [] kind = "bcdd" -> <<N[i][5], N[i][6]>> # <<N[i][7], N[i][8]>> /\ N[i][6] = 0
                [] kind = "zbdd" -> N[i][5] # -1
      /\ Cardinality({<<N[i][3], N[i][5], N[i][6], N[i][7], N[i][8]>> : i \in I}) = Len(N)

----------------------------------------------------------------------------
(* self-tests of the definitions (evaluated by every TLC run) *)
HL(k, s, i) == [k |-> k, v |-> <<>>, b |-> <<>>, s |-> s, i |-> i]
TestFile ==      \* x1 AND NOT x0 written with a complemented else edge, order x1 < x0
  [hasnodes |-> TRUE, mode |-> "A",
   hdr |-> << HL(".nnodes", <<"3">>, <<3>>), HL(".nroots", <<"2">>, <<2>>),
              HL(".rootids", <<"3", "-2">>, <<3, -2>>) >>,
   lines |-> << [s |-> <<"1", "T", "0", "0">>, i |-> <<1, NaN, 0, 0>>],
                [s |-> <<"2", "1", "1", "-1">>, i |-> <<2, 1, 1, -1>>],
                [s |-> <<"3", "0", "-2", "-1">>, i |-> <<3, 0, -2, -1>>],
                [s |-> <<".end">>, i |-> <<NaN>>] >>]
ASSUME SanChars(<<97, 32, 9, 127, 98, 195, 169>>) = <<97, 95, 95, 95, 98, 195, 169>>
ASSUME SanitiseFun(<<>>, 12) = <<95, 102, 49, 50>> /\ SanitiseFun(<<32>>, 0) = <<95>>
ASSUME VarNameOk(<< <<>>, <<95, 95, 97>> >>, 0, <<95, 95, 95, 120, 48>>)
ASSUME ~VarNameOk(<< <<>>, <<95, 95, 97>> >>, 0, <<95, 120, 48>>)
ASSUME VarNameOk(<< <<97, 32, 98>> >>, 0, <<97, 95, 98>>) /\ ~VarNameOk(<< <<97, 32, 98>> >>, 0, <<97, 32, 98>>)
ASSUME NamesExported(TRUE, << <<97>>, <<>> >>) = "no" /\ NamesExported(FALSE, << <<97>>, <<>> >>) = "yes"
ASSUME Trim(DdChars(<<32, 97, 10, 98, 9>>)) = <<97, 32, 98>>
ASSUME FileSem("bcdd", 2, <<1, 0>>, TestFile) = [st |-> "ok", roots |-> << {2}, {0, 2} >>]
ASSUME FileSem("bdd", 2, <<1>>, TestFile).st = "bad"      \* variable index 1 out of range
ASSUME FileComplete(TestFile)
ASSUME MtSupport(2, MtNode(2, 1, MtConst(2, <<"n", 3>>), MtConst(2, <<"p", 0>>))) = {1}
=============================================================================
