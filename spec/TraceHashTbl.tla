---------------------------- MODULE TraceHashTbl ----------------------------
(***************************************************************************)
(* Trace validation for C17 (bindings T and V): a history recorded from    *)
(* the real `linear_hashtbl::raw::RawTable<(u32, u32), S>` by the drivers  *)
(* hashtbl-replay / hashtbl-random must be a behaviour of HashTbl.         *)
(*                                                                         *)
(* One event = one call on a table = one step.  The shadow state set[t] is *)
(* the abstract set of table t; every observable result of the call is     *)
(* compared with what HashTbl computes from the previous shadow state, as  *)
(* a named obligation <<"C17", "<op>.<aspect>", ok>>.  Only set-level      *)
(* observables are used (never slots, capacity or iteration order).  After *)
(* an `audit` (get of every key + iter + len) the shadow state follows the *)
(* observed contents, so that one deviation is not reported again by every *)
(* later event.                                                            *)
(*                                                                         *)
(* An event with a `fail` field (the call did not return within the        *)
(* watchdog's limit: "hang", or it panicked) is accepted by no action: the *)
(* trace is then not a behaviour of the specification.                     *)
(***************************************************************************)
EXTENDS HashTbl, Json, IOUtils, TLC

Rec == ndJsonDeserialize(IOEnv.TRACE)
MaxFail == 40
TabIds == 1 .. 3

(* HashTbl's constants are only used by its state machine, not here *)
NoKeys == {0}

VARIABLES l, nf, fl
tvars == <<set, last, l, nf, fl>>

Act(p) == ("ACT_" \o p) \in DOMAIN IOEnv
O(p, name, ok) == IF Act(p) THEN <<p, name, ok>> ELSE <<p, name, TRUE>>
Has(r, f) == f \in DOMAIN r
FailNames(obs) ==
  LET bad == SelectSeq(obs, LAMBDA o : ~o[3])
  IN  [i \in 1 .. Len(bad) |-> <<bad[i][1], bad[i][2]>>]
Ev(e) == l <= Len(Rec) /\ nf < MaxFail /\ Rec[l].ev = e
(* the call returned *)
Call(e) == Ev(e) /\ ~Has(Rec[l], "fail")
Step(obs) ==
  /\ l' = l + 1
  /\ fl' = FailNames(obs)
  /\ nf' = nf + (IF fl' = <<>> THEN 0 ELSE 1)
  /\ (fl' # <<>>) => PrintT(<<"OBL_FAIL", l, fl'>>)
  /\ UNCHANGED last

Card(S) == Cardinality(S)
(* an Option<element> logged as a list of at most one element *)
IsOpt(seq, S) == Len(seq) <= 1 /\ ToSet(seq) = S
Min2(a, b) == IF a <= b THEN a ELSE b

----------------------------------------------------------------------------
TrReset ==
  /\ Ev("reset")
  /\ set' = [t \in TabIds |-> {}]
  /\ Step(<<>>)

TrNew ==
  /\ Call("new")
  /\ set' = [set EXCEPT ![Rec[l].t] = {}]
  /\ Step(<< O("C17", "new.len", Rec[l].len = 0) >>)

InsertObs(r) ==
  LET S == set[r.t] IN
  << O("C17", "insert.result", r.res = InsertRes(S, r.k)),
     O("C17", "insert.elem", IsOpt(r.out, Lookup(S, r.k))),
     O("C17", "insert.len", r.len = Card(InsertSet(S, r.k, r.v))) >>
TrInsert ==
  /\ Call("insert")
  /\ Step(InsertObs(Rec[l]))
  /\ set' = [set EXCEPT ![Rec[l].t] = InsertSet(@, Rec[l].k, Rec[l].v)]

FindObs(r) ==
  LET S == set[r.t] IN
  << O("C17", "find.found", r.found = (Lookup(S, r.k) # {})),
     O("C17", "find.elem", IsOpt(r.out, Lookup(S, r.k))),
     O("C17", "find.len", r.len = Card(S)) >>
TrFind == Call("find") /\ Step(FindObs(Rec[l])) /\ UNCHANGED set

GetObs(r) ==
  LET S == set[r.t] IN
  << O("C17", "get.elem", IsOpt(r.out, Lookup(S, r.k))),
     O("C17", "get.len", r.len = Card(S)) >>
TrGet == Call("get") /\ Step(GetObs(Rec[l])) /\ UNCHANGED set

RemoveObs(r) ==
  LET S == set[r.t] IN
  << O("C17", "remove.elem", IsOpt(r.out, Lookup(S, r.k))),
     O("C17", "remove.len", r.len = Card(RemoveSet(S, r.k))) >>
TrRemove ==
  /\ Call("remove")
  /\ Step(RemoveObs(Rec[l]))
  /\ set' = [set EXCEPT ![Rec[l].t] = RemoveSet(@, Rec[l].k)]

(* kept = accepted: every rejected element is handed to `drop` exactly once,
   the predicate is called on elements of the table only, and on every one of
   them (an element that was never shown to the predicate was not accepted) *)
RetainObs(r) ==
  LET S == set[r.t]
      P == ToSet(r.p)
  IN  << O("C17", "retain.dropped", IsListingOf(r.out, Rejected(S, P))),
         O("C17", "retain.pred_only_present", ToSet(r.seen) \subseteq S),
         O("C17", "retain.visits_all", S \subseteq ToSet(r.seen)),
         O("C17", "retain.len", r.len = Card(Kept(S, P))) >>
TrRetain ==
  /\ Call("retain")
  /\ Step(RetainObs(Rec[l]))
  /\ set' = [set EXCEPT ![Rec[l].t] = Kept(@, ToSet(Rec[l].p))]

(* drain / into_iter: every element exactly once, exact size, empty after *)
YieldAllObs(r, op) ==
  LET S == set[r.t] IN
  << O("C17", op \o ".once", IsListingOf(r.out, S)),
     O("C17", op \o ".ilen", r.ilen = Card(S)),
     O("C17", op \o ".len", r.len = 0) >>
TrDrain ==
  /\ Call("drain")
  /\ Step(YieldAllObs(Rec[l], "drain"))
  /\ set' = [set EXCEPT ![Rec[l].t] = {}]
TrIntoIter ==
  /\ Call("into_iter")
  /\ Step(YieldAllObs(Rec[l], "into_iter"))
  /\ set' = [set EXCEPT ![Rec[l].t] = {}]

(* a Drain that is dropped after `take` elements: distinct elements of the
   table, the rest is removed as well *)
DrainPartialObs(r) ==
  LET S == set[r.t]
      m == Min2(r.take, Card(S))
  IN  << O("C17", "drain_partial.elems",
             Len(r.out) = m /\ Card(ToSet(r.out)) = m /\ ToSet(r.out) \subseteq S),
         O("C17", "drain_partial.ilen", r.ilen = Card(S) /\ r.rest = Card(S) - m),
         O("C17", "drain_partial.len", r.len = 0) >>
TrDrainPartial ==
  /\ Call("drain_partial")
  /\ Step(DrainPartialObs(Rec[l]))
  /\ set' = [set EXCEPT ![Rec[l].t] = {}]

IterObs(r) ==
  LET S == set[r.t] IN
  << O("C17", "iter.once", IsListingOf(r.out, S)),
     O("C17", "iter.ilen", r.ilen = Card(S)),
     O("C17", "iter.len", r.len = Card(S)) >>
TrIter == Call("iter") /\ Step(IterObs(Rec[l])) /\ UNCHANGED set

TrLen ==
  /\ Call("len")
  /\ Step(<< O("C17", "len.value", Rec[l].len = Card(set[Rec[l].t])),
             O("C17", "len.is_empty", Rec[l].empty = (set[Rec[l].t] = {})) >>)
  /\ UNCHANGED set

TrClear ==
  /\ (Call("clear") \/ Call("clear_nd") \/ Call("reset_nd"))
  /\ Step(<< O("C17", "clear.len", Rec[l].len = 0) >>)
  /\ set' = [set EXCEPT ![Rec[l].t] = {}]

TrReserve ==
  /\ Call("reserve")
  /\ Step(<< O("C17", "reserve.len", Rec[l].len = Card(set[Rec[l].t])) >>)
  /\ UNCHANGED set

(* u := t.clone() *)
TrClone ==
  /\ Call("clone")
  /\ Step(<< O("C17", "clone.len", Rec[l].ulen = Card(set[Rec[l].t]) /\ Rec[l].len = Card(set[Rec[l].t])) >>)
  /\ set' = [set EXCEPT ![Rec[l].u] = set[Rec[l].t]]

(* get of every key of the universe, iter, len: the contents of the table *)
AuditObs(r) ==
  LET S == set[r.t] IN
  << O("C17", "audit.get", \A i \in 1 .. Len(r.gets) : IsOpt(r.gets[i][2], Lookup(S, r.gets[i][1]))),
     O("C17", "audit.iter", IsListingOf(r.out, S)),
     O("C17", "audit.unique_keys", WellFormed(ToSet(r.out))),
     O("C17", "audit.len", r.len = Card(S) /\ r.ilen = Card(S)) >>
TrAudit ==
  /\ Call("audit")
  /\ Step(AuditObs(Rec[l]))
  /\ set' = [set EXCEPT ![Rec[l].t] = ToSet(Rec[l].out)]   \* follow the observation

TrInit == set = [t \in TabIds |-> {}] /\ last = 0 /\ l = 1 /\ nf = 0 /\ fl = <<>>
TrNext ==
  \/ TrReset \/ TrNew \/ TrInsert \/ TrFind \/ TrGet \/ TrRemove \/ TrRetain
  \/ TrDrain \/ TrIntoIter \/ TrDrainPartial \/ TrIter \/ TrLen \/ TrClear
  \/ TrReserve \/ TrClone \/ TrAudit
TrSpec == TrInit /\ [][TrNext]_tvars

(* acceptance: every event consumed *)
Done == PrintT(<<"TRACE_DONE", TLCGet("stats").diameter - 1, Len(Rec)>>)
=============================================================================
