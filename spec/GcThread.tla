------------------------------ MODULE GcThread ------------------------------
(***************************************************************************)
(* The background collector of oxidd-manager-index (manager.rs): the       *)
(* thread "oxidd mi gc" spawned by new_manager(), the signal               *)
(* gc_signal: (Mutex<GCSignal>, Condvar), the trigger in                   *)
(* get_slot_from_shared() and the Quit request in Drop for ManagerRef.     *)
(*                                                                         *)
(*   collector:  loop { lock(sig); [if sig = Quit break;]  wait(sig);      *)
(*                      if sig = Quit break;  unlock;  gc();               *)
(*                      if count < lwm /\ state # Disabled: state := Init }*)
(*   allocation: under the state lock:                                     *)
(*                 if state = Init /\ count >= hwm:                        *)
(*                    state := Triggered; notify_one()   (sig mutex NOT    *)
(*                                                        held)            *)
(*   ManagerRef::drop:  if strong_count = 2 { lock(sig); sig := Quit;      *)
(*                        unlock; notify_one() };  then the Arc is         *)
(*                        decremented (a separate step)                    *)
(*                                                                         *)
(* Every handle (Function) owns a ManagerRef, so every handle drop runs    *)
(* this code.  The collector owns one strong reference itself; the store   *)
(* (and the worker pool) is freed when the count reaches 0.                *)
(*                                                                         *)
(* The bracketed check is the repair (constant CheckBeforeWait); with      *)
(* CheckBeforeWait = FALSE the module describes the code as it was found.  *)
(* parking_lot condition variables have no spurious wake-ups (the code     *)
(* relies on it), so there is none in the model.                           *)
(***************************************************************************)
EXTENDS Integers, FiniteSets, TLC

CONSTANTS Droppers,          \* threads that each own one reference and drop it
          Allocs,            \* bound on allocation bursts that reach the high-water mark
          CheckBeforeWait,   \* collector looks at the signal before waiting
          SeqDrops           \* references are dropped one after the other (single-threaded client)

VARIABLES
  sig,      \* "RunGc" | "Quit"       (protected by mtx)
  mtx,      \* "free" | "col" | d     holder of the signal mutex
  cpc,      \* collector: "spawned" | "locked" | "wait" | "woken" | "check" | "gc" | "rearm" | "exit"
  strong,   \* Arc strong count
  dpc,      \* per dropper: "hold" | "tested" | "lock" | "notify" | "dec" | "done"
  seen,     \* per dropper: result of strong_count() = 2
  gcState,  \* "Init" | "Triggered"
  load,     \* "low" (< lwm) | "mid" | "high" (>= hwm)
  pending,  \* a trigger has been issued and no collection has started since
  allocs,   \* allocation bursts so far
  gcs       \* background collections run

vars == <<sig, mtx, cpc, strong, dpc, seen, gcState, load, pending, allocs, gcs>>

Init ==
  /\ sig = "RunGc" /\ mtx = "free" /\ cpc = "spawned"
  /\ strong = Cardinality(Droppers) + 1
  /\ dpc = [d \in Droppers |-> "hold"] /\ seen = [d \in Droppers |-> FALSE]
  /\ gcState = "Init" /\ load = "low" /\ pending = FALSE /\ allocs = 0 /\ gcs = 0

(* condvar.notify_one(): wakes the collector iff it is waiting *)
Notify(c) == IF c = "wait" THEN "woken" ELSE c

----------------------------------------------------------------------------
(* application threads that still own a reference allocate nodes / drop handles *)
Alive == \E d \in Droppers : dpc[d] = "hold"

Grow ==
  /\ Alive /\ allocs < Allocs /\ load # "high"
  /\ load' = IF load = "low" THEN "mid" ELSE "high"
  /\ allocs' = allocs + 1
  \* get_slot_from_shared: the trigger is evaluated under the state lock
  /\ IF load' = "high" /\ gcState = "Init"
     THEN gcState' = "Triggered" /\ pending' = TRUE /\ cpc' = Notify(cpc)
     ELSE UNCHANGED <<gcState, pending, cpc>>
  /\ UNCHANGED <<sig, mtx, strong, dpc, seen, gcs>>

(* allocation while already above the high-water mark *)
AllocHigh ==
  /\ Alive /\ allocs < Allocs /\ load = "high"
  /\ allocs' = allocs + 1
  /\ IF gcState = "Init"
     THEN gcState' = "Triggered" /\ pending' = TRUE /\ cpc' = Notify(cpc)
     ELSE UNCHANGED <<gcState, pending, cpc>>
  /\ UNCHANGED <<sig, mtx, strong, dpc, seen, load, gcs>>

----------------------------------------------------------------------------
(* ManagerRef::drop *)
DropTest(d) ==
  /\ dpc[d] = "hold"
  /\ SeqDrops => \A e \in Droppers : dpc[e] \in {"hold", "done"}
  /\ seen' = [seen EXCEPT ![d] = (strong = 2)]
  /\ dpc' = [dpc EXCEPT ![d] = IF strong = 2 THEN "lock" ELSE "dec"]
  /\ UNCHANGED <<sig, mtx, cpc, strong, gcState, load, pending, allocs, gcs>>

DropLock(d) ==          \* *gc_signal.0.lock() = Quit (the guard is a temporary: unlocked at once)
  /\ dpc[d] = "lock" /\ mtx = "free"
  /\ sig' = "Quit"
  /\ dpc' = [dpc EXCEPT ![d] = "notify"]
  /\ UNCHANGED <<mtx, cpc, strong, seen, gcState, load, pending, allocs, gcs>>

DropNotify(d) ==
  /\ dpc[d] = "notify"
  /\ cpc' = Notify(cpc)
  /\ dpc' = [dpc EXCEPT ![d] = "dec"]
  /\ UNCHANGED <<sig, mtx, strong, seen, gcState, load, pending, allocs, gcs>>

DropDec(d) ==
  /\ dpc[d] = "dec"
  /\ strong' = strong - 1
  /\ dpc' = [dpc EXCEPT ![d] = "done"]
  /\ UNCHANGED <<sig, mtx, cpc, seen, gcState, load, pending, allocs, gcs>>

----------------------------------------------------------------------------
(* the collector thread *)
ColLock ==              \* let mut lock = store.gc_signal.0.lock();
  /\ cpc = "spawned" /\ mtx = "free"
  /\ mtx' = "col"
  /\ cpc' = IF CheckBeforeWait /\ sig = "Quit" THEN "check" ELSE "locked"
  /\ UNCHANGED <<sig, strong, dpc, seen, gcState, load, pending, allocs, gcs>>

ColWait ==              \* store.gc_signal.1.wait(&mut lock): unlock and sleep atomically
  /\ cpc = "locked"
  /\ mtx' = "free" /\ cpc' = "wait"
  /\ UNCHANGED <<sig, strong, dpc, seen, gcState, load, pending, allocs, gcs>>

ColWake ==              \* re-acquire the mutex after the notification
  /\ cpc = "woken" /\ mtx = "free"
  /\ mtx' = "col" /\ cpc' = "check"
  /\ UNCHANGED <<sig, strong, dpc, seen, gcState, load, pending, allocs, gcs>>

ColCheck ==             \* if *lock == Quit { break }  drop(lock)
  /\ cpc = "check"
  /\ mtx' = "free"
  /\ IF sig = "Quit"
     THEN cpc' = "exit" /\ strong' = strong - 1        \* gc_mref is dropped
     ELSE cpc' = "gc" /\ UNCHANGED strong
  /\ UNCHANGED <<sig, dpc, seen, gcState, load, pending, allocs, gcs>>

ColGc ==                \* Manager::gc(): collects some or nothing
  /\ cpc = "gc"
  /\ pending' = FALSE /\ gcs' = gcs + 1
  /\ \E l \in {"low", "mid", "high"} :
       /\ (l = "high" => load = "high") /\ (l = "mid" => load # "low")
       /\ load' = l
  /\ cpc' = "rearm"
  /\ UNCHANGED <<sig, mtx, strong, dpc, seen, gcState, allocs>>

ColRearm ==             \* under the state lock
  /\ cpc = "rearm"
  /\ gcState' = IF load = "low" THEN "Init" ELSE gcState
  /\ cpc' = "spawned"
  /\ UNCHANGED <<sig, mtx, strong, dpc, seen, load, pending, allocs, gcs>>

Done == (\A d \in Droppers : dpc[d] = "done") /\ cpc \in {"exit", "wait"}

Next ==
  \/ Grow \/ AllocHigh
  \/ \E d \in Droppers : DropTest(d) \/ DropLock(d) \/ DropNotify(d) \/ DropDec(d)
  \/ ColLock \/ ColWait \/ ColWake \/ ColCheck \/ ColGc \/ ColRearm
  \/ (Done /\ UNCHANGED vars)

Spec == Init /\ [][Next]_vars
FairSpec ==
  /\ Spec
  /\ \A d \in Droppers : WF_vars(DropTest(d)) /\ WF_vars(DropLock(d)) /\ WF_vars(DropNotify(d)) /\ WF_vars(DropDec(d))
  /\ WF_vars(ColLock) /\ WF_vars(ColWait) /\ WF_vars(ColWake) /\ WF_vars(ColCheck) /\ WF_vars(ColGc) /\ WF_vars(ColRearm)

----------------------------------------------------------------------------
TypeOK ==
  /\ sig \in {"RunGc", "Quit"} /\ mtx \in {"free", "col"} \cup Droppers
  /\ cpc \in {"spawned", "locked", "wait", "woken", "check", "gc", "rearm", "exit"}
  /\ strong \in 0 .. Cardinality(Droppers) + 1

AllDropped == \A d \in Droppers : dpc[d] = "done"

(* the store is freed exactly when everybody is gone *)
FreedOnlyWhenUnused == strong = 0 => (AllDropped /\ cpc = "exit")
(* the collector never exits while an application reference exists *)
NoEarlyExit == cpc = "exit" => \A d \in Droppers : dpc[d] # "hold"

(* lost Quit: every reference is dropped and the collector sleeps for ever:
   the thread, the worker pool and the whole node store are leaked *)
NoLeak == ~(AllDropped /\ cpc = "wait")

(* lost trigger: a collection was requested (and, the state being
   "Triggered", will never be requested again) but the collector sleeps *)
NoLostTrigger == ~(pending /\ cpc = "wait" /\ sig = "RunGc")

(* liveness counterparts *)
Terminates == AllDropped ~> (cpc = "exit")
TriggerServed == pending ~> (~pending \/ sig = "Quit")
=============================================================================
