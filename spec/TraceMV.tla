------------------------------ MODULE TraceMV ------------------------------
(***************************************************************************)
(* Trace validation for the multi-valued kinds: TDD (three-valued logic,   *)
(* property C11) and MTBDD (pseudo-Boolean functions, property C10), plus  *)
(* canonicity of their handles (C01).                                      *)
(*                                                                         *)
(* TDD: an assignment is an integer a in 0..3^n-1, digit v (base 3) is the *)
(* value of variable v: 0 = false, 1 = unknown, 2 = true.  A function is   *)
(* the sequence of its values (0/1/2), entry a+1.  Children of a node are  *)
(* ordered true / unknown / false.                                         *)
(* MTBDD: assignments 0..2^n-1 as in DDSem; values are tuples              *)
(*   <<"num", neg (0/1), magnitude limbs base 2^15>> | <<"pinf",0,<<>>>>   *)
(*   | <<"ninf",0,<<>>>> | <<"nan",0,<<>>>>  (transport encoding).         *)
(*                                                                         *)
(* Events: reset, add_vars, mop (operation with arguments and result:      *)
(* edge `e`, sub-graph `g` = nodes <<id, lvl, c1, c2[, c3]>> children-first*)
(* with children [n |-> id] or [t |-> value], `vt` = the values obtained   *)
(* by eval on every assignment, `nc`), mdrop, mobs (==/Hash classes).      *)
(***************************************************************************)
EXTENDS Integers, Sequences, FiniteSets, TLC, Json, IOUtils

Rec == ndJsonDeserialize(IOEnv.TRACE)
MaxFail == 40

VARIABLES kind, n, l2v, hs, l, nf, fl
tvars == <<kind, n, l2v, hs, l, nf, fl>>

Act(p) == ("ACT_" \o p) \in DOMAIN IOEnv
O(p, name, ok) == IF Act(p) THEN <<p, name, ok>> ELSE <<p, name, TRUE>>
Has(r, f) == f \in DOMAIN r
FailNames(obs) ==
  LET bad == SelectSeq(obs, LAMBDA o : ~o[3])
  IN  [i \in 1 .. Len(bad) |-> <<bad[i][1], bad[i][2]>>]
Ev(e) == l <= Len(Rec) /\ nf < MaxFail /\ Rec[l].ev = e
Step(obs) ==
  /\ l' = l + 1
  /\ fl' = FailNames(obs)
  /\ nf' = nf + (IF fl' = <<>> THEN 0 ELSE 1)
  /\ (fl' # <<>>) => PrintT(<<"OBL_FAIL", l, fl'>>)

(* owner of the semantic obligations: the kind's own property, or C20 when the
   history was executed under another build configuration for C20 *)
Prop == IF Act("C20") THEN "C20" ELSE IF kind = "tdd" THEN "C11" ELSE "C10"
Base == IF kind = "tdd" THEN 3 ELSE 2
NAsg == Base ^ n
Digit(a, v) == (a \div (Base ^ v)) % Base

Live == DOMAIN hs
Val(s) == hs[s].v
NoHandles == [s \in {} |-> 0]

----------------------------------------------------------------------------
(* graph semantics *)
ChildSem(m, c) == IF "t" \in DOMAIN c THEN [a \in 1 .. NAsg |-> c.t] ELSE m[c.n]
NodeSem(m, nd) ==
  LET v == l2v[nd[2] + 1] IN
  IF kind = "tdd"
  THEN LET ct == ChildSem(m, nd[3]) cu == ChildSem(m, nd[4]) cf == ChildSem(m, nd[5]) IN
       [a \in 1 .. NAsg |-> CASE Digit(a - 1, v) = 2 -> ct[a]
                              [] Digit(a - 1, v) = 1 -> cu[a]
                              [] OTHER -> cf[a]]
  ELSE LET ct == ChildSem(m, nd[3]) ce == ChildSem(m, nd[4]) IN
       [a \in 1 .. NAsg |-> IF Digit(a - 1, v) = 1 THEN ct[a] ELSE ce[a]]
RECURSIVE SemFrom(_, _, _)
SemFrom(g, i, m) ==
  IF i > Len(g) THEN m ELSE SemFrom(g, i + 1, (g[i][1] :> NodeSem(m, g[i])) @@ m)
EmptyMap == [x \in {} |-> <<>>]
Arity == IF kind = "tdd" THEN 3 ELSE 2
Children(nd) == [i \in 1 .. Arity |-> nd[2 + i]]
GraphOk(g) ==
  /\ \A i \in 1 .. Len(g) : g[i][2] \in 0 .. n-1
  /\ \A i \in 1 .. Len(g) : \A k \in 1 .. Arity :
        LET c == g[i][2 + k] IN
        "t" \in DOMAIN c \/ \E j \in 1 .. i-1 : g[j][1] = c.n /\ g[j][2] > g[i][2]
  /\ \A i, j \in 1 .. Len(g) : i # j => g[i][1] # g[j][1]
(* reduction rule: not all children equal; no two nodes with equal level and children *)
GraphReduced(g) ==
  /\ \A i \in 1 .. Len(g) : \E k \in 2 .. Arity : g[i][2 + k] # g[i][3]
  /\ \A i, j \in 1 .. Len(g) : i # j => <<g[i][2], Children(g[i])>> # <<g[j][2], Children(g[j])>>
EdgeSem(r) ==
  IF "t" \in DOMAIN r.e THEN [a \in 1 .. NAsg |-> r.e.t]
  ELSE SemFrom(r.g, 1, EmptyMap)[r.e.n]
OpGraphOk(r) == GraphOk(r.g) /\ ("t" \in DOMAIN r.e \/ \E i \in 1 .. Len(r.g) : r.g[i][1] = r.e.n)

----------------------------------------------------------------------------
(* C11: the three-valued connectives (F = 0, U = 1, T = 2) *)
Min(a, b) == IF a <= b THEN a ELSE b
Max(a, b) == IF a >= b THEN a ELSE b
TNot(a) == 2 - a
TAnd(a, b) == Min(a, b)
TOr(a, b) == Max(a, b)
TImp(a, b) == Min(2, 2 - a + b)                  \* Lukasiewicz
TEquiv(a, b) == 2 - (IF a >= b THEN a - b ELSE b - a)
TBin(op, a, b) ==
  CASE op = "and" -> TAnd(a, b) [] op = "or" -> TOr(a, b)
    [] op = "nand" -> TNot(TAnd(a, b)) [] op = "nor" -> TNot(TOr(a, b))
    [] op = "imp" -> TImp(a, b) [] op = "equiv" -> TEquiv(a, b)
    [] op = "xor" -> TNot(TEquiv(a, b))
    [] op = "imp_strict" -> TNot(TImp(b, a))
TIte(a, b, c) ==
  IF b = c \/ a = 2 THEN b
  ELSE IF a = 0 THEN c
  ELSE IF b = 1 THEN TOr(a, c)        \* a = U = b
  ELSE IF c = 1 THEN TAnd(a, b)       \* a = U = c
  ELSE 1
TBinOps == {"and", "or", "nand", "nor", "imp", "equiv", "xor", "imp_strict"}

(* cofactors of a TDD handle: children of the root in the order true, unknown,
   false, i.e. the function with the top-most variable fixed *)
TopLevel(F) ==
  LET dep(v) == \E a \in 0 .. NAsg - 1 : \E d \in 0 .. Base - 1 :
                   F[a + 1] # F[(a - Digit(a, v) * Base ^ v + d * Base ^ v) + 1]
      ls == {i \in 1 .. n : dep(l2v[i])}
  IN  IF ls = {} THEN 0 ELSE CHOOSE i \in ls : \A j \in ls : i <= j
Fix(F, v, d) == [a \in 1 .. NAsg |-> F[((a - 1) - Digit(a - 1, v) * Base ^ v + d * Base ^ v) + 1]]

----------------------------------------------------------------------------
(* C10: exact terminal arithmetic on the transport encoding.  Decided
   natively: everything involving NaN / infinities that the property fixes,
   comparisons, and arithmetic on magnitudes < 2^15; larger magnitudes are
   taken from the scalar result `sc` logged with the event (the scalar
   operations themselves are decided by NumArith.tla / TraceNumeric). *)
NaN == <<"nan", 0, <<>>>>
PInf == <<"pinf", 0, <<>>>>
NInf == <<"ninf", 0, <<>>>>
IsNum(x) == x[1] = "num"
Small(x) == IsNum(x) /\ Len(x[3]) <= 1
IntOf(x) == (IF x[2] = 1 THEN -1 ELSE 1) * (IF x[3] = <<>> THEN 0 ELSE x[3][1])
Abs(i) == IF i < 0 THEN -i ELSE i
TrimZ(L) == IF L # <<>> /\ L[Len(L)] = 0 THEN SubSeq(L, 1, Len(L) - 1) ELSE L
MkNum(i) == <<"num", IF i < 0 THEN 1 ELSE 0,
              TrimZ(TrimZ(<<Abs(i) % 32768, Abs(i) \div 32768>>))>>
Sign(x) == CASE x[1] = "pinf" -> 1 [] x[1] = "ninf" -> -1
             [] OTHER -> IF x[3] = <<>> THEN 0 ELSE IF x[2] = 1 THEN -1 ELSE 1
InfOf(s) == IF s > 0 THEN PInf ELSE NInf
(* magnitude comparison of limb sequences: -1, 0, 1 *)
RECURSIVE CmpMagFrom(_, _, _)
CmpMagFrom(A, B, i) ==
  IF i = 0 THEN 0 ELSE IF A[i] < B[i] THEN -1 ELSE IF A[i] > B[i] THEN 1 ELSE CmpMagFrom(A, B, i - 1)
CmpMag(A, B) == IF Len(A) < Len(B) THEN -1 ELSE IF Len(A) > Len(B) THEN 1 ELSE CmpMagFrom(A, B, Len(A))
(* total order on non-NaN values: -1, 0, 1 *)
Cmp(x, y) ==
  IF x = y THEN 0
  ELSE IF x[1] = "ninf" \/ y[1] = "pinf" THEN -1
  ELSE IF x[1] = "pinf" \/ y[1] = "ninf" THEN 1
  ELSE IF Sign(x) # Sign(y) THEN (IF Sign(x) < Sign(y) THEN -1 ELSE 1)
  ELSE IF Sign(x) >= 0 THEN CmpMag(x[3], y[3]) ELSE CmpMag(y[3], x[3])

Undecided == <<"?", 0, <<>>>>
Scalar(op, x, y) ==
  IF x = NaN \/ y = NaN THEN NaN
  ELSE CASE op = "min" -> IF Cmp(x, y) <= 0 THEN x ELSE y
         [] op = "max" -> IF Cmp(x, y) >= 0 THEN x ELSE y
         [] op = "add" ->
              IF ~IsNum(x) \/ ~IsNum(y)
              THEN (IF {x[1], y[1]} = {"pinf", "ninf"} THEN NaN ELSE IF IsNum(x) THEN y ELSE x)
              ELSE IF Small(x) /\ Small(y) THEN MkNum(IntOf(x) + IntOf(y)) ELSE Undecided
         [] op = "sub" ->
              IF ~IsNum(x) \/ ~IsNum(y)
              THEN (IF x[1] = y[1] THEN NaN ELSE IF ~IsNum(x) THEN x ELSE InfOf(-Sign(y)))
              ELSE IF Small(x) /\ Small(y) THEN MkNum(IntOf(x) - IntOf(y)) ELSE Undecided
         [] op = "mul" ->
              IF ~IsNum(x) \/ ~IsNum(y)
              THEN (IF Sign(x) * Sign(y) = 0 THEN NaN ELSE InfOf(Sign(x) * Sign(y)))
              ELSE IF Small(x) /\ Small(y) THEN MkNum(IntOf(x) * IntOf(y)) ELSE Undecided
         [] op = "div" ->
              IF ~IsNum(x) /\ ~IsNum(y) THEN NaN                        \* inf / inf
              ELSE IF IsNum(x) /\ IsNum(y) /\ Sign(y) = 0
                   THEN (IF Sign(x) = 0 THEN NaN ELSE InfOf(Sign(x)))    \* x / 0
              ELSE IF Small(x) /\ Small(y)
                   THEN MkNum(Sign(x) * Sign(y) * (Abs(IntOf(x)) \div Abs(IntOf(y))))   \* truncation
              ELSE Undecided
ScLookup(sc, x, y) ==
  IF \E i \in 1 .. Len(sc) : sc[i][1] = x /\ sc[i][2] = y
  THEN LET i == CHOOSE j \in 1 .. Len(sc) : sc[j][1] = x /\ sc[j][2] = y IN sc[i][3]
  ELSE Undecided
ArithOps == {"add", "sub", "mul", "div", "min", "max"}
One == <<"num", 0, <<1>>>>
Zero == <<"num", 0, <<>>>>

----------------------------------------------------------------------------
(* expected value table of an operation; entries may be Undecided for MTBDD *)
Expected(r) ==
  LET a == r.a op == r.op IN
  IF kind = "tdd" THEN
    CASE op = "f" -> [x \in 1 .. NAsg |-> 0]
      [] op = "u" -> [x \in 1 .. NAsg |-> 1]
      [] op = "t" -> [x \in 1 .. NAsg |-> 2]
      [] op = "var" -> [x \in 1 .. NAsg |-> Digit(x - 1, r.v)]
      [] op = "not" -> [x \in 1 .. NAsg |-> TNot(Val(a[1])[x])]
      [] op \in TBinOps -> [x \in 1 .. NAsg |-> TBin(op, Val(a[1])[x], Val(a[2])[x])]
      [] op = "ite" -> [x \in 1 .. NAsg |-> TIte(Val(a[1])[x], Val(a[2])[x], Val(a[3])[x])]
      [] op \in {"cof_t", "cof_u", "cof_f"} ->
           Fix(Val(a[1]), l2v[TopLevel(Val(a[1]))],
               CASE op = "cof_t" -> 2 [] op = "cof_u" -> 1 [] OTHER -> 0)
  ELSE
    CASE op = "constant" -> [x \in 1 .. NAsg |-> r.c]
      [] op = "var" -> [x \in 1 .. NAsg |-> IF Digit(x - 1, r.v) = 1 THEN One ELSE Zero]
      [] op \in ArithOps ->
           [x \in 1 .. NAsg |->
              LET nat == Scalar(op, Val(a[1])[x], Val(a[2])[x])
              IN  IF nat # Undecided THEN nat ELSE ScLookup(r.sc, Val(a[1])[x], Val(a[2])[x])]
      [] op = "ite" ->
           [x \in 1 .. NAsg |-> IF Val(a[1])[x] = One THEN Val(a[2])[x]
                                ELSE IF Val(a[1])[x] = Zero THEN Val(a[3])[x] ELSE Undecided]
      [] op = "restrict" ->      \* a[2] is a 0-1-valued cube
           LET C == Val(a[2])
               pos == {v \in 0 .. n-1 : \A x \in 1 .. NAsg : C[x] = One => Digit(x - 1, v) = 1}
               neg == {v \in 0 .. n-1 : \A x \in 1 .. NAsg : C[x] = One => Digit(x - 1, v) = 0}
               fixa(x) == LET RECURSIVE F(_)
                              F(v) == IF v = n THEN 0
                                      ELSE (IF v \in pos THEN 2^v ELSE IF v \in neg THEN 0
                                            ELSE Digit(x, v) * 2^v) + F(v + 1)
                          IN F(0)
           IN  [x \in 1 .. NAsg |-> Val(a[1])[fixa(x - 1) + 1]]

Agrees(val, exp) ==
  IF kind = "tdd" THEN val = exp
  ELSE \A x \in 1 .. NAsg : exp[x] = Undecided \/ val[x] = exp[x]
(* the scalar results logged by the library must agree with the native rules *)
ScOk(r) ==
  ~Has(r, "sc") \/ \A i \in 1 .. Len(r.sc) :
     LET nat == Scalar(r.op, r.sc[i][1], r.sc[i][2]) IN nat = Undecided \/ nat = r.sc[i][3]

OpValue(r) == IF OpGraphOk(r) THEN EdgeSem(r) ELSE [a \in 1 .. NAsg |-> IF kind = "tdd" THEN 0 ELSE NaN]

OpObs(r, val) ==
  IF Has(r, "res") THEN << O(Prop, "failed:" \o r.op, FALSE), O("C07", "conc.failed:" \o r.op, FALSE),
                            \* C14: a failure is the out-of-memory error (no panic), and never happens
                            \* when the driver knows that everything the call needs was freed
                            O("C14", "oom.reported:" \o r.op, r.res = [oom |-> TRUE]),
                            O("C14", "retry.ok:" \o r.op, ~(Has(r, "must_ok") /\ r.must_ok)) >>
  ELSE << O("C03", "mv.graph:" \o kind, OpGraphOk(r) /\ GraphReduced(r.g)),
          O(Prop, "sem:" \o r.op, (\A i \in 1 .. Len(r.a) : r.a[i] \in Live) /\ Agrees(val, Expected(r))),
          O("C06", "cache:" \o r.op, (\A i \in 1 .. Len(r.a) : r.a[i] \in Live) /\ Agrees(val, Expected(r))),
          O(Prop, "scalar:" \o r.op, ScOk(r)),
          O(Prop, "eval", r.vt = val),
          O("C14", "sem:" \o r.op, (\A i \in 1 .. Len(r.a) : r.a[i] \in Live) /\ Agrees(val, Expected(r))),
          O("C07", "conc.sem:" \o r.op, (\A i \in 1 .. Len(r.a) : r.a[i] \in Live) /\ Agrees(val, Expected(r))),
          O("C07", "conc.eval:" \o kind, r.vt = val),
          O("C07", "conc.canon:" \o kind, \A s \in Live : (Val(s) = val) <=> (hs[s].e = r.e)),
          O("C07", "conc.graph:" \o kind, OpGraphOk(r) /\ GraphReduced(r.g)),
          O("C01", "canon.op:" \o kind, \A s \in Live : (Val(s) = val) <=> (hs[s].e = r.e)),
          O("C03", "mv.nc:" \o kind, r.nc = Len(r.g) + Cardinality(
                {c \in UNION {{r.g[i][2 + k] : k \in 1 .. Arity} : i \in 1 .. Len(r.g)} \cup {r.e} : "t" \in DOMAIN c})) >>

TrReset ==
  /\ Ev("reset")
  /\ kind' = Rec[l].kind /\ n' = 0 /\ l2v' = <<>> /\ hs' = NoHandles
  /\ Step(<<>>)
TrAddVars ==
  /\ Ev("add_vars")
  /\ n' = Rec[l].n /\ l2v' = Rec[l].l2v
  /\ Step(<< O("C16", "mv.add_vars", n = 0 \/ Live = {}) >>)   \* drivers add variables before building
  /\ UNCHANGED <<kind, hs>>
TrReorder ==
  /\ Ev("reorder")
  /\ l2v' = Rec[l].l2v
  /\ Step(<< O("C08", "mv.order", Rec[l].ok /\ Len(Rec[l].l2v) = n
                                   /\ {Rec[l].l2v[i] : i \in 1 .. n} = 0 .. n-1
                                   /\ (("req" \in DOMAIN Rec[l]) =>
                                         \A i, j \in 1 .. Len(Rec[l].req) : i < j =>
                                            (CHOOSE p \in 1 .. n : Rec[l].l2v[p] = Rec[l].req[i])
                                            < (CHOOSE p \in 1 .. n : Rec[l].l2v[p] = Rec[l].req[j]))) >>)
  /\ UNCHANGED <<kind, n, hs>>
TrOp ==
  /\ Ev("mop")
  /\ IF Has(Rec[l], "res")
     THEN hs' = hs /\ Step(OpObs(Rec[l], <<>>))
     ELSE /\ hs' = [s \in Live \cup {Rec[l].h} |->
                      IF s = Rec[l].h
                      THEN [e |-> Rec[l].e, v |-> OpValue(Rec[l]),
                            nodes |-> {Rec[l].g[i][1] : i \in 1 .. Len(Rec[l].g)}]
                      ELSE hs[s]]
          /\ Step(OpObs(Rec[l], hs'[Rec[l].h].v))
  /\ UNCHANGED <<kind, n, l2v>>
(* re-projection of a live handle (after reordering / gc): its stored graph
   and eval must still denote the same value table; edges stay put *)
CheckObs(r) ==
  LET ok == OpGraphOk(r) /\ r.a \in Live
      val == IF ok THEN EdgeSem(r) ELSE <<>>
  IN << O("C14", "oom.stable:" \o kind, ok /\ val = Val(r.a) /\ r.e = hs[r.a].e /\ r.vt = Val(r.a) /\ GraphReduced(r.g)),
        O("C07", "conc.stable:" \o kind, ok /\ val = Val(r.a) /\ r.e = hs[r.a].e /\ r.vt = Val(r.a) /\ GraphReduced(r.g)),
        O("C08", "mv.stable:" \o kind, ok /\ val = Val(r.a) /\ r.e = hs[r.a].e),
        O("C08", "mv.eval:" \o kind, ok => r.vt = Val(r.a)),
        O(Prop, "eval.reordered", ok => r.vt = Val(r.a)),
        O("C08", "mv.wellformed:" \o kind, ok /\ GraphReduced(r.g)),
        O("C08", "mv.nc:" \o kind, r.nc = Len(r.g) + Cardinality(
              {c \in UNION {{r.g[i][2 + k] : k \in 1 .. Arity} : i \in 1 .. Len(r.g)} \cup {r.e} : "t" \in DOMAIN c})) >>
TrCheck ==
  /\ Ev("mcheck")
  /\ Step(CheckObs(Rec[l]))
  \* reordering rebuilds nodes: remember the nodes the handle reaches now
  /\ hs' = IF Rec[l].a \in Live
           THEN [hs EXCEPT ![Rec[l].a].nodes = {Rec[l].g[i][1] : i \in 1 .. Len(Rec[l].g)}]
           ELSE hs
  /\ UNCHANGED <<kind, n, l2v>>

TrCofNone ==
  /\ Ev("mcofnone")
  /\ Step(<< O(Prop, "cofnone", TopLevel(Val(Rec[l].a)) = 0) >>)
  /\ UNCHANGED <<kind, n, l2v, hs>>
TrDrop ==
  /\ Ev("mdrop")
  /\ hs' = [s \in Live \ {Rec[l].a} |-> hs[s]]
  /\ Step(<<>>)
  /\ UNCHANGED <<kind, n, l2v>>
(* observations: <<slot, eqclass, ordrank, evaluated values>> *)
ObsObs(r) ==
  LET H == r.hs I == 1 .. Len(H)
      known == \A i \in I : H[i][1] \in Live
  IN << O("C01", "mv.obs.slots", known),
        O("C01", "mv.obs.eqhash:" \o kind, known => \A i, j \in I :
              (H[i][2] = H[j][2]) <=> (Val(H[i][1]) = Val(H[j][1]))),
        O("C01", "mv.obs.ord:" \o kind, known => \A i, j \in I :
              (H[i][3] = H[j][3]) <=> (Val(H[i][1]) = Val(H[j][1]))),
        O(Prop, "obs.eval", known => \A i \in I : H[i][4] = Val(H[i][1])) >>
TrObs ==
  /\ Ev("mobs")
  /\ Step(ObsObs(Rec[l]))
  /\ UNCHANGED <<kind, n, l2v, hs>>
(* C05 for the multi-valued kinds: after a collection exactly the inner nodes
   reachable from live handles remain, and (MTBDD) exactly the terminals
   that occur as a value of a live handle *)
GcObs(r) ==
  LET inner == UNION {hs[s].nodes : s \in Live}
      terms == UNION {{Val(s)[x] : x \in 1 .. NAsg} : s \in Live}
  IN << O("C14", "oom.gc.inner:" \o kind, Has(r, "ninner") => r.ninner = Cardinality(inner)),
        O("C14", "oom.gc.terminals:" \o kind,
            (Has(r, "nterm") /\ kind = "mtbdd") => r.nterm = Cardinality(terms)),
        O("C07", "conc.gc.inner:" \o kind, Has(r, "ninner") => r.ninner = Cardinality(inner)),
        O("C07", "conc.gc.terminals:" \o kind,
            (Has(r, "nterm") /\ kind = "mtbdd") => r.nterm = Cardinality(terms)),
        O("C05", "mv.gc.inner:" \o kind, Has(r, "ninner") => r.ninner = Cardinality(inner)),
        O("C05", "mv.gc.terminals:" \o kind,
            (Has(r, "nterm") /\ kind = "mtbdd") => r.nterm = Cardinality(terms)) >>
TrGc ==
  /\ Ev("mgc")
  /\ Step(GcObs(Rec[l]))
  /\ UNCHANGED <<kind, n, l2v, hs>>

(* marker written before a phase that may kill the process *)
TrBegin ==
  /\ Ev("begin")
  /\ Step(<<>>)
  /\ UNCHANGED <<kind, n, l2v, hs>>

(* eval with many variables (TDD): f = x_i <op> x_j under an assignment with
   x_i = ai, x_j = aj (0 = false, 1 = unknown, 2 = true) *)
TrEvalW ==
  /\ Ev("mevalw")
  /\ Step(<< O(Prop, "eval.wide", Has(Rec[l], "ai") /\ Rec[l].res = TBin(Rec[l].op, Rec[l].ai, Rec[l].aj)) >>)
  /\ UNCHANGED <<kind, n, l2v, hs>>

TrInit == kind = "tdd" /\ n = 0 /\ l2v = <<>> /\ hs = NoHandles /\ l = 1 /\ nf = 0 /\ fl = <<>>
TrNext == TrReset \/ TrAddVars \/ TrReorder \/ TrOp \/ TrCofNone \/ TrDrop \/ TrObs \/ TrGc \/ TrCheck \/ TrBegin \/ TrEvalW
TrSpec == TrInit /\ [][TrNext]_tvars
Done == PrintT(<<"TRACE_DONE", TLCGet("stats").diameter - 1, Len(Rec)>>)
=============================================================================
