---------------------------- MODULE TraceNumeric ----------------------------
(***************************************************************************)
(* Trace validation of scalar number operations (binding V).               *)
(*                                                                         *)
(* A trace (NDJSON) recorded by harness/src/drv_num.rs holds one event per *)
(* call of the real number types: operands and the observed result in the  *)
(* transport encoding (base-2^15 limbs obtained by shifting).  Events are  *)
(* independent; every event is one step and is judged by NAMED OBLIGATIONS *)
(*   <<property, name, ok>>    C12: oxidd_core::util::num::Natural         *)
(*                             C10: oxidd_rules_mtbdd::terminal::{I64,F64} *)
(* whose expected values are computed here (Natural.tla, NumArith.tla).    *)
(* The obligation name carries the operator and the case class: it is the  *)
(* signature of a finding (a panic of the code under test appends "!panic" *)
(* to the name of its case).  A case that the specification does not decide *)
(* is accepted and counted (U); the counters are written to <TRACE>.stat   *)
(* with the last event.  A `panic` result is an observation like any other *)
(* and falsifies the obligation of its case.                               *)
(***************************************************************************)
EXTENDS NumArith, TLC, Json, IOUtils

Rec == ndJsonDeserialize(IOEnv.TRACE)
MaxFail == 1000000

VARIABLES l, nf, fl, und, nob
tvars == <<l, nf, fl, und, nob>>

Act(p) == ("ACT_" \o p) \in DOMAIN IOEnv
(* owners of the obligations: C12 / C10; the stand-alone registrations C12N / C10S
   (./check C12N, ./check C10S and their --replay) activate and own them under their own id *)
P12 == IF "ACT_C12N" \in DOMAIN IOEnv THEN "C12N" ELSE "C12"
P10 == IF "ACT_C10S" \in DOMAIN IOEnv THEN "C10S" ELSE "C10"
O(p, name, ok) == IF Act(p) THEN <<p, name, ok>> ELSE <<p, name, TRUE>>
U(p, name) == <<p, name, TRUE, "undecided">>
Has(r, f) == f \in DOMAIN r
Panicked(r) == Has(r.res, "panic")

Ev(e) == l <= Len(Rec) /\ nf < MaxFail /\ Rec[l].ev = e

Summ(obs) ==
  LET bad == SelectSeq(obs, LAMBDA o : ~o[3])
  IN  [bad |-> [i \in 1 .. Len(bad) |-> <<bad[i][1], bad[i][2]>>],
       und |-> Len(SelectSeq(obs, LAMBDA o : Len(o) = 4)),
       nob |-> Len(obs)]
Step(obs) ==
  /\ l' = l + 1
  /\ fl' = Summ(obs)
  /\ nf' = nf + (IF fl'.bad = <<>> THEN 0 ELSE 1)
  /\ und' = und + fl'.und
  /\ nob' = nob + fl'.nob
  /\ (fl'.bad # <<>>) => PrintT(<<"OBL_FAIL", l, fl'.bad>>)
  /\ (l = Len(Rec)) => JsonSerialize(IOEnv.TRACE \o ".stat",
                                     [events |-> l, undecided |-> und', obligations |-> nob', failed |-> nf'])

----------------------------------------------------------------------------
(* C12: Natural *)

NatOk2(r) == NWellFormed(r.a) /\ NWellFormed(r.b)
NatResOk(r) == Has(r.res, "v") /\ NWellFormed(r.res.v)
IsNum(a) == ~a.nan

AddClass(a, b) ==
  IF a.nan \/ b.nan THEN "nan_operand"
  ELSE IF a.m = <<>> \/ b.m = <<>> THEN "zero_operand"
  ELSE IF a.e = b.e THEN "same_exp" ELSE "diff_exp"

NatAddObs(r) ==
  IF ~NatOk2(r) THEN << O(P12, "natural.transport", FALSE) >>
  ELSE
    LET a == NObs(r.a)
        b == NObs(r.b)
        x == NAdd(a, b)
        cls == IF x.dec /\ x.v.nan /\ IsNum(a) /\ IsNum(b) THEN "exp_overflow" ELSE AddClass(a, b)
    IN  IF ~x.dec THEN << U(P12, "natural.add:far_exponents") >>
        ELSE IF Panicked(r) THEN << O(P12, "natural.add:" \o cls \o "!panic", FALSE) >>
        ELSE << O(P12, "natural.add:" \o cls, NatResOk(r) /\ NObs(r.res.v) = x.v),
                O(P12, "natural.canonical:add", NatResOk(r) /\ NCanonical(r.res.v)) >>
TrNatAdd == Ev("nat_add") /\ Step(NatAddObs(Rec[l]))

ShiftObs(r, left) ==
  IF ~(NWellFormed(r.a) /\ IsLimbs(r.k)) THEN << O(P12, "natural.transport", FALSE) >>
  ELSE
    LET a == NObs(r.a)
        x == IF left THEN NShl(a, r.k) ELSE NShr(a, r.k)
        cls == IF a.nan THEN "nan_operand"
               ELSE IF a.m = <<>> THEN "zero"
               ELSE IF x.nan THEN (IF left THEN "exp_overflow" ELSE "inexact")
               ELSE (IF left THEN "plain" ELSE "exact")
        name == (IF left THEN "natural.shl:" ELSE "natural.shr:") \o cls
    IN  IF Panicked(r) THEN << O(P12, name \o "!panic", FALSE) >>
        ELSE << O(P12, name, NatResOk(r) /\ NObs(r.res.v) = x),
                O(P12, IF left THEN "natural.canonical:shl" ELSE "natural.canonical:shr",
                  NatResOk(r) /\ NCanonical(r.res.v)) >>
TrNatShl == Ev("nat_shl") /\ Step(ShiftObs(Rec[l], TRUE))
TrNatShr == Ev("nat_shr") /\ Step(ShiftObs(Rec[l], FALSE))

(* comparison, equality, hash.  NaN: unordered with every number and not
   equal to any (documented: "undefined if this value is larger or smaller
   than actual natural numbers"); NaN == NaN holds (the type implements Eq);
   partial_cmp(NaN, NaN) is left open. *)
NatCmpObs(r) ==
  IF ~NatOk2(r) THEN << O(P12, "natural.transport", FALSE) >>
  ELSE
    LET a == NObs(r.a)
        b == NObs(r.b)
        cls == IF a.nan \/ b.nan THEN "nan"
               ELSE IF a.m = <<>> \/ b.m = <<>> THEN "zero"
               ELSE IF NBitWidth(a) # NBitWidth(b) THEN "bit_width" ELSE "aligned"
        v == r.res
    IN  IF Panicked(r) THEN << O(P12, "natural.cmp:" \o cls \o "!panic", FALSE) >>
        ELSE IF a.nan /\ b.nan THEN
          << O(P12, "natural.cmp:nan", v.cmp \in {"none", "eq"}),
             O(P12, "natural.eq:nan", v.eq),
             O(P12, "natural.hash", v.heq) >>
        ELSE IF a.nan \/ b.nan THEN
          << O(P12, "natural.cmp:nan", v.cmp = "none"),
             O(P12, "natural.eq:nan", ~v.eq),
             O(P12, "natural.ord_ops", ~v.lt /\ ~v.le /\ ~v.gt /\ ~v.ge) >>
        ELSE LET c == NCmpNum(a, b) IN
          << O(P12, "natural.cmp:" \o cls, v.cmp = c),
             O(P12, "natural.eq:" \o cls, v.eq = (c = "eq")),
             O(P12, "natural.hash", (c = "eq") => v.heq),
             O(P12, "natural.ord_ops", /\ v.lt = (c = "lt") /\ v.le = (c \in {"lt", "eq"})
                                         /\ v.gt = (c = "gt") /\ v.ge = (c \in {"gt", "eq"})) >>
TrNatCmp == Ev("nat_cmp") /\ Step(NatCmpObs(Rec[l]))

NatFromObs(r) ==
  IF ~IsLimbs(r.x) THEN << O(P12, "natural.transport", FALSE) >>
  ELSE LET name == "natural.from_" \o r.ty IN
       IF Panicked(r) THEN << O(P12, name \o "!panic", FALSE) >>
       ELSE << O(P12, name, NatResOk(r) /\ NObs(r.res.v) = NFromLimbs(r.x)),
               O(P12, "natural.canonical:from_" \o r.ty, NatResOk(r) /\ NCanonical(r.res.v)) >>
TrNatFrom == Ev("nat_from") /\ Step(NatFromObs(Rec[l]))

NatDigitsObs(r) ==
  IF ~(\A i \in 1 .. Len(r.ds) : IsLimbs(r.ds[i]) /\ LCmp(r.ds[i], Two64) < 0)
  THEN << O(P12, "natural.transport", FALSE) >>
  ELSE IF Panicked(r) THEN << O(P12, "natural.from_le_digits" \o "!panic", FALSE) >>
  ELSE << O(P12, "natural.from_le_digits", NatResOk(r) /\ NObs(r.res.v) = NFromLimbs(FromDigits64(r.ds))),
          O(P12, "natural.canonical:from_le_digits", NatResOk(r) /\ NCanonical(r.res.v)) >>
TrNatDigits == Ev("nat_digits") /\ Step(NatDigitsObs(Rec[l]))

NatTryObs(r) ==
  IF ~NWellFormed(r.a) THEN << O(P12, "natural.transport", FALSE) >>
  ELSE
    LET a == NObs(r.a)
        x == NToU(a, IF r.ty = "u64" THEN 64 ELSE 128)
        cls == IF a.nan THEN "nan" ELSE IF x.ok THEN "fits" ELSE "too_big"
        name == "natural.try_" \o r.ty \o ":" \o cls
    IN  IF Panicked(r) THEN << O(P12, name \o "!panic", FALSE) >>
        ELSE << O(P12, name, r.res.v.ok = x.ok /\ (x.ok => r.res.v.x = x.x)) >>
TrNatTry == Ev("nat_try") /\ Step(NatTryObs(Rec[l]))

NatF64Obs(r) ==
  IF ~NWellFormed(r.a) THEN << O(P12, "natural.transport", FALSE) >>
  ELSE
    LET a == NObs(r.a)
        x == NToF64(a)
        cls == IF a.nan THEN "nan" ELSE IF a.m = <<>> THEN "zero"
               ELSE IF x.x = 2047 THEN "inf"
               ELSE IF BitLen(a.m) <= 53 THEN "exact" ELSE "rounded"
        name == "natural.to_f64:" \o cls
    IN  IF Panicked(r) THEN << O(P12, name \o "!panic", FALSE) >>
        ELSE LET v == r.res.v IN
             IF ~FWellFormed(v) THEN << O(P12, "natural.transport", FALSE) >>
             ELSE IF x.nan THEN << O(P12, name, v.x = 2047 /\ v.f # <<>>) >>
             ELSE << O(P12, name, v.s = x.s /\ v.x = x.x /\ v.f = x.f) >>
TrNatF64 == Ev("nat_f64") /\ Step(NatF64Obs(Rec[l]))

NatBwObs(r) ==
  IF ~NWellFormed(r.a) THEN << O(P12, "natural.transport", FALSE) >>
  ELSE IF Panicked(r) THEN << O(P12, "natural.bit_width" \o "!panic", FALSE) >>
  ELSE << O(P12, "natural.bit_width", r.res.v = NBitWidth(NObs(r.a))) >>
TrNatBw == Ev("nat_bw") /\ Step(NatBwObs(Rec[l]))

RadixName(x) == CASE x = "b" -> "bin" [] x = "o" -> "oct" [] x = "x" -> "hex" [] x = "X" -> "HEX" [] x = "d" -> "dec"
NatFmtObs(r) ==
  IF ~NWellFormed(r.a) THEN << O(P12, "natural.transport", FALSE) >>
  ELSE
    LET a == NObs(r.a)
        sp == [alt |-> r.alt, plus |-> r.plus, zero |-> r.zero, width |-> r.width, fill |-> r.fill, align |-> r.align]
    IN  IF a.nan THEN
          (IF Panicked(r) THEN << O(P12, "natural.fmt.nan" \o "!panic", FALSE) >>
           ELSE << O(P12, "natural.fmt.nan", FmtNaNOk(r.res.v, sp)) >>)
        ELSE IF ~NSmallExp(a) THEN << U(P12, "natural.fmt:huge") >>
        ELSE
          LET ds == Digits(NValue(a), r.radix)
              pre == Prefix(r.radix)
              cls == (IF a.m = <<>> THEN "zero." ELSE "")
                     \o (IF FmtPads(ds, pre, sp) THEN (IF sp.zero THEN "zeropad" ELSE "pad") ELSE "nopad")
                     \o (IF sp.plus \/ (sp.alt /\ pre # <<>>) THEN "+prefix" ELSE "")
              name == "natural.fmt." \o RadixName(r.radix) \o ":" \o cls
          IN  IF Panicked(r) THEN << O(P12, name \o "!panic", FALSE) >>
              ELSE << O(P12, name, r.res.v = FmtInt(ds, pre, sp)) >>
TrNatFmt == Ev("nat_fmt") /\ Step(NatFmtObs(Rec[l]))

(* clone_from: the destination becomes a copy of the source *)
NatCloneObs(r) ==
  IF ~(NWellFormed(r.dst) /\ NWellFormed(r.src)) THEN << O(P12, "natural.transport", FALSE) >>
  ELSE IF Panicked(r) THEN << O(P12, "natural.clone_from" \o "!panic", FALSE) >>
  ELSE << O(P12, "natural.clone_from",
            /\ NatResOk(r) /\ NObs(r.res.v) = NObs(r.src)
            /\ NWellFormed(r.res.sum0) /\ NObs(r.res.sum0) = NObs(r.src)) >>
TrNatClone == Ev("nat_clone_from") /\ Step(NatCloneObs(Rec[l]))

----------------------------------------------------------------------------
(* C10: I64 *)

I64OpObs(r) ==
  IF ~(IWellFormed(r.a) /\ IWellFormed(r.b)) THEN << O(P10, "i64.transport", FALSE) >>
  ELSE
    LET x == I64Op(r.op, IDec(r.a), IDec(r.b))
        name == "i64." \o r.op \o ":" \o x.cls
    IN  IF Panicked(r) THEN << O(P10, name \o "!panic", FALSE) >>
        ELSE << O(P10, name, IWellFormed(r.res.v) /\ IDec(r.res.v) = x.v) >>
TrI64Op == Ev("i64_op") /\ Step(I64OpObs(Rec[l]))

CmpObs(P, pre, x, v) ==
  << O(P, pre \o ".cmp:" \o x.cls, v.cmp = x.c),
     O(P, pre \o ".eq:" \o x.cls, v.eq = (x.c = "eq")),
     O(P, pre \o ".hash", (x.c = "eq") => v.heq),
     O(P, pre \o ".ord_ops:" \o x.cls, /\ v.lt = (x.c = "lt") /\ v.le = (x.c \in {"lt", "eq"})
                                       /\ v.gt = (x.c = "gt") /\ v.ge = (x.c \in {"gt", "eq"})) >>
I64CmpObs(r) ==
  IF ~(IWellFormed(r.a) /\ IWellFormed(r.b)) THEN << O(P10, "i64.transport", FALSE) >>
  ELSE LET x == ICmp(IDec(r.a), IDec(r.b)) IN
       IF Panicked(r) THEN << O(P10, "i64.cmp:" \o x.cls \o "!panic", FALSE) >>
       ELSE CmpObs(P10, "i64", x, r.res)
TrI64Cmp == Ev("i64_cmp") /\ Step(I64CmpObs(Rec[l]))

(* Display of a number is its decimal text; the text of every value parses
   back to the value; is_zero/is_one/is_nan are equality with the constants
   (documented in NumberBase).  The texts of the infinities and of NaN are
   not documented and not constrained. *)
I64UnaryObs(r) ==
  IF ~IWellFormed(r.a) THEN << O(P10, "i64.transport", FALSE) >>
  ELSE IF Panicked(r) THEN << O(P10, "i64.display" \o "!panic", FALSE) >>
  ELSE
    LET a == IDec(r.a)
        v == r.res
    IN  << O(P10, "i64.display:" \o a.tag, IIsNum(a) => v.v = IDecimal(ISInt(a))),
           O(P10, "i64.parse:roundtrip", v.back.some /\ IWellFormed(v.back.v) /\ IDec(v.back.v) = a),
           O(P10, "i64.is_zero", v.is_zero = (IIsNum(a) /\ a.mag = <<>>)),
           O(P10, "i64.is_one", v.is_one = (IIsNum(a) /\ ~a.neg /\ a.mag = One)),
           O(P10, "i64.is_nan", v.is_nan = (a.tag = "nan")) >>
TrI64Unary == Ev("i64_unary") /\ Step(I64UnaryObs(Rec[l]))

(* C10: F64 *)
F64OpObs(r) ==
  IF ~(FWellFormed(r.a) /\ FWellFormed(r.b)) THEN << O(P10, "f64.transport", FALSE) >>
  ELSE
    LET x == F64Op(r.op, FDec(r.a), FDec(r.b))
        name == "f64." \o r.op \o ":" \o x.cls
    IN  IF Panicked(r) THEN << O(P10, name \o "!panic", FALSE) >>
        ELSE IF ~FWellFormed(r.res.v) THEN << O(P10, "f64.transport", FALSE) >>
        ELSE << IF x.dec THEN O(P10, name, FDec(r.res.v) = x.v) ELSE U(P10, name),
                O(P10, "f64.normalised:" \o r.op, FIsNormalised(r.res.v)) >>
TrF64Op == Ev("f64_op") /\ Step(F64OpObs(Rec[l]))

F64CmpObs(r) ==
  IF ~(FWellFormed(r.a) /\ FWellFormed(r.b)) THEN << O(P10, "f64.transport", FALSE) >>
  ELSE LET x == FCmp(FDec(r.a), FDec(r.b)) IN
       IF Panicked(r) THEN << O(P10, "f64.cmp:" \o x.cls \o "!panic", FALSE) >>
       ELSE CmpObs(P10, "f64", x, r.res)
TrF64Cmp == Ev("f64_cmp") /\ Step(F64CmpObs(Rec[l]))

(* construction normalises; every other value is kept bit for bit *)
F64FromObs(r) ==
  IF ~FWellFormed(r.x) THEN << O(P10, "f64.transport", FALSE) >>
  ELSE IF Panicked(r) THEN << O(P10, "f64.from" \o "!panic", FALSE) >>
  ELSE IF ~FWellFormed(r.res.v) THEN << O(P10, "f64.transport", FALSE) >>
  ELSE LET isnan == r.x.x = 2047 /\ r.x.f # <<>>
           isz == r.x.x = 0 /\ r.x.f = <<>>
           v == r.res.v
       IN  << O(P10, "f64.from:" \o (IF isnan THEN "nan" ELSE IF isz THEN "zero" ELSE "other"),
                IF isnan THEN v.s = 0 /\ v.x = 2047 /\ v.f = CanonNaNFrac
                ELSE IF isz THEN v.s = 0 /\ v.x = 0 /\ v.f = <<>>
                ELSE v = r.x) >>
TrF64From == Ev("f64_from") /\ Step(F64FromObs(Rec[l]))

(* a parsed value is a value of the type: in normal form *)
F64ParseObs(r) ==
  IF Panicked(r) THEN << O(P10, "f64.parse" \o "!panic", FALSE) >>
  ELSE IF ~r.res.some THEN <<>>
  ELSE IF ~FWellFormed(r.res.v) THEN << O(P10, "f64.transport", FALSE) >>
  ELSE << O(P10, "f64.parse:normalised", FIsNormalised(r.res.v)) >>
TrF64Parse == Ev("f64_parse") /\ Step(F64ParseObs(Rec[l]))

----------------------------------------------------------------------------
TrReset == Ev("reset") /\ Step(<<>>)
TrBegin == Ev("begin") /\ Step(<<>>)
TrSpecial == Ev("nat_special") /\ Step(<<>>)

TrInit == l = 1 /\ nf = 0 /\ fl = [bad |-> <<>>, und |-> 0, nob |-> 0] /\ und = 0 /\ nob = 0

TrNext ==
  \/ TrReset \/ TrBegin \/ TrSpecial
  \/ TrNatAdd \/ TrNatShl \/ TrNatShr \/ TrNatCmp \/ TrNatFrom \/ TrNatDigits
  \/ TrNatTry \/ TrNatF64 \/ TrNatBw \/ TrNatFmt \/ TrNatClone
  \/ TrI64Op \/ TrI64Cmp \/ TrI64Unary
  \/ TrF64Op \/ TrF64Cmp \/ TrF64From \/ TrF64Parse

TrSpec == TrInit /\ [][TrNext]_tvars

Done ==
  LET d == TLCGet("stats").diameter
  IN  /\ PrintT(<<"TRACE_DONE", d - 1, Len(Rec)>>)
      /\ TRUE
=============================================================================
