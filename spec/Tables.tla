------------------------------- MODULE Tables -------------------------------
(***************************************************************************)
(* Oracle tables (binding T, spec -> implementation): TLC evaluates the    *)
(* operator definitions of DDSem over the complete domain of 3-variable    *)
(* functions (truth tables 0..255, bit a = value under assignment a) and   *)
(* writes them as JSON.  The harness replays every row on the real library.*)
(*                                                                         *)
(* Which table is produced is selected by the environment (IOEnv.TABLE,    *)
(* IOEnv.OUT) so that several TLC processes can work in parallel.          *)
(***************************************************************************)
EXTENDS DDSem, Json, IOUtils, FiniteSetsExt

N == 3
TTs == 0 .. 255
SetOf(t) == {a \in Asg(N) : Bit(t, a)}
IntOf(S) == FoldSet(LAMBDA a, acc : acc + 2^a, 0, S)

\* sequences are 1-based: entry [f+1][g+1]
BinTable(op) == [f \in 1 .. 256 |-> [g \in 1 .. 256 |->
                   IntOf(BinOp(op, N, SetOf(f - 1), SetOf(g - 1)))]]
NotTable == [f \in 1 .. 256 |-> IntOf(Not(N, SetOf(f - 1)))]

\* ite over an index subset given as sequence I (values 0..255)
IteIdx == IF "ITE_IDX" \in DOMAIN IOEnv THEN atoi(IOEnv.ITE_IDX) ELSE 0
IteSel == \* deterministic spread of truth tables, size depends on ITE_N
  LET k == IF "ITE_N" \in DOMAIN IOEnv THEN atoi(IOEnv.ITE_N) ELSE 16
  IN  [i \in 1 .. k |-> ((i - 1) * 97 + 13 * ((i - 1) \div 8)) % 256]
IteTable == LET I == IteSel IN
  [ sel |-> I,
    tab |-> [f \in 1 .. Len(I) |-> [g \in 1 .. Len(I) |-> [h \in 1 .. Len(I) |->
               IntOf(Ite(N, SetOf(I[f]), SetOf(I[g]), SetOf(I[h])))]]] ]

VarTable    == [v \in 1 .. N |-> IntOf(VarFn(N, v - 1))]
NotVarTable == [v \in 1 .. N |-> IntOf(NotVarFn(N, v - 1))]
\* Cof[f][v][b]: b=1 -> positive cofactor (index 1), b=2 -> negative
CofTable == [f \in 1 .. 256 |-> [v \in 1 .. N |->
               << IntOf(Cof(N, SetOf(f - 1), v - 1, TRUE)),
                  IntOf(Cof(N, SetOf(f - 1), v - 1, FALSE)) >>]]

\* subsets of variables as bit masks 0..7
VSet(m) == {v \in 0 .. N-1 : Bit(m, v)}
QuantTable(q) == [m \in 1 .. 8 |-> [f \in 1 .. 256 |->
                    IntOf(Quant(q, N, SetOf(f - 1), VSet(m - 1)))]]
\* cubes: code c in 0..26, digit v (base 3): 0 absent, 1 positive, 2 negative
CubeP(c) == {v \in 0 .. N-1 : (c \div (3^v)) % 3 = 1}
CubeN(c) == {v \in 0 .. N-1 : (c \div (3^v)) % 3 = 2}
RestrictTable == [c \in 1 .. 27 |-> [f \in 1 .. 256 |->
                    IntOf(Restrict(N, SetOf(f - 1), CubeP(c - 1), CubeN(c - 1)))]]
CubeTable == [c \in 1 .. 27 |-> IntOf(CubeOf(N, CubeP(c - 1), CubeN(c - 1)))]

\* ZBDD family operations
ZTable(op) ==
  CASE op = "union"  -> [f \in 1 .. 256 |-> [g \in 1 .. 256 |-> IntOf(SetOf(f-1) \cup SetOf(g-1))]]
    [] op = "intsec" -> [f \in 1 .. 256 |-> [g \in 1 .. 256 |-> IntOf(SetOf(f-1) \cap SetOf(g-1))]]
    [] op = "diff"   -> [f \in 1 .. 256 |-> [g \in 1 .. 256 |-> IntOf(SetOf(f-1) \ SetOf(g-1))]]
ZVarTable == [ subset0 |-> [v \in 1 .. N |-> [f \in 1 .. 256 |-> IntOf(Subset0(SetOf(f-1), v-1))]],
               subset1 |-> [v \in 1 .. N |-> [f \in 1 .. 256 |-> IntOf(Subset1(SetOf(f-1), v-1))]],
               change  |-> [v \in 1 .. N |-> [f \in 1 .. 256 |-> IntOf(Change(SetOf(f-1), v-1))]],
               singleton |-> [v \in 1 .. N |-> IntOf(Singleton(v-1))],
               empty |-> 0, base |-> 1 ]

Which == IOEnv.TABLE
Value ==
  CASE Which \in BinOps -> BinTable(Which)
    [] Which = "misc" -> [ not |-> NotTable, var |-> VarTable, not_var |-> NotVarTable,
                           cof |-> CofTable, cube |-> CubeTable, f |-> 0, t |-> 255 ]
    [] Which = "ite" -> IteTable
    [] Which \in {"exists", "forall", "unique"} -> QuantTable(Which)
    [] Which = "restrict" -> RestrictTable
    [] Which \in {"union", "intsec", "diff"} -> ZTable(Which)
    [] Which = "zvar" -> ZVarTable

ASSUME JsonSerialize(IOEnv.OUT, Value)
ASSUME PrintT(<<"TABLE_DONE", Which>>)
=============================================================================
