SPECIFICATION FairSpec
CONSTANTS
  Droppers = {d1, d2, d3}
  Allocs = 2
  CheckBeforeWait = TRUE
  SeqDrops = TRUE
INVARIANTS TypeOK FreedOnlyWhenUnused NoEarlyExit NoLeak
PROPERTY Terminates
CHECK_DEADLOCK FALSE
