------------------------------ MODULE VarNames ------------------------------
(***************************************************************************)
(* Variable and name bookkeeping of a manager (property C16).              *)
(*                                                                         *)
(* State: `names`, a sequence of strings, entry v+1 is the name of         *)
(* variable v, "" = unnamed.  Everything else is derived: the number of    *)
(* variables and of levels is Len(names), name_to_var is the inverse of    *)
(* var_name on the non-empty names, num_named_vars counts them.            *)
(*                                                                         *)
(* Each API call is a pure function from (names, arguments) to             *)
(* [res, names]; results are records                                       *)
(*   [ok |-> TRUE, lo |-> first new variable, hi |-> one past the last]    *)
(*   [ok |-> FALSE, name, present, lo, hi]  (DuplicateVarName)             *)
(***************************************************************************)
EXTENDS Integers, Sequences, FiniteSets, TLC, Json

Named(names) == {i \in 1 .. Len(names) : names[i] # ""}
Unique(names) == \A i, j \in Named(names) : names[i] = names[j] => i = j
VarOf(names, s) ==   \* variable number or -1
  IF s # "" /\ \E i \in 1 .. Len(names) : names[i] = s
  THEN (CHOOSE i \in 1 .. Len(names) : names[i] = s) - 1 ELSE -1
NumNamed(names) == Cardinality(Named(names))

Ok(lo, hi) == [ok |-> TRUE, lo |-> lo, hi |-> hi]
Dup(s, present, lo, hi) == [ok |-> FALSE, name |-> s, present |-> present, lo |-> lo, hi |-> hi]

AddVars(names, k) ==
  [res |-> Ok(Len(names), Len(names) + k),
   names |-> names \o [i \in 1 .. k |-> ""]]

(* names are added one by one; at the first non-empty name already in use
   the call stops: the variables before it stay, the error names the
   variable that holds the name and the range added so far *)
RECURSIVE AddNamedFrom(_, _, _, _)
AddNamedFrom(names, ss, i, lenPre) ==
  IF i > Len(ss) THEN [res |-> Ok(lenPre, Len(names)), names |-> names]
  ELSE IF ss[i] # "" /\ VarOf(names, ss[i]) >= 0
       THEN [res |-> Dup(ss[i], VarOf(names, ss[i]), lenPre, Len(names)), names |-> names]
       ELSE AddNamedFrom(Append(names, ss[i]), ss, i + 1, lenPre)
AddNamed(names, ss) == AddNamedFrom(names, ss, 1, Len(names))

SetName(names, v, s) ==
  LET len == Len(names) IN
  IF s = "" THEN [res |-> Ok(len, len), names |-> [names EXCEPT ![v + 1] = ""]]
  ELSE IF VarOf(names, s) >= 0 /\ VarOf(names, s) # v
       THEN [res |-> Dup(s, VarOf(names, s), len, len), names |-> names]
       ELSE [res |-> Ok(len, len), names |-> [names EXCEPT ![v + 1] = s]]

----------------------------------------------------------------------------
(* bounded exhaustive exploration: the complete state graph; every edge is
   printed for replay on the real manager (binding T) *)
CONSTANTS Alphabet, MaxVars, MaxBatch

VARIABLE names

Batches == UNION {[1 .. k -> Alphabet] : k \in 1 .. MaxBatch}

Emit(call, r) == PrintT("EDGE " \o ToJson([pre |-> names, call |-> call, res |-> r.res, post |-> r.names]))

Init == names = <<>>
DoAddVars(k) ==
  LET r == AddVars(names, k) IN
  Len(names) + k <= MaxVars /\ names' = r.names /\ Emit(<<"add_vars", k>>, r)
DoAddNamed(ss) ==
  LET r == AddNamed(names, ss) IN
  Len(names) + Len(ss) <= MaxVars /\ names' = r.names /\ Emit(<<"add_named", ss>>, r)
DoFromMap(ss) ==   \* the map given to add_named_vars_from_map has unique names
  LET r == AddNamed(names, ss) IN
  /\ Len(names) + Len(ss) <= MaxVars /\ Unique(ss)
  /\ names' = r.names /\ Emit(<<"from_map", ss>>, r)
DoSetName(v, s) ==
  LET r == SetName(names, v, s) IN
  v < Len(names) /\ names' = r.names /\ Emit(<<"set_name", v, s>>, r)

Next ==
  \/ \E k \in 1 .. 2 : DoAddVars(k)
  \/ \E ss \in Batches : DoAddNamed(ss) \/ DoFromMap(ss)
  \/ \E v \in 0 .. MaxVars - 1 : \E s \in Alphabet : DoSetName(v, s)

Spec == Init /\ [][Next]_names

(* C16: the name table is a bijection between the named variables and their
   names, in every reachable state *)
Bijection == Unique(names)
LenBound == Len(names) <= MaxVars
NameToVarInverse ==
  \A s \in Alphabet \ {""} :
     LET v == VarOf(names, s) IN (v >= 0 => names[v + 1] = s) /\ (v < 0 => \A i \in 1 .. Len(names) : names[i] # s)
=============================================================================
