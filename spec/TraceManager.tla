---------------------------- MODULE TraceManager ----------------------------
(***************************************************************************)
(* Trace validation (binding V and S): a history recorded from the real    *)
(* library (NDJSON, one event per public API call, with arguments, result  *)
(* and projected state) must be a behaviour of Manager.                    *)
(*                                                                         *)
(* Every event is one step.  The shadow state follows the *observed* graph *)
(* semantics (the denotation TLC computes from the logged nodes), each     *)
(* property-level requirement is a NAMED OBLIGATION <<property, name, ok>>.*)
(* Obligations of properties that are not active (env ACT_<id>) are not    *)
(* evaluated.  A false obligation is printed as OBL_FAIL and counted; the  *)
(* behaviour goes on so that later deviations are reported too.  The       *)
(* postcondition requires that every event was consumed.                   *)
(***************************************************************************)
EXTENDS Manager, Json, IOUtils

Rec == ndJsonDeserialize(IOEnv.TRACE)
MaxFail == 40
NCanon == 5    \* CanonSize is evaluated for n <= NCanon only

VARIABLES l, nf, aux, fl
tvars == <<kind, n, l2v, hs, gcN, roN, l, nf, aux, fl>>

Act(p) == ("ACT_" \o p) \in DOMAIN IOEnv
(* ALIAS_<p> = <q> in the environment hands the obligations of property p over to q
   (C20 re-runs the drivers of other properties under other build configurations) *)
Alias(p) == IF ("ALIAS_" \o p) \in DOMAIN IOEnv THEN IOEnv["ALIAS_" \o p] ELSE p
O(p, name, ok) == IF Act(Alias(p)) THEN <<Alias(p), name, ok>> ELSE <<Alias(p), name, TRUE>>
Has(r, f) == f \in DOMAIN r

Ev(e) == l <= Len(Rec) /\ nf < MaxFail /\ Rec[l].ev = e

(* TLC does not cache LET definitions at the action level (their value could
   depend on primed variables), so everything expensive is computed inside
   operators that are evaluated as the right-hand side of ONE primed
   assignment: `fl` (names of the false obligations of the current event). *)
FailNames(obs) ==
  LET bad == SelectSeq(obs, LAMBDA o : ~o[3])
  IN  [i \in 1 .. Len(bad) |-> <<bad[i][1], bad[i][2]>>]
Step(obs) ==
  /\ l' = l + 1
  /\ fl' = FailNames(obs)
  /\ nf' = nf + (IF fl' = <<>> THEN 0 ELSE 1)
  /\ (fl' # <<>>) => PrintT(<<"OBL_FAIL", l, fl'>>)

AuxInit == [fresh |-> FALSE, cnt |-> 0, afterGc |-> FALSE, afterRo |-> FALSE, afterAdd |-> FALSE, afterFail |-> FALSE, expectOk |-> FALSE, gcSeen |-> 0, roSeen |-> 0]

----------------------------------------------------------------------------
(* structural predicates on a node list in sub-graph form
   <<id, lvl, c0id, c0tag, c1id, c1tag>> *)

NodeReduced(nd) ==
  CASE kind = "bdd"  -> <<nd[3], nd[4]>> # <<nd[5], nd[6]>>
    [] kind = "bcdd" -> <<nd[3], nd[4]>> # <<nd[5], nd[6]>> /\ nd[4] = 0
    [] kind = "zbdd" -> nd[3] # -1
GraphOk(g) ==
  /\ ChildrenFirst(g)
  /\ \A i \in 1 .. Len(g) : g[i][2] \in 0 .. n-1
  /\ \A i, j \in 1 .. Len(g) : i # j => g[i][1] # g[j][1]
LvlOf(g, id) == LET i == CHOOSE j \in 1 .. Len(g) : g[j][1] = id IN g[i][2]
GraphOrdered(g) ==
  \A i \in 1 .. Len(g) : \A c \in {g[i][3], g[i][5]} : c >= 0 => LvlOf(g, c) > g[i][2]
TermIds(g, e) == {x \in {e[1]} \cup UNION {{g[i][3], g[i][5]} : i \in 1 .. Len(g)} : x < 0}

----------------------------------------------------------------------------
(* expected value of an operation event *)

TopLevelBy(P(_)) == LET ls == {i \in 1 .. n : P(l2v[i])} IN
                    IF ls = {} THEN 0 ELSE CHOOSE i \in ls : \A j \in ls : i <= j
TopVar(S) ==    \* 0 = none, else level index (1-based) of the top-most variable
  IF kind = "zbdd" THEN TopLevelBy(LAMBDA v : \E a \in S : Bit(a, v))
  ELSE TopLevelBy(LAMBDA v : Depends(n, S, v))
CofVal(S, b) ==
  LET v == l2v[TopVar(S)]
  IN  IF kind = "zbdd" THEN (IF b THEN Subset1(S, v) ELSE Subset0(S, v))
      ELSE Cof(n, S, v, b)

QuantOps == {"exists", "forall", "unique"}
AQuantOps == {"apply_exists", "apply_forall", "apply_unique"}
ZOps == {"union", "intsec", "diff", "subset0", "subset1", "change", "singleton", "empty", "base"}
QOf(op) == CASE op = "apply_exists" -> "exists" [] op = "apply_forall" -> "forall"
             [] op = "apply_unique" -> "unique"

PickOps == {"pick_dd", "pick_dd_set"}
PropOfOp(op) ==
  IF op \in PickOps THEN "C13" ELSE
  IF op \in QuantOps \cup AQuantOps \cup {"restrict", "subst"} THEN "C04"
  ELSE IF op \in ZOps \cup {"make_node"} THEN "C09"
  ELSE "C02"

ArgsLive(r) == \A i \in 1 .. Len(r.a) : r.a[i] \in Live

Expected(r) ==
  LET a == r.a op == r.op IN
  CASE op = "t" -> ConstVal(TRUE)
    [] op = "f" -> ConstVal(FALSE)
    [] op = "var" -> VarVal(r.v)
    [] op = "not_var" -> NotVarVal(r.v)
    [] op = "not" -> Op1Val(op, a[1])
    [] op \in BinOps -> Op2Val(op, a[1], a[2])
    [] op = "ite" -> IteVal(a[1], a[2], a[3])
    [] op \in QuantOps -> QuantVal(op, a[1], a[2])
    [] op \in AQuantOps -> ApplyQuantVal(QOf(op), r.bop, a[1], a[2], a[3])
    [] op = "restrict" -> RestrictVal(a[1], a[2])
    [] op = "subst" -> SubstValue(a[1], r.pairs)
    [] op \in ZOps -> ZVal(op, a, IF Has(r, "v") THEN r.v ELSE 0)
    [] op = "make_node" ->
         LET v == CHOOSE x \in 0 .. n-1 : Val(a[1]) = Singleton(x)
         IN  MakeNode(v, Val(a[2]), Val(a[3]))
    [] op = "cof_t" -> CofVal(Val(a[1]), TRUE)
    [] op = "cof_f" -> CofVal(Val(a[1]), FALSE)

----------------------------------------------------------------------------
----------------------------------------------------------------------------
(* C13: cube picking.  A result cube is given by its positive and negative
   variables P, Ng.  `want` maps a level (1-based) to "t", "f" or "any":
   the caller's choice for that level.  Walking the variable order, a
   variable on which the current function does not depend must be left
   don't care, a forced variable must take the forced value, every other
   variable must follow `want`.  ZBDDs: a level without node (no member of
   the current family contains the variable) forces false, hi = lo is the
   don't care. *)
(* a variable the current function does not depend on: left don't care; in
   the literal-set variant (`len`) it may also take the requested polarity *)
DcOk(v, P, Ng, w, len) ==
  \/ v \notin (P \cup Ng)
  \/ len /\ w = "t" /\ v \in P
  \/ len /\ w = "f" /\ v \in Ng
RECURSIVE BFollows(_, _, _, _, _, _)
BFollows(cur, P, Ng, want, k, len) ==
  IF k > n THEN cur = Asg(n)
  ELSE LET v == l2v[k]
           T == Cof(n, cur, v, TRUE)
           E == Cof(n, cur, v, FALSE)
       IN  IF T = E THEN DcOk(v, P, Ng, want[k], len) /\ BFollows(cur, P, Ng, want, k + 1, len)
           ELSE IF T = {} THEN v \in Ng /\ BFollows(E, P, Ng, want, k + 1, len)
           ELSE IF E = {} THEN v \in P /\ BFollows(T, P, Ng, want, k + 1, len)
           ELSE CASE want[k] = "t" -> v \in P /\ BFollows(T, P, Ng, want, k + 1, len)
                  [] want[k] = "f" -> v \in Ng /\ BFollows(E, P, Ng, want, k + 1, len)
                  [] OTHER -> \/ v \in P /\ BFollows(T, P, Ng, want, k + 1, len)
                              \/ v \in Ng /\ BFollows(E, P, Ng, want, k + 1, len)
(* ZBDD: hi = lo # {} is a node of the canonical diagram (only hi = {} is reduced away), so the
   literal-set variant meets the variable and has a choice: it follows the literal set, and
   leaves the variable don't care exactly when the set does not mention it *)
ZDcOk(v, P, Ng, w, len) ==
  IF len THEN CASE w = "t" -> v \in P [] w = "f" -> v \in Ng [] OTHER -> v \notin (P \cup Ng)
  ELSE v \notin (P \cup Ng)
RECURSIVE ZFollows(_, _, _, _, _, _)
ZFollows(cur, P, Ng, want, k, len) ==
  IF k > n THEN cur = {0}
  ELSE LET v == l2v[k]
           hi == Subset1(cur, v)
           lo == Subset0(cur, v)
       IN  IF hi = {} THEN v \in Ng /\ ZFollows(lo, P, Ng, want, k + 1, len)
           ELSE IF hi = lo THEN ZDcOk(v, P, Ng, want[k], len) /\ ZFollows(hi, P, Ng, want, k + 1, len)
           ELSE IF lo = {} THEN v \in P /\ ZFollows(hi, P, Ng, want, k + 1, len)
           ELSE CASE want[k] = "t" -> v \in P /\ ZFollows(hi, P, Ng, want, k + 1, len)
                  [] want[k] = "f" -> v \in Ng /\ ZFollows(lo, P, Ng, want, k + 1, len)
                  [] OTHER -> \/ v \in P /\ ZFollows(hi, P, Ng, want, k + 1, len)
                              \/ v \in Ng /\ ZFollows(lo, P, Ng, want, k + 1, len)
Follows(S, P, Ng, want, len) ==
  /\ S # {} /\ P \cap Ng = {}
  /\ IF kind = "zbdd" THEN ZFollows(S, P, Ng, want, 1, len) ELSE BFollows(S, P, Ng, want, 1, len)

WantOfChoice(c) == [k \in 1 .. n |-> IF c[k] THEN "t" ELSE "f"]
WantAny == [k \in 1 .. n |-> "any"]
WantOfLits(L) == [k \in 1 .. n |-> IF l2v[k] \in CubePos(n, L) THEN "t"
                                   ELSE IF l2v[k] \in CubeNeg(n, L) THEN "f" ELSE "any"]
(* the callback log <<level argument, level of the node passed>>: at most one
   call per level, always with a node of that level *)
CallsOk(calls) ==
  /\ \A i \in 1 .. Len(calls) : calls[i][1] = calls[i][2] /\ calls[i][1] \in 0 .. n-1
  /\ \A i, j \in 1 .. Len(calls) : i # j => calls[i][1] # calls[j][1]

(* result given as vector per variable: -1 don't care, 0 false, 1 true *)
VecPos(c) == {v \in 0 .. n-1 : c[v + 1] = 1}
VecNeg(c) == {v \in 0 .. n-1 : c[v + 1] = 0}

(* result of pick_cube_dd / pick_cube_dd_set given as denotation R *)
PickDdOk(r, R) ==
  LET S == Val(r.a[1]) IN
  IF S = {} THEN R = {}
  ELSE /\ IsCube(n, R) /\ R \subseteq S
       /\ Follows(S, CubePos(n, R), CubeNeg(n, R),
                  IF r.op = "pick_dd" THEN WantOfChoice(r.choice) ELSE WantOfLits(Val(r.a[2])),
                  r.op = "pick_dd_set")
       /\ (r.op = "pick_dd" => CallsOk(r.calls))

PickObs(r) ==
  LET S == Val(r.a) IN
  IF Has(r, "res") THEN << O("C13", "pick.failed:" \o r.variant, FALSE) >>
  ELSE IF Has(r, "none") THEN << O("C13", "pick.none:" \o r.variant, S = {}) >>
  ELSE LET P == VecPos(r.cube) Ng == VecNeg(r.cube) IN
       << O("C13", "pick.unsat:" \o r.variant, S # {}),
          O("C13", "pick.len:" \o r.variant, Len(r.cube) = n),
          O("C13", "pick.implies:" \o r.variant, S # {} => CubeOf(n, P, Ng) \subseteq S),
          O("C13", "pick.follows:" \o r.variant, S # {} =>
              Follows(S, P, Ng, IF r.variant = "cube" THEN WantOfChoice(r.choice) ELSE WantAny, FALSE)),
          O("C13", "pick.calls:" \o r.variant, r.variant = "cube" => CallsOk(r.calls)) >>
TrPick ==
  /\ Ev("pick")
  /\ Step(PickObs(Rec[l]))
  /\ UNCHANGED <<kind, n, l2v, hs, gcN, roN, aux>>

(* uniform sampling statistics: counts = <<cube vector, occurrences>> *)
UniObs(r) ==
  LET S == Val(r.a)
      C == r.counts
      I == 1 .. Len(C)
      sz(i) == Cardinality(CubeOf(n, VecPos(C[i][1]), VecNeg(C[i][1])))
      RECURSIVE Sum(_)
      Sum(i) == IF i = 0 THEN 0 ELSE C[i][2] + Sum(i - 1)
  IN << O("C13", "uniform.none", (r.nones > 0) <=> (S = {})),
        O("C13", "uniform.models", \A i \in I : S # {} /\ CubeOf(n, VecPos(C[i][1]), VecNeg(C[i][1])) \subseteq S),
        O("C13", "uniform.cubes", \A i \in I : S # {} => Follows(S, VecPos(C[i][1]), VecNeg(C[i][1]), WantAny, FALSE)),
        O("C13", "uniform.total", Sum(Len(C)) + r.nones = r.draws),
        \* frequency of a cube within [0.6, 1.6] x draws * |cube| / |S| whenever >= 40 are expected
        O("C13", "uniform.band", S # {} => \A i \in I :
              (r.draws * sz(i) >= 40 * Cardinality(S)) =>
                 /\ 10 * C[i][2] * Cardinality(S) >= 6 * r.draws * sz(i)
                 /\ 10 * C[i][2] * Cardinality(S) <= 16 * r.draws * sz(i)) >>
TrUni ==
  /\ Ev("unistat")
  /\ Step(UniObs(Rec[l]))
  /\ UNCHANGED <<kind, n, l2v, hs, gcN, roN, aux>>

----------------------------------------------------------------------------
(* C12: model counting.  Numbers travel as base-2^15 limbs (least
   significant first).  The exact count of S over `vars` variables is
   |S| * 2^(vars - n); both sides are normalised to <<odd mantissa, exponent>>. *)
B15 == 32768
Trim(L) == IF L # <<>> /\ L[Len(L)] = 0 THEN SubSeq(L, 1, Len(L) - 1) ELSE L
RECURSIVE TrimAll(_)
TrimAll(L) == IF L # <<>> /\ L[Len(L)] = 0 THEN TrimAll(SubSeq(L, 1, Len(L) - 1)) ELSE L
Half(L) == TrimAll([i \in 1 .. Len(L) |->
              (L[i] \div 2) + (IF i < Len(L) /\ L[i + 1] % 2 = 1 THEN B15 \div 2 ELSE 0)])
RECURSIVE NormPair(_, _)
NormPair(L0, e) ==
  LET L == TrimAll(L0) IN
  IF L = <<>> THEN <<<<>>, 0>>
  ELSE IF L[1] = 0 THEN NormPair(Tail(L), e + 15)
  ELSE IF L[1] % 2 = 0 THEN NormPair(Half(L), e + 1)
  ELSE <<L, e>>
FromInt(c) == TrimAll(<<c % B15, (c \div B15) % B15, c \div (B15 * B15)>>)
RECURSIVE BitLen(_)
BitLen(c) == IF c = 0 THEN 0 ELSE 1 + BitLen(c \div 2)
MaxLimbs(bits) == [i \in 1 .. (bits \div 15) + 1 |->
                     IF i <= bits \div 15 THEN B15 - 1 ELSE 2^(bits % 15) - 1]

CountOk(r) ==
  LET c == Cardinality(Val(r.a))
      k == r.vars - n
      exp == NormPair(FromInt(c), k)
      v == r.val
      bits == IF r.ty = "u64" THEN 64 ELSE 128
  IN  CASE r.ty \in {"u64", "u128"} ->
             IF r.vars < bits THEN NormPair(v.limbs, 0) = exp
             ELSE TrimAll(v.limbs) = MaxLimbs(bits) \/ (c = 0 /\ TrimAll(v.limbs) = <<>>)
        [] r.ty = "f64" ->
             IF c = 0 THEN v.exp = 0 /\ TrimAll(v.frac) = <<>> /\ v.sign = 0
             ELSE IF BitLen(c) + k > 1024 THEN v.exp = 2047 /\ TrimAll(v.frac) = <<>> /\ v.sign = 0
             ELSE /\ v.sign = 0 /\ v.exp \in 1 .. 2046
                  /\ NormPair([i \in 1 .. 4 |-> v.frac[i] + (IF i = 4 THEN 128 ELSE 0)], v.exp - 1075) = exp
        [] r.ty = "nat" -> ~v.nan /\ NormPair(v.limbs, v.exp) = exp
CountObs(r) ==
  IF Has(r, "res") THEN << O("C12", "satcount.failed:" \o r.ty, FALSE) >>
  ELSE << O("C12", "satcount:" \o r.ty, r.vars >= n => CountOk(r)) >>
TrCount ==
  /\ Ev("satcount")
  /\ Step(CountObs(Rec[l]))
  /\ UNCHANGED <<kind, n, l2v, hs, gcN, roN, aux>>


TrReset ==
  /\ Ev("reset")
  /\ kind' = Rec[l].kind /\ n' = 0 /\ l2v' = <<>> /\ hs' = NoHandles
  /\ gcN' = 0 /\ roN' = 0 /\ aux' = AuxInit
  /\ Step(<<>>)

(* ---- add_vars ---- *)
AddVarsObs(r) ==
  IF Has(r, "res") THEN << O("C16", "add_vars.panic", FALSE) >>
  ELSE LET exp == l2v \o [i \in 1 .. r.k |-> n + i - 1]
           good == IsPerm(r.l2v, n + r.k)
       IN << O("C16", "add_vars.n", r.n = n + r.k /\ r.nl = r.n),
             O("C16", "add_vars.range", r.range = <<n, n + r.k>>),
             O("C16", "add_vars.order", r.l2v = exp),
             O("C03", "perm", good /\ r.v2l = [i \in 1 .. n + r.k |-> InvPerm(r.l2v)[i - 1]]) >>
TrAddVars ==
  /\ Ev("add_vars")
  /\ Step(AddVarsObs(Rec[l]))
  /\ IF Has(Rec[l], "res")
     THEN UNCHANGED <<kind, n, l2v, hs, gcN, roN, aux>>
     ELSE /\ n' = n + Rec[l].k
          /\ l2v' = IF IsPerm(Rec[l].l2v, n + Rec[l].k) THEN Rec[l].l2v
                     ELSE l2v \o [i \in 1 .. Rec[l].k |-> n + i - 1]
          /\ hs' = [s \in Live |-> [hs[s] EXCEPT !.v = Extend(kind, n, n + Rec[l].k, @)]]
          /\ aux' = [aux EXCEPT !.fresh = FALSE, !.afterAdd = TRUE]
          /\ UNCHANGED <<kind, gcN, roN>>

(* ---- operations ---- *)
OpGraphOk(r) == GraphOk(r.g) /\ (r.e[1] < 0 \/ \E i \in 1 .. Len(r.g) : r.g[i][1] = r.e[1])
(* denotation of the returned edge, by interpreting the logged sub-graph *)
OpValue(r) ==
  IF OpGraphOk(r)
  THEN EdgeSemM(kind, n, SemMap(kind, n, l2v, r.g), r.e[1], r.e[2])
  ELSE {}
OpObs(r, val) ==
  LET P == PropOfOp(r.op) IN
  IF Has(r, "res") THEN << O(P, "failed:" \o r.op, FALSE),
                            \* C14: the only acceptable failure is the out-of-memory error
                            O("C14", "fail.not_oom:" \o r.op, Has(r.res, "oom")),
                            \* ... and not after enough space has been freed
                            O("C14", "retry.ok:" \o r.op, ~aux.expectOk),
                            \* (out of memory is judged by C14; managers of the concurrent histories may be small)
                            O("C07", "conc.failed:" \o r.op, Has(r.res, "oom")),
                            O("C20", "config.failed:" \o r.op, FALSE) >>
  ELSE
    LET g == r.g
        ok == OpGraphOk(r)
    IN << O("C03", "op.graph", ok),
          O(P, "sem:" \o r.op, ArgsLive(r) /\
                (IF r.op \in PickOps THEN PickDdOk(r, val) ELSE val = Expected(r))),
          O("C14", "sem:" \o r.op, ArgsLive(r) /\
                (IF r.op \in PickOps THEN PickDdOk(r, val) ELSE val = Expected(r))),
          O("C14", "canon:" \o r.op, \A s \in Live : (Val(s) = val) <=> (EdgeOf(s) = r.e)),
          O("C07", "conc.sem:" \o r.op, ArgsLive(r) /\
                (IF r.op \in PickOps THEN PickDdOk(r, val) ELSE val = Expected(r))),
          O("C07", "conc.canon:" \o r.op, \A s \in Live : (Val(s) = val) <=> (EdgeOf(s) = r.e)),
          O("C07", "conc.graph:" \o r.op, ok /\ GraphOrdered(g) /\ \A i \in 1 .. Len(g) : NodeReduced(g[i])),
          O("C20", "config.sem:" \o r.op, ArgsLive(r) /\
                (IF r.op \in PickOps THEN PickDdOk(r, val) ELSE val = Expected(r))),
          O("C20", "config.canon:" \o r.op, \A s \in Live : (Val(s) = val) <=> (EdgeOf(s) = r.e)),
          O("C06", "cache:" \o r.op, ArgsLive(r) /\
                (IF r.op \in PickOps THEN PickDdOk(r, val) ELSE val = Expected(r))),
          O("C02", "eval", SeqToSet(r.tt) = val),
          O("C01", "canon.op", \A s \in Live : (Val(s) = val) <=> (EdgeOf(s) = r.e)),
          O("C03", "op.reduced", ok => (GraphOrdered(g) /\ \A i \in 1 .. Len(g) : NodeReduced(g[i]))),
          O("C03", "op.nc", r.nc = Len(g) + Cardinality(TermIds(g, r.e))),
          O("C03", "op.canonsize", n <= NCanon => r.nc = CanonSize(kind, n, l2v, val)) >>
TrOp ==
  /\ Ev("op")
  /\ IF Has(Rec[l], "res")
     THEN /\ hs' = hs
          /\ Step(OpObs(Rec[l], {}))
          /\ aux' = [aux EXCEPT !.fresh = FALSE, !.afterFail = TRUE, !.expectOk = FALSE]
     ELSE /\ hs' = Put(Rec[l].h, Rec[l].e, OpValue(Rec[l]))
          /\ Step(OpObs(Rec[l], hs'[Rec[l].h].v))
          /\ aux' = [aux EXCEPT !.fresh = FALSE, !.expectOk = FALSE]
  /\ UNCHANGED <<kind, n, l2v, gcN, roN>>

TrCofNone ==
  /\ Ev("cofnone")
  /\ Step(<< O("C02", "cofnone", TopVar(Val(Rec[l].a)) = 0) >>)
  /\ UNCHANGED <<kind, n, l2v, hs, gcN, roN, aux>>

TrClone ==
  /\ Ev("clone")
  /\ Step(<<>>)
  /\ Clone(Rec[l].a, Rec[l].h)
  /\ aux' = [aux EXCEPT !.fresh = FALSE]

TrDrop ==
  /\ Ev("drop")
  \* (a handle may be dropped through Manager::try_remove_node: it must not fail)
  /\ Step(<< O("C05", "drop.ok", ~Has(Rec[l], "res")), O("C06", "drop.ok", ~Has(Rec[l], "res")) >>)
  /\ Drop(Rec[l].a)
  /\ aux' = [aux EXCEPT !.fresh = FALSE]

TrGc ==
  /\ Ev("gc")
  /\ Step(<< O("C05", "gc.ret", Rec[l].ret = Rec[l].before - Rec[l].after),
             O("C05", "gc.before", aux.fresh => Rec[l].before = aux.cnt) >>)
  /\ aux' = [aux EXCEPT !.fresh = FALSE, !.afterGc = TRUE]
  /\ Gc

(* ---- reordering ---- *)
(* hook events of one set_var_order call: <<0, i>> the swap of the non-empty
   levels i, i+1 begins, <<1, i>> it ended.  As in BubbleSort!NoOverlap, two
   swaps in progress never share a level. *)
RECURSIVE SwapsOkFrom(_, _, _)
SwapsOkFrom(evs, k, inprog) ==
  IF k > Len(evs) THEN inprog = {}
  ELSE LET i == evs[k][2] IN
       IF evs[k][1] = 0
       THEN {i - 1, i, i + 1} \cap inprog = {} /\ SwapsOkFrom(evs, k + 1, inprog \cup {i})
       ELSE i \in inprog /\ SwapsOkFrom(evs, k + 1, inprog \ {i})
SwapsOk(evs) == SwapsOkFrom(evs, 1, {})
ReorderObs(r) ==
  IF Has(r, "res") THEN << O("C08", "reorder.panic", FALSE) >>
  ELSE LET good == IsPerm(r.l2v, n) IN
       << O("C08", "order.perm", good),
          O("C08", "order.inverse", good => r.v2l = [i \in 1 .. n |-> InvPerm(r.l2v)[i - 1]]),
          O("C08", "order.request", good => RespectsReq(r.l2v, r.req)),
          O("C08", "order.minimal", (good /\ n <= 6) =>
               Inversions(l2v, r.l2v) = MinInversions(r.req)),
          O("C08", IF Has(r, "conc") /\ r.conc THEN "swaps.no_overlap:concurrent" ELSE "swaps.no_overlap:sequential",
               Has(r, "swaps") => SwapsOk(r.swaps)) >>
TrReorder ==
  /\ Ev("reorder")
  /\ Step(ReorderObs(Rec[l]))
  /\ IF Has(Rec[l], "res")
     THEN UNCHANGED <<kind, n, l2v, hs, gcN, roN, aux>>
     ELSE /\ l2v' = IF IsPerm(Rec[l].l2v, n) THEN Rec[l].l2v ELSE l2v
          /\ roN' = roN + 1
          /\ aux' = [aux EXCEPT !.fresh = FALSE, !.afterRo = TRUE]
          /\ UNCHANGED <<kind, n, hs, gcN>>

(* ---- adoption of handles built through unlogged calls ----
   hs: <<slot, id, tag>>, g: sub-graph; the handles get the denotation of
   their stored graph *)
AdoptOk(r) ==
  GraphOk(r.g) /\ \A j \in 1 .. Len(r.hs) :
     r.hs[j][2] < 0 \/ \E i \in 1 .. Len(r.g) : r.g[i][1] = r.hs[j][2]
AdoptHs(r) ==
  LET H == r.hs
      J == 1 .. Len(H)
      ok == AdoptOk(r)
      m == IF ok THEN SemMap(kind, n, l2v, r.g) ELSE EmptyMap
      new == [j \in J |-> [id |-> H[j][2], tag |-> H[j][3],
                           v |-> IF ok THEN EdgeSemM(kind, n, m, H[j][2], H[j][3]) ELSE {}]]
      idx == [s \in {H[j][1] : j \in J} |-> CHOOSE j \in J : H[j][1] = s]
  IN  [s \in Live \cup DOMAIN idx |-> IF s \in DOMAIN idx THEN new[idx[s]] ELSE hs[s]]
TrAdopt ==
  /\ Ev("adopt")
  /\ hs' = AdoptHs(Rec[l])
  /\ Step(<< O("C03", "adopt.graph", AdoptOk(Rec[l])) >>)
  /\ aux' = [aux EXCEPT !.fresh = FALSE]
  /\ UNCHANGED <<kind, n, l2v, gcN, roN>>

(* the harness could not build the function it wanted by the elementary
   route (conjunction of literals / disjunction of minterms) *)
TrConstructMismatch ==
  /\ Ev("construct_mismatch")
  /\ Step(<< O("C02", "construct", FALSE) >>)
  /\ UNCHANGED <<kind, n, l2v, hs, gcN, roN, aux>>

(* marker written before a call that the library may answer by aborting the
   process (reordering, level creation); an `abort` event, appended by the
   orchestrator when the driver process died, has no action *)
TrBegin ==
  /\ Ev("begin")
  /\ Step(<<>>)
  /\ UNCHANGED <<kind, n, l2v, hs, gcN, roN, aux>>

(* capacity probe (C05, C14): every handle was dropped and the store
   collected; filling the manager with one-node operations until the first
   allocation failure must reach at least the node count of the fresh manager *)
TrProbe ==
  /\ Ev("probe")
  \* (>=: for ZBDDs the fill operations create several nodes at once, so the first failure
  \* may come a few slots earlier or later; a leak makes the second fill stop EARLIER)
  /\ Step(<< O("C05", "probe.capacity", Rec[l].filled >= Rec[l].fresh),
             O("C14", "probe.capacity", Rec[l].filled >= Rec[l].fresh) >>)
  /\ UNCHANGED <<kind, n, l2v, hs, gcN, roN, aux>>

(* substitution objects created concurrently by several threads and alive at
   the same time (C07; C04: "different substitutions are used alternately"):
   Substitution::id is the apply-cache key of substitute(), two substitutions
   used with one manager must not share it *)
RECURSIVE SumLens(_, _)
SumLens(ss, k) == IF k = 0 THEN 0 ELSE Len(ss[k]) + SumLens(ss, k - 1)
TrSubstIds ==
  /\ Ev("substids")
  /\ LET ids == Rec[l].ids
         all == UNION {SeqToSet(ids[t]) : t \in 1 .. Len(ids)}
         cnt == SumLens(ids, Len(ids))
     IN  Step(<< O("C07", "conc.substid.unique", Cardinality(all) = cnt),
                 O("C04", "substid.unique", Cardinality(all) = cnt) >>)
  /\ UNCHANGED <<kind, n, l2v, hs, gcN, roN, aux>>

(* DDDMP export of live handles: a read-only traversal; the handles must be
   known, the call must not fail; the next snapshot audits the store *)
TrExport ==
  /\ Ev("export")
  /\ Step(<< O("C05", "export.ok", ~Has(Rec[l], "res") /\ \A i \in 1 .. Len(Rec[l].a) : Rec[l].a[i] \in Live),
             O("C15", "export.ok", ~Has(Rec[l], "res")) >>)
  /\ UNCHANGED <<kind, n, l2v, hs, gcN, roN, aux>>

(* eval with many variables: f = x_i <op> x_j evaluated under an assignment
   that gives x_i the value ai and x_j the value aj (self-contained event) *)
BoolOp(op, a, b) ==
  CASE op = "and" -> a /\ b [] op = "or" -> a \/ b [] op = "xor" -> a # b [] op = "equiv" -> a = b
    [] op = "nand" -> ~(a /\ b) [] op = "nor" -> ~(a \/ b) [] op = "imp" -> (~a) \/ b
    [] op = "imp_strict" -> (~a) /\ b
TrEvalW ==
  /\ Ev("evalw")
  /\ Step(<< O("C02", "eval.wide", Has(Rec[l], "ai") /\
                   Rec[l].res = BoolOp(Rec[l].op, Rec[l].ai = 1, Rec[l].aj = 1)) >>)
  /\ UNCHANGED <<kind, n, l2v, hs, gcN, roN, aux>>

(* a collection that ran concurrently with operations of other threads *)
TrCGc ==
  /\ Ev("cgc")
  /\ Step(<<>>)
  /\ gcN' = gcN + 1
  /\ aux' = [aux EXCEPT !.fresh = FALSE]
  /\ UNCHANGED <<kind, n, l2v, hs, roN>>

(* C14: after space has been freed the failed operation is retried and must
   succeed; `expect_ok` events precede the retry *)
TrExpectOk ==
  /\ Ev("expect_ok")
  /\ Step(<<>>)
  /\ aux' = [aux EXCEPT !.expectOk = TRUE]
  /\ UNCHANGED <<kind, n, l2v, hs, gcN, roN>>

(* summary line of a table replay (T binding): rows replayed / rows whose
   result was not the canonical handle the table prescribes; the mismatching
   rows themselves precede this event as ordinary `op` events *)
TrRows ==
  /\ Ev("rows")
  /\ Step(<<>>)
  /\ UNCHANGED <<kind, n, l2v, hs, gcN, roN, aux>>

(* ---- observations of all live handles:
   <<slot, id, tag, tt, nc, eqclass, ordrank, satisfiable, valid>> *)
ObsObs(r) ==
  LET H == r.hs
      I == 1 .. Len(H)
      known == \A i \in I : H[i][1] \in Live
      V == [i \in I |-> IF known THEN Val(H[i][1]) ELSE {}]
      firstN == {i \in I : i <= r.eqn}
      eqPairs == {<<r.eqp[k][1], r.eqp[k][2]>> : k \in 1 .. Len(r.eqp)}
  IN << O("C01", "obs.slots", known),
        O("C01", "obs.edge", known => \A i \in I : EdgeOf(H[i][1]) = <<H[i][2], H[i][3]>>),
        O("C02", "obs.eval", known => \A i \in I : SeqToSet(H[i][4]) = V[i]),
        \* eval with argument lists that name every variable twice (first the opposite value):
        \* the last value counts (documented)
        O("C02", "obs.eval.dup", known => \A i \in I : Len(H[i]) >= 10 => SeqToSet(H[i][10]) = V[i]),
        O("C01", "obs.eqhash", known => \A i, j \in I : (H[i][6] = H[j][6]) <=> (V[i] = V[j])),
        O("C01", "obs.ord", known => \A i, j \in I : (H[i][7] = H[j][7]) <=> (V[i] = V[j])),
        O("C01", "obs.eq", known => \A i, j \in firstN : i < j =>
              ((<<H[i][1], H[j][1]>> \in eqPairs) <=> (V[i] = V[j]))),
        O("C02", "obs.sat", known => \A i \in I : (H[i][8] <=> V[i] # {}) /\ (H[i][9] <=> V[i] = Asg(n))),
        O("C03", "obs.canonsize", (known /\ n <= NCanon) =>
              \A i \in I : H[i][5] = CanonSize(kind, n, l2v, V[i])) >>
TrObs ==
  /\ Ev("obs")
  /\ Step(ObsObs(Rec[l]))
  /\ UNCHANGED <<kind, n, l2v, hs, gcN, roN, aux>>

(* ---- full snapshot: nodes <<id, lvlListed, lvlStored, rc, c0id, c0tag, c1id, c1tag>>
   deepest level first; hs <<slot, id, tag>> *)
SnapObs(r) ==
  LET N == r.nodes
      I == 1 .. Len(N)
      g == [i \in I |-> <<N[i][1], N[i][3], N[i][5], N[i][6], N[i][7], N[i][8]>>]
      permOk == IsPerm(r.l2v, r.n) /\ r.nl = r.n
      ok == GraphOk(g) /\ r.l2v = l2v /\ r.n = n
      m == IF ok THEN SemMap(kind, n, l2v, g) ELSE EmptyMap
      H == r.hs
      J == 1 .. Len(H)
      hOk == ok /\ \A j \in J : H[j][2] < 0 \/ H[j][2] \in DOMAIN m
      stable == hOk /\ \A j \in J : H[j][1] \in Live =>
                  (EdgeOf(H[j][1]) = <<H[j][2], H[j][3]>>
                   /\ EdgeSemM(kind, n, m, H[j][2], H[j][3]) = Val(H[j][1]))
      \* number of references a node should have: child edges of stored
      \* nodes + handles + (ZBDD) the manager's own tautology chain
      childIds == [k \in 1 .. 2 * Len(N) |-> N[(k + 1) \div 2][IF k % 2 = 1 THEN 5 ELSE 7]]
      refs(id) == Cardinality({k \in 1 .. 2 * Len(N) : childIds[k] = id})
                  + Cardinality({j \in J : H[j][2] = id})
      below(lv) == {a \in Asg(n) : \A k \in 1 .. lv : ~Bit(a, l2v[k])}
      internal(i) == IF kind = "zbdd" /\ m[N[i][1]] = below(N[i][3]) THEN 1 ELSE 0
      norm(S) == IF kind = "bcdd" /\ 0 \in S THEN Asg(n) \ S ELSE S
      levelsOk == \A i \in I : N[i][2] = N[i][3]
      reducedOk == \A i \in I : NodeReduced(g[i])
      nodupOk == Cardinality({<<N[i][2], N[i][5], N[i][6], N[i][7], N[i][8]>> : i \in I}) = Len(N)
      semInj == ok => Cardinality({norm(m[N[i][1]]) : i \in I}) = Len(N)
      rcOk == ok => \A i \in I : N[i][4] = refs(N[i][1]) + internal(i)
  IN << O("C03", "snap.state", r.l2v = l2v /\ r.n = n),
        O("C03", "snap.perm", permOk /\ (permOk => r.v2l = [i \in 1 .. r.n |-> InvPerm(r.l2v)[i - 1]])),
        O("C03", "snap.graph", ok),
        O("C03", "snap.levels", levelsOk),
        O("C03", "snap.ordered", ok => GraphOrdered(g)),
        O("C03", "snap.reduced", reducedOk),
        O("C03", "snap.nodup", nodupOk),
        O("C03", "snap.ninner", r.ninner = Len(N)),
        O("C01", "snap.seminj", semInj),
        O("C01", "snap.slots", {H[j][1] : j \in J} = Live),
        O("C05", "snap.stable", stable),
        O("C08", "snap.stable", stable),
        O("C05", "snap.handles", hOk),
        O("C05", "snap.rc", rcOk),
        O("C16", "snap.after_add_vars", aux.afterAdd =>
              (ok /\ stable /\ GraphOrdered(g) /\ levelsOk /\ reducedOk /\ nodupOk /\ semInj /\ rcOk)),
        \* C14: after a failed operation everything acquired was released and
        \* the diagram is intact
        O("C14", "snap.after_failure", aux.afterFail =>
              (ok /\ stable /\ GraphOrdered(g) /\ levelsOk /\ reducedOk /\ nodupOk /\ semInj /\ rcOk)),
        \* C07: snapshots are only taken when no operation is in progress
        O("C20", "config.snap",
              ok /\ stable /\ GraphOrdered(g) /\ levelsOk /\ reducedOk /\ nodupOk /\ semInj /\ rcOk),
        O("C07", "snap.quiescent",
              ok /\ stable /\ GraphOrdered(g) /\ levelsOk /\ reducedOk /\ nodupOk /\ semInj /\ rcOk),
        O("C07", "snap.gc.complete", (aux.afterGc /\ ok) => \A i \in I : N[i][4] > 0),
        O("C08", "snap.wellformed", aux.afterRo =>
              (ok /\ GraphOrdered(g) /\ levelsOk /\ reducedOk /\ nodupOk /\ semInj /\ rcOk)),
        O("C05", "snap.gc.complete", (aux.afterGc /\ ok) => \A i \in I : N[i][4] > 0),
        O("C05", "snap.gccount", r.gc >= gcN /\ r.gc >= aux.gcSeen),
        O("C08", "snap.rocount", r.ro >= aux.roSeen /\ r.ro <= roN) >>
TrSnap ==
  /\ Ev("snap")
  /\ Step(SnapObs(Rec[l]))
  /\ aux' = [fresh |-> TRUE, cnt |-> Len(Rec[l].nodes), afterGc |-> FALSE, afterRo |-> FALSE, afterAdd |-> FALSE, afterFail |-> FALSE, expectOk |-> aux.expectOk,
             gcSeen |-> Rec[l].gc, roSeen |-> Rec[l].ro]
  /\ UNCHANGED <<kind, n, l2v, hs, gcN, roN>>


----------------------------------------------------------------------------
TrInit ==
  /\ kind = "bdd" /\ n = 0 /\ l2v = <<>> /\ hs = NoHandles /\ gcN = 0 /\ roN = 0
  /\ l = 1 /\ nf = 0 /\ aux = AuxInit /\ fl = <<>>

TrNext ==
  \/ TrReset \/ TrAddVars \/ TrOp \/ TrCofNone \/ TrClone \/ TrDrop
  \/ TrGc \/ TrReorder \/ TrObs \/ TrSnap \/ TrAdopt \/ TrConstructMismatch
  \/ TrRows \/ TrBegin \/ TrPick \/ TrUni \/ TrCount \/ TrExpectOk \/ TrCGc \/ TrProbe \/ TrExport \/ TrEvalW \/ TrSubstIds

TrSpec == TrInit /\ [][TrNext]_tvars

(* acceptance: every event consumed *)
Done ==
  LET d == TLCGet("stats").diameter
  IN  /\ PrintT(<<"TRACE_DONE", d - 1, Len(Rec)>>)
      /\ TRUE
=============================================================================
