SPECIFICATION Spec
CONSTANTS
  Alphabet = {"", "a", "b", "c"}
  MaxVars = 4
  MaxBatch = 3
INVARIANTS Bijection LenBound NameToVarInverse
CHECK_DEADLOCK FALSE
