SPECIFICATION TraceSpec
CONSTANTS
  N = 24
  Workers = {1, 2, 3, 4, 5, 6, 7, 8, 9, 10, 11, 12}
VIEW View
CONSTRAINT Progress
POSTCONDITION TraceAccepted
CHECK_DEADLOCK FALSE
