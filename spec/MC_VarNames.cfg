SPECIFICATION Spec
CONSTANTS
  Alphabet = {"", "a", "b", "c"}
  MaxVars = 3
  MaxBatch = 2
INVARIANTS Bijection LenBound NameToVarInverse
CHECK_DEADLOCK FALSE
