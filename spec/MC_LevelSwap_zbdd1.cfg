SPECIFICATION Spec
CONSTANTS
  NV = 3
  Kind = "zbdd"
  U = 1
  MaxLive = 2
  MaxDead = 0
  MaxNodes = 24
  Variant = "code"
INVARIANTS SemPreserved WellFormed RcExact NoDangling
CHECK_DEADLOCK FALSE
