---------------------------- MODULE TraceConfig ----------------------------
(***************************************************************************)
(* Product trace (properties C06 and C20): the same recorded sequence of   *)
(* API calls was executed under several configurations (apply-cache        *)
(* capacity, thread count / split depth, node-store backend, feature set). *)
(* Event i of the product trace lists, per configuration, what call i      *)
(* returned: truth table, node count, and for order-changing calls the     *)
(* variable order.  All configurations must agree; each single execution   *)
(* is in addition validated against Manager/TraceManager on its own.       *)
(***************************************************************************)
EXTENDS Integers, Sequences, FiniteSets, TLC, Json, IOUtils

Rec == ndJsonDeserialize(IOEnv.TRACE)
MaxFail == 40
VARIABLES l, nf, fl
tvars == <<l, nf, fl>>
Act(p) == ("ACT_" \o p) \in DOMAIN IOEnv
O(p, name, ok) == IF Act(p) THEN <<p, name, ok>> ELSE <<p, name, TRUE>>
FailNames(obs) ==
  LET bad == SelectSeq(obs, LAMBDA o : ~o[3])
  IN  [i \in 1 .. Len(bad) |-> <<bad[i][1], bad[i][2]>>]
Ev(e) == l <= Len(Rec) /\ nf < MaxFail /\ Rec[l].ev = e
Step(obs) ==
  /\ l' = l + 1
  /\ fl' = FailNames(obs)
  /\ nf' = nf + (IF fl' = <<>> THEN 0 ELSE 1)
  /\ (fl' # <<>>) => PrintT(<<"OBL_FAIL", l, fl'>>)

AllEqual(s) == \A i \in 1 .. Len(s) : s[i] = s[1]
(* which property owns the comparison is named by the product trace *)
XObs(r) ==
  << O(r.prop, "same.result:" \o r.what, AllEqual(r.res)),
     O(r.prop, "same.shape:" \o r.what, \A i \in 1 .. Len(r.kinds) : r.kinds[i] = r.kinds[1]) >>
TrReset == Ev("reset") /\ Step(<<>>)
TrX == Ev("x") /\ Step(XObs(Rec[l]))
TrInit == l = 1 /\ nf = 0 /\ fl = <<>>
TrNext == TrReset \/ TrX
TrSpec == TrInit /\ [][TrNext]_tvars
Done == PrintT(<<"TRACE_DONE", TLCGet("stats").diameter - 1, Len(Rec)>>)
=============================================================================
