SPECIFICATION Spec
CONSTANTS
  Slots = {1, 2, 3}
  Levels = {0, 1}
  Threads = {t1, t2}
  MaxOps = 1
  MaxHandles = 2
INVARIANTS TypeOK RcExact NoDangling UniqueTable CacheSound FailClean LockSane
CHECK_DEADLOCK FALSE
