SPECIFICATION TrSpec
POSTCONDITION Done
CHECK_DEADLOCK FALSE
CONSTANTS
  Alphabet = {""}
  MaxVars = 0
  MaxBatch = 0
