SPECIFICATION MCSpec
INVARIANTS EvalIsTable OutcomeAllowed ErrorWhenRequired NormalFormIsFixed
CHECK_DEADLOCK FALSE
