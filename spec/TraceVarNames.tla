--------------------------- MODULE TraceVarNames ---------------------------
(***************************************************************************)
(* Trace validation for C16: every recorded name-management call must be  *)
(* the corresponding function of VarNames (exact result incl. the payload  *)
(* of DuplicateVarName) and the observations after it (num_vars,           *)
(* num_levels, num_named_vars, var_name of every variable, name_to_var of  *)
(* every name ever used and of "") must be those of the resulting state.   *)
(***************************************************************************)
EXTENDS VarNames, Json, IOUtils

Rec == ndJsonDeserialize(IOEnv.TRACE)
MaxFail == 40

VARIABLES l, nf, fl
tvars == <<names, l, nf, fl>>

Act(p) == ("ACT_" \o p) \in DOMAIN IOEnv
O(p, name, ok) == IF Act(p) THEN <<p, name, ok>> ELSE <<p, name, TRUE>>
Has(r, f) == f \in DOMAIN r
FailNames(obs) ==
  LET bad == SelectSeq(obs, LAMBDA o : ~o[3])
  IN  [i \in 1 .. Len(bad) |-> <<bad[i][1], bad[i][2]>>]
Ev(e) == l <= Len(Rec) /\ nf < MaxFail /\ Rec[l].ev = e
Step(obs) ==
  /\ l' = l + 1
  /\ fl' = FailNames(obs)
  /\ nf' = nf + (IF fl' = <<>> THEN 0 ELSE 1)
  /\ (fl' # <<>>) => PrintT(<<"OBL_FAIL", l, fl'>>)

TrReset ==
  /\ Ev("reset")
  /\ names' = <<>>
  /\ Step(<<>>)

(* the spec's outcome of a call *)
Outcome(c) ==
  CASE c[1] = "add_vars"  -> AddVars(names, c[2])
    [] c[1] = "add_named" -> AddNamed(names, c[2])
    [] c[1] = "from_map"  -> AddNamed(names, c[2])
    [] c[1] = "set_name"  -> SetName(names, c[2], c[3])

ResEq(obs, exp) ==
  IF Has(obs, "panic") THEN FALSE
  ELSE IF exp.ok THEN obs.ok /\ obs.lo = exp.lo /\ obs.hi = exp.hi
  ELSE ~obs.ok /\ obs.name = exp.name /\ obs.present = exp.present
       /\ obs.lo = exp.lo /\ obs.hi = exp.hi

CallObs(r) ==
  LET c == r.call
      out == Outcome(c)
      o == r.obs
      nm == o.names
  IN << O("C16", c[1] \o ".result", ResEq(r.res, out.res)),
        O("C16", c[1] \o ".names", nm = out.names),
        O("C16", c[1] \o ".counts", o.nv = Len(nm) /\ o.nl = Len(nm)),
        O("C16", c[1] \o ".num_named", o.nn = NumNamed(nm)),
        O("C16", c[1] \o ".bijection", Unique(nm)),
        O("C16", c[1] \o ".name_to_var",
            \A i \in 1 .. Len(o.n2v) : o.n2v[i][2] = VarOf(nm, o.n2v[i][1])) >>

TrCall ==
  /\ Ev("ncall")
  /\ Step(CallObs(Rec[l]))
  /\ names' = Rec[l].obs.names      \* the shadow state follows the observation

(* an unrelated manager activity (handle creation, gc, reordering) between
   calls; names must be unaffected: checked by the next observation *)
TrNoise ==
  /\ Ev("noise")
  /\ Step(<< O("C16", "noise.names", Rec[l].obs.names = names),
             O("C16", "noise.counts", Rec[l].obs.nv = Len(names) /\ Rec[l].obs.nl = Len(names)
                                      /\ Rec[l].obs.nn = NumNamed(names)) >>)
  /\ UNCHANGED names

TrInit == names = <<>> /\ l = 1 /\ nf = 0 /\ fl = <<>>
TrNext == TrReset \/ TrCall \/ TrNoise
TrSpec == TrInit /\ [][TrNext]_tvars
Done == PrintT(<<"TRACE_DONE", TLCGet("stats").diameter - 1, Len(Rec)>>)
=============================================================================
