SPECIFICATION FairSpec
CONSTANTS
  Droppers = {d1}
  Allocs = 2
  CheckBeforeWait = FALSE
  SeqDrops = FALSE
INVARIANTS TypeOK FreedOnlyWhenUnused NoEarlyExit NoLeak
PROPERTY Terminates
CHECK_DEADLOCK FALSE
