SPECIFICATION Spec
CONSTANTS
  NV = 3
  Kind = "zbdd"
  U = 0
  MaxLive = 1
  MaxDead = 1
  MaxNodes = 24
  Variant = "code"
INVARIANTS SemPreserved WellFormed RcExact NoDangling
CHECK_DEADLOCK FALSE
