//! Hand-written prototypes of the exercised subset of the C interface
//! (`/repo/crates/oxidd-ffi-c/src/{bdd,bcdd,zbdd}.rs`, `util/*.rs`).
//!
//! `oxidd_bdd_t`, `oxidd_bcdd_t` and `oxidd_zbdd_t` are three `repr(C)` structs
//! with the same fields (`_p: *const c_void, _i: usize`), likewise the three
//! manager handle types (`_p: *const c_void`); they are declared once here
//! (`fn_t`, `mgr_t`).  `lib/chk_c19.py` compares every prototype below with
//! the definition in the ffi sources before anything is run (a mismatch is a
//! tool error, never a verdict).
//!
//! PROTOTYPE SYNTAX (parsed by chk_c19.py): one declaration per line,
//! `#[link_name = concat!("oxidd_", $k, "_<name>")] pub fn <name>(<params>) -> <ret>;`
#![allow(non_camel_case_types, dead_code)]

use std::ffi::{c_char, c_void};

pub use oxidd_core::function::BooleanOperator;
pub type VarNo = u32;
pub type LevelNo = u32;

#[repr(C)]
#[derive(Copy, Clone, PartialEq, Eq, Debug, PartialOrd, Ord, Hash)]
pub struct mgr_t {
    pub p: *const c_void,
}
#[repr(C)]
#[derive(Copy, Clone, PartialEq, Eq, Debug, PartialOrd, Ord, Hash)]
pub struct fn_t {
    pub p: *const c_void,
    pub i: usize,
}
impl fn_t {
    pub const INVALID: fn_t = fn_t { p: std::ptr::null(), i: 0 };
    pub fn is_invalid(&self) -> bool {
        self.p.is_null()
    }
}
#[repr(C)]
#[derive(Copy, Clone)]
pub struct fn_pair_t {
    pub first: fn_t,
    pub second: fn_t,
}
#[repr(C)]
#[derive(Copy, Clone, Debug)]
pub struct var_no_range_t {
    pub start: VarNo,
    pub end: VarNo,
}
#[repr(C)]
#[derive(Copy, Clone)]
pub struct var_no_bool_pair_t {
    pub var: VarNo,
    pub val: bool,
}
#[repr(C)]
#[derive(Copy, Clone, Debug)]
pub struct duplicate_var_name_result_t {
    pub added_vars: var_no_range_t,
    pub present_var: VarNo,
}
/// no `Drop` on this side: freed through `oxidd_assignment_free`
#[repr(C)]
pub struct assignment_t {
    pub data: *mut i8,
    pub len: usize,
}
#[repr(C)]
#[derive(Copy, Clone)]
pub struct str_t {
    pub ptr: *const c_char,
    pub len: usize,
}
#[repr(C)]
pub struct string_t {
    pub data: *const c_char,
    pub len: usize,
    pub _cap: usize,
}
#[repr(C)]
pub struct error_t {
    pub msg: string_t,
}
#[repr(C)]
pub struct natural_t {
    pub ptr: *mut u64,
    pub len: u64,
    pub shl: u64,
}
#[repr(u8)]
#[derive(Copy, Clone)]
pub enum dddmp_version {
    _2_0,
    _3_0,
}
#[repr(C)]
#[derive(Copy, Clone)]
pub struct dddmp_export_settings_t {
    pub version: dddmp_version,
    pub ascii: bool,
    pub strict: bool,
    pub diagram_name: str_t,
}
/// opaque
pub enum dddmp_file_t {}
/// opaque
pub enum substitution_t {}
#[repr(C)]
#[derive(Copy, Clone)]
pub struct opt<T: Copy> {
    pub is_some: bool,
    pub value: std::mem::MaybeUninit<T>,
}
#[repr(C)]
pub struct size_hint_t {
    pub lower: usize,
    pub upper: usize,
}
#[repr(C)]
pub struct iter<T: Copy> {
    pub next: extern "C" fn(*mut c_void) -> opt<T>,
    pub size_hint: Option<extern "C" fn(*mut c_void) -> size_hint_t>,
    pub context: *mut c_void,
}
#[repr(C)]
#[derive(Copy, Clone)]
pub struct named<T> {
    pub func: T,
    pub name: str_t,
}

// ---- kind-independent entry points (util/mod.rs, util/interop.rs, util/num.rs, util/dddmp.rs)
unsafe extern "C" {
    pub fn oxidd_assignment_free(assignment: assignment_t);
    pub fn oxidd_error_free(error: error_t);
    pub fn oxidd_string_free(string: string_t);
    pub fn oxidd_natural_free(num: natural_t);
    pub fn oxidd_natural_to_string(num: &natural_t) -> string_t;
    pub fn oxidd_dddmp_open(path: *const c_char, path_len: usize, error: *mut error_t) -> *mut dddmp_file_t;
    pub fn oxidd_dddmp_close(file: *mut dddmp_file_t);
    pub fn oxidd_dddmp_num_roots(file: &dddmp_file_t) -> usize;
    pub fn oxidd_dddmp_num_vars(file: &dddmp_file_t) -> VarNo;
    pub fn oxidd_dddmp_num_support_vars(file: &dddmp_file_t) -> VarNo;
}

/// entry points that exist for all three kinds
macro_rules! decl_common {
    ($k:literal) => {
        unsafe extern "C" {
            #[link_name = concat!("oxidd_", $k, "_manager_new")] pub fn manager_new(inner_node_capacity: usize, apply_cache_capacity: usize, threads: u32) -> mgr_t;
            #[link_name = concat!("oxidd_", $k, "_manager_ref")] pub fn manager_ref(manager: mgr_t) -> mgr_t;
            #[link_name = concat!("oxidd_", $k, "_manager_unref")] pub fn manager_unref(manager: mgr_t);
            #[link_name = concat!("oxidd_", $k, "_ref")] pub fn ref_(f: fn_t) -> fn_t;
            #[link_name = concat!("oxidd_", $k, "_unref")] pub fn unref(f: fn_t);
            #[link_name = concat!("oxidd_", $k, "_manager_run_in_worker_pool")] pub fn manager_run_in_worker_pool(manager: mgr_t, callback: extern "C" fn(*mut c_void) -> *mut c_void, data: *mut c_void) -> *mut c_void;
            #[link_name = concat!("oxidd_", $k, "_containing_manager")] pub fn containing_manager(f: fn_t) -> mgr_t;
            #[link_name = concat!("oxidd_", $k, "_manager_num_inner_nodes")] pub fn manager_num_inner_nodes(manager: mgr_t) -> usize;
            #[link_name = concat!("oxidd_", $k, "_manager_approx_num_inner_nodes")] pub fn manager_approx_num_inner_nodes(manager: mgr_t) -> usize;
            #[link_name = concat!("oxidd_", $k, "_manager_num_vars")] pub fn manager_num_vars(manager: mgr_t) -> VarNo;
            #[link_name = concat!("oxidd_", $k, "_manager_num_named_vars")] pub fn manager_num_named_vars(manager: mgr_t) -> VarNo;
            #[link_name = concat!("oxidd_", $k, "_manager_add_vars")] pub fn manager_add_vars(manager: mgr_t, additional: VarNo) -> var_no_range_t;
            #[link_name = concat!("oxidd_", $k, "_manager_add_named_vars")] pub fn manager_add_named_vars(manager: mgr_t, names: *const *const c_char, count: VarNo) -> duplicate_var_name_result_t;
            #[link_name = concat!("oxidd_", $k, "_manager_add_named_vars_iter")] pub fn manager_add_named_vars_iter(manager: mgr_t, iter: iter<str_t>) -> duplicate_var_name_result_t;
            #[link_name = concat!("oxidd_", $k, "_manager_var_name")] pub fn manager_var_name(manager: mgr_t, var: VarNo, len: Option<&mut std::mem::MaybeUninit<usize>>) -> *const c_char;
            #[link_name = concat!("oxidd_", $k, "_manager_with_var_name")] pub fn manager_with_var_name(manager: mgr_t, var: VarNo, callback: extern "C" fn(*mut c_void, *const c_char, usize) -> *mut c_void, data: *mut c_void) -> *mut c_void;
            #[link_name = concat!("oxidd_", $k, "_manager_set_var_name")] pub fn manager_set_var_name(manager: mgr_t, var: VarNo, name: *const c_char, len: usize) -> VarNo;
            #[link_name = concat!("oxidd_", $k, "_manager_name_to_var")] pub fn manager_name_to_var(manager: mgr_t, name: *const c_char, len: usize) -> VarNo;
            #[link_name = concat!("oxidd_", $k, "_manager_var_to_level")] pub fn manager_var_to_level(manager: mgr_t, var: VarNo) -> LevelNo;
            #[link_name = concat!("oxidd_", $k, "_manager_level_to_var")] pub fn manager_level_to_var(manager: mgr_t, level: LevelNo) -> VarNo;
            #[link_name = concat!("oxidd_", $k, "_manager_gc")] pub fn manager_gc(manager: mgr_t) -> usize;
            #[link_name = concat!("oxidd_", $k, "_manager_gc_count")] pub fn manager_gc_count(manager: mgr_t) -> u64;
            #[link_name = concat!("oxidd_", $k, "_manager_set_var_order")] pub fn manager_set_var_order(manager: mgr_t, order: *const VarNo, len: usize);
            #[link_name = concat!("oxidd_", $k, "_manager_import_dddmp")] pub fn manager_import_dddmp(manager: mgr_t, file: &mut dddmp_file_t, support_vars: *const VarNo, roots: *mut fn_t, error: *mut error_t) -> bool;
            #[link_name = concat!("oxidd_", $k, "_manager_export_dddmp")] pub fn manager_export_dddmp(manager: mgr_t, path: *const c_char, path_len: usize, functions: *const fn_t, num_functions: usize, function_names: *const *const c_char, settings: Option<&dddmp_export_settings_t>, error: *mut error_t) -> bool;
            #[link_name = concat!("oxidd_", $k, "_manager_export_dddmp_iter")] pub fn manager_export_dddmp_iter(manager: mgr_t, path: *const c_char, path_len: usize, functions: iter<fn_t>, settings: Option<&dddmp_export_settings_t>, error: *mut error_t) -> bool;
            #[link_name = concat!("oxidd_", $k, "_manager_export_dddmp_with_names_iter")] pub fn manager_export_dddmp_with_names_iter(manager: mgr_t, path: *const c_char, path_len: usize, functions: iter<named<fn_t>>, settings: Option<&dddmp_export_settings_t>, error: *mut error_t) -> bool;
            #[link_name = concat!("oxidd_", $k, "_manager_dump_all_dot_path")] pub fn manager_dump_all_dot_path(manager: mgr_t, path: *const c_char, path_len: usize, functions: *const fn_t, function_names: *const *const c_char, num_function_names: usize, error: *mut error_t) -> bool;
            #[link_name = concat!("oxidd_", $k, "_manager_dump_all_dot_path_iter")] pub fn manager_dump_all_dot_path_iter(manager: mgr_t, path: *const c_char, path_len: usize, functions: iter<named<fn_t>>, error: *mut error_t) -> bool;
            #[link_name = concat!("oxidd_", $k, "_var")] pub fn var(manager: mgr_t, var: VarNo) -> fn_t;
            #[link_name = concat!("oxidd_", $k, "_not_var")] pub fn not_var(manager: mgr_t, var: VarNo) -> fn_t;
            #[link_name = concat!("oxidd_", $k, "_false")] pub fn false_(manager: mgr_t) -> fn_t;
            #[link_name = concat!("oxidd_", $k, "_true")] pub fn true_(manager: mgr_t) -> fn_t;
            #[link_name = concat!("oxidd_", $k, "_cofactors")] pub fn cofactors(f: fn_t) -> fn_pair_t;
            #[link_name = concat!("oxidd_", $k, "_cofactor_true")] pub fn cofactor_true(f: fn_t) -> fn_t;
            #[link_name = concat!("oxidd_", $k, "_cofactor_false")] pub fn cofactor_false(f: fn_t) -> fn_t;
            #[link_name = concat!("oxidd_", $k, "_node_level")] pub fn node_level(f: fn_t) -> LevelNo;
            #[link_name = concat!("oxidd_", $k, "_node_var")] pub fn node_var(f: fn_t) -> VarNo;
            #[link_name = concat!("oxidd_", $k, "_not")] pub fn not(f: fn_t) -> fn_t;
            #[link_name = concat!("oxidd_", $k, "_and")] pub fn and(lhs: fn_t, rhs: fn_t) -> fn_t;
            #[link_name = concat!("oxidd_", $k, "_or")] pub fn or(lhs: fn_t, rhs: fn_t) -> fn_t;
            #[link_name = concat!("oxidd_", $k, "_nand")] pub fn nand(lhs: fn_t, rhs: fn_t) -> fn_t;
            #[link_name = concat!("oxidd_", $k, "_nor")] pub fn nor(lhs: fn_t, rhs: fn_t) -> fn_t;
            #[link_name = concat!("oxidd_", $k, "_xor")] pub fn xor(lhs: fn_t, rhs: fn_t) -> fn_t;
            #[link_name = concat!("oxidd_", $k, "_equiv")] pub fn equiv(lhs: fn_t, rhs: fn_t) -> fn_t;
            #[link_name = concat!("oxidd_", $k, "_imp")] pub fn imp(lhs: fn_t, rhs: fn_t) -> fn_t;
            #[link_name = concat!("oxidd_", $k, "_imp_strict")] pub fn imp_strict(lhs: fn_t, rhs: fn_t) -> fn_t;
            #[link_name = concat!("oxidd_", $k, "_ite")] pub fn ite(cond: fn_t, then_case: fn_t, else_case: fn_t) -> fn_t;
            #[link_name = concat!("oxidd_", $k, "_node_count")] pub fn node_count(f: fn_t) -> usize;
            #[link_name = concat!("oxidd_", $k, "_satisfiable")] pub fn satisfiable(f: fn_t) -> bool;
            #[link_name = concat!("oxidd_", $k, "_valid")] pub fn valid(f: fn_t) -> bool;
            #[link_name = concat!("oxidd_", $k, "_sat_count")] pub fn sat_count(f: fn_t, vars: LevelNo) -> natural_t;
            #[link_name = concat!("oxidd_", $k, "_sat_count_double")] pub fn sat_count_double(f: fn_t, vars: LevelNo) -> f64;
            #[link_name = concat!("oxidd_", $k, "_pick_cube")] pub fn pick_cube(f: fn_t) -> assignment_t;
            #[link_name = concat!("oxidd_", $k, "_pick_cube_dd")] pub fn pick_cube_dd(f: fn_t) -> fn_t;
            #[link_name = concat!("oxidd_", $k, "_pick_cube_dd_set")] pub fn pick_cube_dd_set(f: fn_t, literal_set: fn_t) -> fn_t;
            #[link_name = concat!("oxidd_", $k, "_eval")] pub fn eval(f: fn_t, args: *const var_no_bool_pair_t, num_args: usize) -> bool;
        }
    };
}

/// quantification, restriction, substitution: BDD and BCDD only
macro_rules! decl_quant {
    ($k:literal) => {
        unsafe extern "C" {
            #[link_name = concat!("oxidd_", $k, "_substitute")] pub fn substitute(f: fn_t, substitution: *const substitution_t) -> fn_t;
            #[link_name = concat!("oxidd_", $k, "_substitution_new")] pub fn substitution_new(capacity: usize) -> *mut substitution_t;
            #[link_name = concat!("oxidd_", $k, "_substitution_add_pair")] pub fn substitution_add_pair(substitution: *mut substitution_t, var: VarNo, replacement: fn_t);
            #[link_name = concat!("oxidd_", $k, "_substitution_free")] pub fn substitution_free(substitution: *mut substitution_t);
            #[link_name = concat!("oxidd_", $k, "_restrict")] pub fn restrict(f: fn_t, vars: fn_t) -> fn_t;
            #[link_name = concat!("oxidd_", $k, "_forall")] pub fn forall(f: fn_t, var: fn_t) -> fn_t;
            #[link_name = concat!("oxidd_", $k, "_exists")] pub fn exists(f: fn_t, var: fn_t) -> fn_t;
            #[link_name = concat!("oxidd_", $k, "_unique")] pub fn unique(f: fn_t, var: fn_t) -> fn_t;
            #[link_name = concat!("oxidd_", $k, "_apply_forall")] pub fn apply_forall(op: BooleanOperator, lhs: fn_t, rhs: fn_t, vars: fn_t) -> fn_t;
            #[link_name = concat!("oxidd_", $k, "_apply_exists")] pub fn apply_exists(op: BooleanOperator, lhs: fn_t, rhs: fn_t, vars: fn_t) -> fn_t;
            #[link_name = concat!("oxidd_", $k, "_apply_unique")] pub fn apply_unique(op: BooleanOperator, lhs: fn_t, rhs: fn_t, vars: fn_t) -> fn_t;
        }
    };
}

/// family operations: ZBDD only
macro_rules! decl_zbdd {
    ($k:literal) => {
        unsafe extern "C" {
            #[link_name = concat!("oxidd_", $k, "_singleton")] pub fn singleton(manager: mgr_t, var: VarNo) -> fn_t;
            #[link_name = concat!("oxidd_", $k, "_make_node")] pub fn make_node(var: fn_t, hi: fn_t, lo: fn_t) -> fn_t;
            #[link_name = concat!("oxidd_", $k, "_empty")] pub fn empty(manager: mgr_t) -> fn_t;
            #[link_name = concat!("oxidd_", $k, "_base")] pub fn base(manager: mgr_t) -> fn_t;
            #[link_name = concat!("oxidd_", $k, "_subset0")] pub fn subset0(set: fn_t, var: VarNo) -> fn_t;
            #[link_name = concat!("oxidd_", $k, "_subset1")] pub fn subset1(set: fn_t, var: VarNo) -> fn_t;
            #[link_name = concat!("oxidd_", $k, "_change")] pub fn change(set: fn_t, var: VarNo) -> fn_t;
            #[link_name = concat!("oxidd_", $k, "_union")] pub fn union(lhs: fn_t, rhs: fn_t) -> fn_t;
            #[link_name = concat!("oxidd_", $k, "_intsec")] pub fn intsec(lhs: fn_t, rhs: fn_t) -> fn_t;
            #[link_name = concat!("oxidd_", $k, "_diff")] pub fn diff(lhs: fn_t, rhs: fn_t) -> fn_t;
        }
    };
}

pub type Fn1 = unsafe extern "C" fn(fn_t) -> fn_t;
pub type Fn2 = unsafe extern "C" fn(fn_t, fn_t) -> fn_t;
pub type Fn3 = unsafe extern "C" fn(fn_t, fn_t, fn_t) -> fn_t;
pub type FnV = unsafe extern "C" fn(fn_t, VarNo) -> fn_t;
pub type FnM = unsafe extern "C" fn(mgr_t) -> fn_t;
pub type FnMV = unsafe extern "C" fn(mgr_t, VarNo) -> fn_t;
pub type FnQ = unsafe extern "C" fn(BooleanOperator, fn_t, fn_t, fn_t) -> fn_t;

/// BDD/BCDD-only entry points
pub struct QuantApi {
    pub substitute: unsafe extern "C" fn(fn_t, *const substitution_t) -> fn_t,
    pub substitution_new: unsafe extern "C" fn(usize) -> *mut substitution_t,
    pub substitution_add_pair: unsafe extern "C" fn(*mut substitution_t, VarNo, fn_t),
    pub substitution_free: unsafe extern "C" fn(*mut substitution_t),
    pub restrict: Fn2,
    pub forall: Fn2,
    pub exists: Fn2,
    pub unique: Fn2,
    pub apply_forall: FnQ,
    pub apply_exists: FnQ,
    pub apply_unique: FnQ,
}
/// ZBDD-only entry points
pub struct ZbddApi {
    pub singleton: FnMV,
    pub make_node: Fn3,
    pub empty: FnM,
    pub base: FnM,
    pub subset0: FnV,
    pub subset1: FnV,
    pub change: FnV,
    pub union: Fn2,
    pub intsec: Fn2,
    pub diff: Fn2,
}

/// the C interface of one diagram kind as a table of function pointers
pub struct Api {
    pub kind: &'static str,
    pub manager_new: unsafe extern "C" fn(usize, usize, u32) -> mgr_t,
    pub manager_ref: unsafe extern "C" fn(mgr_t) -> mgr_t,
    pub manager_unref: unsafe extern "C" fn(mgr_t),
    pub ref_: Fn1,
    pub unref: unsafe extern "C" fn(fn_t),
    pub manager_run_in_worker_pool:
        unsafe extern "C" fn(mgr_t, extern "C" fn(*mut c_void) -> *mut c_void, *mut c_void) -> *mut c_void,
    pub containing_manager: unsafe extern "C" fn(fn_t) -> mgr_t,
    pub manager_num_inner_nodes: unsafe extern "C" fn(mgr_t) -> usize,
    pub manager_approx_num_inner_nodes: unsafe extern "C" fn(mgr_t) -> usize,
    pub manager_num_vars: unsafe extern "C" fn(mgr_t) -> VarNo,
    pub manager_num_named_vars: unsafe extern "C" fn(mgr_t) -> VarNo,
    pub manager_add_vars: unsafe extern "C" fn(mgr_t, VarNo) -> var_no_range_t,
    pub manager_add_named_vars:
        unsafe extern "C" fn(mgr_t, *const *const c_char, VarNo) -> duplicate_var_name_result_t,
    pub manager_add_named_vars_iter: unsafe extern "C" fn(mgr_t, iter<str_t>) -> duplicate_var_name_result_t,
    pub manager_var_name:
        unsafe extern "C" fn(mgr_t, VarNo, Option<&mut std::mem::MaybeUninit<usize>>) -> *const c_char,
    pub manager_with_var_name: unsafe extern "C" fn(
        mgr_t,
        VarNo,
        extern "C" fn(*mut c_void, *const c_char, usize) -> *mut c_void,
        *mut c_void,
    ) -> *mut c_void,
    pub manager_set_var_name: unsafe extern "C" fn(mgr_t, VarNo, *const c_char, usize) -> VarNo,
    pub manager_name_to_var: unsafe extern "C" fn(mgr_t, *const c_char, usize) -> VarNo,
    pub manager_var_to_level: unsafe extern "C" fn(mgr_t, VarNo) -> LevelNo,
    pub manager_level_to_var: unsafe extern "C" fn(mgr_t, LevelNo) -> VarNo,
    pub manager_gc: unsafe extern "C" fn(mgr_t) -> usize,
    pub manager_gc_count: unsafe extern "C" fn(mgr_t) -> u64,
    pub manager_set_var_order: unsafe extern "C" fn(mgr_t, *const VarNo, usize),
    pub manager_import_dddmp:
        unsafe extern "C" fn(mgr_t, &mut dddmp_file_t, *const VarNo, *mut fn_t, *mut error_t) -> bool,
    pub manager_export_dddmp: unsafe extern "C" fn(
        mgr_t,
        *const c_char,
        usize,
        *const fn_t,
        usize,
        *const *const c_char,
        Option<&dddmp_export_settings_t>,
        *mut error_t,
    ) -> bool,
    pub manager_export_dddmp_iter: unsafe extern "C" fn(
        mgr_t,
        *const c_char,
        usize,
        iter<fn_t>,
        Option<&dddmp_export_settings_t>,
        *mut error_t,
    ) -> bool,
    pub manager_export_dddmp_with_names_iter: unsafe extern "C" fn(
        mgr_t,
        *const c_char,
        usize,
        iter<named<fn_t>>,
        Option<&dddmp_export_settings_t>,
        *mut error_t,
    ) -> bool,
    pub manager_dump_all_dot_path: unsafe extern "C" fn(
        mgr_t,
        *const c_char,
        usize,
        *const fn_t,
        *const *const c_char,
        usize,
        *mut error_t,
    ) -> bool,
    pub manager_dump_all_dot_path_iter:
        unsafe extern "C" fn(mgr_t, *const c_char, usize, iter<named<fn_t>>, *mut error_t) -> bool,
    pub var: FnMV,
    pub not_var: FnMV,
    pub false_: FnM,
    pub true_: FnM,
    pub cofactors: unsafe extern "C" fn(fn_t) -> fn_pair_t,
    pub cofactor_true: Fn1,
    pub cofactor_false: Fn1,
    pub node_level: unsafe extern "C" fn(fn_t) -> LevelNo,
    pub node_var: unsafe extern "C" fn(fn_t) -> VarNo,
    pub not: Fn1,
    pub and: Fn2,
    pub or: Fn2,
    pub nand: Fn2,
    pub nor: Fn2,
    pub xor: Fn2,
    pub equiv: Fn2,
    pub imp: Fn2,
    pub imp_strict: Fn2,
    pub ite: Fn3,
    pub node_count: unsafe extern "C" fn(fn_t) -> usize,
    pub satisfiable: unsafe extern "C" fn(fn_t) -> bool,
    pub valid: unsafe extern "C" fn(fn_t) -> bool,
    pub sat_count: unsafe extern "C" fn(fn_t, LevelNo) -> natural_t,
    pub sat_count_double: unsafe extern "C" fn(fn_t, LevelNo) -> f64,
    pub pick_cube: unsafe extern "C" fn(fn_t) -> assignment_t,
    pub pick_cube_dd: Fn1,
    pub pick_cube_dd_set: Fn2,
    pub eval: unsafe extern "C" fn(fn_t, *const var_no_bool_pair_t, usize) -> bool,
    pub quant: Option<QuantApi>,
    pub zbdd: Option<ZbddApi>,
}

impl Api {
    pub fn bin(&self, op: &str) -> Fn2 {
        match op {
            "and" => self.and,
            "or" => self.or,
            "xor" => self.xor,
            "equiv" => self.equiv,
            "nand" => self.nand,
            "nor" => self.nor,
            "imp" => self.imp,
            "imp_strict" => self.imp_strict,
            _ => panic!("harness: unknown operator {op}"),
        }
    }
    pub fn q(&self) -> &QuantApi {
        self.quant.as_ref().expect("harness: no quantification for this kind")
    }
    pub fn z(&self) -> &ZbddApi {
        self.zbdd.as_ref().expect("harness: no ZBDD operations for this kind")
    }
}

macro_rules! common_table {
    ($m:ident, $kind:literal, $quant:expr, $zbdd:expr) => {
        Api {
            kind: $kind,
            manager_new: $m::manager_new,
            manager_ref: $m::manager_ref,
            manager_unref: $m::manager_unref,
            ref_: $m::ref_,
            unref: $m::unref,
            manager_run_in_worker_pool: $m::manager_run_in_worker_pool,
            containing_manager: $m::containing_manager,
            manager_num_inner_nodes: $m::manager_num_inner_nodes,
            manager_approx_num_inner_nodes: $m::manager_approx_num_inner_nodes,
            manager_num_vars: $m::manager_num_vars,
            manager_num_named_vars: $m::manager_num_named_vars,
            manager_add_vars: $m::manager_add_vars,
            manager_add_named_vars: $m::manager_add_named_vars,
            manager_add_named_vars_iter: $m::manager_add_named_vars_iter,
            manager_var_name: $m::manager_var_name,
            manager_with_var_name: $m::manager_with_var_name,
            manager_set_var_name: $m::manager_set_var_name,
            manager_name_to_var: $m::manager_name_to_var,
            manager_var_to_level: $m::manager_var_to_level,
            manager_level_to_var: $m::manager_level_to_var,
            manager_gc: $m::manager_gc,
            manager_gc_count: $m::manager_gc_count,
            manager_set_var_order: $m::manager_set_var_order,
            manager_import_dddmp: $m::manager_import_dddmp,
            manager_export_dddmp: $m::manager_export_dddmp,
            manager_export_dddmp_iter: $m::manager_export_dddmp_iter,
            manager_export_dddmp_with_names_iter: $m::manager_export_dddmp_with_names_iter,
            manager_dump_all_dot_path: $m::manager_dump_all_dot_path,
            manager_dump_all_dot_path_iter: $m::manager_dump_all_dot_path_iter,
            var: $m::var,
            not_var: $m::not_var,
            false_: $m::false_,
            true_: $m::true_,
            cofactors: $m::cofactors,
            cofactor_true: $m::cofactor_true,
            cofactor_false: $m::cofactor_false,
            node_level: $m::node_level,
            node_var: $m::node_var,
            not: $m::not,
            and: $m::and,
            or: $m::or,
            nand: $m::nand,
            nor: $m::nor,
            xor: $m::xor,
            equiv: $m::equiv,
            imp: $m::imp,
            imp_strict: $m::imp_strict,
            ite: $m::ite,
            node_count: $m::node_count,
            satisfiable: $m::satisfiable,
            valid: $m::valid,
            sat_count: $m::sat_count,
            sat_count_double: $m::sat_count_double,
            pick_cube: $m::pick_cube,
            pick_cube_dd: $m::pick_cube_dd,
            pick_cube_dd_set: $m::pick_cube_dd_set,
            eval: $m::eval,
            quant: $quant,
            zbdd: $zbdd,
        }
    };
}
macro_rules! quant_table {
    ($m:ident) => {
        Some(QuantApi {
            substitute: $m::substitute,
            substitution_new: $m::substitution_new,
            substitution_add_pair: $m::substitution_add_pair,
            substitution_free: $m::substitution_free,
            restrict: $m::restrict,
            forall: $m::forall,
            exists: $m::exists,
            unique: $m::unique,
            apply_forall: $m::apply_forall,
            apply_exists: $m::apply_exists,
            apply_unique: $m::apply_unique,
        })
    };
}

pub mod c_bdd {
    use super::*;
    decl_common!("bdd");
    decl_quant!("bdd");
}
pub mod c_bcdd {
    use super::*;
    decl_common!("bcdd");
    decl_quant!("bcdd");
}
pub mod c_zbdd {
    use super::*;
    decl_common!("zbdd");
    decl_zbdd!("zbdd");
}

pub fn api_bdd() -> Api {
    common_table!(c_bdd, "bdd", quant_table!(c_bdd), None)
}
pub fn api_bcdd() -> Api {
    common_table!(c_bcdd, "bcdd", quant_table!(c_bcdd), None)
}
pub fn api_zbdd() -> Api {
    common_table!(
        c_zbdd,
        "zbdd",
        None,
        Some(ZbddApi {
            singleton: c_zbdd::singleton,
            make_node: c_zbdd::make_node,
            empty: c_zbdd::empty,
            base: c_zbdd::base,
            subset0: c_zbdd::subset0,
            subset1: c_zbdd::subset1,
            change: c_zbdd::change,
            union: c_zbdd::union,
            intsec: c_zbdd::intsec,
            diff: c_zbdd::diff,
        })
    )
}
