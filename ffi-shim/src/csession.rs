//! A `CSession` owns one manager created through the C interface, the table of
//! owned C function handles (one slot per owned reference), the manager
//! references it owns, and a *mirror*: a second manager driven call-by-call
//! through the Rust API.  Every call is made on the real library, then one
//! event is written in the vocabulary of `spec/TraceManager.tla` (see
//! `harness/src/session.rs`) with the projection of the returned C handle,
//! obtained by viewing the raw handle as a *borrowed* Rust function
//! (`from_raw` inside `ManuallyDrop`, exactly as the ffi code itself does).
//! The driver never decides what a value should be.

use std::collections::BTreeMap;
use std::ffi::{c_char, c_void, CString};
use std::mem::ManuallyDrop;
use std::sync::atomic::{AtomicUsize, Ordering};

use oxidd::util::{AllocResult, OutOfMemory};
use oxidd::{BooleanFunction, Function, InnerNode, Manager, ManagerRef, Node, Subst};

use crate::capi::*;
use crate::ext::{bool_op, BoolExt};
use crate::kinds::{g_json, snap_json, Kind};
use crate::util::{catch, json, TraceOut, Value};

pub type Slot = usize;
/// operand of a C call: an owned slot, or `None` = the invalid handle
pub type Arg = Option<Slot>;

/// what the generic code needs per kind beyond the projection
pub trait CKind: Kind + BoolExt {
    fn api() -> Api;
    /// borrowed view of a raw C function handle (no reference count changes)
    fn view(h: fn_t) -> ManuallyDrop<Self>;
    /// borrowed view of a raw C manager handle
    fn mview(m: mgr_t) -> ManuallyDrop<Self::ManagerRef>;
    fn r_export(m: &Self::ManagerRef, path: &str, fs: &[&Self], names: Option<&[String]>) -> Result<(), String>;
    fn r_import(m: &Self::ManagerRef, path: &str) -> Result<Vec<Self>, String>;
    fn r_dot(m: &Self::ManagerRef, path: &str, fs: &[(&Self, String)]) -> Result<(), String>;
    /// (level, variable) of the root node, -1 for terminals
    fn r_level_var(f: &Self) -> (i64, i64);
}

macro_rules! impl_ckind {
    ($f:ty, $mr:ty, $api:ident) => {
        impl CKind for $f {
            fn api() -> Api {
                $api()
            }
            fn view(h: fn_t) -> ManuallyDrop<Self> {
                assert!(!h.p.is_null(), "harness: view of an invalid handle");
                ManuallyDrop::new(unsafe { <$f as oxidd::RawFunction>::from_raw(h.p, h.i) })
            }
            fn mview(m: mgr_t) -> ManuallyDrop<Self::ManagerRef> {
                assert!(!m.p.is_null(), "harness: view of an invalid manager handle");
                ManuallyDrop::new(unsafe { <$mr as oxidd::RawManagerRef>::from_raw(m.p) })
            }
            fn r_export(m: &Self::ManagerRef, path: &str, fs: &[&Self], names: Option<&[String]>) -> Result<(), String> {
                let file = std::fs::File::create(path).map_err(|e| e.to_string())?;
                let set = oxidd_dump::dddmp::ExportSettings::default().ascii().diagram_name("c19");
                m.with_manager_shared(|mm| match names {
                    None => set.export(file, mm, fs.iter().copied()),
                    Some(ns) => set.export_with_names(file, mm, fs.iter().copied().zip(ns.iter())),
                })
                .map_err(|e| e.to_string())
            }
            fn r_import(m: &Self::ManagerRef, path: &str) -> Result<Vec<Self>, String> {
                let file = std::fs::File::open(path).map_err(|e| e.to_string())?;
                let mut reader = std::io::BufReader::new(file);
                let header = oxidd_dump::dddmp::DumpHeader::load(&mut reader).map_err(|e| e.to_string())?;
                m.with_manager_shared(|mm| {
                    oxidd_dump::dddmp::import::<$f>(
                        &mut reader,
                        &header,
                        mm,
                        header.support_var_order().iter().copied(),
                        <$f as BooleanFunction>::not_edge_owned,
                    )
                })
                .map_err(|e| e.to_string())
            }
            fn r_level_var(f: &Self) -> (i64, i64) {
                use oxidd::HasLevel;
                f.with_manager_shared(|m, e| match m.get_node(e) {
                    Node::Inner(nd) => (nd.level() as i64, m.level_to_var(nd.level()) as i64),
                    Node::Terminal(_) => (-1, -1),
                })
            }
            fn r_dot(m: &Self::ManagerRef, path: &str, fs: &[(&Self, String)]) -> Result<(), String> {
                let file = std::fs::File::create(path).map_err(|e| e.to_string())?;
                m.with_manager_shared(|mm| {
                    oxidd_dump::dot::dump_all(std::io::BufWriter::new(file), mm, fs.iter().map(|(f, n)| (*f, n.as_str())))
                })
                .map_err(|e| e.to_string())
            }
        }
    };
}
impl_ckind!(oxidd::bdd::BDDFunction, oxidd::bdd::BDDManagerRef, api_bdd);
impl_ckind!(oxidd::bcdd::BCDDFunction, oxidd::bcdd::BCDDManagerRef, api_bcdd);
impl_ckind!(oxidd::zbdd::ZBDDFunction, oxidd::zbdd::ZBDDManagerRef, api_zbdd);

/// truth table by `eval` on every assignment (copied from harness/src/session.rs)
pub fn tt_of<F: BooleanFunction>(f: &F, n: u32) -> Vec<i64> {
    let r = catch(|| {
        let mut tt = Vec::new();
        for a in 0..(1u32 << n) {
            if f.eval((0..n).map(|v| (v, (a >> v) & 1 == 1))) {
                tt.push(a as i64);
            }
        }
        tt
    });
    r.unwrap_or_else(|_| vec![-1])
}

/// number of OS threads of this process (the manager owns a collector thread
/// and a worker pool: they exist exactly as long as the manager does)
pub fn os_threads() -> usize {
    std::fs::read_dir("/proc/self/task").map(|d| d.count()).unwrap_or(0)
}
static IDLE_THREADS: AtomicUsize = AtomicUsize::new(0);
fn task_ids() -> std::collections::BTreeSet<u64> {
    std::fs::read_dir("/proc/self/task")
        .map(|d| d.filter_map(|e| e.ok()?.file_name().to_str()?.parse().ok()).collect())
        .unwrap_or_default()
}
/// Wait (bounded) until the threads `tids` sleep.  A manager's collector
/// thread that has not yet reached its condition variable misses the quit
/// notification (oxidd-manager-index `new_manager`: `wait()` without a check
/// of the signal state; `oxc capi-race` shows it): such a manager never
/// terminates although all references were released.  This is not a matter
/// of the C interface, so the driver lets the threads settle first.
pub fn settle(tids: &std::collections::BTreeSet<u64>, ms: u64) {
    let t0 = std::time::Instant::now();
    let sleeping = |tid: u64| -> bool {
        let Ok(st) = std::fs::read_to_string(format!("/proc/self/task/{tid}/stat")) else { return true };
        // pid (comm) state ...
        st.rsplit(')').next().and_then(|r| r.trim_start().chars().next()) == Some('S')
    };
    let mut streak = 0;
    while (t0.elapsed().as_millis() as u64) < ms {
        if tids.iter().all(|&t| sleeping(t)) {
            streak += 1;
            if streak >= 3 {
                return;
            }
        } else {
            streak = 0;
        }
        std::thread::sleep(std::time::Duration::from_micros(200));
    }
}
fn wait_threads(target: usize, ms: u64) -> usize {
    let t0 = std::time::Instant::now();
    loop {
        let now = os_threads();
        if now <= target || t0.elapsed().as_millis() as u64 >= ms {
            return now;
        }
        std::thread::sleep(std::time::Duration::from_micros(300));
    }
}

fn u32m(x: u32) -> i64 {
    // (oxidd_var_no_t) -1 / (oxidd_level_no_t) -1 do not fit TLC's integers
    if x == u32::MAX {
        -1
    } else {
        x as i64
    }
}
fn arg_json(a: &[Arg]) -> Value {
    json!(a.iter().map(|x| x.map(|s| s as i64).unwrap_or(-1)).collect::<Vec<_>>())
}

/// a substitution object created through the C interface and its mirror
pub struct CSubst<F> {
    pub ptr: *mut substitution_t,
    /// (variable, slot that accounts for the reference held by the object)
    pub pairs: Vec<(u32, Slot)>,
    pub mirror: Option<Subst<F>>,
    pub sid: usize,
}

pub struct CSession<'t, F: CKind> {
    pub api: Api,
    pub out: &'t mut TraceOut,
    /// owned manager references (all have the same bits)
    pub mgrs: Vec<mgr_t>,
    /// the manager's handle bits, used for observation only
    pub mptr: mgr_t,
    pub slots: Vec<Option<fn_t>>,
    pub rslots: Vec<Option<F>>,
    /// references held inside substitution objects
    pub ext: BTreeMap<Slot, fn_t>,
    pub rm: Option<F::ManagerRef>,
    pub n: u32,
    pub cap: usize,
    pub dead: bool,
    pub thr_base: usize,
    /// an invalid handle as produced by the interface
    pub inv: fn_t,
    pub calls: u64,
    pub auto_snap: bool,
    pub tmp: String,
    nsubst: usize,
}

impl<'t, F: CKind> CSession<'t, F> {
    pub fn new(out: &'t mut TraceOut, cap: usize, cache: usize, threads: u32, tag: &str, tmp: &str) -> Self {
        out.begin_history();
        let api = F::api();
        // no manager of an earlier history may still be shutting down
        let idle = IDLE_THREADS.load(Ordering::Relaxed);
        if idle == 0 {
            IDLE_THREADS.store(os_threads(), Ordering::Relaxed);
        } else {
            let now = wait_threads(idle, 3000);
            IDLE_THREADS.store(now, Ordering::Relaxed);
        }
        let before_rm = task_ids();
        let rm = F::new_manager(cap, cache, threads);
        settle(&task_ids().difference(&before_rm).copied().collect(), 2000);
        let base = os_threads();
        let before = task_ids();
        let m = unsafe { (api.manager_new)(cap, cache, threads) };
        let now = os_threads();
        let new_tids: std::collections::BTreeSet<u64> = task_ids().difference(&before).copied().collect();
        settle(&new_tids, 2000);
        let mut ev = json!({"ev":"reset","kind":F::KIND,"cap":cap,"cache":cache,"thr":threads,
            "backend": if cfg!(feature="ptr") {"ptr"} else {"idx"}, "capi": true,
            "thr_base": base, "thr_now": now, "minvalid": m.p.is_null()});
        if !tag.is_empty() {
            ev["tag"] = json!(tag);
        }
        out.emit(ev);
        std::fs::create_dir_all(tmp).unwrap();
        CSession {
            api,
            out,
            mgrs: vec![m],
            mptr: m,
            slots: Vec::new(),
            rslots: Vec::new(),
            ext: BTreeMap::new(),
            rm: Some(rm),
            n: 0,
            cap,
            dead: false,
            thr_base: base,
            inv: fn_t::INVALID,
            calls: 0,
            auto_snap: true,
            tmp: tmp.to_string(),
            nsubst: 0,
        }
    }

    // ---- bookkeeping ------------------------------------------------------
    pub fn begin(&mut self, what: &str) {
        self.calls += 1;
        self.out.emit(json!({"ev":"begin","what":what}));
    }
    /// a manager handle for calls that take one
    pub fn mh(&self) -> mgr_t {
        *self.mgrs.last().expect("harness: no owned manager reference")
    }
    pub fn rm(&self) -> &F::ManagerRef {
        self.rm.as_ref().unwrap()
    }
    pub fn h(&self, a: Arg) -> fn_t {
        match a {
            Some(s) => self.slots[s].expect("harness: live slot"),
            None => self.inv,
        }
    }
    pub fn live(&self) -> Vec<Slot> {
        (0..self.slots.len()).filter(|&s| self.slots[s].is_some()).collect()
    }
    fn put(&mut self, h: fn_t, r: Option<F>) -> Slot {
        self.slots.push(Some(h));
        self.rslots.push(r);
        self.slots.len() - 1
    }
    pub fn edge_of(f: &F) -> (i64, u32) {
        f.with_manager_shared(|m, e| F::edge_code(m, e))
    }
    /// mirror operands (None if one of them is missing)
    fn rargs(&self, args: &[Arg]) -> Option<Vec<&F>> {
        args.iter().map(|a| a.and_then(|s| self.rslots[s].as_ref())).collect()
    }
    fn after_call(&mut self) {
        if self.auto_snap && !self.dead {
            self.snap();
        }
    }

    // ---- operations returning one function handle --------------------------
    /// Perform the C call and the mirrored Rust call, log one `op` event
    pub fn op(
        &mut self,
        op: &str,
        args: &[Arg],
        extra: Value,
        ccall: impl FnOnce(&Api, mgr_t, &[fn_t]) -> fn_t,
        rcall: impl FnOnce(&F::ManagerRef, &[&F]) -> AllocResult<F>,
    ) -> Option<Slot> {
        self.begin(&format!("c:{op}"));
        let hs: Vec<fn_t> = args.iter().map(|&a| self.h(a)).collect();
        let mh = self.mptr;
        let ch = ccall(&self.api, mh, &hs);
        let mir = match self.rargs(args) {
            Some(ra) => {
                let rm = self.rm();
                catch(|| rcall(rm, &ra)).map_err(|p| format!("panic:{p}"))
            }
            None => Err("na".to_string()),
        };
        let s = self.log_op(op, args, extra, ch, mir);
        self.after_call();
        s
    }

    /// Log the result `ch` of a C call as an `op` event
    pub fn log_op(&mut self, op: &str, args: &[Arg], extra: Value, ch: fn_t, mir: Result<AllocResult<F>, String>) -> Option<Slot> {
        let mut ev = json!({"ev":"op","op":op,"a":arg_json(args)});
        if let Value::Object(o) = extra {
            for (k, v) in o {
                ev[k] = v;
            }
        }
        let n = self.n;
        let mut rf = None;
        match mir {
            Ok(Ok(f)) => {
                ev["mst"] = json!("ok");
                ev["mtt"] = json!(tt_of(&f, n));
                ev["mnc"] = json!(f.node_count());
                rf = Some(f);
            }
            Ok(Err(_)) => ev["mst"] = json!("oom"),
            Err(p) => ev["mst"] = json!(p),
        }
        if ch.is_invalid() {
            ev["res"] = json!("invalid");
            self.out.emit(ev);
            return None;
        }
        let f = F::view(ch);
        let e = Self::edge_of(&f);
        ev["e"] = json!([e.0, e.1]);
        ev["tt"] = json!(tt_of(&*f, n));
        ev["nc"] = json!(f.node_count());
        ev["cnc"] = json!(unsafe { (self.api.node_count)(ch) });
        let g = f.with_manager_shared(|m, e| F::subgraph(m, &[e]));
        ev["g"] = g_json(&g);
        let s = self.put(ch, rf);
        ev["h"] = json!(s);
        self.out.emit(ev);
        Some(s)
    }

    pub fn konst(&mut self, val: bool) -> Option<Slot> {
        self.op(
            if val { "t" } else { "f" },
            &[],
            json!({}),
            |api, m, _| unsafe { if val { (api.true_)(m) } else { (api.false_)(m) } },
            |rm, _| Ok(rm.with_manager_shared(|m| if val { F::t(m) } else { F::f(m) })),
        )
    }
    pub fn var(&mut self, v: u32, pos: bool) -> Option<Slot> {
        self.op(
            if pos { "var" } else { "not_var" },
            &[],
            json!({ "v": v }),
            |api, m, _| unsafe { if pos { (api.var)(m, v) } else { (api.not_var)(m, v) } },
            |rm, _| rm.with_manager_shared(|m| if pos { F::var(m, v) } else { F::not_var(m, v) }),
        )
    }
    pub fn not(&mut self, a: Arg) -> Option<Slot> {
        self.op("not", &[a], json!({}), |api, _, h| unsafe { (api.not)(h[0]) }, |_, r| r[0].not())
    }
    pub fn bin(&mut self, op: &str, a: Arg, b: Arg) -> Option<Slot> {
        self.op(
            op,
            &[a, b],
            json!({}),
            |api, _, h| unsafe { (api.bin(op))(h[0], h[1]) },
            |_, r| bin_call(op, r[0], r[1]),
        )
    }
    pub fn ite(&mut self, a: Arg, b: Arg, c: Arg) -> Option<Slot> {
        self.op(
            "ite",
            &[a, b, c],
            json!({}),
            |api, _, h| unsafe { (api.ite)(h[0], h[1], h[2]) },
            |_, r| r[0].ite(r[1], r[2]),
        )
    }
    pub fn quant(&mut self, q: &str, a: Arg, vars: Arg) -> Option<Slot> {
        self.op(
            q,
            &[a, vars],
            json!({}),
            |api, _, h| unsafe {
                let qa = api.q();
                (match q {
                    "exists" => qa.exists,
                    "forall" => qa.forall,
                    "unique" => qa.unique,
                    _ => panic!("harness: quantifier"),
                })(h[0], h[1])
            },
            |_, r| r[0].quant(q, r[1]),
        )
    }
    pub fn apply_quant(&mut self, q: &str, bop: &str, a: Arg, b: Arg, vars: Arg) -> Option<Slot> {
        self.op(
            &format!("apply_{q}"),
            &[a, b, vars],
            json!({ "bop": bop }),
            |api, _, h| unsafe {
                let qa = api.q();
                (match q {
                    "exists" => qa.apply_exists,
                    "forall" => qa.apply_forall,
                    "unique" => qa.apply_unique,
                    _ => panic!("harness: quantifier"),
                })(bool_op(bop), h[0], h[1], h[2])
            },
            |_, r| r[0].apply_quant(q, bop, r[1], r[2]),
        )
    }
    pub fn restrict(&mut self, a: Arg, cube: Arg) -> Option<Slot> {
        self.op(
            "restrict",
            &[a, cube],
            json!({}),
            |api, _, h| unsafe { (api.q().restrict)(h[0], h[1]) },
            |_, r| r[0].restrict(r[1]),
        )
    }
    pub fn pick_cube_dd(&mut self, a: Arg) -> Option<Slot> {
        self.op(
            "pick_cube_dd",
            &[a],
            json!({}),
            |api, _, h| unsafe { (api.pick_cube_dd)(h[0]) },
            |_, r| r[0].pick_cube_dd(|_, _, _| false),
        )
    }
    pub fn pick_cube_dd_set(&mut self, a: Arg, lits: Arg) -> Option<Slot> {
        self.op(
            "pick_cube_dd_set",
            &[a, lits],
            json!({}),
            |api, _, h| unsafe { (api.pick_cube_dd_set)(h[0], h[1]) },
            |_, r| r[0].pick_cube_dd_set(r[1]),
        )
    }
    // ZBDD
    pub fn zconst(&mut self, op: &str, v: u32) -> Option<Slot> {
        self.op(
            op,
            &[],
            json!({ "v": v }),
            |api, m, _| unsafe {
                let z = api.z();
                match op {
                    "singleton" => (z.singleton)(m, v),
                    "empty" => (z.empty)(m),
                    "base" => (z.base)(m),
                    _ => panic!("harness: zconst"),
                }
            },
            |rm, _| F::zconst(rm, op, v),
        )
    }
    pub fn zvar(&mut self, op: &str, a: Arg, v: u32) -> Option<Slot> {
        self.op(
            op,
            &[a],
            json!({ "v": v }),
            |api, _, h| unsafe {
                let z = api.z();
                (match op {
                    "subset0" => z.subset0,
                    "subset1" => z.subset1,
                    "change" => z.change,
                    _ => panic!("harness: zvar"),
                })(h[0], v)
            },
            |_, r| r[0].zvar(op, v),
        )
    }
    pub fn zbin(&mut self, op: &str, a: Arg, b: Arg) -> Option<Slot> {
        self.op(
            op,
            &[a, b],
            json!({}),
            |api, _, h| unsafe {
                let z = api.z();
                (match op {
                    "union" => z.union,
                    "intsec" => z.intsec,
                    "diff" => z.diff,
                    _ => panic!("harness: zbin"),
                })(h[0], h[1])
            },
            |_, r| r[0].zbin(op, r[1]),
        )
    }
    /// `oxidd_zbdd_make_node` takes ownership of `hi` and `lo`: they are
    /// duplicated with `ref` first, the duplicates are handed over
    pub fn make_node(&mut self, var: Slot, hi: Slot, lo: Slot) -> Option<Slot> {
        let auto = self.auto_snap;
        self.auto_snap = false;
        let h2 = self.cref(hi);
        let l2 = self.cref(lo);
        let r = self.op(
            "make_node",
            &[Some(var), Some(h2), Some(l2)],
            json!({}),
            |api, _, h| unsafe { (api.z().make_node)(h[0], h[1], h[2]) },
            |_, r| F::make_node(r[0], r[1], r[2]),
        );
        // the call consumed the two references
        for s in [h2, l2] {
            self.slots[s] = None;
            self.rslots[s] = None;
            self.out.emit(json!({"ev":"drop","a":s,"consumed":true}));
        }
        self.auto_snap = auto;
        self.after_call();
        r
    }
    /// make_node with ONE invalid child (`pos` = 0: lo is invalid, 1: hi is invalid): the call is
    /// documented to take ownership of hi and lo, so the reference to the valid child is gone, too
    pub fn make_node_one_invalid(&mut self, var: Slot, child: Slot, pos: usize) {
        let auto = self.auto_snap;
        self.auto_snap = false;
        let extra = self.cref(child);
        let args = if pos == 0 { [Some(var), Some(extra), None] } else { [Some(var), None, Some(extra)] };
        self.op(
            "make_node",
            &args,
            json!({}),
            |api, _, h| unsafe { (api.z().make_node)(h[0], h[1], h[2]) },
            |_, _| Err(oxidd::util::OutOfMemory),
        );
        self.slots[extra] = None;
        self.rslots[extra] = None;
        self.out.emit(json!({"ev":"drop","a":extra,"consumed":true}));
        self.auto_snap = auto;
        self.after_call();
    }
    /// an operation executed inside the manager's worker pool
    pub fn bin_in_pool(&mut self, op: &str, a: Slot, b: Slot) -> Option<Slot> {
        struct Job {
            f: Fn2,
            a: fn_t,
            b: fn_t,
            out: fn_t,
        }
        extern "C" fn cb(data: *mut c_void) -> *mut c_void {
            let job = unsafe { &mut *(data as *mut Job) };
            job.out = unsafe { (job.f)(job.a, job.b) };
            data
        }
        self.op(
            op,
            &[Some(a), Some(b)],
            json!({"pool": true}),
            |api, m, h| {
                let mut job = Job { f: api.bin(op), a: h[0], b: h[1], out: fn_t::INVALID };
                let p = unsafe { (api.manager_run_in_worker_pool)(m, cb, (&mut job as *mut Job).cast()) };
                assert!(p == (&mut job as *mut Job).cast(), "harness: callback result");
                job.out
            },
            |_, r| bin_call(op, r[0], r[1]),
        )
    }

    // ---- cofactors -----------------------------------------------------------
    /// which: 0 = `cofactors`, 1 = `cofactor_true`, 2 = `cofactor_false`
    pub fn cofactors(&mut self, a: Arg, which: u8) {
        let what = ["cofactors", "cofactor_true", "cofactor_false"][which as usize];
        self.begin(&format!("c:{what}"));
        let h = self.h(a);
        let (ct, cf) = unsafe {
            match which {
                0 => {
                    let p = (self.api.cofactors)(h);
                    (Some(p.first), Some(p.second))
                }
                1 => (Some((self.api.cofactor_true)(h)), None),
                _ => (None, Some((self.api.cofactor_false)(h))),
            }
        };
        let mir: Option<Option<(F, F)>> = self.rargs(&[a]).map(|r| r[0].cofactors());
        let (mt, mf) = match mir {
            Some(Some((t, f))) => (Ok(Ok(t)), Ok(Ok(f))),
            Some(None) => (Ok(Err(OutOfMemory)), Ok(Err(OutOfMemory))),
            None => (Err("na".to_string()), Err("na".to_string())),
        };
        let all_invalid = ct.map_or(true, |x| x.is_invalid()) && cf.map_or(true, |x| x.is_invalid());
        if all_invalid && a.is_some() {
            // documented answer for terminals
            self.out.emit(json!({"ev":"cofnone","a":a.unwrap(),"what":what,
                "mnone": matches!(mt, Ok(Err(_)))}));
        } else {
            if let Some(ct) = ct {
                self.log_op("cof_t", &[a], json!({ "what": what }), ct, mt);
            }
            if let Some(cf) = cf {
                self.log_op("cof_f", &[a], json!({ "what": what }), cf, mf);
            }
        }
        self.after_call();
    }

    // ---- ref / unref -----------------------------------------------------------
    pub fn cref(&mut self, a: Slot) -> Slot {
        self.begin("c:ref");
        let h = self.h(Some(a));
        let r = unsafe { (self.api.ref_)(h) };
        let rf = self.rslots[a].clone();
        let s = self.put(r, rf);
        self.out.emit(json!({"ev":"clone","a":a,"h":s,"same": r == h}));
        self.after_call();
        s
    }
    pub fn cunref(&mut self, a: Slot) {
        self.begin("c:unref");
        let h = self.slots[a].take().expect("harness: live slot");
        unsafe { (self.api.unref)(h) };
        self.rslots[a] = None;
        self.out.emit(json!({"ev":"drop","a":a}));
        self.after_call();
    }
    /// ref / unref / node_level / node_var of the invalid handle
    pub fn invalid_noops(&mut self) {
        let inv = self.inv;
        self.begin("c:ref");
        let r = unsafe { (self.api.ref_)(inv) };
        self.out.emit(json!({"ev":"noop","what":"ref","ret_invalid": r.is_invalid()}));
        self.begin("c:unref");
        unsafe { (self.api.unref)(inv) };
        self.out.emit(json!({"ev":"noop","what":"unref","ret_invalid": true}));
        // manager_ref / manager_unref of the invalid manager handle: documented no-ops
        self.begin("c:manager_ref");
        let minv = mgr_t { p: std::ptr::null() };
        let r = unsafe { (self.api.manager_ref)(minv) };
        unsafe { (self.api.manager_unref)(minv) };
        self.out.emit(json!({"ev":"noop","what":"manager_ref","ret_invalid": r.p.is_null()}));
        self.begin("c:node_level");
        let l = unsafe { (self.api.node_level)(inv) };
        let v = unsafe { (self.api.node_var)(inv) };
        self.out.emit(json!({"ev":"noop","what":"node_level","ret_invalid": l == u32::MAX && v == u32::MAX}));
        self.after_call();
    }

    // ---- manager references ------------------------------------------------------
    pub fn mgr_ref(&mut self) {
        self.begin("c:manager_ref");
        let m = self.mh();
        let r = unsafe { (self.api.manager_ref)(m) };
        self.mgrs.push(r);
        self.out.emit(json!({"ev":"mgr","what":"ref","same": r == self.mptr}));
        self.after_call();
    }
    pub fn mgr_unref(&mut self) {
        self.begin("c:manager_unref");
        let m = self.mgrs.pop().expect("harness: no owned manager reference");
        unsafe { (self.api.manager_unref)(m) };
        self.out.emit(json!({"ev":"mgr","what":"unref","same": true}));
        if !(self.mgrs.is_empty() && self.live().is_empty() && self.ext.is_empty()) {
            self.after_call();
        }
    }
    pub fn containing_manager(&mut self, a: Slot) {
        self.begin("c:containing_manager");
        let r = unsafe { (self.api.containing_manager)(self.h(Some(a))) };
        self.mgrs.push(r);
        self.out.emit(json!({"ev":"mgr","what":"containing","a":a,"same": r == self.mptr}));
        self.after_call();
    }
    /// is the manager alive? (its threads exist); `expect_dead`: wait for the
    /// threads to terminate (bounded)
    pub fn mend(&mut self, expect_dead: bool) {
        let now = if expect_dead {
            wait_threads(self.thr_base, 4000)
        } else {
            std::thread::sleep(std::time::Duration::from_millis(30));
            os_threads()
        };
        self.out.emit(json!({"ev":"mend","base":self.thr_base,"now":now}));
    }

    // ---- variables, order, collection -------------------------------------------
    fn c_order(&self) -> (Vec<i64>, Vec<i64>, u32) {
        let m = self.mptr;
        unsafe {
            let nv = (self.api.manager_num_vars)(m);
            let l2v = (0..nv).map(|l| u32m((self.api.manager_level_to_var)(m, l))).collect();
            let v2l = (0..nv).map(|v| u32m((self.api.manager_var_to_level)(m, v))).collect();
            (l2v, v2l, nv)
        }
    }
    fn r_order(&self) -> (Vec<u32>, u32) {
        self.rm().with_manager_shared(|m| (F::order(m).0, m.num_vars()))
    }
    /// add `names.len()` variables: all `None` = `add_vars`, otherwise
    /// `add_named_vars` (array or iterator variant)
    pub fn add_vars(&mut self, names: &[Option<String>], via_iter: bool) {
        let k = names.len() as u32;
        self.begin("add_vars");
        let m = self.mh();
        let unnamed = names.iter().all(|x| x.is_none());
        let cstrs: Vec<Option<CString>> = names.iter().map(|x| x.as_ref().map(|s| CString::new(s.as_str()).unwrap())).collect();
        let (range, dup, how) = unsafe {
            if unnamed && !via_iter {
                ((self.api.manager_add_vars)(m, k), u32::MAX, "add_vars")
            } else if !via_iter {
                let ptrs: Vec<*const c_char> = cstrs.iter().map(|c| c.as_ref().map_or(std::ptr::null(), |c| c.as_ptr())).collect();
                let r = (self.api.manager_add_named_vars)(m, ptrs.as_ptr(), k);
                (r.added_vars, r.present_var, "add_named_vars")
            } else {
                struct Ctx {
                    items: Vec<String>,
                    pos: usize,
                }
                extern "C" fn next(c: *mut c_void) -> opt<str_t> {
                    let ctx = unsafe { &mut *(c as *mut Ctx) };
                    if ctx.pos >= ctx.items.len() {
                        return opt { is_some: false, value: std::mem::MaybeUninit::uninit() };
                    }
                    let s = &ctx.items[ctx.pos];
                    ctx.pos += 1;
                    opt { is_some: true, value: std::mem::MaybeUninit::new(str_t { ptr: s.as_ptr().cast(), len: s.len() }) }
                }
                extern "C" fn hint(c: *mut c_void) -> size_hint_t {
                    let ctx = unsafe { &*(c as *mut Ctx) };
                    let r = ctx.items.len() - ctx.pos;
                    size_hint_t { lower: r, upper: r }
                }
                let mut ctx = Ctx { items: names.iter().map(|x| x.clone().unwrap_or_default()).collect(), pos: 0 };
                let it = iter { next, size_hint: Some(hint), context: (&mut ctx as *mut Ctx).cast() };
                let r = (self.api.manager_add_named_vars_iter)(m, it);
                (r.added_vars, r.present_var, "add_named_vars_iter")
            }
        };
        // mirror
        let mir = self.rm().with_manager_exclusive(|mm| {
            catch(|| {
                if unnamed {
                    Ok(mm.add_vars(k))
                } else {
                    mm.add_named_vars(names.iter().map(|x| x.clone().unwrap_or_default()))
                }
            })
        });
        let (mrange, mdup): (Vec<i64>, i64) = match &mir {
            Ok(Ok(r)) => (vec![r.start as i64, r.end as i64], -1),
            Ok(Err(e)) => (vec![e.added_vars.start as i64, e.added_vars.end as i64], e.present_var as i64),
            Err(_) => (vec![-1, -1], -2),
        };
        let (l2v, v2l, nv) = self.c_order();
        let nl = F::mview(self.mptr).with_manager_shared(|mm| mm.num_levels());
        let (ml2v, mnv) = self.r_order();
        self.n = nv;
        self.out.emit(json!({"ev":"add_vars","how":how,"req":k,"k":range.end as i64 - range.start as i64,
            "range":[range.start, range.end],"dup":u32m(dup),"n":nv,"nl":nl,"l2v":l2v,"v2l":v2l,
            "names": names.iter().map(|x| x.clone().unwrap_or_default()).collect::<Vec<_>>(),
            "mrange":mrange,"mdup":mdup,"mn":mnv,"ml2v":ml2v}));
        self.after_call();
    }
    /// names of all variables through the C interface and through the mirror
    pub fn names_obs(&mut self) {
        self.begin("c:manager_var_name");
        let m = self.mh();
        let mut c = Vec::new();
        let mut c2v = Vec::new();
        let mut lens_ok = true;
        for v in 0..self.n {
            let mut len = std::mem::MaybeUninit::<usize>::uninit();
            let p = unsafe { (self.api.manager_var_name)(m, v, Some(&mut len)) };
            let len = unsafe { len.assume_init() };
            let s = if p.is_null() {
                String::new()
            } else {
                let s = unsafe { std::ffi::CStr::from_ptr(p) }.to_string_lossy().into_owned();
                unsafe { libc::free(p as *mut c_void) };
                s
            };
            lens_ok &= s.len() == len;
            // the same name through the callback variant
            extern "C" fn cb(data: *mut c_void, p: *const c_char, len: usize) -> *mut c_void {
                let out = unsafe { &mut *(data as *mut Vec<u8>) };
                if !p.is_null() {
                    out.extend_from_slice(unsafe { std::slice::from_raw_parts(p.cast::<u8>(), len) });
                }
                data
            }
            let mut buf: Vec<u8> = Vec::new();
            let bp = (&mut buf as *mut Vec<u8>).cast::<c_void>();
            let rp = unsafe { (self.api.manager_with_var_name)(m, v, cb, bp) };
            lens_ok &= rp == bp && buf == s.as_bytes();
            c2v.push(u32m(unsafe { (self.api.manager_name_to_var)(m, s.as_ptr().cast(), s.len()) }));
            c.push(s);
        }
        let cnamed = unsafe { (self.api.manager_num_named_vars)(m) };
        let (r, r2v, rnamed) = self.rm().with_manager_shared(|mm| {
            let r: Vec<String> = (0..mm.num_vars()).map(|v| mm.var_name(v).to_string()).collect();
            let r2v: Vec<i64> = r.iter().map(|s| if s.is_empty() { -1 } else { mm.name_to_var(s).map_or(-1, |v| v as i64) }).collect();
            (r, r2v, mm.num_named_vars())
        });
        self.out.emit(json!({"ev":"q","what":"names","c":{"names":c,"n2v":c2v,"named":cnamed,"lens_ok":lens_ok},
            "r":{"names":r,"n2v":r2v,"named":rnamed,"lens_ok":true}}));
    }
    pub fn set_var_name(&mut self, v: u32, name: &str) {
        self.begin("c:manager_set_var_name");
        let m = self.mh();
        let c = unsafe { (self.api.manager_set_var_name)(m, v, name.as_ptr().cast(), name.len()) };
        let r = self.rm().with_manager_exclusive(|mm| match mm.set_var_name(v, name) {
            Ok(()) => -1,
            Err(e) => e.present_var as i64,
        });
        self.out.emit(json!({"ev":"q","what":"set_var_name","v":v,"name":name,"c":{"present":u32m(c)},"r":{"present":r}}));
        self.after_call();
    }
    pub fn reorder(&mut self, req: &[u32]) {
        self.calls += 1;
        self.out.emit(json!({"ev":"begin","what":"reorder","req":req}));
        let m = self.mh();
        unsafe { (self.api.manager_set_var_order)(m, req.as_ptr(), req.len()) };
        self.rm().with_manager_exclusive(|mm| F::set_var_order(mm, req));
        let (l2v, v2l, _) = self.c_order();
        let (ml2v, _) = self.r_order();
        self.out.emit(json!({"ev":"reorder","req":req,"l2v":l2v,"v2l":v2l,"ml2v":ml2v}));
        self.after_call();
    }
    pub fn gc(&mut self) {
        self.begin("c:manager_gc");
        let m = self.mh();
        let (before, ret, after, gcc, approx) = unsafe {
            let b = (self.api.manager_num_inner_nodes)(m);
            let r = (self.api.manager_gc)(m);
            (b, r, (self.api.manager_num_inner_nodes)(m), (self.api.manager_gc_count)(m), (self.api.manager_approx_num_inner_nodes)(m))
        };
        self.rm().with_manager_shared(|mm| mm.gc());
        let (rafter, rgcc) = F::mview(self.mptr).with_manager_shared(|mm| (mm.num_inner_nodes(), mm.gc_count()));
        self.out.emit(json!({"ev":"gc","ret":ret,"before":before,"after":after,"gcc":gcc,"approx":approx,
            "rafter":rafter,"rgcc":rgcc}));
        self.after_call();
    }

    // ---- queries --------------------------------------------------------------------
    pub fn queries(&mut self, a: Slot) {
        self.begin("c:queries");
        let h = self.h(Some(a));
        let n = self.n;
        let api = &self.api;
        let (sat, valid, nc, scd, lvl, var) = unsafe {
            ((api.satisfiable)(h), (api.valid)(h), (api.node_count)(h), (api.sat_count_double)(h, n), (api.node_level)(h), (api.node_var)(h))
        };
        let scs = unsafe {
            let nat = (api.sat_count)(h, n);
            let st = oxidd_natural_to_string(&nat);
            let s = String::from_utf8_lossy(std::slice::from_raw_parts(st.data.cast::<u8>(), st.len)).into_owned();
            oxidd_string_free(st);
            oxidd_natural_free(nat);
            s
        };
        let cube: Vec<i64> = unsafe {
            let asg = (api.pick_cube)(h);
            let v = if asg.data.is_null() { Vec::new() } else { std::slice::from_raw_parts(asg.data, asg.len).iter().map(|&x| x as i64).collect() };
            oxidd_assignment_free(asg);
            v
        };
        let c = json!({"sat":sat,"valid":valid,"nc":nc,"scd_int":scd as i64,"scd_exact":(scd as i64) as f64 == scd,
            "scs":scs,"level":u32m(lvl),"var":u32m(var),"cube":cube});
        let r = match self.rslots[a].as_ref() {
            Some(f) => {
                use oxidd::util::num::{Natural, F64};
                use std::hash::BuildHasherDefault;
                type H = BuildHasherDefault<rustc_hash::FxHasher>;
                let scd = f.sat_count::<F64, H>(n, &mut Default::default()).0;
                let scs = f.sat_count::<Natural, H>(n, &mut Default::default()).to_string();
                let cube: Vec<i64> = f.pick_cube(|_, _, _| false).map_or(Vec::new(), |v| v.iter().map(|&x| x as i8 as i64).collect());
                let (lvl, var) = F::r_level_var(f);
                json!({"sat":f.satisfiable(),"valid":f.valid(),"nc":f.node_count(),"scd_int":scd as i64,
                    "scd_exact":(scd as i64) as f64 == scd,"scs":scs,"level":lvl,"var":var,"cube":cube})
            }
            None => json!("na"),
        };
        let has_r = self.rslots[a].is_some();
        self.out.emit(json!({"ev":"q","what":"fn","a":a,"vars":n,"c":c,"r":r,"has_r":has_r}));
    }

    // ---- export / import ----------------------------------------------------------------
    fn take_err(err: error_t) -> String {
        let s = if err.msg.data.is_null() || err.msg.len == 0 {
            String::new()
        } else {
            String::from_utf8_lossy(unsafe { std::slice::from_raw_parts(err.msg.data.cast::<u8>(), err.msg.len) }).into_owned()
        };
        unsafe { oxidd_error_free(err) };
        s
    }
    fn no_err() -> error_t {
        error_t { msg: string_t { data: std::ptr::null(), len: 0, _cap: 0 } }
    }
    /// export `roots` (slots, `None` = the invalid handle) as DDDMP through
    /// the C interface (array or iterator variant), the mirror's functions
    /// through Rust
    pub fn export_dddmp(&mut self, roots: &[Arg], named: bool, via_iter: bool) -> (bool, String) {
        let what = if via_iter && named { "export_dddmp_with_names_iter" } else if via_iter { "export_dddmp_iter" } else { "export_dddmp" };
        self.begin(&format!("c:manager_{what}"));
        let cpath = format!("{}/c.dddmp", self.tmp);
        let rpath = format!("{}/r.dddmp", self.tmp);
        let _ = std::fs::remove_file(&cpath);
        let hs: Vec<fn_t> = roots.iter().map(|&a| self.h(a)).collect();
        let names: Vec<CString> = (0..roots.len()).map(|i| CString::new(format!("f{i}")).unwrap()).collect();
        let name_ptrs: Vec<*const c_char> = names.iter().map(|c| c.as_ptr()).collect();
        let dname = "c19";
        let settings = dddmp_export_settings_t {
            version: dddmp_version::_2_0,
            ascii: true,
            strict: false,
            diagram_name: str_t { ptr: dname.as_ptr().cast(), len: dname.len() },
        };
        let mut err = Self::no_err();
        let m = self.mh();
        let c_ok = unsafe {
            if via_iter && named {
                struct Ctx {
                    items: Vec<named<fn_t>>,
                    pos: usize,
                }
                extern "C" fn next(c: *mut c_void) -> opt<named<fn_t>> {
                    let ctx = unsafe { &mut *(c as *mut Ctx) };
                    if ctx.pos >= ctx.items.len() {
                        return opt { is_some: false, value: std::mem::MaybeUninit::uninit() };
                    }
                    ctx.pos += 1;
                    opt { is_some: true, value: std::mem::MaybeUninit::new(ctx.items[ctx.pos - 1]) }
                }
                let items = hs
                    .iter()
                    .zip(&names)
                    .map(|(h, n)| named { func: *h, name: str_t { ptr: n.as_ptr(), len: n.as_bytes().len() } })
                    .collect();
                let mut ctx = Ctx { items, pos: 0 };
                let it = iter { next, size_hint: None, context: (&mut ctx as *mut Ctx).cast() };
                (self.api.manager_export_dddmp_with_names_iter)(m, cpath.as_ptr().cast(), cpath.len(), it, Some(&settings), &mut err)
            } else if via_iter {
                struct Ctx {
                    items: Vec<fn_t>,
                    pos: usize,
                }
                extern "C" fn next(c: *mut c_void) -> opt<fn_t> {
                    let ctx = unsafe { &mut *(c as *mut Ctx) };
                    if ctx.pos >= ctx.items.len() {
                        return opt { is_some: false, value: std::mem::MaybeUninit::uninit() };
                    }
                    ctx.pos += 1;
                    opt { is_some: true, value: std::mem::MaybeUninit::new(ctx.items[ctx.pos - 1]) }
                }
                let mut ctx = Ctx { items: hs.clone(), pos: 0 };
                let it = iter { next, size_hint: None, context: (&mut ctx as *mut Ctx).cast() };
                (self.api.manager_export_dddmp_iter)(m, cpath.as_ptr().cast(), cpath.len(), it, Some(&settings), &mut err)
            } else {
                (self.api.manager_export_dddmp)(
                    m,
                    cpath.as_ptr().cast(),
                    cpath.len(),
                    hs.as_ptr(),
                    hs.len(),
                    if named { name_ptrs.as_ptr() } else { std::ptr::null() },
                    Some(&settings),
                    &mut err,
                )
            }
        };
        let c_err = Self::take_err(err);
        let c_size = std::fs::metadata(&cpath).map(|m| m.len()).unwrap_or(0);
        let (r_ok, r_size) = match self.rargs(roots) {
            Some(fs) => {
                let ns: Vec<String> = (0..roots.len()).map(|i| format!("f{i}")).collect();
                let r = catch(|| F::r_export(self.rm(), &rpath, &fs, if named { Some(&ns) } else { None }));
                (matches!(r, Ok(Ok(()))), std::fs::metadata(&rpath).map(|m| m.len()).unwrap_or(0))
            }
            None => (false, 0),
        };
        let same = c_ok && r_ok && std::fs::read(&cpath).ok() == std::fs::read(&rpath).ok();
        let inv_in = roots.iter().any(|a| a.is_none());
        self.out.emit(json!({"ev":"io","what":what,"a":arg_json(roots),"named":named,"inv_in":inv_in,"c_ok":c_ok,"c_err":c_err,
            "c_size":c_size,"r_ok":r_ok,"r_size":r_size,"same_bytes":same}));
        self.after_call();
        (c_ok, cpath)
    }
    /// import the file just exported by the C side (C import into the C
    /// manager, Rust import of the same file into the mirror)
    pub fn import_dddmp(&mut self, path: &str, roots: &[Slot]) -> Vec<Option<Slot>> {
        self.begin("c:manager_import_dddmp");
        let mut err = Self::no_err();
        let file = unsafe { oxidd_dddmp_open(path.as_ptr().cast(), path.len(), &mut err) };
        let open_err = Self::take_err(err);
        if file.is_null() {
            // does the Rust API reject the file as well?
            let rm = self.rm.as_ref().unwrap();
            let r_ok = matches!(catch(|| F::r_import(rm, path)), Ok(Ok(_)));
            self.out.emit(json!({"ev":"io","what":"dddmp_open","a":roots,"named":false,"inv_in":false,"c_ok":false,"c_err":open_err,
                "c_size":0,"r_ok":r_ok,"r_size":0,"same_bytes":false}));
            return Vec::new();
        }
        let nroots = unsafe { oxidd_dddmp_num_roots(&*file) };
        let mut out = vec![fn_t::INVALID; nroots];
        let mut err = Self::no_err();
        let m = self.mh();
        let ok = unsafe { (self.api.manager_import_dddmp)(m, &mut *file, std::ptr::null(), out.as_mut_ptr(), &mut err) };
        let c_err = Self::take_err(err);
        unsafe { oxidd_dddmp_close(file) };
        let rm = self.rm.as_ref().unwrap();
        let mir = catch(|| F::r_import(rm, path));
        let mut mirs: Vec<Result<AllocResult<F>, String>> = match mir {
            Ok(Ok(v)) => v.into_iter().map(|f| Ok(Ok(f))).collect(),
            Ok(Err(e)) => (0..nroots).map(|_| Err(format!("err:{e}"))).collect(),
            Err(p) => (0..nroots).map(|_| Err(format!("panic:{p}"))).collect(),
        };
        mirs.resize_with(nroots, || Err("na".to_string()));
        self.out.emit(json!({"ev":"io","what":"import_dddmp","a":roots,"named":false,"inv_in":false,"c_ok":ok && nroots == roots.len(),"c_err":c_err,
            "c_size":nroots,"r_ok":mirs.iter().all(|m| m.is_ok()),"r_size":mirs.len(),"same_bytes":false}));
        let mut res = Vec::new();
        if ok {
            for (i, (h, mir)) in out.into_iter().zip(mirs).enumerate() {
                let src = roots.get(i).copied();
                let args: Vec<Arg> = src.map(Some).into_iter().collect();
                res.push(self.log_op("import", &args, json!({ "idx": i }), h, mir));
            }
        }
        self.after_call();
        res
    }
    pub fn dot(&mut self, roots: &[Arg], via_iter: bool) {
        let what = if via_iter { "dump_all_dot_path_iter" } else { "dump_all_dot_path" };
        self.begin(&format!("c:manager_{what}"));
        let cpath = format!("{}/c.dot", self.tmp);
        let rpath = format!("{}/r.dot", self.tmp);
        let _ = std::fs::remove_file(&cpath);
        let hs: Vec<fn_t> = roots.iter().map(|&a| self.h(a)).collect();
        let names: Vec<CString> = (0..roots.len()).map(|i| CString::new(format!("f{i}")).unwrap()).collect();
        let name_ptrs: Vec<*const c_char> = names.iter().map(|c| c.as_ptr()).collect();
        let mut err = Self::no_err();
        let m = self.mh();
        let c_ok = unsafe {
            if via_iter {
                struct Ctx {
                    items: Vec<named<fn_t>>,
                    pos: usize,
                }
                extern "C" fn next(c: *mut c_void) -> opt<named<fn_t>> {
                    let ctx = unsafe { &mut *(c as *mut Ctx) };
                    if ctx.pos >= ctx.items.len() {
                        return opt { is_some: false, value: std::mem::MaybeUninit::uninit() };
                    }
                    ctx.pos += 1;
                    opt { is_some: true, value: std::mem::MaybeUninit::new(ctx.items[ctx.pos - 1]) }
                }
                let items = hs
                    .iter()
                    .zip(&names)
                    .map(|(h, n)| named { func: *h, name: str_t { ptr: n.as_ptr(), len: n.as_bytes().len() } })
                    .collect();
                let mut ctx = Ctx { items, pos: 0 };
                let it = iter { next, size_hint: None, context: (&mut ctx as *mut Ctx).cast() };
                (self.api.manager_dump_all_dot_path_iter)(m, cpath.as_ptr().cast(), cpath.len(), it, &mut err)
            } else {
                (self.api.manager_dump_all_dot_path)(m, cpath.as_ptr().cast(), cpath.len(), hs.as_ptr(), name_ptrs.as_ptr(), hs.len(), &mut err)
            }
        };
        let c_err = Self::take_err(err);
        let c_size = std::fs::metadata(&cpath).map(|m| m.len()).unwrap_or(0);
        // an invalid function is skipped together with its name
        let valid_roots: Vec<Arg> = roots.iter().copied().filter(|a| a.is_some()).collect();
        let valid_names: Vec<String> =
            roots.iter().enumerate().filter(|(_, a)| a.is_some()).map(|(i, _)| format!("f{i}")).collect();
        let (r_ok, r_size) = match self.rargs(&valid_roots) {
            Some(fs) => {
                let named: Vec<(&F, String)> = fs.into_iter().zip(valid_names.iter().cloned()).collect();
                let r = catch(|| F::r_dot(self.rm(), &rpath, &named));
                (matches!(r, Ok(Ok(()))), std::fs::metadata(&rpath).map(|m| m.len()).unwrap_or(0))
            }
            None => (false, 0),
        };
        // a DOT dump skips invalid functions (documented for neither variant: accepted either way)
        // projection of the two files: the function boxes (label, node pointed to), in file order
        let c_labels = if c_ok { dot_labels(&cpath) } else { Vec::new() };
        let r_labels = if r_ok { dot_labels(&rpath) } else { Vec::new() };
        self.out.emit(json!({"ev":"io","what":what,"a":arg_json(roots),"named":true,"inv_in":false,"c_ok":c_ok,"c_err":c_err,
            "c_size":c_size,"r_ok":r_ok,"r_size":r_size,"same_bytes":false,"c_labels":c_labels,"r_labels":r_labels}));
        self.after_call();
    }

    // ---- substitution objects -------------------------------------------------------------
    pub fn subst_new(&mut self, pairs: &[(u32, Slot)]) -> CSubst<F> {
        let auto = self.auto_snap;
        self.auto_snap = false;
        self.begin("c:substitution_new");
        let ptr = unsafe { (self.api.q().substitution_new)(pairs.len()) };
        let mut held = Vec::new();
        for &(v, s) in pairs {
            self.begin("c:substitution_add_pair");
            let h = self.h(Some(s));
            unsafe { (self.api.q().substitution_add_pair)(ptr, v, h) };
            // the object now holds one more reference to the node of `s`
            self.slots.push(None);
            self.rslots.push(None);
            let x = self.slots.len() - 1;
            self.ext.insert(x, h);
            self.out.emit(json!({"ev":"clone","a":s,"h":x,"same":true,"into":"subst"}));
            held.push((v, x));
        }
        let mirror = if pairs.iter().all(|&(_, s)| self.rslots[s].is_some()) {
            Some(Subst::new(
                pairs.iter().map(|&(v, _)| v).collect::<Vec<_>>(),
                pairs.iter().map(|&(_, s)| self.rslots[s].clone().unwrap()).collect::<Vec<_>>(),
            ))
        } else {
            None
        };
        self.auto_snap = auto;
        self.after_call();
        self.nsubst += 1;
        CSubst { ptr, pairs: held, mirror, sid: self.nsubst }
    }
    pub fn substitute(&mut self, a: Arg, s: &CSubst<F>) -> Option<Slot> {
        let pairs = json!(s.pairs.iter().map(|&(v, x)| json!([v, x])).collect::<Vec<_>>());
        let ptr = s.ptr;
        self.begin("c:substitute");
        let h = self.h(a);
        let ch = unsafe { (self.api.q().substitute)(h, ptr) };
        let mir = match (self.rargs(&[a]), s.mirror.as_ref()) {
            (Some(r), Some(ms)) => catch(|| r[0].subst(ms)).map_err(|p| format!("panic:{p}")),
            _ => Err("na".to_string()),
        };
        let r = self.log_op("subst", &[a], json!({"pairs":pairs,"sid":s.sid}), ch, mir);
        self.after_call();
        r
    }
    /// `substitute` with a NULL substitution: documented to yield an invalid function
    pub fn substitute_null(&mut self, a: Slot) {
        self.begin("c:substitute");
        let ch = unsafe { (self.api.q().substitute)(self.h(Some(a)), std::ptr::null()) };
        self.out.emit(json!({"ev":"noop","what":"substitute_null","ret_invalid":ch.is_invalid()}));
        if !ch.is_invalid() {
            unsafe { (self.api.unref)(ch) };
        }
        self.after_call();
    }
    pub fn subst_free(&mut self, s: CSubst<F>) {
        self.begin("c:substitution_free");
        unsafe { (self.api.q().substitution_free)(s.ptr) };
        for (_, x) in s.pairs {
            self.ext.remove(&x).expect("harness: ext slot");
            self.out.emit(json!({"ev":"drop","a":x,"from":"subst"}));
        }
        drop(s.mirror);
        self.after_call();
    }

    // ---- observations ---------------------------------------------------------------------
    /// all live handles observed THROUGH THE C INTERFACE: truth table by
    /// `oxidd_*_eval`, `oxidd_*_node_count`, `satisfiable`, `valid`; equality
    /// class and rank by the handle bits
    pub fn obs(&mut self) {
        self.begin("c:eval");
        let live = self.live();
        let n = self.n;
        let mut bits: Vec<fn_t> = live.iter().map(|&s| self.slots[s].unwrap()).collect();
        bits.sort();
        bits.dedup();
        let mut hs = Vec::new();
        for &s in &live {
            let h = self.slots[s].unwrap();
            let mut tt = Vec::new();
            for a in 0..(1u32 << n) {
                let args: Vec<var_no_bool_pair_t> = (0..n).map(|v| var_no_bool_pair_t { var: v, val: (a >> v) & 1 == 1 }).collect();
                if unsafe { (self.api.eval)(h, args.as_ptr(), args.len()) } {
                    tt.push(a as i64);
                }
            }
            let e = Self::edge_of(&F::view(h));
            let class = bits.iter().position(|b| *b == h).unwrap();
            let (nc, sat, valid) = unsafe { ((self.api.node_count)(h), (self.api.satisfiable)(h), (self.api.valid)(h)) };
            hs.push(json!([s, e.0, e.1, tt, nc, class, class, sat, valid]));
        }
        let mut eqp = Vec::new();
        let lim = live.len().min(24);
        for i in 0..lim {
            for j in (i + 1)..lim {
                if self.slots[live[i]] == self.slots[live[j]] {
                    eqp.push(json!([live[i], live[j]]));
                }
            }
        }
        self.out.emit(json!({"ev":"obs","hs":hs,"eqp":eqp,"eqn":lim}));
    }

    /// full snapshot of the store of the C manager (borrowed Rust view) plus
    /// the reference count of every owned handle's node seen through the handle
    pub fn snap(&mut self) {
        let live = self.live();
        let mv = F::mview(self.mptr);
        let (nodes, ninner, gcn, ron, nl) = mv.with_manager_shared(|m| {
            (F::snapshot(m), m.num_inner_nodes(), m.gc_count(), m.reorder_count(), m.num_levels())
        });
        let (l2v, v2l, nv) = self.c_order();
        let mut hs: Vec<Value> = Vec::new();
        let mut hrc: Vec<Value> = Vec::new();
        let owned = live.iter().map(|&s| (s, self.slots[s].unwrap())).chain(self.ext.iter().map(|(&s, &h)| (s, h)));
        for (s, h) in owned {
            let f = F::view(h);
            let e = Self::edge_of(&f);
            hs.push(json!([s, e.0, e.1]));
            let rc = f.with_manager_shared(|m, e| match m.get_node(e) {
                Node::Inner(nd) => nd.ref_count() as i64,
                Node::Terminal(_) => -1,
            });
            if rc >= 0 {
                hrc.push(json!([s, rc]));
            }
        }
        self.out.emit(json!({"ev":"snap","nodes":snap_json(&nodes),"hs":hs,"hrc":hrc,"ninner":ninner,
            "gc":gcn,"ro":ron,"l2v":l2v,"v2l":v2l,"n":nv,"nl":nl,"mrefs":self.mgrs.len()}));
    }

    // ---- end of a history -------------------------------------------------------------------
    /// unref every function, collect, then release the manager references
    pub fn finish(mut self, substs: Vec<CSubst<F>>) {
        if self.dead {
            return;
        }
        if self.mgrs.is_empty() {
            let Some(&a) = self.live().first() else { return self.teardown() };
            self.containing_manager(a);
        }
        self.obs();
        for s in substs {
            self.subst_free(s);
        }
        let auto = self.auto_snap;
        self.auto_snap = false;
        for s in self.live() {
            self.cunref(s);
        }
        self.auto_snap = auto;
        self.snap();
        self.gc();
        if !auto {
            self.snap();
        }
        while !self.mgrs.is_empty() {
            self.mgr_unref();
        }
        self.mend(true);
        self.teardown();
    }
    /// release the mirror and wait for its threads
    pub fn teardown(mut self) {
        self.rslots.clear();
        self.rm = None;
        let idle = IDLE_THREADS.load(Ordering::Relaxed);
        let now = wait_threads(idle, 3000);
        IDLE_THREADS.store(now, Ordering::Relaxed);
    }
}

pub const BIN_OPS: [&str; 8] = ["and", "or", "xor", "equiv", "nand", "nor", "imp", "imp_strict"];

pub fn bin_call<F: BooleanFunction>(op: &str, a: &F, b: &F) -> AllocResult<F> {
    match op {
        "and" => a.and(b),
        "or" => a.or(b),
        "xor" => a.xor(b),
        "equiv" => a.equiv(b),
        "nand" => a.nand(b),
        "nor" => a.nor(b),
        "imp" => a.imp(b),
        "imp_strict" => a.imp_strict(b),
        _ => panic!("harness: unknown op {op}"),
    }
}

/// function boxes of a DOT dump: `[label, node the box points to]` in file order
fn dot_labels(path: &str) -> Vec<[String; 2]> {
    let text = std::fs::read_to_string(path).unwrap_or_default();
    let mut boxes: Vec<(String, String)> = Vec::new(); // (box id, label)
    let mut target: std::collections::HashMap<String, String> = Default::default();
    for line in text.lines() {
        let t = line.trim_start();
        if !t.starts_with('f') {
            continue;
        }
        let Some(sp) = t.find(' ') else { continue };
        let (id, rest) = t.split_at(sp);
        let rest = rest.trim_start();
        if let Some(r) = rest.strip_prefix("[label=\"") {
            if let Some(end) = r.rfind("\", shape=box]") {
                boxes.push((id.to_string(), r[..end].to_string()));
            }
        } else if let Some(r) = rest.strip_prefix("-> ") {
            let node = r.split(' ').next().unwrap_or("").to_string();
            target.entry(id.to_string()).or_insert(node);
        }
    }
    boxes.into_iter().map(|(id, label)| [label, target.get(&id).cloned().unwrap_or_default()]).collect()
}
