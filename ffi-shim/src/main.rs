//! `oxc`: driver of the C interface (property C19).  Links the ffi sources
//! (compiled as the library crate of this package) and calls them through the
//! hand-written prototypes in `capi.rs`.
//!
//! usage: oxc capi-seq|capi-enum|capi-oom|capi-mgr --kind bdd|bcdd|zbdd --seed N --tier quick|thorough --out DIR

// the `#[no_mangle]` symbols live in the rlib built from /repo/crates/oxidd-ffi-c/src
extern crate oxidd_ffi_c;

mod capi;
mod csession;
mod drv_capi;
mod ext;
mod kinds;
mod util;

use oxidd::bcdd::BCDDFunction;
use oxidd::bdd::BDDFunction;
use oxidd::zbdd::ZBDDFunction;

use util::Args;

fn main() {
    let argv: Vec<String> = std::env::args().collect();
    if argv.len() < 2 {
        eprintln!("usage: oxc <driver> [--key value]...");
        std::process::exit(2);
    }
    let args = Args::parse(&argv[2..]);
    let kind = args.get("kind", "bdd");
    if !args.has("verbose") {
        std::panic::set_hook(Box::new(|_| {}));
    }
    let d = argv[1].as_str();
    if !d.starts_with("capi-") {
        eprintln!("unknown driver {d}");
        std::process::exit(2);
    }
    match kind.as_str() {
        "bdd" => drv_capi::run::<BDDFunction>(d, &args),
        "bcdd" => drv_capi::run::<BCDDFunction>(d, &args),
        "zbdd" => drv_capi::run::<ZBDDFunction>(d, &args),
        k => panic!("harness: unknown kind {k}"),
    }
}
