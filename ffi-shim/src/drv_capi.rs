//! Drivers of the C interface (C19):
//!  * `capi-seq`  seeded random call sequences over all exercised entry points
//!  * `capi-enum` enumerated calls (every operator on every operand pair of a
//!                small pool, every ref/unref/gc sequence up to length 3)
//!  * `capi-mgr`  scripted manager reference histories
//!  * `capi-each` one short history per entry point (manager created, the
//!                call, everything released): attributes a manager reference
//!                leak, which only shows when the manager should die, to a call
//!  * `capi-oom`  tiny managers: invalid handles produced by exhausting the
//!                capacity, passed to every operation in every position

use crate::csession::{Arg, CKind, CSession, CSubst, Slot, BIN_OPS};
use crate::util::{json, write_summary, Args, Rng, TraceOut};

pub fn run<F: CKind>(driver: &str, args: &Args) {
    match driver {
        "capi-seq" => seq::<F>(args),
        "capi-enum" => enumerated::<F>(args),
        "capi-mgr" => mgr::<F>(args),
        "capi-oom" => oom::<F>(args),
        "capi-each" => each::<F>(args),
        "capi-race" => race::<F>(args),
        d => {
            eprintln!("unknown driver {d}");
            std::process::exit(2);
        }
    }
}

const QUANTS: [&str; 3] = ["exists", "forall", "unique"];
const ZBIN: [&str; 3] = ["union", "intsec", "diff"];
const ZVAR: [&str; 3] = ["subset0", "subset1", "change"];

fn tmp_of(args: &Args, name: &str) -> String {
    format!("{}/tmp-{}", args.get("out", "/verif/out/tmp"), name)
}

/// conjunction of literals built through the C interface; intermediate
/// handles are unref'ed
fn cube<F: CKind>(s: &mut CSession<F>, lits: &[(u32, bool)]) -> Option<Slot> {
    let mut c = s.konst(true)?;
    for &(v, pos) in lits {
        let l = s.var(v, pos)?;
        let c2 = s.bin("and", Some(c), Some(l));
        s.cunref(c);
        s.cunref(l);
        c = c2?;
    }
    Some(c)
}

fn pick(rng: &mut Rng, live: &[Slot]) -> Slot {
    live[rng.below(live.len())]
}

fn free_substs<F: CKind>(s: &mut CSession<F>, substs: &mut Vec<CSubst<F>>) {
    for x in substs.drain(..) {
        s.subst_free(x);
    }
}

/// V binding: seeded random call sequences
fn seq<F: CKind>(args: &Args) {
    let dir = args.get("out", "/verif/out/tmp");
    let seed = args.num("seed", 1);
    let count = args.num("count", 20);
    let nmax = args.num("nmax", 5) as u32;
    let steps_max = args.num("steps", 36) as usize;
    let has_q = F::HAS_QUANT;
    let has_z = F::HAS_ZOPS;
    let name = format!("capi-seq-{}", F::KIND);
    let mut out = TraceOut::new(&dir, &name, args.num("chunk", 700) as usize);
    let mut rng = Rng::new(seed ^ 0xC19);
    let tmp = tmp_of(args, &name);
    let mut calls = 0u64;
    let mut nontrivial = 0u64;

    for hno in 0..count {
        let n0 = 2 + rng.below((nmax - 1) as usize) as u32;
        let cache = [1usize, 2, 16, 1024][rng.below(4)];
        let threads = [1u32, 1, 2, 4][rng.below(4)];
        let mut s: CSession<F> = CSession::new(&mut out, 1 << 16, cache, threads, "", &tmp);
        // variables: unnamed / named (array) / named (iterator)
        let mode = rng.below(6);
        let names: Vec<Option<String>> = (0..n0)
            .map(|i| if mode >= 3 && !(mode == 4 && i == 1) { Some(format!("x{i}")) } else { None })
            .collect();
        s.add_vars(&names, mode == 5 || mode == 2);
        if mode >= 3 {
            s.names_obs();
        }
        if rng.chance(1, 2) {
            let p = rng.perm(n0 as usize);
            s.reorder(&p);
        }
        let steps = 8 + rng.below(steps_max);
        let mut substs: Vec<CSubst<F>> = Vec::new();
        // how the history ends: 0 = functions first, 1 = manager references
        // first (functions keep the manager alive), 2 = manager references
        // first and the last function reference frees the manager
        let ending = rng.below(4);
        for _ in 0..steps {
            let live = s.live();
            if live.len() > 14 {
                for &x in live.iter().take(7) {
                    s.cunref(x);
                }
                free_substs(&mut s, &mut substs);
                s.gc();
                continue;
            }
            let c = rng.below(130);
            let before = s.live().len();
            if live.len() < 2 || c < 10 {
                let v = rng.below(s.n as usize) as u32;
                s.var(v, rng.chance(2, 3));
            } else if c < 34 {
                let (a, b) = (pick(&mut rng, &live), pick(&mut rng, &live));
                if rng.chance(1, 12) {
                    s.bin_in_pool(BIN_OPS[rng.below(8)], a, b);
                } else {
                    s.bin(BIN_OPS[rng.below(8)], Some(a), Some(b));
                }
            } else if c < 38 {
                let a = pick(&mut rng, &live);
                s.not(Some(a));
            } else if c < 44 {
                let (a, b, d) = (pick(&mut rng, &live), pick(&mut rng, &live), pick(&mut rng, &live));
                s.ite(Some(a), Some(b), Some(d));
            } else if c < 52 {
                if has_q {
                    let vs: Vec<(u32, bool)> = (0..s.n).filter(|_| rng.chance(1, 3)).map(|v| (v, true)).collect();
                    if let Some(cs) = cube(&mut s, &vs) {
                        let q = QUANTS[rng.below(3)];
                        let a = pick(&mut rng, &live);
                        if rng.chance(1, 2) {
                            s.quant(q, Some(a), Some(cs));
                        } else {
                            let b = pick(&mut rng, &live);
                            s.apply_quant(q, BIN_OPS[rng.below(8)], Some(a), Some(b), Some(cs));
                        }
                        s.cunref(cs);
                    }
                } else if has_z {
                    let a = pick(&mut rng, &live);
                    let v = rng.below(s.n as usize) as u32;
                    match rng.below(3) {
                        0 => s.zvar(ZVAR[rng.below(3)], Some(a), v),
                        1 => {
                            let b = pick(&mut rng, &live);
                            s.zbin(ZBIN[rng.below(3)], Some(a), Some(b))
                        }
                        _ => s.zconst(["singleton", "empty", "base"][rng.below(3)], v),
                    };
                }
            } else if c < 57 {
                if has_q {
                    let mut lits: Vec<(u32, bool)> = Vec::new();
                    for v in 0..s.n {
                        if rng.chance(1, 3) {
                            lits.push((v, rng.chance(1, 2)));
                        }
                    }
                    if let Some(cs) = cube(&mut s, &lits) {
                        let a = pick(&mut rng, &live);
                        s.restrict(Some(a), Some(cs));
                        s.cunref(cs);
                    }
                } else if has_z && live.len() >= 2 {
                    // make_node: top-most variable, children without it
                    let top = s.snap_top_var();
                    let (a, b) = (pick(&mut rng, &live), pick(&mut rng, &live));
                    if let (Some(hi), Some(lo), Some(var)) = (s.zvar("subset0", Some(a), top), s.zvar("subset0", Some(b), top), s.zconst("singleton", top)) {
                        s.make_node(var, hi, lo);
                        s.cunref(hi);
                        s.cunref(lo);
                        s.cunref(var);
                    }
                }
            } else if c < 63 {
                if has_q {
                    if substs.is_empty() || rng.chance(1, 2) {
                        let mut vars: Vec<u32> = (0..s.n).filter(|_| rng.chance(1, 3)).collect();
                        if vars.is_empty() {
                            vars.push(rng.below(s.n as usize) as u32);
                        }
                        let pairs: Vec<(u32, Slot)> = vars.iter().map(|&v| (v, pick(&mut rng, &live))).collect();
                        let x = s.subst_new(&pairs);
                        substs.push(x);
                    }
                    let k = rng.below(substs.len());
                    let a = pick(&mut rng, &live);
                    s.substitute(Some(a), &substs[k]);
                    if substs.len() > 2 || rng.chance(1, 4) {
                        let x = substs.remove(rng.below(substs.len()));
                        s.subst_free(x);
                    }
                    if rng.chance(1, 10) {
                        s.substitute_null(a);
                    }
                }
            } else if c < 71 {
                let a = pick(&mut rng, &live);
                s.cref(a);
            } else if c < 80 {
                let a = pick(&mut rng, &live);
                s.cunref(a);
            } else if c < 84 {
                s.gc();
            } else if c < 86 {
                if s.n < nmax {
                    let nm = if rng.chance(1, 2) { Some(format!("y{}_{}", hno, s.n)) } else { None };
                    s.add_vars(&[nm], rng.chance(1, 3));
                }
            } else if c < 89 {
                if !has_z {
                    let mut p = rng.perm(s.n as usize);
                    p.truncate(1 + rng.below(s.n as usize));
                    s.reorder(&p);
                }
            } else if c < 95 {
                let a = pick(&mut rng, &live);
                s.cofactors(Some(a), rng.below(3) as u8);
            } else if c < 100 {
                let a = pick(&mut rng, &live);
                if rng.chance(1, 2) {
                    s.pick_cube_dd(Some(a));
                } else {
                    let mut lits: Vec<(u32, bool)> = Vec::new();
                    for v in 0..s.n {
                        if rng.chance(1, 2) {
                            lits.push((v, rng.chance(1, 2)));
                        }
                    }
                    if let Some(cs) = cube(&mut s, &lits) {
                        s.pick_cube_dd_set(Some(a), Some(cs));
                        s.cunref(cs);
                    }
                }
            } else if c < 105 {
                let a = pick(&mut rng, &live);
                s.queries(a);
            } else if c < 108 {
                if rng.chance(1, 2) {
                    let v = rng.below(s.n as usize) as u32;
                    let nm = ["", "a", "b", "x0", "long_name"][rng.below(5)];
                    s.set_var_name(v, nm);
                }
                s.names_obs();
            } else if c < 113 {
                match rng.below(3) {
                    0 => s.mgr_ref(),
                    1 => {
                        if s.mgrs.len() > 1 {
                            s.mgr_unref()
                        }
                    }
                    _ => {
                        let a = pick(&mut rng, &live);
                        s.containing_manager(a)
                    }
                }
            } else if c < 119 {
                // an operation with the invalid handle in some operand position
                invalid_call(&mut s, &mut rng, &live, &substs);
            } else if c < 123 {
                let k = 1 + rng.below(3.min(live.len()));
                let roots: Vec<Slot> = (0..k).map(|_| pick(&mut rng, &live)).collect();
                let args: Vec<Arg> = roots.iter().map(|&x| Some(x)).collect();
                let via_iter = rng.chance(1, 3);
                let (ok, path) = s.export_dddmp(&args, rng.chance(1, 2), via_iter);
                if ok && rng.chance(2, 3) {
                    s.import_dddmp(&path, &roots);
                }
            } else if c < 126 {
                let k = rng.below(3.min(live.len()) + 1);
                // (an invalid handle now and then: it is skipped together with its name)
                let roots: Vec<Arg> =
                    (0..k).map(|_| if rng.chance(1, 6) { None } else { Some(pick(&mut rng, &live)) }).collect();
                s.dot(&roots, rng.chance(1, 2));
            } else {
                s.obs();
            }
            if s.live().len() > before {
                nontrivial += 1;
            }
        }
        match ending {
            1 | 2 if !s.live().is_empty() => {
                free_substs(&mut s, &mut substs);
                while !s.mgrs.is_empty() {
                    s.mgr_unref();
                }
                s.mend(false);
                // operations need no manager handle
                let live = s.live();
                let (a, b) = (pick(&mut rng, &live), pick(&mut rng, &live));
                s.bin(BIN_OPS[rng.below(8)], Some(a), Some(b));
                if ending == 1 {
                    let a = s.live()[0];
                    s.containing_manager(a);
                    calls += s.calls;
                    s.finish(Vec::new());
                } else {
                    s.obs();
                    let live = s.live();
                    s.auto_snap = false;
                    for (i, &x) in live.iter().enumerate() {
                        if i + 1 == live.len() {
                            s.snap();
                        }
                        s.cunref(x);
                    }
                    s.mend(true);
                    calls += s.calls;
                    s.teardown();
                }
            }
            _ => {
                calls += s.calls;
                s.finish(std::mem::take(&mut substs));
            }
        }
    }
    out.finish();
    let _ = std::fs::remove_dir_all(&tmp);
    write_summary(&dir, &name, &out, json!({"rows":calls,"nontrivial":nontrivial}));
}

/// one operation with the invalid handle in at least one operand position
fn invalid_call<F: CKind>(s: &mut CSession<F>, rng: &mut Rng, live: &[Slot], substs: &[CSubst<F>]) {
    let a: Arg = if rng.chance(1, 2) { Some(pick(rng, live)) } else { None };
    let b: Arg = if a.is_some() || rng.chance(1, 2) { None } else { Some(pick(rng, live)) };
    let c: Arg = if rng.chance(1, 2) { Some(pick(rng, live)) } else { None };
    match rng.below(10) {
        0 => {
            s.not(None);
        }
        1 | 2 => {
            s.bin(BIN_OPS[rng.below(8)], a, b);
        }
        3 => {
            s.ite(a, b, c);
        }
        4 => {
            if F::HAS_QUANT {
                if rng.chance(1, 2) {
                    s.quant(QUANTS[rng.below(3)], a, b);
                } else {
                    s.apply_quant(QUANTS[rng.below(3)], BIN_OPS[rng.below(8)], a, b, c);
                }
            } else {
                s.zbin(ZBIN[rng.below(3)], a, b);
            }
        }
        5 => {
            if F::HAS_QUANT {
                s.restrict(a, b);
            } else {
                s.zvar(ZVAR[rng.below(3)], None, rng.below(s.n as usize) as u32);
            }
        }
        6 => s.cofactors(None, rng.below(3) as u8),
        7 => {
            if rng.chance(1, 2) {
                s.pick_cube_dd(None);
            } else {
                s.pick_cube_dd_set(a, b);
            }
        }
        8 => {
            if F::HAS_QUANT && !substs.is_empty() {
                s.substitute(None, &substs[rng.below(substs.len())]);
            } else {
                s.invalid_noops();
            }
        }
        _ => s.invalid_noops(),
    }
}

impl<'t, F: CKind> CSession<'t, F> {
    /// variable on the top-most level (through the C interface)
    pub fn snap_top_var(&self) -> u32 {
        unsafe { (self.api.manager_level_to_var)(self.mptr, 0) }
    }
}

/// a pool of functions over 3 variables built through the C interface
fn pool<F: CKind>(s: &mut CSession<F>) -> Vec<Slot> {
    let f = s.konst(false).unwrap();
    let t = s.konst(true).unwrap();
    let x0 = s.var(0, true).unwrap();
    let nx1 = s.var(1, false).unwrap();
    let x1 = s.var(1, true).unwrap();
    let x2 = s.var(2, true).unwrap();
    let a = s.bin("and", Some(x0), Some(x1)).unwrap();
    let x = s.bin("xor", Some(x0), Some(x2)).unwrap();
    let o = s.bin("or", Some(a), Some(x2)).unwrap();
    s.cunref(x1);
    s.cunref(x2);
    vec![f, t, x0, nx1, a, x, o]
}

/// ownership pattern applied to a fresh result
fn pattern<F: CKind>(s: &mut CSession<F>, r: Option<Slot>, p: usize) -> Option<Slot> {
    let r = r?;
    match p % 6 {
        0 => s.cunref(r),
        1 => {
            let r2 = s.cref(r);
            s.cunref(r);
            s.cunref(r2);
        }
        2 => {
            s.gc();
            s.cunref(r);
        }
        3 => {
            s.cunref(r);
            s.gc();
        }
        4 => {
            let r2 = s.cref(r);
            let r3 = s.cref(r2);
            s.gc();
            s.cunref(r2);
            s.cunref(r);
            s.cunref(r3);
        }
        _ => return Some(r),
    }
    None
}

/// enumerated calls
fn enumerated<F: CKind>(args: &Args) {
    let dir = args.get("out", "/verif/out/tmp");
    let seed = args.num("seed", 1);
    let thorough = args.get("tier", "quick") == "thorough";
    let name = format!("capi-enum-{}", F::KIND);
    let mut out = TraceOut::new(&dir, &name, args.num("chunk", 700) as usize);
    let mut rng = Rng::new(seed ^ 0xE19);
    let tmp = tmp_of(args, &name);
    let mut calls = 0u64;
    let mut rows = 0u64;
    let orders: Vec<Vec<u32>> = if thorough { crate::util::permutations(3) } else { vec![vec![0, 1, 2], vec![2, 0, 1]] };

    // part 1: every operator on every operand tuple of the pool
    for (oi, ord) in orders.iter().enumerate() {
        let groups: Vec<&str> = vec!["bin", "un", "ite", "kind", "io"];
        for grp in groups {
            let threads = [1u32, 2][(oi + grp.len()) % 2];
            let mut s: CSession<F> = CSession::new(&mut out, 1 << 14, [4usize, 256][oi % 2], threads, "enum", &tmp);
            s.add_vars(&[None, None, None], false);
            if oi > 0 && !F::HAS_ZOPS {
                s.reorder(ord);
            } else if oi > 0 {
                s.reorder(ord); // no function exists yet
            }
            let p = pool(&mut s);
            let mut kept: Vec<Slot> = Vec::new();
            let mut k = rng.below(6);
            macro_rules! done {
                ($r:expr) => {{
                    k += 1;
                    rows += 1;
                    if let Some(x) = pattern(&mut s, $r, k) {
                        kept.push(x);
                    }
                    if kept.len() > 10 {
                        for x in kept.drain(..) {
                            s.cunref(x);
                        }
                        s.gc();
                    }
                }};
            }
            match grp {
                "bin" => {
                    for op in BIN_OPS {
                        for &a in &p {
                            for &b in &p {
                                let r = s.bin(op, Some(a), Some(b));
                                done!(r);
                            }
                        }
                    }
                }
                "un" => {
                    for &a in &p {
                        let r = s.not(Some(a));
                        done!(r);
                        for w in 0..3 {
                            s.cofactors(Some(a), w);
                            for x in s.live() {
                                if !p.contains(&x) && !kept.contains(&x) {
                                    s.cunref(x);
                                }
                            }
                        }
                        let r = s.pick_cube_dd(Some(a));
                        done!(r);
                        for code in [0u32, 1, 5, 13, 17, 26] {
                            let lits: Vec<(u32, bool)> = (0..3u32).filter_map(|v| match (code / 3u32.pow(v)) % 3 { 0 => None, d => Some((v, d == 1)) }).collect();
                            let cs = cube(&mut s, &lits).unwrap();
                            let r = s.pick_cube_dd_set(Some(a), Some(cs));
                            s.cunref(cs);
                            done!(r);
                        }
                        s.queries(a);
                        let r2 = s.cref(a);
                        s.cunref(r2);
                    }
                    s.obs();
                }
                "ite" => {
                    let sel = [p[1], p[2], p[4], p[5], p[3]];
                    for &a in &sel {
                        for &b in &sel {
                            for &c in &sel {
                                let r = s.ite(Some(a), Some(b), Some(c));
                                done!(r);
                            }
                        }
                    }
                }
                "kind" => {
                    if F::HAS_QUANT {
                        for mask in 0..8u32 {
                            let vs: Vec<(u32, bool)> = (0..3).filter(|v| (mask >> v) & 1 == 1).map(|v| (v, true)).collect();
                            let cs = cube(&mut s, &vs).unwrap();
                            for q in QUANTS {
                                for &a in &p {
                                    let r = s.quant(q, Some(a), Some(cs));
                                    done!(r);
                                    if mask % 3 == 1 {
                                        let b = p[(mask as usize + a) % p.len()];
                                        let r = s.apply_quant(q, BIN_OPS[(k + a) % 8], Some(a), Some(b), Some(cs));
                                        done!(r);
                                    }
                                }
                            }
                            s.cunref(cs);
                        }
                        for code in 0..27u32 {
                            let lits: Vec<(u32, bool)> = (0..3u32).filter_map(|v| match (code / 3u32.pow(v)) % 3 { 0 => None, d => Some((v, d == 1)) }).collect();
                            let cs = cube(&mut s, &lits).unwrap();
                            for &a in &p {
                                let r = s.restrict(Some(a), Some(cs));
                                done!(r);
                            }
                            s.cunref(cs);
                        }
                        for (i, &(v1, r1, v2, r2)) in [(0u32, 3usize, 1u32, 4usize), (2, 5, 0, 6), (1, 1, 2, 2)].iter().enumerate() {
                            let sub = s.subst_new(&[(v1, p[r1]), (v2, p[r2])]);
                            for &a in &p {
                                let r = s.substitute(Some(a), &sub);
                                done!(r);
                            }
                            if i == 0 {
                                s.substitute_null(p[4]);
                            }
                            s.subst_free(sub);
                        }
                    } else {
                        for op in ZBIN {
                            for &a in &p {
                                for &b in &p {
                                    let r = s.zbin(op, Some(a), Some(b));
                                    done!(r);
                                }
                            }
                        }
                        for op in ZVAR {
                            for v in 0..3u32 {
                                for &a in &p {
                                    let r = s.zvar(op, Some(a), v);
                                    done!(r);
                                }
                            }
                        }
                        for v in 0..3u32 {
                            let r = s.zconst("singleton", v);
                            done!(r);
                        }
                        let r = s.zconst("empty", 0);
                        done!(r);
                        let r = s.zconst("base", 0);
                        done!(r);
                        let top = s.snap_top_var();
                        let var = s.zconst("singleton", top).unwrap();
                        for &a in &p {
                            for &b in &p {
                                let hi = s.zvar("subset0", Some(a), top).unwrap();
                                let lo = s.zvar("subset0", Some(b), top).unwrap();
                                let r = s.make_node(var, hi, lo);
                                done!(r);
                                s.cunref(hi);
                                s.cunref(lo);
                            }
                        }
                        s.cunref(var);
                    }
                }
                _ => {
                    for (i, &a) in p.iter().enumerate() {
                        let b = p[(i + 3) % p.len()];
                        let (ok, path) = s.export_dddmp(&[Some(a), Some(b)], i % 2 == 0, i % 3 == 0);
                        if ok {
                            for r in s.import_dddmp(&path, &[a, b]) {
                                done!(r);
                            }
                        }
                        s.dot(&[Some(a), Some(b)], i % 2 == 1);
                    }
                    s.dot(&[], false);
                    let r = s.bin_in_pool("and", p[4], p[5]);
                    done!(r);
                    s.set_var_name(0, "a");
                    s.set_var_name(1, "a");
                    s.set_var_name(1, "b");
                    s.set_var_name(0, "");
                    s.names_obs();
                    s.add_vars(&[Some("c".into()), Some("d".into())], false);
                    s.add_vars(&[Some("e".into()), Some("b".into()), Some("f".into())], true);
                    s.names_obs();
                    s.obs();
                }
            }
            calls += s.calls;
            s.finish(Vec::new());
        }
    }

    // part 2: every sequence of up to 3 calls from {ref a, unref a, ref b,
    // unref b, gc} (a = x0 /\ x1, b = its child x1) that keeps the ledger
    // non-negative; state reset between sequences by unref of the extras
    let alphabet = 5usize;
    let maxlen = if thorough { 4 } else { 3 };
    let mut seqs: Vec<Vec<usize>> = vec![vec![]];
    let mut all: Vec<Vec<usize>> = Vec::new();
    for _ in 0..maxlen {
        let mut next = Vec::new();
        for q in &seqs {
            for c in 0..alphabet {
                let mut q2 = q.clone();
                q2.push(c);
                next.push(q2);
            }
        }
        all.extend(next.iter().cloned());
        seqs = next;
    }
    let per_mgr = 40;
    for chunk in all.chunks(per_mgr) {
        let mut s: CSession<F> = CSession::new(&mut out, 1 << 12, 16, 1, "enum-ref", &tmp);
        s.add_vars(&[None, None, None], false);
        for q in chunk {
            // a: an inner node with a child node b
            let x0 = s.var(0, true).unwrap();
            let x1 = s.var(1, true).unwrap();
            let a = s.bin("and", Some(x0), Some(x1)).unwrap();
            s.cunref(x0);
            let mut ha = vec![a];
            let mut hb = vec![x1];
            let mut okseq = true;
            for &c in q {
                match c {
                    0 if !ha.is_empty() => {
                        let r = s.cref(ha[0]);
                        ha.push(r);
                    }
                    1 if !ha.is_empty() => {
                        let x = ha.pop().unwrap();
                        s.cunref(x);
                    }
                    2 if !hb.is_empty() => {
                        let r = s.cref(hb[0]);
                        hb.push(r);
                    }
                    3 if !hb.is_empty() => {
                        let x = hb.pop().unwrap();
                        s.cunref(x);
                    }
                    4 => s.gc(),
                    _ => {
                        okseq = false; // would use a released handle: not a legal client
                        break;
                    }
                }
            }
            if okseq {
                rows += 1;
            }
            for x in ha.into_iter().chain(hb) {
                s.cunref(x);
            }
            s.gc();
        }
        calls += s.calls;
        s.finish(Vec::new());
    }
    out.finish();
    let _ = std::fs::remove_dir_all(&tmp);
    write_summary(&dir, &name, &out, json!({"rows":calls,"nontrivial":rows}));
}

/// scripted manager reference histories
fn mgr<F: CKind>(args: &Args) {
    let dir = args.get("out", "/verif/out/tmp");
    let name = format!("capi-mgr-{}", F::KIND);
    let mut out = TraceOut::new(&dir, &name, 2000);
    let tmp = tmp_of(args, &name);
    let mut calls = 0u64;
    let mut rows = 0u64;
    for threads in [1u32, 3] {
        // H1: only manager references
        let mut s: CSession<F> = CSession::new(&mut out, 1 << 10, 16, threads, "mgr", &tmp);
        s.mgr_ref();
        s.mgr_ref();
        s.mgr_unref();
        s.mgr_unref();
        s.mend(false);
        s.mgr_unref();
        s.mend(true);
        calls += s.calls;
        rows += 1;
        s.teardown();

        // H2: a function keeps the manager alive; containing_manager returns an owned reference
        let mut s: CSession<F> = CSession::new(&mut out, 1 << 10, 16, threads, "mgr", &tmp);
        s.add_vars(&[None, None], false);
        let f = s.var(0, true).unwrap();
        s.mgr_unref();
        s.mend(false);
        let g = s.not(Some(f)).unwrap();
        let h = s.bin("and", Some(f), Some(g));
        s.queries(g);
        s.obs();
        s.containing_manager(f);
        s.containing_manager(g);
        s.mgr_unref();
        if let Some(h) = h {
            s.cunref(h);
        }
        calls += s.calls;
        rows += 1;
        s.finish(Vec::new());

        // H3: the last function reference frees the manager
        let mut s: CSession<F> = CSession::new(&mut out, 1 << 10, 16, threads, "mgr", &tmp);
        s.add_vars(&[None, None], false);
        let f = s.var(1, true).unwrap();
        let f2 = s.cref(f);
        s.mgr_unref();
        s.cunref(f);
        s.mend(false);
        s.auto_snap = false;
        s.cunref(f2);
        s.mend(true);
        calls += s.calls;
        rows += 1;
        s.teardown();

        // H4: two manager references, one from containing_manager, released before the function
        let mut s: CSession<F> = CSession::new(&mut out, 1 << 10, 16, threads, "mgr", &tmp);
        s.add_vars(&[None], false);
        let f = s.var(0, false).unwrap();
        s.containing_manager(f);
        s.mgr_unref();
        s.mgr_unref();
        s.mend(false);
        s.auto_snap = false;
        s.cunref(f);
        s.mend(true);
        calls += s.calls;
        rows += 1;
        s.teardown();

        // H5: a substitution object holds the only function reference
        if F::HAS_QUANT {
            let mut s: CSession<F> = CSession::new(&mut out, 1 << 10, 16, threads, "mgr", &tmp);
            s.add_vars(&[None, None], false);
            let f = s.var(0, true).unwrap();
            let g = s.var(1, true).unwrap();
            let sub = s.subst_new(&[(0, g)]);
            s.cunref(g);
            s.gc();
            let r = s.substitute(Some(f), &sub);
            s.subst_free(sub);
            s.gc();
            if let Some(r) = r {
                s.queries(r);
            }
            calls += s.calls;
            rows += 1;
            s.finish(Vec::new());
        }
        // substitution objects created one after the other (the second typically gets the memory of the
        // first): different replacements for the same variable on the same operand, large apply cache,
        // no collection in between
        if F::HAS_QUANT {
            let mut s: CSession<F> = CSession::new(&mut out, 1 << 12, 1 << 12, threads, "mgr", &tmp);
            s.add_vars(&[None, None, None, None], false);
            let xs: Vec<Slot> = (0..4).map(|v| s.var(v, true).unwrap()).collect();
            let f = s.bin("and", Some(xs[0]), Some(xs[1])).unwrap();
            let g = s.bin("xor", Some(xs[0]), Some(xs[1])).unwrap();
            for round in 0..3 {
                for &(v, r) in &[(0u32, 2usize), (0, 3), (1, 2), (0, 1)] {
                    let sub = s.subst_new(&[(v, xs[r])]);
                    let r1 = s.substitute(Some(f), &sub);
                    let r2 = s.substitute(Some(g), &sub);
                    s.subst_free(sub);
                    for r in [r1, r2].into_iter().flatten() {
                        if round == 0 {
                            s.queries(r);
                        }
                        s.cunref(r);
                    }
                }
            }
            calls += s.calls;
            rows += 1;
            s.finish(Vec::new());
        }
    }
    out.finish();
    let _ = std::fs::remove_dir_all(&tmp);
    write_summary(&dir, &name, &out, json!({"rows":calls,"nontrivial":rows}));
}

/// tiny managers: the capacity is exhausted through the C interface; the
/// invalid handle obtained this way is passed to every operation
fn oom<F: CKind>(args: &Args) {
    let dir = args.get("out", "/verif/out/tmp");
    let seed = args.num("seed", 1);
    let thorough = args.get("tier", "quick") == "thorough";
    let name = format!("capi-oom-{}", F::KIND);
    let mut out = TraceOut::new(&dir, &name, 900);
    let mut rng = Rng::new(seed ^ 0x00A);
    let tmp = tmp_of(args, &name);
    let mut calls = 0u64;
    let mut rows = 0u64;
    let n = 4u32;
    // a ZBDD manager needs one node per variable for itself
    let extra = if F::HAS_ZOPS { n as usize + 2 } else { 0 };
    let caps: Vec<usize> = (if thorough { vec![6, 7, 8, 9, 10, 12, 14, 16, 20, 24] } else { vec![6, 8, 11, 16] }).into_iter().map(|c| c + extra).collect();
    for &cap in &caps {
        for threads in [1u32, 2] {
            let mut s: CSession<F> = CSession::new(&mut out, cap, 4, threads, "oom", &tmp);
            s.add_vars(&vec![None; n as usize], false);
            // fill the store until an operation reports out-of-memory
            let mut got_invalid = false;
            let mut guard = 0;
            while !got_invalid && guard < 200 {
                guard += 1;
                let live = s.live();
                let r = if live.len() < 3 || rng.chance(1, 4) {
                    s.var(rng.below(n as usize) as u32, rng.chance(1, 2))
                } else {
                    let (a, b) = (pick(&mut rng, &live), pick(&mut rng, &live));
                    s.bin(["xor", "and", "or", "equiv"][rng.below(4)], Some(a), Some(b))
                };
                if r.is_none() {
                    got_invalid = true;
                }
            }
            if !got_invalid || s.live().len() < 2 {
                calls += s.calls;
                s.finish(Vec::new());
                continue;
            }
            rows += 1;
            // `s.inv` is the handle value the interface returned on OOM (bits: NULL, 0)
            let live = s.live();
            let x = pick(&mut rng, &live);
            let y = pick(&mut rng, &live);
            let (sx, sy) = (Some(x), Some(y));
            s.invalid_noops();
            s.not(None);
            for op in BIN_OPS {
                s.bin(op, None, sx);
                s.bin(op, sy, None);
                s.bin(op, None, None);
            }
            for m in 1..8u32 {
                let pickarg = |bit: u32, v: Arg| if (m >> bit) & 1 == 1 { None } else { v };
                s.ite(pickarg(0, sx), pickarg(1, sy), pickarg(2, sx));
            }
            for w in 0..3 {
                s.cofactors(None, w);
            }
            s.pick_cube_dd(None);
            s.pick_cube_dd_set(None, sx);
            s.pick_cube_dd_set(sx, None);
            if F::HAS_QUANT {
                for q in QUANTS {
                    s.quant(q, None, sx);
                    s.quant(q, sx, None);
                    s.apply_quant(q, BIN_OPS[rng.below(8)], None, sx, sy);
                    s.apply_quant(q, BIN_OPS[rng.below(8)], sx, None, sy);
                    s.apply_quant(q, BIN_OPS[rng.below(8)], sx, sy, None);
                }
                s.restrict(None, sx);
                s.restrict(sx, None);
                let sub = s.subst_new(&[(0, y)]);
                s.substitute(None, &sub);
                s.subst_free(sub);
            }
            if F::HAS_ZOPS {
                for op in ZBIN {
                    s.zbin(op, None, sx);
                    s.zbin(op, sx, None);
                }
                for op in ZVAR {
                    s.zvar(op, None, rng.below(n as usize) as u32);
                }
                // make_node with only invalid operands (no ownership is transferred)
                s.op("make_node", &[None, None, None], json!({}), |api, _, h| unsafe { (api.z().make_node)(h[0], h[1], h[2]) }, |_, _| Err(oxidd::util::OutOfMemory));
            }
            s.export_dddmp(&[sx, None], false, false);
            s.export_dddmp(&[None, sy], true, true);
            s.dot(&[sx, None], false);
            s.dot(&[None], true);
            // an invalid function between valid ones: it is skipped with its name
            s.dot(&[sx, None, sy], false);
            s.dot(&[None, sy, sx, None, sy], true);
            // free space: valid results again
            let live = s.live();
            for &z in live.iter().skip(2) {
                s.cunref(z);
            }
            s.gc();
            let live = s.live();
            let (a, b) = (live[0], live[live.len() - 1]);
            s.bin("and", Some(a), Some(b));
            if F::HAS_ZOPS {
                // make_node with ONE invalid child: "takes ownership of hi and lo" holds for the
                // valid one all the same (the caller must not unref it afterwards)
                let top = s.snap_top_var();
                if let Some(var) = s.zconst("singleton", top) {
                    if let Some(c) = s.zvar("subset0", Some(a), top) {
                        for pos in 0..2 {
                            s.make_node_one_invalid(var, c, pos);
                        }
                        s.cunref(c);
                    }
                    s.cunref(var);
                }
            }
            s.bin("xor", Some(a), Some(b));
            s.obs();
            calls += s.calls;
            s.finish(Vec::new());
        }
    }
    out.finish();
    let _ = std::fs::remove_dir_all(&tmp);
    write_summary(&dir, &name, &out, json!({"rows":calls,"nontrivial":rows}));
}

/// one short history per entry point
fn each<F: CKind>(args: &Args) {
    let dir = args.get("out", "/verif/out/tmp");
    let name = format!("capi-each-{}", F::KIND);
    let mut out = TraceOut::new(&dir, &name, 1500);
    let tmp = tmp_of(args, &name);
    let mut calls = 0u64;
    let mut rows = 0u64;
    let mut ops: Vec<String> = ["t", "f", "var", "not_var", "not", "ite", "cofactors", "cofactor_true", "cofactor_false",
        "cof_terminal", "pick_cube_dd", "pick_cube_dd_set", "queries", "obs", "ref", "gc", "add_vars", "add_named_vars",
        "add_named_vars_iter", "names", "set_var_name", "reorder", "export", "export_named", "export_iter", "export_named_iter", "import",
        "dot", "dot_iter", "pool", "containing", "invalid"]
        .iter()
        .map(|x| x.to_string())
        .collect();
    ops.extend(BIN_OPS.iter().map(|x| x.to_string()));
    if F::HAS_QUANT {
        ops.extend(["exists", "forall", "unique", "apply_exists", "apply_forall", "apply_unique", "restrict", "subst", "subst_null"].iter().map(|x| x.to_string()));
    }
    if F::HAS_ZOPS {
        ops.extend(["singleton", "empty", "base", "subset0", "subset1", "change", "union", "intsec", "diff", "make_node"].iter().map(|x| x.to_string()));
    }
    for (i, op) in ops.iter().enumerate() {
        let mut s: CSession<F> = CSession::new(&mut out, 1 << 10, 16, [1u32, 2][i % 2], &format!("each-{op}"), &tmp);
        s.add_vars(&[None, None, None], false);
        if op == "reorder" {
            s.reorder(&[2, 0, 1]);
        }
        let x0 = s.var(0, true).unwrap();
        let x1 = s.var(1, true).unwrap();
        let a = s.bin("and", Some(x0), Some(x1)).unwrap();
        let (sx0, sx1, sa) = (Some(x0), Some(x1), Some(a));
        match op.as_str() {
            "t" => drop(s.konst(true)),
            "f" => drop(s.konst(false)),
            "var" => drop(s.var(2, true)),
            "not_var" => drop(s.var(2, false)),
            "not" => drop(s.not(sa)),
            "ite" => drop(s.ite(sa, sx0, sx1)),
            "cofactors" => s.cofactors(sa, 0),
            "cofactor_true" => s.cofactors(sa, 1),
            "cofactor_false" => s.cofactors(sa, 2),
            "cof_terminal" => {
                let t = s.konst(true);
                for w in 0..3 {
                    s.cofactors(t, w);
                }
            }
            "pick_cube_dd" => drop(s.pick_cube_dd(sa)),
            "pick_cube_dd_set" => drop(s.pick_cube_dd_set(sa, sx1)),
            "queries" => s.queries(a),
            "obs" => s.obs(),
            "ref" => {
                let r = s.cref(a);
                s.cunref(a);
                s.cref(r);
            }
            "gc" => s.gc(),
            "add_vars" => s.add_vars(&[None], false),
            "add_named_vars" => s.add_vars(&[Some("p".into()), None, Some("q".into())], false),
            "add_named_vars_iter" => s.add_vars(&[Some("p".into()), Some("q".into())], true),
            "names" => {
                s.set_var_name(1, "one");
                s.names_obs();
            }
            "set_var_name" => {
                s.set_var_name(0, "a");
                s.set_var_name(1, "a");
                s.set_var_name(0, "");
            }
            "reorder" => {
                if !F::HAS_ZOPS {
                    s.reorder(&[1, 2, 0]);
                }
            }
            "export" => drop(s.export_dddmp(&[sa, sx0], false, false)),
            "export_named" => drop(s.export_dddmp(&[sa, sx0], true, false)),
            "export_iter" => drop(s.export_dddmp(&[sa, sx0], false, true)),
            "export_named_iter" => drop(s.export_dddmp(&[sa, sx0], true, true)),
            "import" => {
                let (ok, path) = s.export_dddmp(&[sa, sx1], true, false);
                if ok {
                    s.import_dddmp(&path, &[a, x1]);
                }
            }
            "dot" => s.dot(&[sa, sx0], false),
            "dot_iter" => s.dot(&[sa, sx0], true),
            "pool" => drop(s.bin_in_pool("or", a, x0)),
            "containing" => {
                s.containing_manager(a);
                s.mgr_unref();
                s.containing_manager(x0);
            }
            "invalid" => {
                s.invalid_noops();
                s.not(None);
                s.bin("and", None, sa);
                s.ite(sa, None, sx0);
                s.cofactors(None, 0);
            }
            "exists" | "forall" | "unique" => drop(s.quant(op, sa, sx0)),
            "apply_exists" | "apply_forall" | "apply_unique" => drop(s.apply_quant(&op[6..], "or", sa, sx1, sx0)),
            "restrict" => drop(s.restrict(sa, sx0)),
            "subst" => {
                let sub = s.subst_new(&[(0, x1), (2, a)]);
                s.substitute(sa, &sub);
                s.substitute(sx0, &sub);
                s.subst_free(sub);
            }
            "subst_null" => s.substitute_null(a),
            "singleton" | "empty" | "base" => drop(s.zconst(op, 1)),
            "subset0" | "subset1" | "change" => drop(s.zvar(op, sa, 1)),
            "union" | "intsec" | "diff" => drop(s.zbin(op, sa, sx1)),
            "make_node" => {
                let top = s.snap_top_var();
                let var = s.zconst("singleton", top).unwrap();
                let hi = s.zvar("subset0", sa, top).unwrap();
                let lo = s.zvar("subset0", sx1, top).unwrap();
                s.make_node(var, hi, lo);
            }
            b => drop(s.bin(b, sa, sx1)),
        }
        rows += 1;
        calls += s.calls;
        s.finish(Vec::new());
    }
    out.finish();
    let _ = std::fs::remove_dir_all(&tmp);
    write_summary(&dir, &name, &out, json!({"rows":calls,"nontrivial":rows}));
}

/// experiment (not part of the check): release a manager immediately after
/// its creation; prints how many managers never terminated
fn race<F: CKind>(args: &Args) {
    let api = F::api();
    let wait_us = args.num("wait", 0);
    let mut leaks = 0;
    let rounds = args.num("count", 200);
    for _ in 0..rounds {
        let base = crate::csession::os_threads();
        let before: std::collections::BTreeSet<u64> = std::fs::read_dir("/proc/self/task").unwrap().filter_map(|e| e.ok()?.file_name().to_str()?.parse().ok()).collect();
        let m = unsafe { (api.manager_new)(1024, 16, 1) };
        if args.has("settle") {
            let after: std::collections::BTreeSet<u64> = std::fs::read_dir("/proc/self/task").unwrap().filter_map(|e| e.ok()?.file_name().to_str()?.parse().ok()).collect();
            crate::csession::settle(&after.difference(&before).copied().collect(), 2000);
        }
        if wait_us > 0 {
            std::thread::sleep(std::time::Duration::from_micros(wait_us));
        }
        unsafe { (api.manager_unref)(m) };
        let t0 = std::time::Instant::now();
        while crate::csession::os_threads() > base && t0.elapsed().as_millis() < 300 {
            std::thread::sleep(std::time::Duration::from_micros(200));
        }
        if crate::csession::os_threads() > base {
            leaks += 1;
        }
    }
    println!("kind={} rounds={} wait_us={} never_terminated={}", F::KIND, rounds, wait_us, leaks);
}
