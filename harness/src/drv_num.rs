//! Scalar number drivers (C12: `Natural`; C10: `I64` / `F64` terminal types).
//!
//! The harness calls, observes and logs; it never decides what a value should
//! be.  Big numbers are transmitted as JSON arrays of base-2^15 limbs (least
//! significant first, no most-significant zero limbs) obtained by plain
//! shifting of the bits of the Rust representation (documented accessors
//! `Natural::mantissa()/exp()/is_nan()`, `i64 as u64`, `f64::to_bits()`).
//!
//! drivers: `natural-pairs`, `natural-clone`, `num-i64`, `num-f64`.
//!
//! Every result is a JSON object: `{"v": ...}` or `{"panic": msg}` (a panic of
//! the code under test is data).

use std::collections::hash_map::DefaultHasher;
use std::collections::HashSet;
use std::hash::{Hash, Hasher};

use oxidd_core::function::NumberBase;
use oxidd_core::util::num::Natural;
use oxidd_dump::ParseTagged;
use oxidd_rules_mtbdd::terminal::{F64, I64};

use crate::util::{catch, json, write_summary, Args, Rng, TraceOut, Value};

// ---------------------------------------------------------------------------
// transport encoding

/// base-2^15 limbs of the number whose little-endian 64-bit words are `ds`
pub fn limbs(ds: &[u64]) -> Vec<u32> {
    let nbits = ds.len() * 64;
    let mut out = Vec::with_capacity(nbits / 15 + 1);
    let mut p = 0usize;
    while p < nbits {
        let w = p / 64;
        let o = (p % 64) as u32;
        let mut x = ds[w] >> o;
        if o > 49 && w + 1 < ds.len() {
            x |= ds[w + 1] << (64 - o);
        }
        out.push((x & 0x7fff) as u32);
        p += 15;
    }
    while out.last() == Some(&0) {
        out.pop();
    }
    out
}
pub fn limbs64(x: u64) -> Vec<u32> {
    limbs(&[x])
}
pub fn limbs128(x: u128) -> Vec<u32> {
    limbs(&[x as u64, (x >> 64) as u64])
}

pub fn nat_json(n: &Natural) -> Value {
    if n.is_nan() {
        json!({"nan": true, "m": [], "e": []})
    } else {
        json!({"nan": false, "m": limbs(n.mantissa()), "e": limbs64(n.exp())})
    }
}
fn nat_res(r: Result<Natural, String>) -> Value {
    match r {
        Ok(n) => json!({"v": nat_json(&n)}),
        Err(m) => json!({"panic": m}),
    }
}
fn codes(s: &str) -> Vec<u32> {
    s.chars().map(|c| c as u32).collect()
}
fn hash_of<T: Hash>(x: &T) -> u64 {
    let mut h = DefaultHasher::new();
    x.hash(&mut h);
    h.finish()
}
fn ord_str(o: Option<std::cmp::Ordering>) -> &'static str {
    match o {
        Some(std::cmp::Ordering::Less) => "lt",
        Some(std::cmp::Ordering::Equal) => "eq",
        Some(std::cmp::Ordering::Greater) => "gt",
        None => "none",
    }
}

// ---------------------------------------------------------------------------
// history bookkeeping: independent events, short histories (cheap replay)

struct Hist {
    out: TraceOut,
    kind: &'static str,
    in_hist: usize,
    per_hist: usize,
    rows: u64,
    nontrivial: HashSet<u64>,
}
impl Hist {
    /// running counter (used to sample follow-up observations)
    fn adds_seen(&mut self) -> u64 {
        self.rows
    }
    fn new(dir: &str, prefix: &str, kind: &'static str, chunk: usize) -> Self {
        Hist {
            out: TraceOut::new(dir, prefix, chunk),
            kind,
            in_hist: usize::MAX,
            per_hist: 100,
            rows: 0,
            nontrivial: HashSet::new(),
        }
    }
    fn emit(&mut self, v: Value) {
        if self.in_hist >= self.per_hist {
            self.out.begin_history();
            self.out.emit(json!({"ev": "reset", "kind": self.kind}));
            self.in_hist = 0;
        }
        self.out.emit(v);
        self.in_hist += 1;
        self.rows += 1;
    }
    /// a case counts as non-trivial when the observed result is none of the
    /// operands (compared as transport values); distinct by content
    fn note(&mut self, op: &str, operands: &[&Value], res: &Value) {
        let r = res.get("v");
        if let Some(r) = r {
            if operands.iter().any(|o| *o == r) {
                return;
            }
        }
        let mut h = DefaultHasher::new();
        op.hash(&mut h);
        for o in operands {
            o.to_string().hash(&mut h);
        }
        self.nontrivial.insert(h.finish());
    }
    fn finish(mut self, dir: &str, name: &str) {
        self.out.finish();
        let nt = self.nontrivial.len();
        write_summary(dir, name, &self.out, json!({"rows": 0, "nontrivial": nt}));
    }
}

// ---------------------------------------------------------------------------
// Natural

fn pow2_digits(k: usize, delta: i32) -> Vec<u64> {
    // digits of 2^k + delta (delta in {-1, 0, 1}), by setting bits
    let mut d = vec![0u64; k / 64 + 1];
    match delta {
        0 => d[k / 64] = 1u64 << (k % 64),
        1 => {
            d[k / 64] = 1u64 << (k % 64);
            d[0] |= 1;
        }
        _ => {
            // 2^k - 1: k one-bits
            for i in 0..k {
                d[i / 64] |= 1u64 << (i % 64);
            }
        }
    }
    d
}

const KS: [usize; 11] = [31, 32, 63, 64, 65, 127, 128, 129, 191, 192, 193];
const KS_MORE: [usize; 8] = [1, 2, 15, 16, 255, 256, 257, 511];

fn boundary_digit_sets(thorough: bool) -> Vec<Vec<u64>> {
    let mut v: Vec<Vec<u64>> = vec![vec![0], vec![1]];
    for &k in KS.iter() {
        for d in [-1, 0, 1] {
            v.push(pow2_digits(k, d));
        }
    }
    // the type's digit boundaries (64-bit digits) and representation corner
    // cases: all-ones digits, top digit 1, a zero digit in the middle,
    // mantissas that end exactly at a digit boundary
    let m = u64::MAX;
    let hi = 1u64 << 63;
    v.extend([
        vec![m, m],
        vec![m, 1],
        vec![1, m],
        vec![1, hi],
        vec![m, hi],
        vec![1, 0, 1],
        vec![m, m, m],
        vec![1, 1],
        vec![0, hi, 1],
        vec![m - 1, 1],
        vec![2, m],
        vec![hi | 1],
        vec![m ^ hi, 1],
        vec![m, m, m, m],
        vec![1, 0, 0, hi],
    ]);
    let more: &[usize] = if thorough { &KS_MORE } else { &KS_MORE[4..] };
    for &k in more {
        for d in [-1, 0, 1] {
            if k == 1 && d == -1 {
                continue;
            }
            v.push(pow2_digits(k, d));
        }
    }
    v
}

fn random_digits(rng: &mut Rng) -> Vec<u64> {
    // up to 512 bits; varied shapes: dense, sparse, long runs of ones/zeros
    let nd = 1 + rng.below(8);
    let mut d: Vec<u64> = (0..nd)
        .map(|_| match rng.below(6) {
            0 => 0,
            1 => u64::MAX,
            2 => 1u64 << rng.below(64),
            3 => u64::MAX << rng.below(64),
            _ => rng.next(),
        })
        .collect();
    if rng.chance(1, 2) {
        let bits = rng.below(64) as u32;
        let last = d.len() - 1;
        d[last] >>= bits;
    }
    if rng.chance(1, 3) {
        d[0] &= u64::MAX << rng.below(64);
    }
    d
}

fn mk_nat(ds: &[u64]) -> Natural {
    Natural::from_le_digits(ds)
}

fn nat_add(h: &mut Hist, a: &Natural, b: &Natural) {
    nat_add_x(h, a, b, true)
}

fn nat_add_x(h: &mut Hist, a: &Natural, b: &Natural, follow: bool) {
    let (ja, jb) = (nat_json(a), nat_json(b));
    let (a2, b2) = (a.clone(), b.clone());
    let sum = catch(move || a2 + b2);
    let keep = sum.as_ref().ok().cloned();
    let r = nat_res(sum);
    h.note("add", &[&ja, &jb], &r);
    h.emit(json!({"ev": "nat_add", "a": ja, "b": jb, "res": r}));
    // a sum is an operand like any other (its internal digit array may be longer than
    // the value needs): the conversions of every third sum are observed as well
    if let Some(s) = keep {
        if !s.is_nan() && (h.adds_seen() % 3 == 0 || !follow) {
            nat_f64(h, &s);
            nat_try(h, &s);
        }
        // ... and it is added to again (model counting adds sums to sums): a small
        // operand with a larger / the same / a smaller exponent
        if follow && !s.is_nan() && s.exp() < u64::MAX - 200 {
            let k = h.adds_seen();
            let small = Natural::from([1u32, 3, 5][(k % 3) as usize]);
            let t = match k % 4 {
                0 => small << (s.exp() + 1 + k % 7),
                1 => small << s.exp(),
                2 => small << s.exp().saturating_sub(1 + k % 5),
                _ => small << (s.exp() + 64),
            };
            nat_add_x(h, &s, &t, false);
            nat_add_x(h, &t, &s, false);
        }
    }
}

fn nat_cmp(h: &mut Hist, a: &Natural, b: &Natural) {
    let (ja, jb) = (nat_json(a), nat_json(b));
    let r = catch(|| {
        let c = a.partial_cmp(b);
        let e = a == b;
        let he = hash_of(a) == hash_of(b);
        (c, e, he, a < b, a <= b, a > b, a >= b)
    });
    let res = match r {
        Ok((c, e, he, lt, le, gt, ge)) => {
            json!({"cmp": ord_str(c), "eq": e, "heq": he, "lt": lt, "le": le, "gt": gt, "ge": ge})
        }
        Err(m) => json!({"panic": m}),
    };
    if a != b {
        h.note("cmp", &[&ja, &jb], &json!({}));
    }
    h.emit(json!({"ev": "nat_cmp", "a": ja, "b": jb, "res": res}));
}

fn nat_shift(h: &mut Hist, a: &Natural, left: bool, k: u64, w32: bool) {
    let ja = nat_json(a);
    let a2 = a.clone();
    let r = nat_res(catch(move || match (left, w32) {
        (true, true) => a2 << (k as u32),
        (true, false) => a2 << k,
        (false, true) => a2 >> (k as u32),
        (false, false) => a2 >> k,
    }));
    if k != 0 {
        h.note(if left { "shl" } else { "shr" }, &[&ja, &json!(k)], &r);
    }
    h.emit(json!({"ev": if left { "nat_shl" } else { "nat_shr" }, "a": ja, "k": limbs64(k),
                  "w": if w32 { 32 } else { 64 }, "res": r}));
}

fn nat_try(h: &mut Hist, a: &Natural) {
    let ja = nat_json(a);
    let r64 = match catch(|| u64::try_from(a)) {
        Ok(Ok(x)) => json!({"v": {"ok": true, "x": limbs64(x)}}),
        Ok(Err(_)) => json!({"v": {"ok": false, "x": []}}),
        Err(m) => json!({"panic": m}),
    };
    h.note("try_u64", &[&ja], &r64);
    h.emit(json!({"ev": "nat_try", "ty": "u64", "a": ja, "res": r64}));
    let r128 = match catch(|| u128::try_from(a)) {
        Ok(Ok(x)) => json!({"v": {"ok": true, "x": limbs128(x)}}),
        Ok(Err(_)) => json!({"v": {"ok": false, "x": []}}),
        Err(m) => json!({"panic": m}),
    };
    h.note("try_u128", &[&ja], &r128);
    h.emit(json!({"ev": "nat_try", "ty": "u128", "a": ja, "res": r128}));
}

pub fn f64_json(x: f64) -> Value {
    let b = x.to_bits();
    json!({"s": (b >> 63) as u32, "x": ((b >> 52) & 0x7ff) as u32, "f": limbs64(b & ((1u64 << 52) - 1))})
}

fn nat_f64(h: &mut Hist, a: &Natural) {
    let ja = nat_json(a);
    let r = match catch(|| f64::from(a)) {
        Ok(x) => json!({"v": f64_json(x)}),
        Err(m) => json!({"panic": m}),
    };
    h.note("to_f64", &[&ja], &r);
    h.emit(json!({"ev": "nat_f64", "a": ja, "res": r}));
    if !a.is_nan() {
        let r = match catch(|| a.bit_width()) {
            Ok(x) => json!({"v": limbs128(x)}),
            Err(m) => json!({"panic": m}),
        };
        h.emit(json!({"ev": "nat_bw", "a": ja, "res": r}));
    }
}

fn nat_from_prims(h: &mut Hist, x: u128) {
    macro_rules! one {
        ($t:ty, $name:literal) => {
            if x <= <$t>::MAX as u128 {
                let y = x as $t;
                let r = nat_res(catch(move || Natural::from(y)));
                let jx = json!(limbs128(x));
                h.note($name, &[&jx], &json!({}));
                h.emit(json!({"ev": "nat_from", "ty": $name, "x": jx, "res": r}));
            }
        };
    }
    one!(u8, "u8");
    one!(u16, "u16");
    one!(u32, "u32");
    one!(u64, "u64");
    one!(u128, "u128");
}

fn nat_from_digits(h: &mut Hist, ds: &[u64]) {
    let ds2 = ds.to_vec();
    let r = nat_res(catch(move || Natural::from_le_digits(&ds2)));
    let jd: Vec<Vec<u32>> = ds.iter().map(|&d| limbs64(d)).collect();
    let jd = json!(jd);
    h.note("from_le_digits", &[&jd], &json!({}));
    h.emit(json!({"ev": "nat_digits", "ds": jd, "res": r}));
}

/// flag combinations of std::fmt that apply to integers: (literal, fill,
/// align, plus, alt, zero).  The width is a run-time argument (`1$`).
macro_rules! fmt_combo {
    ($h:expr, $n:expr, $ja:expr, $w:expr, $radices:expr, $flags:literal, $fill:expr, $align:expr, $plus:expr, $alt:expr, $zero:expr) => {{
        let n: &Natural = $n;
        let w: usize = $w;
        let all: [(&str, Result<String, String>); 5] = [
            ("b", catch(|| format!(concat!("{:", $flags, "1$b}"), n, w))),
            ("o", catch(|| format!(concat!("{:", $flags, "1$o}"), n, w))),
            ("x", catch(|| format!(concat!("{:", $flags, "1$x}"), n, w))),
            ("X", catch(|| format!(concat!("{:", $flags, "1$X}"), n, w))),
            ("d", catch(|| format!(concat!("{:", $flags, "1$}"), n, w))),
        ];
        for (radix, r) in all {
            if !$radices.contains(radix) {
                continue;
            }
            let res = match r {
                Ok(s) => json!({"v": codes(&s), "s": s}),
                Err(m) => json!({"panic": m}),
            };
            let key = json!([radix, $flags, w]);
            $h.note("fmt", &[$ja, &key], &json!({}));
            $h.emit(json!({"ev": "nat_fmt", "a": $ja, "radix": radix, "alt": $alt, "plus": $plus,
                           "zero": $zero, "width": w, "fill": ($fill as char) as u32, "align": $align,
                           "flags": $flags, "res": res}));
        }
    }};
}

/// `sel`: which flag combinations (bit mask over the list below)
fn nat_fmt(h: &mut Hist, a: &Natural, widths: &[usize], radices: &str, sel: u32) {
    let ja = nat_json(a);
    let ja = &ja;
    for &w in widths {
        let mut i = 0u32;
        macro_rules! c {
            ($flags:literal, $fill:expr, $align:expr, $plus:expr, $alt:expr, $zero:expr) => {
                if sel & (1 << i) != 0 {
                    fmt_combo!(h, a, ja, w, radices, $flags, $fill, $align, $plus, $alt, $zero);
                }
                i += 1;
            };
        }
        c!("", ' ', "", false, false, false); // 0
        c!("#", ' ', "", false, true, false); // 1
        c!("+", ' ', "", true, false, false); // 2
        c!("+#", ' ', "", true, true, false); // 3
        c!("0", ' ', "", false, false, true); // 4
        c!("#0", ' ', "", false, true, true); // 5
        c!("+0", ' ', "", true, false, true); // 6
        c!("+#0", ' ', "", true, true, true); // 7
        c!("<", ' ', "<", false, false, false); // 8
        c!("^", ' ', "^", false, false, false); // 9
        c!(">", ' ', ">", false, false, false); // 10
        c!("*<", '*', "<", false, false, false); // 11
        c!("*^", '*', "^", false, false, false); // 12
        c!("*>", '*', ">", false, false, false); // 13
        c!("_^#", '_', "^", false, true, false); // 14
        c!("*>+#", '*', ">", true, true, false); // 15
        c!("*<#", '*', "<", false, true, false); // 16
        c!("<0", ' ', "<", false, false, true); // 17
        c!("*^#0", '*', "^", false, true, true); // 18
        c!("0<", '0', "<", false, false, false); // 19
        let _ = i;
    }
}
const ALL_COMBOS: u32 = (1 << 20) - 1;

fn fmt_widths(a: &Natural, radix_len_hint: usize) -> Vec<usize> {
    let _ = a;
    vec![0, radix_len_hint + 3, radix_len_hint + 9]
}

fn per_operand(h: &mut Hist, a: &Natural, rng: &mut Rng, full_fmt: bool) {
    // shifts: digit-boundary amounts, amounts around the exponent
    let e = if a.is_nan() { 0 } else { a.exp() };
    let mut ks: Vec<u64> = vec![0, 1, 63, 64, 65, 128, e, e.wrapping_add(1), e.saturating_sub(1)];
    ks.push(rng.below(200) as u64);
    ks.dedup();
    for &k in &ks {
        if k <= u32::MAX as u64 {
            nat_shift(h, a, true, k, k % 2 == 0);
            nat_shift(h, a, false, k, k % 2 == 1);
        }
        nat_shift(h, a, false, k, false);
    }
    nat_try(h, a);
    nat_f64(h, a);
    // text: the plain hexadecimal output tells how long the number is
    let hexlen = format!("{:x}", a).len();
    if full_fmt {
        nat_fmt(h, a, &[0, 1, 2, hexlen, hexlen + 3, 4 * hexlen + 9], "boxXd", ALL_COMBOS);
    } else {
        let sel = (1u32 << rng.below(20)) | (1 << rng.below(20)) | (1 << rng.below(8)) | 1;
        nat_fmt(h, a, &fmt_widths(a, hexlen + rng.below(3 * hexlen + 1)), "boxXd", sel);
    }
}

fn natural_pairs(args: &Args) {
    let dir = args.get("out", "out");
    let seed = args.num("seed", 1);
    let thorough = args.get("tier", "quick") == "thorough";
    let count = args.num("count", if thorough { 60000 } else { 2500 }) as usize;
    let mut rng = Rng::new(seed);
    let mut h = Hist::new(&dir, "natural", "natural", args.num("chunk", 5000) as usize);

    // ---- construction ----
    let sets = boundary_digit_sets(thorough);
    for ds in &sets {
        nat_from_digits(&mut h, ds);
        // the same digits with zero digits around them
        let mut d2 = vec![0u64; 1 + rng.below(2)];
        d2.extend_from_slice(ds);
        d2.push(0);
        nat_from_digits(&mut h, &d2);
        if ds.len() <= 2 {
            let x = ds[0] as u128 | ((*ds.get(1).unwrap_or(&0) as u128) << 64);
            nat_from_prims(&mut h, x);
        }
    }
    for x in [0u128, 1, 2, 3, 4, 255, 256, 65535, 65536, u32::MAX as u128, 1 << 32, u64::MAX as u128,
              1 << 64, (1 << 64) + 1, 3 << 63, 3 << 64, u128::MAX, 1 << 127, (1 << 127) + 1, u128::MAX - 1,
              (u64::MAX as u128) << 64, (u64::MAX as u128) << 1, (u64::MAX as u128) << 63, 5 << 100, 6, 12] {
        nat_from_prims(&mut h, x);
    }
    for _ in 0..count / 10 {
        let w = 1 + rng.below(128);
        let mut x = (rng.next() as u128) << 64 | rng.next() as u128;
        x >>= 128 - w;
        if rng.chance(1, 2) {
            x &= u128::MAX << rng.below(w);
        }
        nat_from_prims(&mut h, x);
    }

    // ---- boundary operands ----
    let base: Vec<Natural> = sets.iter().map(|d| mk_nat(d)).collect();
    let mut ops: Vec<Natural> = base.clone();
    // shifted copies: different exponents for the same mantissas
    let shifts: &[u64] = if thorough { &[1, 63, 64, 65] } else { &[1, 64] };
    for (i, b) in base.iter().enumerate() {
        for (j, &s) in shifts.iter().enumerate() {
            if thorough || (i + j) % 3 == 0 {
                ops.push(b.clone() << s);
            }
        }
    }
    for (i, a) in ops.iter().enumerate() {
        per_operand(&mut h, a, &mut rng, thorough || i % 6 == 0);
    }
    // conversion to f64 around the rounding boundaries: mantissas of 53, 54,
    // 55.. bits whose low bits are just below / at / above the half-way point,
    // and exponents that bring the value next to 2^1024
    for n in [52usize, 53, 54, 55, 56, 63, 64, 65, 66, 107, 128, 129] {
        for low in [0u64, 1, 2, 3, 4, 5, 6, 7, 0xffff, 0xfffe, 0xfffd] {
            for fill_ones in [false, true] {
                let mut d = pow2_digits(n - 1, 0);
                if fill_ones {
                    d = pow2_digits(n, -1);
                    d[0] &= !0xffffu64;
                }
                d[0] |= low;
                let a = mk_nat(&d);
                nat_f64(&mut h, &a);
                for s in [1u64, 900, 1024 - n as u64 - 1, 1024 - n as u64, 1024 - n as u64 + 1] {
                    nat_f64(&mut h, &(a.clone() << s));
                }
            }
        }
    }
    for a in &ops {
        for b in &ops {
            nat_add(&mut h, a, b);
            nat_cmp(&mut h, a, b);
        }
    }

    // ---- error value: produced by the documented routes ----
    let one = Natural::from(1u32);
    let three = Natural::from(3u32);
    let nan_shr = three.clone() >> 1u32; // inexact right shift
    let nan_shl = one.clone() << u64::MAX; // exponent overflow
    let huge = one.clone() << (u64::MAX - 1); // largest exponent
    let huge3 = three.clone() << (u64::MAX - 2);
    let nan_add = {
        let (x, y) = (huge.clone(), huge.clone());
        catch(move || x + y).unwrap_or(one.clone() << u64::MAX)
    };
    // a sum whose exponent would exceed u64 (the library's NaN constant)
    let nan_const = {
        let x = Natural::from(7u32) << (u64::MAX - 2);
        let y = Natural::from(1u32) << (u64::MAX - 2);
        catch(move || x + y).unwrap_or(Natural::from(1u32) << u64::MAX)
    };
    let specials = [nan_shr, nan_shl, nan_add, nan_const, huge.clone(), huge3.clone()];
    for s in &specials {
        // only exponent-level operations on the huge ones (their expansion
        // would not fit in memory)
        let ja = nat_json(s);
        h.emit(json!({"ev": "nat_special", "a": ja}));
        for &k in &[0u64, 1, 2, 64, u64::MAX - 2, u64::MAX - 1, u64::MAX] {
            nat_shift(&mut h, s, true, k, false);
            nat_shift(&mut h, s, false, k, false);
        }
        nat_shift(&mut h, s, true, 7, true);
        nat_shift(&mut h, s, false, 7, true);
        nat_try(&mut h, s);
        nat_f64(&mut h, s);
        for t in &specials {
            nat_cmp(&mut h, s, t);
            // sums of numbers whose exponents differ by more than a few
            // hundred bits would need the full expansion: only equal or
            // close exponents, or an error value
            nat_add(&mut h, s, t);
        }
        for t in [&base[0], &base[1], &base[5], &base[20]] {
            nat_cmp(&mut h, s, t);
            nat_cmp(&mut h, t, s);
            if s.is_nan() {
                nat_add(&mut h, s, t);
                nat_add(&mut h, t, s);
            }
        }
        if s.is_nan() {
            nat_fmt(&mut h, s, &[0, 1, 2, 3, 6, 7], "boxXd", ALL_COMBOS);
        }
    }
    // exponent overflow by shifting and adding near the largest exponent
    for (i, b) in base.iter().enumerate().skip(1) {
        if i % 4 != 1 && !thorough {
            continue;
        }
        let e = b.exp();
        let bw = b.bit_width() as u64;
        for k in [u64::MAX - e, u64::MAX - e - 1, u64::MAX - e - 2, u64::MAX - bw, u64::MAX, 1 << 63, 1 << 40] {
            nat_shift(&mut h, b, true, k, false);
        }
        let top = b.clone() << (u64::MAX - e - 1); // exponent u64::MAX - 1
        nat_add(&mut h, &top, &top);
        nat_cmp(&mut h, &top, &huge);
        nat_cmp(&mut h, &huge3, &top);
        let near = b.clone() << (u64::MAX - e - 3);
        nat_add(&mut h, &near, &near);
        nat_add(&mut h, &near, &top);
        nat_add(&mut h, &top, &near);
        nat_shift(&mut h, &top, false, u64::MAX - e - 1, false);
        nat_shift(&mut h, &top, false, u64::MAX - e, false);
        nat_shift(&mut h, &top, true, 1, true);
    }

    // ---- random operands up to 512 bits ----
    let mut pool: Vec<Natural> = Vec::new();
    for i in 0..count {
        let da = random_digits(&mut rng);
        let db = if rng.chance(1, 4) {
            // related operand: same digits with a small change (carries, cancellation)
            let mut d = da.clone();
            let j = rng.below(d.len());
            match rng.below(4) {
                0 => d[j] = d[j].wrapping_add(1),
                1 => d[j] = !d[j],
                2 => d[j] = d[j].wrapping_neg(),
                _ => d[j] ^= 1u64 << rng.below(64),
            }
            if rng.chance(1, 2) {
                for x in d.iter_mut() {
                    *x = !*x;
                }
                d[0] = d[0].wrapping_add(1);
            }
            d
        } else {
            random_digits(&mut rng)
        };
        if i % 16 == 0 {
            nat_from_digits(&mut h, &da);
        }
        let mut a = mk_nat(&da);
        let mut b = mk_nat(&db);
        if rng.chance(1, 3) {
            a = a << rng.below(130) as u64;
        }
        if rng.chance(1, 3) {
            b = b << rng.below(130) as u64;
        }
        nat_add(&mut h, &a, &b);
        if i % 2 == 0 {
            nat_cmp(&mut h, &a, &b);
        }
        if i % 5 == 0 {
            // chains: sums of sums keep the in-place paths busy
            if let Ok(s) = catch(|| a.clone() + b.clone()) {
                nat_add(&mut h, &s, &a);
                nat_add(&mut h, &b, &s);
                nat_cmp(&mut h, &s, &a);
                if pool.len() < 64 {
                    pool.push(s);
                } else {
                    let j = rng.below(64);
                    pool[j] = s;
                }
            }
        }
        if i % 7 == 0 && !pool.is_empty() {
            let p = pool[rng.below(pool.len())].clone();
            nat_add(&mut h, &p, &a);
            nat_cmp(&mut h, &p, &p.clone());
        }
        if i % 8 == 0 {
            per_operand(&mut h, &a, &mut rng, false);
        }
        if i % 8 == 4 {
            // equal values built by different routes
            let k = rng.below(70) as u64;
            if let Ok(c) = catch(|| (a.clone() << k) >> k) {
                nat_cmp(&mut h, &a, &c);
            }
            let a2 = a.clone();
            nat_cmp(&mut h, &a, &a2);
        }
    }
    h.finish(&dir, "natural-pairs");
}

/// `clone_from` between numbers of different representations; every call is
/// announced by a `begin` event because a memory error may kill the process
fn natural_clone(args: &Args) {
    let dir = args.get("out", "out");
    let seed = args.num("seed", 1);
    let mut rng = Rng::new(seed);
    let mut h = Hist::new(&dir, "natclone", "natural", 100000);
    let mut vals: Vec<Vec<u64>> = vec![vec![1], vec![3], vec![1, 1], vec![1, 1, 1], vec![5, 0, 0, 7], vec![0],
                                      vec![u64::MAX, u64::MAX], vec![0, 1], vec![0, 3, 1]];
    for _ in 0..6 {
        vals.push(random_digits(&mut rng));
    }
    // destinations that own no memory first (inline representation), then the others
    for dst in &vals {
        for src in &vals {
            let d = mk_nat(dst);
            let s = mk_nat(src);
            let (jd, js) = (nat_json(&d), nat_json(&s));
            h.emit(json!({"ev": "begin", "what": "nat_clone_from", "dst": jd, "src": js}));
            let r = catch(move || {
                let mut d = d;
                d.clone_from(&s);
                let j = nat_json(&d);
                // use the clone: a sum reads every digit
                let t = d.clone() + Natural::from(0u32);
                (j, nat_json(&t))
            });
            let res = match r {
                Ok((j, t)) => json!({"v": j, "sum0": t}),
                Err(m) => json!({"panic": m}),
            };
            h.note("clone_from", &[&jd, &js], &json!({}));
            h.emit(json!({"ev": "nat_clone_from", "dst": jd, "src": js, "res": res}));
        }
    }
    h.finish(&dir, "natural-clone");
}

// ---------------------------------------------------------------------------
// I64

pub fn i64_json(x: &I64) -> Value {
    match x {
        I64::Num(n) => json!({"t": "num", "bits": limbs64(*n as u64)}),
        I64::PlusInf => json!({"t": "pinf", "bits": []}),
        I64::MinusInf => json!({"t": "ninf", "bits": []}),
        I64::NaN => json!({"t": "nan", "bits": []}),
    }
}

fn i64_events(h: &mut Hist, a: I64, b: I64, via_ops: bool) {
    let (ja, jb) = (i64_json(&a), i64_json(&b));
    for op in ["add", "sub", "mul", "div"] {
        let r = catch(|| match (op, via_ops) {
            ("add", false) => NumberBase::add(&a, &b),
            ("sub", false) => NumberBase::sub(&a, &b),
            ("mul", false) => NumberBase::mul(&a, &b),
            ("div", false) => NumberBase::div(&a, &b),
            ("add", true) => a + b,
            ("sub", true) => &a - &b,
            ("mul", true) => a * &b,
            (_, _) => &a / b,
        });
        let res = match r {
            Ok(v) => json!({"v": i64_json(&v)}),
            Err(m) => json!({"panic": m}),
        };
        h.note(op, &[&ja, &jb], &res);
        h.emit(json!({"ev": "i64_op", "op": op, "a": ja, "b": jb, "via": if via_ops { "ops" } else { "trait" }, "res": res}));
    }
    let r = catch(|| (a.partial_cmp(&b), a == b, hash_of(&a) == hash_of(&b), a < b, a <= b, a > b, a >= b));
    let res = match r {
        Ok((c, e, he, lt, le, gt, ge)) => {
            json!({"cmp": ord_str(c), "eq": e, "heq": he, "lt": lt, "le": le, "gt": gt, "ge": ge})
        }
        Err(m) => json!({"panic": m}),
    };
    if a != b {
        h.note("cmp", &[&ja, &jb], &json!({}));
    }
    h.emit(json!({"ev": "i64_cmp", "a": ja, "b": jb, "res": res}));
}

fn i64_unary(h: &mut Hist, a: I64) {
    let ja = i64_json(&a);
    let r = catch(|| {
        let s = format!("{}", a);
        let back = <I64 as ParseTagged<()>>::parse(&s).map(|p| p.0);
        (s, back, a.is_zero(), a.is_one(), NumberBase::is_nan(&a))
    });
    let res = match r {
        Ok((s, back, z, o, n)) => json!({"v": codes(&s), "s": s,
            "back": match back { Some(b) => json!({"some": true, "v": i64_json(&b)}),
                                 None => json!({"some": false, "v": i64_json(&I64::NaN)}) },
            "is_zero": z, "is_one": o, "is_nan": n}),
        Err(m) => json!({"panic": m}),
    };
    h.emit(json!({"ev": "i64_unary", "a": ja, "res": res}));
}

fn rand_i64(rng: &mut Rng) -> i64 {
    // magnitudes of every bit length, both signs, values hugging the ends
    match rng.below(10) {
        0 => i64::MIN.wrapping_add(rng.below(4) as i64),
        1 => i64::MAX.wrapping_sub(rng.below(4) as i64),
        2 => rng.below(7) as i64 - 3,
        _ => {
            let w = rng.below(64) as u32;
            let x = (rng.next() >> (63 - w)) as i64; // 0 .. 2^(w+1) - 1, may wrap into the negatives for w = 63
            if rng.chance(1, 2) {
                x.wrapping_neg()
            } else {
                x
            }
        }
    }
}

fn num_i64(args: &Args) {
    let dir = args.get("out", "out");
    let seed = args.num("seed", 1);
    let thorough = args.get("tier", "quick") == "thorough";
    let count = args.num("count", if thorough { 120000 } else { 4000 }) as usize;
    let mut rng = Rng::new(seed);
    let mut h = Hist::new(&dir, "i64", "i64", args.num("chunk", 4000) as usize);
    let b: Vec<I64> = vec![
        I64::Num(0), I64::Num(1), I64::Num(-1), I64::Num(2), I64::Num(3), I64::Num(-7),
        I64::Num(i64::MIN), I64::Num(i64::MIN + 1), I64::Num(i64::MAX), I64::Num(i64::MAX - 1),
        I64::Num(1 << 31), I64::Num(1 << 32), I64::Num(-(1 << 32)),
        I64::PlusInf, I64::MinusInf, I64::NaN,
    ];
    for x in &b {
        i64_unary(&mut h, *x);
        for y in &b {
            i64_events(&mut h, *x, *y, false);
            i64_events(&mut h, *x, *y, true);
        }
    }
    // constants of the trait
    for x in [I64::zero(), I64::one(), I64::nan(), I64::from(5), I64::from(-5)] {
        i64_unary(&mut h, x);
    }
    // further boundary operands
    let more: Vec<I64> = [
        -2i64, -3, 7, (1 << 31) - 1, -(1 << 31), (1 << 32) - 1, (1 << 32) + 1, 3037000499, 3037000500, -3037000500,
        1 << 62, -(1 << 62), (1 << 62) - 1, (1 << 62) + 1, i64::MIN + 2, i64::MAX - 2, i64::MIN / 2, i64::MAX / 2,
        i64::MAX / 2 + 1, i64::MIN / 2 - 1, i64::MAX / 3, i64::MIN / 3, 1 << 21, 1 << 42, -(1 << 21),
    ]
    .iter()
    .map(|&n| I64::Num(n))
    .collect();
    let all: Vec<I64> = b.iter().chain(more.iter()).cloned().collect();
    for x in &more {
        i64_unary(&mut h, *x);
        for y in &all {
            i64_events(&mut h, *x, *y, false);
            i64_events(&mut h, *y, *x, false);
        }
    }
    for i in 0..count {
        let x = rand_i64(&mut rng);
        let y = match rng.below(8) {
            // products and quotients around the representable range
            0 if x != 0 => (i64::MAX / x).wrapping_add(rng.below(3) as i64 - 1),
            1 if x != 0 => (i64::MIN / x.wrapping_abs().max(1)).wrapping_add(rng.below(3) as i64 - 1),
            // sums and differences around the ends
            2 => i64::MAX.wrapping_sub(x).wrapping_add(rng.below(3) as i64 - 1),
            3 => i64::MIN.wrapping_sub(x).wrapping_add(rng.below(3) as i64 - 1),
            4 => x.wrapping_sub(i64::MAX).wrapping_add(rng.below(3) as i64 - 1),
            5 => x.wrapping_sub(i64::MIN).wrapping_add(rng.below(3) as i64 - 1),
            _ => rand_i64(&mut rng),
        };
        let (a, bb) = (I64::Num(x), I64::Num(y));
        i64_events(&mut h, a, bb, i % 2 == 1);
        if i % 16 == 0 {
            let s = all[13 + rng.below(3)];
            i64_events(&mut h, a, s, false);
            i64_events(&mut h, s, a, false);
            i64_unary(&mut h, a);
        }
    }
    h.finish(&dir, "num-i64");
}

// ---------------------------------------------------------------------------
// F64 (terminal type of oxidd-rules-mtbdd)

pub fn tf64_json(x: &F64) -> Value {
    f64_json(f64::from(*x))
}

fn f64_events(h: &mut Hist, a: F64, b: F64, via_ops: bool) {
    let (ja, jb) = (tf64_json(&a), tf64_json(&b));
    for op in ["add", "sub", "mul", "div"] {
        let r = catch(|| match (op, via_ops) {
            ("add", false) => NumberBase::add(&a, &b),
            ("sub", false) => NumberBase::sub(&a, &b),
            ("mul", false) => NumberBase::mul(&a, &b),
            ("div", false) => NumberBase::div(&a, &b),
            ("add", true) => a + b,
            ("sub", true) => &a - &b,
            ("mul", true) => a * &b,
            (_, _) => &a / b,
        });
        let res = match r {
            Ok(v) => json!({"v": tf64_json(&v)}),
            Err(m) => json!({"panic": m}),
        };
        h.note(op, &[&ja, &jb], &res);
        h.emit(json!({"ev": "f64_op", "op": op, "a": ja, "b": jb, "via": if via_ops { "ops" } else { "trait" }, "res": res}));
    }
    let r = catch(|| (a.partial_cmp(&b), a == b, hash_of(&a) == hash_of(&b), a < b, a <= b, a > b, a >= b));
    let res = match r {
        Ok((c, e, he, lt, le, gt, ge)) => {
            json!({"cmp": ord_str(c), "eq": e, "heq": he, "lt": lt, "le": le, "gt": gt, "ge": ge})
        }
        Err(m) => json!({"panic": m}),
    };
    if a != b {
        h.note("cmp", &[&ja, &jb], &json!({}));
    }
    h.emit(json!({"ev": "f64_cmp", "a": ja, "b": jb, "res": res}));
}

fn f64_from(h: &mut Hist, raw: f64) {
    let r = catch(|| F64::from(raw));
    let res = match r {
        Ok(v) => json!({"v": tf64_json(&v)}),
        Err(m) => json!({"panic": m}),
    };
    h.emit(json!({"ev": "f64_from", "x": f64_json(raw), "res": res}));
}

fn f64_parse(h: &mut Hist, s: &str) {
    let r = catch(|| <F64 as ParseTagged<()>>::parse(s).map(|p| p.0));
    let res = match r {
        Ok(Some(v)) => json!({"some": true, "v": tf64_json(&v)}),
        Ok(None) => json!({"some": false, "v": f64_json(0.0)}),
        Err(m) => json!({"panic": m}),
    };
    h.emit(json!({"ev": "f64_parse", "s": s, "c": codes(s), "res": res}));
}

/// m * 2^e assembled from its bits (m < 2^53 is exact in an f64)
fn dyadic(neg: bool, m: u64, e: i32) -> f64 {
    let mut x = m as f64;
    // scaling by a power of two is exact as long as no bits fall off the
    // subnormal end; the operand that results is *observed* anyway
    let mut e = e;
    while e > 0 {
        let s = e.min(1000);
        x *= f64::from_bits(((1023 + s) as u64) << 52);
        e -= s;
    }
    while e < 0 {
        let s = (-e).min(1000);
        x *= f64::from_bits(((1023 - s) as u64) << 52);
        e += s;
    }
    if neg {
        -x
    } else {
        x
    }
}

fn rand_dyadic(rng: &mut Rng) -> f64 {
    let mbits = match rng.below(8) {
        0 => 1 + rng.below(4),
        1 | 2 => 1 + rng.below(12),
        3 | 4 => 1 + rng.below(26),
        5 => 53,
        _ => 1 + rng.below(53),
    };
    let m = (rng.next() >> (64 - mbits as u32)) | if rng.chance(1, 2) { 1 } else { 0 };
    let e = match rng.below(6) {
        0 => 0,
        1 => rng.below(12) as i32 - 6,
        2 => rng.below(120) as i32 - 60,
        3 => rng.below(2000) as i32 - 1074,
        _ => rng.below(40) as i32 - 20,
    };
    dyadic(rng.chance(1, 2), m, e)
}

fn num_f64(args: &Args) {
    let dir = args.get("out", "out");
    let seed = args.num("seed", 1);
    let thorough = args.get("tier", "quick") == "thorough";
    let count = args.num("count", if thorough { 60000 } else { 2500 }) as usize;
    let mut rng = Rng::new(seed);
    let mut h = Hist::new(&dir, "f64", "f64", args.num("chunk", 3000) as usize);

    // normalisation at construction: NaN payloads, signs, signed zeros
    let raws: Vec<f64> = vec![
        0.0, -0.0, 1.0, -1.0, f64::NAN, -f64::NAN, f64::from_bits(0x7ff0_0000_0000_0001),
        f64::from_bits(0xfff8_0000_0000_0000), f64::from_bits(0x7fff_ffff_ffff_ffff),
        f64::from_bits(0xfff0_0000_0000_0001), f64::from_bits(0x7ff4_0000_0000_0000),
        f64::INFINITY, f64::NEG_INFINITY, f64::MIN_POSITIVE, -f64::MIN_POSITIVE, f64::from_bits(1),
        f64::from_bits(0x8000_0000_0000_0001), f64::MAX, f64::MIN, f64::EPSILON, 0.5, 2.0, 3.0, -7.0,
    ];
    for &r in &raws {
        f64_from(&mut h, r);
    }
    for s in ["0", "-0", "-0.0", "+0.0", "0.0", "-0e0", "1", "-1", "2.5", "-7", "1e3", "nan", "NaN", "NAN", "-nan",
              "+nan", "-NaN", "inf", "-inf", "+inf", "Inf", "-Infinity", "∞", "-∞", "+∞", "MinusInf", "PlusInf",
              "0.1", "1e400", "-1e400", "1e-400", "-1e-400", "x", ""] {
        f64_parse(&mut h, s);
    }
    let c = |x: f64| F64::from(x);
    let specials: Vec<F64> = vec![
        c(0.0), c(-0.0), c(1.0), c(-1.0), c(2.0), c(3.0), c(-7.0), c(0.5), c(-0.5), c(0.75),
        c(9007199254740991.0), c(9007199254740992.0), c(-9007199254740992.0), c(4503599627370497.0),
        c(2147483648.0), c(4294967296.0), c(-4294967296.0), c(9223372036854775808.0), c(-9223372036854775808.0),
        c(f64::MAX), c(f64::MIN), c(f64::MIN_POSITIVE), c(-f64::MIN_POSITIVE), c(f64::from_bits(1)),
        c(f64::from_bits(0x8000_0000_0000_0001)), c(f64::from_bits(0x000f_ffff_ffff_ffff)), c(dyadic(false, 1, 1023)),
        c(dyadic(false, 1, 512)), c(dyadic(true, 3, 511)), c(dyadic(false, 1, -537)), c(f64::EPSILON),
        c(f64::INFINITY), c(f64::NEG_INFINITY), c(f64::NAN), F64::nan(), F64::zero(), F64::one(),
    ];
    for x in &specials {
        for y in &specials {
            f64_events(&mut h, *x, *y, false);
        }
    }
    for (i, x) in specials.iter().enumerate() {
        f64_events(&mut h, *x, specials[(i * 7 + 3) % specials.len()], true);
    }
    for i in 0..count {
        let x = rand_dyadic(&mut rng);
        let y = match rng.below(6) {
            0 => -x,
            1 => x,
            // exact quotients: y divides x * y
            2 => {
                let q = dyadic(rng.chance(1, 2), (rng.next() >> 40) | 1, rng.below(20) as i32 - 10);
                let d = dyadic(false, (rng.next() >> 40) | 1, rng.below(20) as i32 - 10);
                let p = q * d; // 48 bits: exact
                f64_events(&mut h, c(p), c(d), false);
                d
            }
            _ => rand_dyadic(&mut rng),
        };
        f64_events(&mut h, c(x), c(y), i % 2 == 1);
        if i % 16 == 0 {
            let s = specials[rng.below(specials.len())];
            f64_events(&mut h, c(x), s, false);
            f64_events(&mut h, s, c(x), false);
            f64_from(&mut h, x);
            f64_from(&mut h, f64::from_bits(rng.next()));
        }
    }
    h.finish(&dir, "num-f64");
}

pub fn run(driver: &str, args: &Args) {
    match driver {
        "natural-pairs" => natural_pairs(args),
        "natural-clone" => natural_clone(args),
        "num-i64" => num_i64(args),
        "num-f64" => num_f64(args),
        d => {
            eprintln!("unknown driver {d}");
            std::process::exit(2);
        }
    }
}
