//! drivers for DDDMP export/import (C15), see lib/README_FRAMEWORK.md
use crate::util::Args;

pub fn run(driver: &str, _args: &Args) {
    eprintln!("driver {driver} not implemented yet");
    std::process::exit(2);
}
