//! C15: DDDMP export / import.  Drivers
//!
//! * `dddmp-roundtrip`: export sets of handles under many settings (ASCII /
//!   binary, 2.0 / 3.0, strict / relaxed, named / unnamed variables and roots,
//!   all orders), load the header, import into the same manager and into a
//!   fresh one;
//! * `dddmp-mutate`: every truncation point and byte / token / line level
//!   mutations of valid files are fed to `DumpHeader::load` + `import`.
//!
//! The harness calls, observes and logs.  The only interpretation it performs
//! is lexical: a file is split into lines and blank-separated tokens (the
//! numeric view of a token is its value when it is a plain decimal integer).
//! Every judgement (what the header must contain, what an ASCII node list
//! denotes, which outcome is acceptable) is made by TLC (spec/Dddmp.tla,
//! spec/TraceDddmp.tla).

use std::io::Cursor;

use oxidd::bcdd::BCDDFunction;
use oxidd::bdd::BDDFunction;
use oxidd::zbdd::ZBDDFunction;
use oxidd::{HasLevel, Manager, ManagerRef};
use oxidd_core::function::{ETagOfFunc, INodeOfFunc, TermOfFunc};
use oxidd_dump::dddmp::{self, DDDMPVersion, DumpHeader, ExportSettings};
use oxidd_dump::{AsciiDisplay, ParseTagged};

use crate::drv_bool::build_all3;
use crate::ext::BoolExt;
use crate::kinds::{g_json, snap_json};
use crate::session::{tt_of, Session, Slot, BIN_OPS};
use crate::util::{catch, json, permutations, write_summary, Args, Rng, TraceOut, Value};

/// numeric view of a token that is not a (small) decimal integer
const BAD: i64 = 2_000_000_000;
/// largest number of variables for which truth tables are logged
const TT_MAX_VARS: u32 = 10;
/// largest number of variables a mutated header may ask for
const FRESH_MAX_VARS: u32 = 64;

pub fn run(driver: &str, args: &Args) {
    let kind = args.get("kind", "bdd");
    match (driver, kind.as_str()) {
        ("dddmp-roundtrip", "bdd") => roundtrip::<BDDFunction>(args),
        ("dddmp-roundtrip", "bcdd") => roundtrip::<BCDDFunction>(args),
        ("dddmp-roundtrip", "zbdd") => roundtrip::<ZBDDFunction>(args),
        ("dddmp-roundtrip", "mtbdd") => mt::roundtrip(args),
        ("dddmp-mutate", "bdd") => mutate::<BDDFunction>(args),
        ("dddmp-mutate", "bcdd") => mutate::<BCDDFunction>(args),
        ("dddmp-mutate", "zbdd") => mutate::<ZBDDFunction>(args),
        _ => {
            eprintln!("unknown driver/kind {driver}/{kind}");
            std::process::exit(2);
        }
    }
}

// ---------------------------------------------------------------------------
// lexical layer

fn bytes_json(b: &[u8]) -> Value {
    json!(b.iter().map(|&x| x as u64).collect::<Vec<_>>())
}
fn clamp(x: u128) -> i64 {
    if x >= 1_000_000_000 {
        BAD
    } else {
        x as i64
    }
}
fn lossy(t: &[u8]) -> String {
    String::from_utf8_lossy(t)
        .chars()
        .map(|c| if c.is_control() { '?' } else { c })
        .collect()
}
/// value of a plain decimal integer token (optional '-', digits), else BAD
fn tok_int(t: &[u8]) -> i64 {
    let (neg, d) = match t.split_first() {
        Some((b'-', r)) => (true, r),
        _ => (false, t),
    };
    if d.is_empty() || !d.iter().all(|c| c.is_ascii_digit()) {
        return BAD;
    }
    let mut d = d;
    while d.len() > 1 && d[0] == b'0' {
        d = &d[1..];
    }
    if d.len() > 9 {
        return BAD;
    }
    let v: i64 = std::str::from_utf8(d).unwrap().parse().unwrap();
    if neg {
        -v
    } else {
        v
    }
}
fn is_blank(c: u8) -> bool {
    c == b' ' || c == b'\t'
}
/// blank-separated tokens; where edges are listed (`join_sign`), a sign
/// standing alone is joined with the number after it
fn split_tokens(line: &[u8], join_sign: bool) -> Vec<Vec<u8>> {
    let raw: Vec<&[u8]> = line.split(|&c| is_blank(c)).filter(|t| !t.is_empty()).collect();
    let mut out: Vec<Vec<u8>> = Vec::new();
    let mut i = 0;
    while i < raw.len() {
        if join_sign
            && raw[i] == b"-"
            && i + 1 < raw.len()
            && raw[i + 1].iter().all(|c| c.is_ascii_digit())
        {
            let mut t = b"-".to_vec();
            t.extend_from_slice(raw[i + 1]);
            out.push(t);
            i += 2;
        } else {
            out.push(raw[i].to_vec());
            i += 1;
        }
    }
    out
}
fn strip_eol(mut line: &[u8]) -> &[u8] {
    while let Some(b'\n' | b'\r') = line.last() {
        line = &line[..line.len() - 1];
    }
    line
}
fn trim_blank(mut s: &[u8]) -> &[u8] {
    while let [b' ' | b'\t', rest @ ..] = s {
        s = rest;
    }
    while let [rest @ .., b' ' | b'\t'] = s {
        s = rest;
    }
    s
}

/// the file as lines of tokens: `hdr` = lines before `.nodes` (key `k`, trimmed
/// value bytes `v`, tokens as bytes `b`, as strings `s` and as numbers `i`),
/// `mode` = value of the last `.mode` line (default "A"); ASCII: `lines` =
/// the lines after `.nodes` (trailing blank lines removed); binary: length of
/// the node section and whether the file ends with `.end`
fn tokenise(bytes: &[u8]) -> Value {
    let mut pos = 0usize;
    let mut hdr = Vec::new();
    let mut has_nodes = false;
    let mut mode = "A".to_string();
    while pos < bytes.len() {
        let end = bytes[pos..]
            .iter()
            .position(|&c| c == b'\n')
            .map(|p| pos + p + 1)
            .unwrap_or(bytes.len());
        let line = strip_eol(&bytes[pos..end]);
        pos = end;
        let (key, value) = match line.iter().position(|&c| is_blank(c)) {
            Some(p) => (&line[..p], &line[p + 1..]),
            None => (line, &line[line.len()..]),
        };
        if key == b".nodes" {
            has_nodes = true;
            break;
        }
        let value = trim_blank(value);
        if key == b".mode" {
            mode = lossy(value);
        }
        let toks = split_tokens(value, key == b".rootids");
        hdr.push(json!({
            "k": lossy(key),
            "v": bytes_json(value),
            "b": toks.iter().map(|t| bytes_json(t)).collect::<Vec<_>>(),
            "s": toks.iter().map(|t| lossy(t)).collect::<Vec<_>>(),
            "i": toks.iter().map(|t| tok_int(t)).collect::<Vec<_>>(),
        }));
    }
    let rest = &bytes[pos..];
    let mut file = json!({"len": bytes.len(), "hdr": hdr, "hasnodes": has_nodes, "mode": mode});
    if mode == "B" {
        // node section: everything before the trailing `.end` line
        let mut t = rest;
        while let Some(c) = t.last() {
            if c.is_ascii_whitespace() {
                t = &t[..t.len() - 1];
            } else {
                break;
            }
        }
        let endok = t.ends_with(b".end");
        file["endok"] = json!(endok);
        file["binlen"] = json!(if endok { t.len() - 4 } else { rest.len() });
    } else {
        let mut lines: Vec<&[u8]> = rest.split(|&c| c == b'\n').collect();
        while let Some(l) = lines.last() {
            if l.iter().all(|c| c.is_ascii_whitespace()) {
                lines.pop();
            } else {
                break;
            }
        }
        let nl = lines.len();
        let mut out = Vec::new();
        for (k, l) in lines.into_iter().enumerate() {
            let mut l = strip_eol(l);
            if k + 1 == nl {
                while let Some(c) = l.last() {
                    if c.is_ascii_whitespace() {
                        l = &l[..l.len() - 1];
                    } else {
                        break;
                    }
                }
            }
            let toks = split_tokens(l, true);
            out.push(json!({
                "s": toks.iter().map(|t| lossy(t)).collect::<Vec<_>>(),
                "i": toks.iter().map(|t| tok_int(t)).collect::<Vec<_>>(),
            }));
        }
        file["lines"] = json!(out);
    }
    file
}

fn header_json(h: &DumpHeader) -> Value {
    let mut o = serde_json::Map::new();
    if let Some(d) = h.diagram_name() {
        o.insert("dd".into(), bytes_json(d.as_bytes()));
    }
    o.insert("nnodes".into(), json!(clamp(h.num_nodes() as u128)));
    o.insert("nvars".into(), json!(clamp(h.num_vars() as u128)));
    o.insert("nsupp".into(), json!(clamp(h.num_support_vars() as u128)));
    let list = |v: &[u32]| json!(v.iter().map(|&x| clamp(x as u128)).collect::<Vec<_>>());
    o.insert("ids".into(), list(h.support_vars()));
    o.insert("order".into(), list(h.support_var_order()));
    o.insert("permids".into(), list(h.support_var_to_level()));
    if let Some(ns) = h.var_names() {
        o.insert(
            "names".into(),
            json!(ns.iter().map(|s| bytes_json(s.as_bytes())).collect::<Vec<_>>()),
        );
    }
    o.insert("nroots".into(), json!(clamp(h.num_roots() as u128)));
    if let Some(ns) = h.root_names() {
        o.insert(
            "rnames".into(),
            json!(ns.iter().map(|s| bytes_json(s.as_bytes())).collect::<Vec<_>>()),
        );
    }
    Value::Object(o)
}

/// outcome class of a call: ok | err | panic | precond | skipped | setup_panic
fn res_c(c: &str) -> Value {
    json!({ "c": c })
}
fn is_ok(v: &Value) -> bool {
    v["c"] == json!("ok")
}

/// the first line of a panic message with numbers blanked out (becomes part
/// of the finding signature)
fn panic_class(msg: &str) -> String {
    let first = msg.lines().next().unwrap_or("");
    let mut out = String::new();
    let mut in_num = false;
    for ch in first.chars() {
        if ch.is_ascii_digit() {
            if !in_num {
                out.push('#');
            }
            in_num = true;
        } else {
            in_num = false;
            out.push(if ch.is_ascii_alphanumeric() || "#.:()|!=<>".contains(ch) { ch } else { '_' });
        }
        if out.len() >= 48 {
            break;
        }
    }
    out
}

fn io_res<T>(r: &Result<std::io::Result<T>, String>) -> Value {
    match r {
        Ok(Ok(_)) => res_c("ok"),
        Ok(Err(e)) => {
            let msg = e.to_string();
            json!({"c": "err", "kind": format!("{:?}", e.kind()), "ec": panic_class(&msg), "msg": msg})
        }
        Err(p) => json!({"c": "panic", "msg": p, "pc": panic_class(p)}),
    }
}

// ---------------------------------------------------------------------------
// export

#[derive(Clone, Debug)]
struct Settings {
    v3: bool,
    ascii: bool,
    strict: bool,
    dd: String,
}

fn export_bytes<F: BoolExt>(
    mref: &F::ManagerRef,
    roots: &[&F],
    rnames: Option<&[String]>,
    set: &Settings,
) -> (Vec<u8>, Result<std::io::Result<()>, String>)
where
    for<'id> INodeOfFunc<'id, F>: HasLevel,
    for<'id> TermOfFunc<'id, F>: AsciiDisplay,
{
    let mut buf: Vec<u8> = Vec::new();
    let r = catch(|| {
        mref.with_manager_shared(|m| {
            let st = ExportSettings::default()
                .version(if set.v3 { DDDMPVersion::V3_0 } else { DDDMPVersion::V2_0 })
                .strict(set.strict)
                .diagram_name(&set.dd);
            let st = if set.ascii { st.ascii() } else { st.binary() };
            match rnames {
                Some(ns) => st.export_with_names(
                    &mut buf,
                    m,
                    roots.iter().copied().zip(ns.iter().map(|s| s.as_str())),
                ),
                None => st.export(&mut buf, m, roots.iter().copied()),
            }
        })
    });
    (buf, r)
}

/// `export_bytes` without the Boolean-kind bounds
fn export_bytes_any<F: oxidd::Function>(
    mref: &F::ManagerRef,
    roots: &[&F],
    rnames: Option<&[String]>,
    set: &Settings,
) -> (Vec<u8>, Result<std::io::Result<()>, String>)
where
    for<'id> INodeOfFunc<'id, F>: HasLevel,
    for<'id> TermOfFunc<'id, F>: AsciiDisplay,
{
    let mut buf: Vec<u8> = Vec::new();
    let r = catch(|| {
        mref.with_manager_shared(|m| {
            let st = ExportSettings::default()
                .version(if set.v3 { DDDMPVersion::V3_0 } else { DDDMPVersion::V2_0 })
                .strict(set.strict)
                .diagram_name(&set.dd);
            let st = if set.ascii { st.ascii() } else { st.binary() };
            match rnames {
                Some(ns) => st.export_with_names(
                    &mut buf,
                    m,
                    roots.iter().copied().zip(ns.iter().map(|s| s.as_str())),
                ),
                None => st.export(&mut buf, m, roots.iter().copied()),
            }
        })
    });
    (buf, r)
}

fn settings_json(set: &Settings) -> Value {
    json!({"ver": if set.v3 {"3.0"} else {"2.0"}, "ascii": set.ascii, "strict": set.strict,
           "dd": bytes_json(set.dd.as_bytes())})
}

/// projection of the manager: variables, order, names, every live handle
/// with its edge, truth table and the sub-graph of all of them
fn emit_pre<F: BoolExt>(s: &mut Session<F>) {
    let live = s.live();
    let n = s.n;
    let (l2v, _) = s.order();
    let (names, binsup) = s.mref.with_manager_shared(|m| {
        let names: Vec<Value> = (0..m.num_vars())
            .map(|v| bytes_json(m.var_name(v).as_bytes()))
            .collect();
        (names, ExportSettings::binary_supported(m))
    });
    let mut hs = Vec::new();
    for &sl in &live {
        let f = s.get(sl);
        let e = s.edge_of(f);
        let tt = if n <= TT_MAX_VARS { tt_of(f, n) } else { vec![] };
        hs.push(json!([sl, e.0, e.1, tt]));
    }
    let g = {
        let fs: Vec<&F> = live.iter().map(|&sl| s.get(sl)).collect();
        s.mref.with_manager_shared(|m| {
            let roots: Vec<_> = fs.iter().map(|f| f.as_edge(m)).collect();
            F::subgraph(m, &roots)
        })
    };
    s.out.emit(json!({"ev":"pre","n":n,"l2v":l2v,"names":names,"binsup":binsup,
        "hs":hs,"g":g_json(&g)}));
}

// ---------------------------------------------------------------------------
// import into a fresh manager

/// load the header of `bytes`, create a manager with the header's variables
/// (named if the header has names), establish the support variables' order,
/// import, observe.  Returns the fields of the event.
fn fresh_import<F: BoolExt>(bytes: &[u8], want_tokens_when_ok: bool) -> Value
where
    for<'id> INodeOfFunc<'id, F>: HasLevel,
    for<'id> TermOfFunc<'id, F>: ParseTagged<ETagOfFunc<'id, F>>,
{
    fresh_import_x::<F>(bytes, want_tokens_when_ok, 0)
}

/// ... with `extra` further variables in the target manager, placed above
/// the support variables (a larger manager with a compatible order)
fn fresh_import_x<F: BoolExt>(bytes: &[u8], want_tokens_when_ok: bool, extra: u32) -> Value
where
    for<'id> INodeOfFunc<'id, F>: HasLevel,
    for<'id> TermOfFunc<'id, F>: ParseTagged<ETagOfFunc<'id, F>>,
{
    let mut ev = json!({});
    let mut cur = Cursor::new(bytes);
    let h = catch(|| DumpHeader::load(&mut cur));
    ev["hres"] = io_res(&h);
    let Ok(Ok(header)) = h else {
        return ev;
    };
    ev["h"] = header_json(&header);
    let nv = header.num_vars();
    if nv > FRESH_MAX_VARS {
        ev["res"] = res_c("skipped");
        return ev;
    }
    let sv: Vec<u32> = header.support_var_order().to_vec();
    ev["sv"] = json!(sv);
    let mref = F::new_manager(2048, 64, 1);
    // variables
    let named = mref.with_manager_exclusive(|m| {
        let r = match header.var_names() {
            Some(ns) => match catch(|| m.add_named_vars(ns.iter().cloned())) {
                Ok(Ok(_)) => "ok",
                Ok(Err(_)) => "dup",
                Err(_) => "panic",
            },
            None => "none",
        };
        let have = m.num_vars();
        if have < nv + extra {
            m.add_vars(nv + extra - have);
        }
        r
    });
    ev["named"] = json!(named);
    ev["extra"] = json!(extra);
    // the support variables must be ordered by level
    let wanted: Vec<u32> = (nv..nv + extra).chain(sv.iter().copied()).collect();
    let ro = mref.with_manager_exclusive(|m| catch(|| F::set_var_order(m, &wanted)));
    if let Err(p) = ro {
        ev["res"] = json!({"c": "setup_panic", "msg": p});
        return ev;
    }
    let (l2v, v2l) = mref.with_manager_shared(|m| F::order(m));
    ev["n"] = json!(nv + extra);
    ev["l2v"] = json!(l2v);
    let sorted = sv.iter().all(|&v| v < nv)
        && sv
            .windows(2)
            .all(|w| v2l[w[0] as usize] < v2l[w[1] as usize]);
    if !sorted || sv.len() != header.num_support_vars() as usize {
        // the precondition of `import` cannot be established
        ev["res"] = res_c("precond");
        return ev;
    }
    let base = mref.with_manager_shared(|m| {
        m.gc();
        m.num_inner_nodes()
    });
    ev["base"] = json!(base);
    let r = catch(|| {
        mref.with_manager_shared(|m| {
            dddmp::import::<F>(&mut cur, &header, m, sv.iter().copied(), F::not_edge_owned)
        })
    });
    ev["res"] = io_res(&r);
    if let Ok(Ok(roots)) = r {
        let es: Vec<Value> = roots
            .iter()
            .map(|f| {
                let e = f.with_manager_shared(|m, e| F::edge_code(m, e));
                json!([e.0, e.1])
            })
            .collect();
        ev["es"] = json!(es);
        if nv <= TT_MAX_VARS && extra == 0 {
            ev["tts"] = json!(roots.iter().map(|f| tt_of(f, nv)).collect::<Vec<_>>());
        }
        let (g, snap, ninner) = mref.with_manager_shared(|m| {
            let rs: Vec<_> = roots.iter().map(|f| f.as_edge(m)).collect();
            (F::subgraph(m, &rs), F::snapshot(m), m.num_inner_nodes())
        });
        ev["g"] = g_json(&g);
        ev["snap"] = snap_json(&snap);
        ev["ninner"] = json!(ninner);
        if want_tokens_when_ok {
            ev["file"] = tokenise(bytes);
        }
        drop(roots);
    }
    let after = mref.with_manager_shared(|m| {
        m.gc();
        m.num_inner_nodes()
    });
    ev["after"] = json!(after);
    ev
}

// ---------------------------------------------------------------------------
// one round trip

#[derive(Default)]
struct Stats {
    exports: u64,
    nontrivial: u64,
    accepted_mut: u64,
    mutations: u64,
}

/// export `roots`, log the file; load the header; import into the same
/// manager; import into a fresh manager.  Returns the exported bytes.
fn do_roundtrip<F: BoolExt>(
    s: &mut Session<F>,
    roots: &[Slot],
    rnames: Option<&[String]>,
    set: &Settings,
    stats: &mut Stats,
    import_too: bool,
) -> Vec<u8>
where
    for<'id> INodeOfFunc<'id, F>: HasLevel,
    for<'id> TermOfFunc<'id, F>: AsciiDisplay + ParseTagged<ETagOfFunc<'id, F>>,
{
    let (bytes, r) = {
        let fs: Vec<&F> = roots.iter().map(|&sl| s.get(sl)).collect();
        export_bytes::<F>(&s.mref, &fs, rnames, set)
    };
    stats.exports += 1;
    let mut ev = json!({"ev":"export","roots":roots,"set":settings_json(set),"res":io_res(&r),
        "file":tokenise(&bytes)});
    if let Some(ns) = rnames {
        ev["rnames"] = json!(ns.iter().map(|x| bytes_json(x.as_bytes())).collect::<Vec<_>>());
    }
    s.out.emit(ev);
    if r.is_err() || !import_too {
        return bytes;
    }

    // header
    let mut cur = Cursor::new(&bytes[..]);
    let h = catch(|| DumpHeader::load(&mut cur));
    let mut ev = json!({"ev":"header","res":io_res(&h)});
    if let Ok(Ok(hd)) = &h {
        ev["h"] = header_json(hd);
    }
    s.out.emit(ev);
    let Ok(Ok(header)) = h else {
        return bytes;
    };

    // same manager
    let sv: Vec<u32> = header.support_var_order().to_vec();
    let (_, v2l) = s.order();
    let sorted = sv.iter().all(|&v| (v as usize) < v2l.len())
        && sv
            .windows(2)
            .all(|w| v2l[w[0] as usize] < v2l[w[1] as usize]);
    let mut ev = json!({"ev":"import_same","sv":sv});
    let orig: Vec<Value> = roots
        .iter()
        .map(|&sl| {
            let e = s.edge_of(s.get(sl));
            json!([e.0, e.1])
        })
        .collect();
    ev["orig"] = json!(orig);
    let mut same_ok = false;
    if !sorted {
        ev["res"] = res_c("precond");
    } else {
        let r = catch(|| {
            s.mref.with_manager_shared(|m| {
                dddmp::import::<F>(&mut cur, &header, m, sv.iter().copied(), F::not_edge_owned)
            })
        });
        ev["res"] = io_res(&r);
        if let Ok(Ok(imp)) = r {
            let eq: Vec<bool> = imp
                .iter()
                .enumerate()
                .map(|(i, f)| i < roots.len() && f == s.get(roots[i]))
                .collect();
            same_ok = eq.iter().all(|&b| b) && eq.len() == roots.len();
            ev["eq"] = json!(eq);
            ev["es"] = json!(imp
                .iter()
                .map(|f| {
                    let e = s.edge_of(f);
                    json!([e.0, e.1])
                })
                .collect::<Vec<_>>());
        }
    }
    s.out.emit(ev);

    // fresh manager
    let mut ev = fresh_import::<F>(&bytes, false);
    ev["ev"] = json!("import_fresh");
    let fresh_ok = is_ok(&ev["res"]);
    s.out.emit(ev);
    if same_ok && fresh_ok && header.num_nodes() >= 2 {
        stats.nontrivial += 1;
    }
    // a larger fresh manager: 1..3 further variables above the support
    if fresh_ok && header.num_vars() + 3 <= TT_MAX_VARS.min(FRESH_MAX_VARS) {
        let mut ev = fresh_import_x::<F>(&bytes, false, 1 + (stats.exports % 3) as u32);
        ev["ev"] = json!("import_larger");
        s.out.emit(ev);
    }
    bytes
}

// ---------------------------------------------------------------------------
// names

const NAME_ATOMS: [&str; 14] = [
    "a", "b", "x", "1", "_", " ", "\t", "\n", "\u{7f}", "\u{1}", "é", "量", ".", "-",
];

fn random_name(rng: &mut Rng, dirty: bool) -> String {
    let len = 1 + rng.below(4);
    let mut s = String::new();
    for _ in 0..rng.below(3).saturating_sub(1) {
        s.push('_');
    }
    for _ in 0..len {
        let a = if dirty {
            NAME_ATOMS[rng.below(NAME_ATOMS.len())]
        } else {
            ["a", "b", "x", "1", "_", "é", "量", ".", "-"][rng.below(9)]
        };
        s.push_str(a);
    }
    s
}

/// variable names by scheme; "" = unnamed; non-empty names are unique
fn var_names(rng: &mut Rng, n: usize, scheme: usize) -> Vec<String> {
    let mut ns: Vec<String> = match scheme % 8 {
        0 => vec![String::new(); n],
        1 => (0..n).map(|i| format!("x{i}")).collect(),
        2 => (0..n).map(|_| random_name(rng, false)).collect(),
        3 => (0..n).map(|_| random_name(rng, true)).collect(),
        // some unnamed, generated names of other variables present
        4 => (0..n)
            .map(|i| match i % 3 {
                0 => String::new(),
                1 => format!("__x{}", i - 1),
                _ => format!("_x{}", (i + 1) % n.max(1)),
            })
            .collect(),
        // duplicates after sanitising
        5 => (0..n)
            .map(|i| ["a b", "a_b", "a\tb", "a\nb", "c d", "_x0_a_b", " ", "_"][i % 8].to_string())
            .collect(),
        6 => (0..n)
            .map(|i| if rng.chance(1, 3) { String::new() } else { random_name(rng, i % 2 == 0) })
            .collect(),
        _ => (0..n)
            .map(|i| [".nodes", ".end", "0", "-1", "T", ".ids 5"][i % 6].to_string())
            .collect(),
    };
    // keep non-empty names unique
    for i in 0..ns.len() {
        while !ns[i].is_empty() && ns[..i].contains(&ns[i]) {
            let c = ["'", "a", "_", "2"][rng.below(4)];
            ns[i].push_str(c);
        }
    }
    ns
}

fn set_names<F: BoolExt>(s: &mut Session<F>, names: &[String]) {
    s.mref.with_manager_exclusive(|m| {
        for (v, nm) in names.iter().enumerate() {
            if !nm.is_empty() {
                m.set_var_name(v as u32, nm.as_str())
                    .expect("harness: unique variable names");
            }
        }
    });
}

fn root_names(rng: &mut Rng, k: usize) -> Option<Vec<String>> {
    match rng.below(5) {
        0 => None,
        1 => Some((0..k).map(|i| format!("f{i}")).collect()),
        2 => Some((0..k).map(|_| random_name(rng, false)).collect()),
        3 => Some(
            (0..k)
                .map(|i| ["", "_f0", "a b", "g\n", " ", "_f1", "", "h"][(i + rng.below(2)) % 8].to_string())
                .collect(),
        ),
        _ => Some(
            (0..k)
                .map(|_| if rng.chance(1, 4) { String::new() } else { random_name(rng, true) })
                .collect(),
        ),
    }
}

fn random_settings(rng: &mut Rng) -> Settings {
    let dd = ["", "dd", "my dd", "a\nb", " lead", "x\t", "é"][rng.below(7)].to_string();
    Settings { v3: rng.chance(1, 2), ascii: rng.chance(1, 2), strict: rng.chance(1, 2), dd }
}

// ---------------------------------------------------------------------------
// dddmp-roundtrip

fn roundtrip<F: BoolExt>(args: &Args)
where
    for<'id> INodeOfFunc<'id, F>: HasLevel,
    for<'id> TermOfFunc<'id, F>: AsciiDisplay + ParseTagged<ETagOfFunc<'id, F>>,
{
    let dir = args.get("out", "/verif/out/tmp");
    let thorough = args.get("tier", "quick") == "thorough";
    let seed = args.num("seed", 1);
    let mut rng = Rng::new(seed ^ 0x1515);
    let name = format!("dddmp-roundtrip-{}", F::KIND);
    let mut out = TraceOut::new(&dir, &name, args.num("chunk", 500) as usize);
    let mut stats = Stats::default();

    // part 1: subsets of the 256 three-variable functions under all 6 orders
    let per_order = args.num("per_order", if thorough { 60 } else { 10 }) as usize;
    let perms3 = permutations(3);
    for si in 0..(if thorough { 16 } else { 8 }) {
        {
            let oi = (si + seed as usize) % 6;
            let ord = &perms3[oi];
            let mut s: Session<F> = Session::new_tagged(&mut out, 4096, 64, 1, "rt3");
            s.add_vars(3);
            let names = var_names(&mut rng, 3, si);
            set_names(&mut s, &names);
            let before = !F::REORDER_LIVE_OK || (si / 2) % 2 == 0;
            if before {
                s.reorder(ord);
            }
            let Some(h) = build_all3(&mut s, oi % 2 == 1) else {
                continue;
            };
            if !before {
                s.reorder(ord);
            }
            if s.dead {
                continue;
            }
            emit_pre(&mut s);
            for c in 0..per_order {
                let k = [0usize, 1, 1, 2, 3, 5, 8, 20, 60][c % 9];
                let roots: Vec<Slot> = (0..k).map(|_| h[rng.below(256)]).collect();
                let rn = root_names(&mut rng, k);
                let mut set = random_settings(&mut rng);
                // make sure that every mode/version combination occurs per order
                set.ascii = c % 2 == 0;
                set.v3 = (c / 2) % 2 == 0;
                do_roundtrip(&mut s, &roots, rn.as_deref(), &set, &mut stats, true);
            }
        }
    }

    // part 2: random diagrams over up to 10 variables, some of them unused
    let count = args.num("count", if thorough { 400 } else { 36 }) as usize;
    for c in 0..count {
        let n = if c % 17 == 16 { 0 } else { 1 + rng.below(10) } as u32;
        let mut s: Session<F> = Session::new_tagged(&mut out, 1 << 14, 256, 1, "rtn");
        s.add_vars(n);
        let scheme = rng.below(8);
        let names = var_names(&mut rng, n as usize, scheme);
        set_names(&mut s, &names);
        let before = !F::REORDER_LIVE_OK || rng.chance(1, 2);
        let ord = rng.perm(n as usize);
        if before && n > 0 {
            s.reorder(&ord);
        }
        // the variables that may occur in the functions
        let used: Vec<u32> = (0..n).filter(|_| rng.chance(2, 3)).collect();
        s.konst(true);
        s.konst(false);
        for &v in &used {
            s.var(v);
        }
        let ops = 4 + rng.below(if n > 7 { 30 } else { 16 });
        for _ in 0..ops {
            let live = s.live();
            let a = live[rng.below(live.len())];
            let b = live[rng.below(live.len())];
            match rng.below(10) {
                0 => {
                    s.not(a);
                }
                1 => {
                    let c3 = live[rng.below(live.len())];
                    s.ite(a, b, c3);
                }
                _ => {
                    s.bin(BIN_OPS[rng.below(8)], a, b);
                }
            }
            if s.dead {
                break;
            }
        }
        if s.dead {
            continue;
        }
        if !before && n > 0 {
            s.reorder(&ord);
        }
        emit_pre(&mut s);
        let live = s.live();
        for _ in 0..(if thorough { 4 } else { 3 }) {
            let k = [0usize, 1, 2, 3, 4, 6][rng.below(6)];
            // late handles are the interesting ones
            let roots: Vec<Slot> = (0..k)
                .map(|_| {
                    if rng.chance(3, 4) {
                        live[live.len() - 1 - rng.below(live.len().min(6))]
                    } else {
                        live[rng.below(live.len())]
                    }
                })
                .collect();
            let rn = root_names(&mut rng, k);
            let set = random_settings(&mut rng);
            do_roundtrip(&mut s, &roots, rn.as_deref(), &set, &mut stats, true);
        }
    }

    out.finish();
    write_summary(
        &dir,
        &name,
        &out,
        json!({"rows": stats.exports, "nontrivial": stats.nontrivial}),
    );
}

// ---------------------------------------------------------------------------
// dddmp-mutate

/// (description, mutated bytes)
fn mutations(base: &[u8], rng: &mut Rng, thorough: bool, binary: bool) -> Vec<(Value, Vec<u8>)> {
    let mut out: Vec<(Value, Vec<u8>)> = Vec::new();
    let len = base.len();
    // every truncation point
    for at in 0..len {
        out.push((json!({"m":"trunc","at":at}), base[..at].to_vec()));
    }
    // byte level
    const INTERESTING: [u8; 22] = [
        b'0', b'1', b'2', b'9', b'-', b' ', b'\n', b'\t', b'\r', b'A', b'B', b'T', b'F', b'E',
        b'.', b'x', 0x00, 0x01, 0x02, 0x7f, 0x80, 0xff,
    ];
    let stride = if thorough { 1 } else { 3 };
    let off = rng.below(stride);
    // the numeric header lines are short and decisive: always mutated densely
    let mut numeric = vec![false; len];
    {
        let mut a = 0usize;
        while a < len {
            let b = a + base[a..].iter().position(|&c| c == b'\n').unwrap_or(len - a);
            let l = &base[a..b];
            if [&b".ids"[..], b".permids", b".rootids", b".nnodes", b".nvars", b".nsuppvars", b".nroots", b".varinfo", b".mode"]
                .iter()
                .any(|k| l.starts_with(k) && l.get(k.len()).map_or(true, |&c| is_blank(c)))
            {
                for x in numeric[a..b].iter_mut() {
                    *x = true;
                }
            }
            if l == b".nodes" {
                break;
            }
            a = b + 1;
        }
    }
    for at in 0..len {
        let dense = thorough || at % stride == off || numeric[at] || (binary && at + 64 > len);
        if !dense {
            continue;
        }
        let mut b = base.to_vec();
        b[at] ^= 1 << rng.below(8);
        out.push((json!({"m":"flip","at":at}), b));
        let mut b = base.to_vec();
        b[at] = INTERESTING[rng.below(INTERESTING.len())];
        out.push((json!({"m":"set","at":at,"to":b[at]}), b));
        let mut b = base.to_vec();
        b.remove(at);
        out.push((json!({"m":"del","at":at}), b));
        let mut b = base.to_vec();
        let c = INTERESTING[rng.below(INTERESTING.len())];
        b.insert(at, c);
        out.push((json!({"m":"ins","at":at,"c":c}), b));
        if base[at].is_ascii_digit() {
            // the neighbouring numbers
            for d in [b'0', b'1', b'2', b'3', b'4', b'5', b'6', b'7'] {
                if d != base[at] && (thorough || numeric[at] || rng.chance(1, 2)) {
                    let mut b = base.to_vec();
                    b[at] = d;
                    out.push((json!({"m":"digit","at":at,"to":d}), b));
                }
            }
            let mut b = base.to_vec();
            b.insert(at, b'-');
            out.push((json!({"m":"neg","at":at}), b));
        }
    }
    // line level (header and, in ASCII mode, node lines)
    let mut starts = vec![0usize];
    for (i, &c) in base.iter().enumerate() {
        if c == b'\n' && i + 1 < len {
            starts.push(i + 1);
        }
    }
    let line = |k: usize| -> &[u8] {
        let a = starts[k];
        let b = if k + 1 < starts.len() { starts[k + 1] } else { len };
        &base[a..b]
    };
    for k in 0..starts.len() {
        let a = starts[k];
        let b = a + line(k).len();
        let mut del = base[..a].to_vec();
        del.extend_from_slice(&base[b..]);
        out.push((json!({"m":"del_line","line":k}), del));
        let mut dup = base[..b].to_vec();
        dup.extend_from_slice(line(k));
        dup.extend_from_slice(&base[b..]);
        out.push((json!({"m":"dup_line","line":k}), dup));
        if k + 1 < starts.len() {
            let b2 = b + line(k + 1).len();
            let mut sw = base[..a].to_vec();
            sw.extend_from_slice(line(k + 1));
            sw.extend_from_slice(line(k));
            sw.extend_from_slice(&base[b2..]);
            out.push((json!({"m":"swap_lines","line":k}), sw));
        }
    }
    // counts that no file can back
    for key in [&b".nnodes "[..], &b".nroots "[..]] {
        if let Some(p) = base.windows(key.len()).position(|w| w == key) {
            let a = p + key.len();
            let b = a + base[a..].iter().position(|&c| c == b'\n').unwrap_or(0);
            for huge in ["4611686018427387904", "18446744073709551615", "99999999999999999999999"] {
                let mut m = base[..a].to_vec();
                m.extend_from_slice(huge.as_bytes());
                m.extend_from_slice(&base[b..]);
                out.push((json!({"m":"huge","key":lossy(key),"to":huge}), m));
            }
        }
    }
    // a few double mutations
    let doubles = if thorough { 400 } else { 60 };
    for _ in 0..doubles {
        let mut b = base.to_vec();
        for _ in 0..2 {
            let at = rng.below(b.len());
            match rng.below(3) {
                0 => b[at] = INTERESTING[rng.below(INTERESTING.len())],
                1 => {
                    b.remove(at);
                }
                _ => b.insert(at, INTERESTING[rng.below(INTERESTING.len())]),
            }
            if b.is_empty() {
                break;
            }
        }
        out.push((json!({"m":"double"}), b));
    }
    out.retain(|(_, b)| b.as_slice() != base);
    out
}

/// a small manager with named variables, one unused variable, a non-identity
/// order and a few functions; deterministic in `seed`
fn small_session<'t, F: BoolExt>(
    out: &'t mut TraceOut,
    seed: u64,
    n: u32,
    tag: &str,
) -> Option<(Session<'t, F>, Vec<Slot>)> {
    let mut rng = Rng::new(seed);
    let mut s: Session<F> = Session::new_tagged(out, 2048, 64, 1, tag);
    s.add_vars(n);
    let names: Vec<String> = (0..n).map(|i| format!("v{i}")).collect();
    set_names(&mut s, &names);
    let mut ord = rng.perm(n as usize);
    if ord.iter().enumerate().all(|(i, &v)| i as u32 == v) && n > 1 {
        ord.swap(0, 1);
    }
    s.reorder(&ord);
    let unused = rng.below(n as usize) as u32;
    for v in 0..n {
        if v != unused {
            s.var(v);
        }
    }
    for _ in 0..(3 + n as usize) {
        let live = s.live();
        let a = live[rng.below(live.len())];
        let b = live[live.len() - 1 - rng.below(live.len().min(3))];
        if rng.chance(1, 6) {
            s.not(b);
        } else {
            s.bin(BIN_OPS[rng.below(8)], a, b);
        }
        if s.dead {
            return None;
        }
    }
    let live = s.live();
    let k = live.len();
    let roots = vec![live[k - 1], live[k - 2], live[k - 1 - rng.below(k.min(5))]];
    Some((s, roots))
}

fn mutate<F: BoolExt>(args: &Args)
where
    for<'id> INodeOfFunc<'id, F>: HasLevel,
    for<'id> TermOfFunc<'id, F>: AsciiDisplay + ParseTagged<ETagOfFunc<'id, F>>,
{
    let dir = args.get("out", "/verif/out/tmp");
    let thorough = args.get("tier", "quick") == "thorough";
    let seed = args.num("seed", 1);
    let mut rng = Rng::new(seed ^ 0x15ad);
    let name = format!("dddmp-mutate-{}", F::KIND);
    let mut out = TraceOut::new(&dir, &name, args.num("chunk", 700) as usize);
    let mut stats = Stats::default();
    let per_history = args.num("per_history", 150) as usize;
    let bases = args.num("bases", if thorough { 6 } else { 2 });

    let binsup = {
        let m = F::new_manager(64, 16, 1);
        m.with_manager_shared(|m| ExportSettings::binary_supported(m))
    };
    let mut modes = vec![true];
    if binsup {
        modes.push(false);
    }
    for bi in 0..bases {
        for &ascii in &modes {
            let n = 3 + ((bi + seed) % 3) as u32;
            let bseed = seed * 1000 + bi * 7 + ascii as u64;
            let set = Settings {
                v3: bi % 2 == 0,
                ascii,
                strict: false,
                dd: if bi % 2 == 0 { "d".into() } else { String::new() },
            };
            let rn: Option<Vec<String>> = if bi % 3 != 2 {
                Some(vec!["f".into(), "g".into(), "h".into()])
            } else {
                None
            };
            let tag = if ascii { "mutA" } else { "mutB" };
            // the base file
            let mut todo: Vec<(Value, Vec<u8>)> = Vec::new();
            let mut first = true;
            let mut done = 0usize;
            loop {
                let Some((mut s, roots)) = small_session::<F>(&mut out, bseed, n, tag) else {
                    break;
                };
                emit_pre(&mut s);
                let base = do_roundtrip(&mut s, &roots, rn.as_deref(), &set, &mut stats, first);
                if first {
                    todo = mutations(&base, &mut rng, thorough, !ascii);
                    first = false;
                }
                let upto = (done + per_history).min(todo.len());
                for (desc, bytes) in &todo[done..upto] {
                    let mut ev = fresh_import::<F>(bytes, true);
                    ev["ev"] = json!("import_bad");
                    ev["mut"] = desc.clone();
                    ev["len"] = json!(bytes.len());
                    stats.mutations += 1;
                    if is_ok(&ev["res"]) {
                        stats.accepted_mut += 1;
                    }
                    // exact reproduction of the notable cases
                    let c = ev["res"]["c"].as_str().unwrap_or("");
                    if c == "ok" || c.contains("panic") || ev["hres"]["c"] == json!("panic") {
                        ev["hex"] = json!(bytes.iter().map(|b| format!("{b:02x}")).collect::<String>());
                    }
                    s.out.emit(ev);
                }
                done = upto;
                if done >= todo.len() {
                    break;
                }
            }
        }
    }

    out.finish();
    write_summary(
        &dir,
        &name,
        &out,
        json!({"rows": stats.mutations, "nontrivial": stats.accepted_mut, "exports": stats.exports}),
    );
}

// ---------------------------------------------------------------------------
// MTBDD (i64 terminals): ASCII round trips.  Binary mode is not available for
// diagrams with more than one terminal, and there is no complement function,
// so mutated files are not exercised for this kind.

mod mt {
    use std::borrow::Borrow;
    use std::collections::HashSet;
    use std::io::Cursor;

    use oxidd::mtbdd::terminal::I64;
    use oxidd::mtbdd::MTBDDFunction;
    use oxidd::util::AllocResult;
    use oxidd::{
        Edge, Function, HasLevel, InnerNode, Manager, ManagerRef, Node, PseudoBooleanFunction,
    };
    use oxidd_core::LevelView;
    use oxidd_dump::dddmp::{self, DumpHeader};

    use super::{
        bytes_json, export_bytes_any, header_json, io_res, is_ok, random_settings, res_c,
        root_names, settings_json, tokenise, var_names, BAD,
    };
    use crate::util::{catch, json, write_summary, Args, Rng, TraceOut, Value};

    type MT = MTBDDFunction<I64>;
    type MRef = <MT as Function>::ManagerRef;

    /// ["n", value] | ["p", 0] (+inf) | ["m", 0] (-inf) | ["x", 0] (NaN)
    fn val_json(v: &I64) -> Value {
        match v {
            I64::Num(x) if x.unsigned_abs() < 1_000_000_000 => json!(["n", x]),
            I64::Num(_) => json!(["n", BAD]),
            I64::PlusInf => json!(["p", 0]),
            I64::MinusInf => json!(["m", 0]),
            I64::NaN => json!(["x", 0]),
        }
    }

    /// terminals are numbered per event: code = -1 - index into `terms`
    struct Terms(Vec<I64>);
    impl Terms {
        fn code(&mut self, t: &I64) -> i64 {
            let i = match self.0.iter().position(|x| x == t) {
                Some(i) => i,
                None => {
                    self.0.push(*t);
                    self.0.len() - 1
                }
            };
            -1 - i as i64
        }
        fn json(&self) -> Value {
            json!(self.0.iter().map(val_json).collect::<Vec<_>>())
        }
    }
    fn edge_code<M: Manager<Terminal = I64>>(m: &M, e: &M::Edge, ts: &mut Terms) -> i64 {
        match m.get_node(e) {
            Node::Inner(_) => e.node_id() as i64,
            Node::Terminal(t) => ts.code(t.borrow()),
        }
    }
    fn subgraph<M: Manager<Terminal = I64>>(
        m: &M,
        e: &M::Edge,
        seen: &mut HashSet<usize>,
        ts: &mut Terms,
        out: &mut Vec<Value>,
    ) where
        M::InnerNode: HasLevel,
    {
        if let Node::Inner(node) = m.get_node(e) {
            if !seen.insert(e.node_id()) {
                return;
            }
            for c in node.children() {
                subgraph(m, &*c, seen, ts, out);
            }
            let mut row = vec![e.node_id() as i64, node.level() as i64];
            for c in node.children() {
                row.push(edge_code(m, &*c, ts));
                row.push(0);
            }
            out.push(json!(row));
        }
    }
    fn snapshot<M: Manager<Terminal = I64>>(m: &M, ts: &mut Terms) -> Vec<Value>
    where
        M::InnerNode: HasLevel,
    {
        let mut out = Vec::new();
        for level in m.levels().rev() {
            let lno = level.level_no();
            for e in level.iter() {
                let node = m.get_node(e).unwrap_inner();
                let mut row = vec![
                    e.node_id() as i64,
                    lno as i64,
                    node.level() as i64,
                    node.ref_count() as i64,
                ];
                for c in node.children() {
                    row.push(edge_code(m, &*c, ts));
                    row.push(0);
                }
                out.push(json!(row));
            }
        }
        out
    }
    fn table(f: &MT, n: u32) -> Value {
        let r = catch(|| {
            (0..(1u32 << n))
                .map(|a| val_json(&f.eval((0..n).map(|v| (v, (a >> v) & 1 == 1)))))
                .collect::<Vec<_>>()
        });
        json!(r.unwrap_or_default())
    }
    fn no_complement<'id>(
        _m: &<MT as Function>::Manager<'id>,
        _e: <<MT as Function>::Manager<'id> as Manager>::Edge,
    ) -> AllocResult<<<MT as Function>::Manager<'id> as Manager>::Edge> {
        panic!("harness: MTBDDs have no complement edges")
    }

    /// events of the import of `bytes` into a fresh manager
    fn fresh_import(bytes: &[u8]) -> Value {
        let mut ev = json!({});
        let mut cur = Cursor::new(bytes);
        let h = catch(|| DumpHeader::load(&mut cur));
        ev["hres"] = io_res(&h);
        let Ok(Ok(header)) = h else {
            return ev;
        };
        ev["h"] = header_json(&header);
        let nv = header.num_vars();
        let sv: Vec<u32> = header.support_var_order().to_vec();
        ev["sv"] = json!(sv);
        let mref: MRef = oxidd::mtbdd::new_manager(2048, 256, 64, 1);
        let named = mref.with_manager_exclusive(|m| {
            let r = match header.var_names() {
                Some(ns) => match catch(|| m.add_named_vars(ns.iter().cloned())) {
                    Ok(Ok(_)) => "ok",
                    Ok(Err(_)) => "dup",
                    Err(_) => "panic",
                },
                None => "none",
            };
            let have = m.num_vars();
            if have < nv {
                m.add_vars(nv - have);
            }
            r
        });
        ev["named"] = json!(named);
        if let Err(p) = mref.with_manager_exclusive(|m| catch(|| oxidd_reorder::set_var_order(m, &sv))) {
            ev["res"] = json!({"c": "setup_panic", "msg": p});
            return ev;
        }
        let (l2v, v2l): (Vec<u32>, Vec<u32>) = mref.with_manager_shared(|m| {
            (
                (0..m.num_levels()).map(|l| m.level_to_var(l)).collect(),
                (0..m.num_vars()).map(|v| m.var_to_level(v)).collect(),
            )
        });
        ev["n"] = json!(nv);
        ev["l2v"] = json!(l2v);
        let sorted = sv.iter().all(|&v| v < nv)
            && sv.windows(2).all(|w| v2l[w[0] as usize] < v2l[w[1] as usize]);
        if !sorted {
            ev["res"] = res_c("precond");
            return ev;
        }
        let base = mref.with_manager_shared(|m| {
            m.gc();
            m.num_inner_nodes()
        });
        ev["base"] = json!(base);
        let r = catch(|| {
            mref.with_manager_shared(|m| {
                dddmp::import::<MT>(&mut cur, &header, m, sv.iter().copied(), no_complement)
            })
        });
        ev["res"] = io_res(&r);
        if let Ok(Ok(roots)) = r {
            let mut ts = Terms(Vec::new());
            let (es, g, snap, ninner) = mref.with_manager_shared(|m| {
                let es: Vec<Value> = roots
                    .iter()
                    .map(|f| json!([edge_code(m, f.as_edge(m), &mut ts), 0]))
                    .collect();
                let mut g = Vec::new();
                let mut seen = HashSet::new();
                for f in &roots {
                    subgraph(m, f.as_edge(m), &mut seen, &mut ts, &mut g);
                }
                let snap = snapshot(m, &mut ts);
                (es, g, snap, m.num_inner_nodes())
            });
            ev["es"] = json!(es);
            ev["g"] = json!(g);
            ev["snap"] = json!(snap);
            ev["ninner"] = json!(ninner);
            ev["terms"] = ts.json();
            ev["tts"] = json!(roots.iter().map(|f| table(f, nv)).collect::<Vec<_>>());
            drop(roots);
        }
        let after = mref.with_manager_shared(|m| {
            m.gc();
            m.num_inner_nodes()
        });
        ev["after"] = json!(after);
        ev
    }

    const CONSTS: [I64; 9] = [
        I64::Num(0),
        I64::Num(1),
        I64::Num(-1),
        I64::Num(2),
        I64::Num(-7),
        I64::Num(13),
        I64::PlusInf,
        I64::MinusInf,
        I64::NaN,
    ];

    pub fn roundtrip(args: &Args) {
        let dir = args.get("out", "/verif/out/tmp");
        let thorough = args.get("tier", "quick") == "thorough";
        let seed = args.num("seed", 1);
        let mut rng = Rng::new(seed ^ 0x1515_aa);
        let name = "dddmp-roundtrip-mtbdd";
        let mut out = TraceOut::new(&dir, name, args.num("chunk", 500) as usize);
        let mut exports = 0u64;
        let mut nontrivial = 0u64;
        let count = args.num("count", if thorough { 300 } else { 40 }) as usize;
        for c in 0..count {
            let n = if c % 13 == 12 { 0 } else { 1 + rng.below(if c % 3 == 0 { 8 } else { 4 }) } as u32;
            out.begin_history();
            out.emit(json!({"ev":"reset","kind":"mtbdd","tag":"rtm"}));
            let mref: MRef = oxidd::mtbdd::new_manager(1 << 13, 1 << 10, 256, 1);
            let scheme = rng.below(8);
            let names = var_names(&mut rng, n as usize, scheme);
            let ord = rng.perm(n as usize);
            let before = rng.chance(1, 2);
            mref.with_manager_exclusive(|m| {
                m.add_vars(n);
                for (v, nm) in names.iter().enumerate() {
                    if !nm.is_empty() {
                        m.set_var_name(v as u32, nm.as_str()).expect("harness: unique names");
                    }
                }
                if before && n > 0 {
                    oxidd_reorder::set_var_order(m, &ord);
                }
            });
            // functions: constants, variables of a subset, arithmetic
            // (every 7th manager holds one constant function only: a single terminal)
            let single = c % 7 == 3;
            let built = catch(|| {
                let mut fs: Vec<MT> = Vec::new();
                if single {
                    let cst = CONSTS[rng.below(CONSTS.len())];
                    fs.push(mref.with_manager_shared(|m| MT::constant(m, cst).unwrap()));
                    return fs;
                }
                mref.with_manager_shared(|m| {
                    for k in 0..(2 + rng.below(3)) {
                        let cst = CONSTS[(k + rng.below(CONSTS.len())) % CONSTS.len()];
                        fs.push(MT::constant(m, cst).unwrap());
                    }
                    for v in 0..n {
                        if rng.chance(2, 3) {
                            fs.push(<MT as PseudoBooleanFunction>::var(m, v).unwrap());
                        }
                    }
                });
                for _ in 0..(3 + rng.below(10)) {
                    let a = fs[rng.below(fs.len())].clone();
                    let b = fs[rng.below(fs.len())].clone();
                    let r = match rng.below(5) {
                        0 => a.add(&b),
                        1 => a.sub(&b),
                        2 => a.mul(&b),
                        3 => PseudoBooleanFunction::min(&a, &b),
                        _ => PseudoBooleanFunction::max(&a, &b),
                    };
                    fs.push(r.unwrap());
                }
                fs
            });
            let Ok(fs) = built else {
                out.emit(json!({"ev":"construct_mismatch","why":"panic while building"}));
                continue;
            };
            if !before && n > 0 {
                mref.with_manager_exclusive(|m| oxidd_reorder::set_var_order(m, &ord));
            }
            // projection
            let mut ts = Terms(Vec::new());
            let (l2v, mnames, hs, g) = mref.with_manager_shared(|m| {
                let l2v: Vec<u32> = (0..m.num_levels()).map(|l| m.level_to_var(l)).collect();
                let mnames: Vec<Value> =
                    (0..m.num_vars()).map(|v| bytes_json(m.var_name(v).as_bytes())).collect();
                let mut g = Vec::new();
                let mut seen = HashSet::new();
                let mut hs = Vec::new();
                for (sl, f) in fs.iter().enumerate() {
                    subgraph(m, f.as_edge(m), &mut seen, &mut ts, &mut g);
                    hs.push(json!([sl, edge_code(m, f.as_edge(m), &mut ts), 0, table(f, n)]));
                }
                (l2v, mnames, hs, g)
            });
            out.emit(json!({"ev":"pre","n":n,"l2v":l2v,"names":mnames,"binsup":false,"hs":hs,
                "g":g,"terms":ts.json()}));
            for _ in 0..3 {
                let k = [0usize, 1, 2, 3, 5][rng.below(5)];
                let roots: Vec<usize> = (0..k)
                    .map(|_| {
                        if rng.chance(3, 4) {
                            fs.len() - 1 - rng.below(fs.len().min(5))
                        } else {
                            rng.below(fs.len())
                        }
                    })
                    .collect();
                let rn = root_names(&mut rng, k);
                let set = random_settings(&mut rng);
                let rfs: Vec<&MT> = roots.iter().map(|&i| &fs[i]).collect();
                let (bytes, r) = export_bytes_any::<MT>(&mref, &rfs, rn.as_deref(), &set);
                exports += 1;
                let mut ev = json!({"ev":"export","roots":roots,"set":settings_json(&set),
                    "res":io_res(&r),"file":tokenise(&bytes)});
                if let Some(ns) = &rn {
                    ev["rnames"] = json!(ns.iter().map(|x| bytes_json(x.as_bytes())).collect::<Vec<_>>());
                }
                out.emit(ev);
                if r.is_err() {
                    continue;
                }
                let mut cur = Cursor::new(&bytes[..]);
                let h = catch(|| DumpHeader::load(&mut cur));
                let mut ev = json!({"ev":"header","res":io_res(&h)});
                if let Ok(Ok(hd)) = &h {
                    ev["h"] = header_json(hd);
                }
                out.emit(ev);
                let Ok(Ok(header)) = h else {
                    continue;
                };
                let sv: Vec<u32> = header.support_var_order().to_vec();
                let v2l: Vec<u32> = mref
                    .with_manager_shared(|m| (0..m.num_vars()).map(|v| m.var_to_level(v)).collect());
                let sorted = sv.iter().all(|&v| (v as usize) < v2l.len())
                    && sv.windows(2).all(|w| v2l[w[0] as usize] < v2l[w[1] as usize]);
                let mut ts2 = Terms(Vec::new());
                let orig: Vec<Value> = mref.with_manager_shared(|m| {
                    rfs.iter().map(|f| json!([edge_code(m, f.as_edge(m), &mut ts2), 0])).collect()
                });
                let mut ev = json!({"ev":"import_same","sv":sv,"orig":orig});
                let mut same_ok = false;
                if !sorted {
                    ev["res"] = res_c("precond");
                } else {
                    let r = catch(|| {
                        mref.with_manager_shared(|m| {
                            dddmp::import::<MT>(&mut cur, &header, m, sv.iter().copied(), no_complement)
                        })
                    });
                    ev["res"] = io_res(&r);
                    if let Ok(Ok(imp)) = r {
                        let eq: Vec<bool> = imp
                            .iter()
                            .enumerate()
                            .map(|(i, f)| i < rfs.len() && f == rfs[i])
                            .collect();
                        same_ok = eq.len() == rfs.len() && eq.iter().all(|&b| b);
                        ev["eq"] = json!(eq);
                        ev["es"] = mref.with_manager_shared(|m| {
                            json!(imp
                                .iter()
                                .map(|f| json!([edge_code(m, f.as_edge(m), &mut ts2), 0]))
                                .collect::<Vec<_>>())
                        });
                    }
                }
                out.emit(ev);
                let mut ev = fresh_import(&bytes);
                ev["ev"] = json!("import_fresh");
                let fresh_ok = is_ok(&ev["res"]);
                out.emit(ev);
                if same_ok && fresh_ok && header.num_nodes() >= 2 {
                    nontrivial += 1;
                }
            }
        }
        out.finish();
        write_summary(&dir, name, &out, json!({"rows": exports, "nontrivial": nontrivial}));
    }
}
