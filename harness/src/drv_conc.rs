//! C07: several application threads issue operations on one manager
//! concurrently (free-running), a collector thread runs gc() alongside, the
//! apply algorithms recurse in parallel on the manager's worker pool.
//!
//! Every thread records its own events; an event is stamped (global atomic
//! counter) at the moment its result becomes visible to the other threads,
//! under the lock of the shared handle table, so the merged trace respects
//! all data dependencies.  Reference counts are only audited at quiescence.

use std::sync::atomic::{AtomicBool, AtomicU64, Ordering::SeqCst};
use std::sync::Mutex;

use oxidd::{Manager, ManagerRef, Subst, Substitution};

use crate::ext::BoolExt;
use crate::kinds::{g_json, Kind};
use crate::session::{bin_call, tt_of, Session, BIN_OPS};
use crate::util::{catch, json, write_summary, Args, Rng, TraceOut, Value};

struct Table<F> {
    slots: Vec<Option<F>>,
    inuse: Vec<u32>,
}

fn project<F: BoolExt>(f: &F, n: u32) -> (Value, Value, Value, usize) {
    let e = f.with_manager_shared(|m, e| F::edge_code(m, e));
    let g = f.with_manager_shared(|m, e| F::subgraph(m, &[e]));
    (json!([e.0, e.1]), json!(tt_of(f, n)), g_json(&g), f.node_count())
}

pub fn conc<F: BoolExt + Send + Sync>(args: &Args)
where
    F::ManagerRef: Send + Sync,
{
    let dir = args.get("out", "/verif/out/tmp");
    let seed = args.num("seed", 1);
    let thorough = args.get("tier", "quick") == "thorough";
    let mut rng = Rng::new(seed ^ 0x0707);
    let mut out = TraceOut::new(&dir, &format!("conc-{}", F::KIND), 1200);
    let runs = if thorough { 200 } else { 30 };
    let mut total_ops = 0u64;

    for run in 0..runs {
        let n = 4 + rng.below(4) as u32; // 4..7 variables
        let workers = [2u32, 4, 8, 16][rng.below(4)];
        let app_threads = 2 + rng.below(3); // 2..4
        let ops_per_thread = if thorough { 300 } else { 160 };
        let cache = [1usize, 16, 1024, 1 << 16][rng.below(4)];
        // hook (feature oxidd_verif): random yields/sleeps around the unique
        // table, the collector's level loop and the apply cache
        oxidd_core::util::verif::PERTURB.store([0u32, 3, 8][run % 3], std::sync::atomic::Ordering::Relaxed);
        let mut s: Session<F> = Session::new(&mut out, 1 << 16, cache, workers);
        s.mref
            .with_manager_shared(|m| F::set_split_depth(m, Some([0u32, 1, 3, 8][run % 4])));
        s.add_vars(n);
        for v in 0..n {
            s.var(v);
        }
        for _ in 0..3 {
            let live = s.live();
            let a = live[rng.below(live.len())];
            let b = live[rng.below(live.len())];
            s.bin(BIN_OPS[rng.below(8)], a, b);
        }
        let nslots = s.slots.len();
        let table = Mutex::new(Table { slots: std::mem::take(&mut s.slots), inuse: vec![0; nslots] });
        let stamp = AtomicU64::new(0);
        let stop = AtomicBool::new(false);
        let mref = s.mref.clone();
        let mut all: Vec<(u64, Value)> = Vec::new();

        // substitution objects created by all application threads at the same
        // moment and kept alive together: the ids are the events' data
        if F::HAS_QUANT {
            let f0: F = table.lock().unwrap().slots[0].clone().unwrap();
            let bar = std::sync::Barrier::new(app_threads);
            let per_thread = if thorough { 2000 } else { 1500 };
            let objs: Vec<Vec<Subst<F>>> = std::thread::scope(|sc| {
                let hs: Vec<_> = (0..app_threads)
                    .map(|_| {
                        let bar = &bar;
                        let f0 = f0.clone();
                        sc.spawn(move || {
                            bar.wait();
                            (0..per_thread).map(|_| Subst::new(vec![0u32], vec![f0.clone()])).collect::<Vec<_>>()
                        })
                    })
                    .collect();
                hs.into_iter().map(|h| h.join().expect("harness: substids thread")).collect()
            });
            let ids: Vec<Vec<u32>> = objs.iter().map(|v| v.iter().map(|s| s.id()).collect()).collect();
            s.out.emit(json!({"ev":"substids","ids":ids}));
            drop(objs);
        }

        std::thread::scope(|sc| {
            let mut handles = Vec::new();
            for tid in 0..app_threads {
                let table = &table;
                let stamp = &stamp;
                let mut trng = Rng::new(seed * 1000 + run as u64 * 10 + tid as u64);
                handles.push(sc.spawn(move || {
                    let mut evs: Vec<(u64, Value)> = Vec::new();
                    for _ in 0..ops_per_thread {
                        let c = trng.below(100);
                        let quantify = c >= 92 && F::HAS_QUANT && !F::HAS_ZOPS;
                        // pick operands (cloned handles) under the table lock
                        let (ids, fs): (Vec<usize>, Vec<F>) = {
                            let mut t = table.lock().unwrap();
                            let live: Vec<usize> =
                                (0..t.slots.len()).filter(|&i| t.slots[i].is_some()).collect();
                            let k = 3;
                            // mostly a small hot set, so that identical operations repeat
                            let hot = live.len().min(6);
                            let mut ids: Vec<usize> = (0..k)
                                .map(|_| if trng.chance(2, 3) { live[trng.below(hot)] } else { live[trng.below(live.len())] })
                                .collect();
                            if quantify {
                                // the variable set of a quantification: one of the variable
                                // handles (slots 0..n-1, never dropped)
                                ids[2] = trng.below(n as usize);
                            }
                            for &i in &ids {
                                t.inuse[i] += 1;
                            }
                            let fs = ids.iter().map(|&i| t.slots[i].as_ref().unwrap().clone()).collect();
                            (ids, fs)
                        };
                        let mut used = 2;
                        let mut argv: Option<Vec<usize>> = None;
                        let (opname, extra, r): (String, Value, Option<Result<oxidd::util::AllocResult<F>, String>>) =
                            if c < 50 {
                                let op = BIN_OPS[trng.below(8)];
                                (op.to_string(), json!({}), Some(catch(|| bin_call(op, &fs[0], &fs[1]))))
                            } else if c < 56 {
                                used = 1;
                                ("not".into(), json!({}), Some(catch(|| fs[0].not())))
                            } else if c < 62 && F::HAS_QUANT {
                                // a substitution object of this thread's own (the
                                // replacement is held until the event is stamped)
                                used = 1;
                                let v = trng.below(n as usize) as u32;
                                let sub = Subst::new(vec![v], vec![fs[1].clone()]);
                                ("subst".into(), json!({"pairs":[[v, ids[1]]]}), Some(catch(|| fs[0].subst(&sub))))
                            } else if c < 72 {
                                used = 3;
                                ("ite".into(), json!({}), Some(catch(|| fs[0].ite(&fs[1], &fs[2]))))
                            } else if c < 80 {
                                used = 1;
                                ("clone".into(), json!({}), None)
                            } else if c < 92 {
                                used = 0;
                                ("drop".into(), json!({}), None)
                            } else if F::HAS_ZOPS {
                                let op = ["union", "intsec", "diff"][trng.below(3)];
                                (op.to_string(), json!({}), Some(catch(|| fs[0].zbin(op, &fs[1]))))
                            } else if quantify {
                                let q = ["exists", "forall", "unique"][trng.below(3)];
                                if trng.chance(1, 2) {
                                    argv = Some(vec![ids[0], ids[2]]);
                                    (q.to_string(), json!({}), Some(catch(|| fs[0].quant(q, &fs[2]))))
                                } else {
                                    used = 3;
                                    let op = BIN_OPS[trng.below(8)];
                                    (format!("apply_{q}"), json!({"bop": op}), Some(catch(|| fs[0].apply_quant(q, op, &fs[1], &fs[2]))))
                                }
                            } else {
                                let op = BIN_OPS[trng.below(8)];
                                (op.to_string(), json!({}), Some(catch(|| bin_call(op, &fs[0], &fs[1]))))
                            };
                        let args: Vec<usize> = argv.unwrap_or_else(|| ids[..used.min(ids.len())].to_vec());
                        match (opname.as_str(), r) {
                            ("clone", _) => {
                                let f = fs[0].clone();
                                let mut t = table.lock().unwrap();
                                t.slots.push(Some(f));
                                t.inuse.push(0);
                                let h = t.slots.len() - 1;
                                let st = stamp.fetch_add(1, SeqCst);
                                evs.push((st, json!({"ev":"clone","a":ids[0],"h":h,"thr":tid})));
                            }
                            ("drop", _) => {
                                // any thread may drop any handle that no
                                // operation in flight uses
                                let mut t = table.lock().unwrap();
                                let live: Vec<usize> = (0..t.slots.len())
                                    .filter(|&i| t.slots[i].is_some() && t.inuse[i] == 0 && i >= n as usize)
                                    .collect();
                                if live.len() > 6 {
                                    let a = live[trng.below(live.len())];
                                    let f = t.slots[a].take();
                                    let st = stamp.fetch_add(1, SeqCst);
                                    evs.push((st, json!({"ev":"drop","a":a,"thr":tid})));
                                    drop(t);
                                    drop(f);
                                }
                            }
                            (_, Some(r)) => {
                                let mut ev = json!({"ev":"op","op":opname,"a":args,"thr":tid});
                                if let Value::Object(o) = extra {
                                    for (k, v) in o {
                                        ev[k] = v;
                                    }
                                }
                                match r {
                                    Ok(Ok(f)) => {
                                        let (e, tt, g, nc) = project(&f, n);
                                        ev["e"] = e;
                                        ev["tt"] = tt;
                                        ev["g"] = g;
                                        ev["nc"] = json!(nc);
                                        // a third of the results is dropped at once: the
                                        // node dies and can only be revived through the
                                        // unique table or the apply cache
                                        let transient = trng.chance(1, 3);
                                        let mut t = table.lock().unwrap();
                                        let h = t.slots.len();
                                        ev["h"] = json!(h);
                                        let st = stamp.fetch_add(1, SeqCst);
                                        evs.push((st, ev));
                                        if transient {
                                            t.slots.push(None);
                                            t.inuse.push(0);
                                            let st = stamp.fetch_add(1, SeqCst);
                                            evs.push((st, json!({"ev":"drop","a":h,"thr":tid})));
                                            drop(t);
                                            drop(f);
                                        } else {
                                            t.slots.push(Some(f));
                                            t.inuse.push(0);
                                        }
                                    }
                                    Ok(Err(_)) => {
                                        ev["res"] = json!({"oom": true});
                                        let _t = table.lock().unwrap();
                                        evs.push((stamp.fetch_add(1, SeqCst), ev));
                                    }
                                    Err(p) => {
                                        ev["res"] = json!({ "panic": p });
                                        let _t = table.lock().unwrap();
                                        evs.push((stamp.fetch_add(1, SeqCst), ev));
                                    }
                                }
                            }
                            _ => {}
                        }
                        // release the operands (after the event was stamped)
                        drop(fs);
                        let mut t = table.lock().unwrap();
                        for &i in &ids {
                            t.inuse[i] -= 1;
                        }
                    }
                    evs
                }));
            }
            // collector thread
            let gc_handle = {
                let table = &table;
                let stamp = &stamp;
                let stop = &stop;
                let mref = mref.clone();
                let mut grng = Rng::new(seed * 7 + run as u64);
                sc.spawn(move || {
                    let mut evs: Vec<(u64, Value)> = Vec::new();
                    while !stop.load(SeqCst) {
                        // mostly back to back, sometimes a pause
                        if grng.chance(1, 4) {
                            std::thread::sleep(std::time::Duration::from_micros(50 + grng.below(400) as u64));
                        }
                        let ret = mref.with_manager_shared(|m| m.gc());
                        let _t = table.lock().unwrap();
                        evs.push((stamp.fetch_add(1, SeqCst), json!({"ev":"cgc","ret":ret})));
                    }
                    evs
                })
            };
            for h in handles {
                match h.join() {
                    Ok(evs) => all.extend(evs),
                    Err(_) => all.push((u64::MAX, json!({"ev":"abort","what":"thread panicked"}))),
                }
            }
            stop.store(true, SeqCst);
            if let Ok(evs) = gc_handle.join() {
                all.extend(evs);
            }
        });
        all.sort_by_key(|(st, _)| *st);
        total_ops += all.len() as u64;
        for (_, ev) in all {
            s.out.emit(ev);
        }
        let t = table.into_inner().unwrap();
        s.slots = t.slots;
        // quiescent audit
        s.obs();
        s.snap();
        for x in s.live() {
            s.drop_h(x);
        }
        s.gc();
        s.snap();
    }
    oxidd_core::util::verif::PERTURB.store(0, std::sync::atomic::Ordering::Relaxed);
    out.finish();
    write_summary(&dir, &format!("conc-{}", F::KIND), &out, json!({"rows":total_ops,"nontrivial":total_ops}));
}
