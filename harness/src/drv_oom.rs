//! C14: fault enumeration over the node capacity (index backend: small
//! capacities allocate slot by slot, so every allocation point of a scripted
//! operation is the failing one for some capacity).

use oxidd::{Manager, ManagerRef, Subst};

use crate::ext::BoolExt;
use crate::session::{Session, Slot, BIN_OPS};
use crate::util::{catch, json, write_summary, Args, Rng, TraceOut, Value};

#[derive(Clone, Debug)]
enum Scen {
    Var,
    Bin(&'static str),
    Ite,
    Quant(&'static str),
    AQuant(&'static str, &'static str),
    /// apply-and-quantify / binary operator whose operands make the operator a
    /// terminal case (constant, identity or negation of one operand):
    /// pattern 0 = (f, T), 1 = (f, F), 2 = (T, f), 3 = (F, f), 4 = (f, f)
    AQuantT(&'static str, &'static str, u8),
    BinT(&'static str, u8),
    Restrict,
    Subst,
    PickDd,
    PickDdSet,
    ZVar(&'static str),
    ZBin(&'static str),
    Not,
}

fn scenarios<F: BoolExt>() -> Vec<Scen> {
    let mut v = vec![Scen::Var, Scen::Not, Scen::Bin("and"), Scen::Bin("xor"), Scen::Bin("imp"), Scen::Ite,
                     Scen::Restrict, Scen::PickDd, Scen::PickDdSet];
    if F::HAS_QUANT {
        v.extend([Scen::Quant("exists"), Scen::Quant("unique"), Scen::AQuant("forall", "or"),
                  Scen::AQuant("exists", "and"), Scen::Subst]);
    }
    if F::HAS_QUANT {
        for (i, op) in BIN_OPS.iter().enumerate() {
            for pat in 0..5u8 {
                let q = ["exists", "forall", "unique"][(i + pat as usize) % 3];
                v.push(Scen::AQuantT(q, op, pat));
            }
        }
    }
    for op in ["xor", "nand", "imp", "equiv"] {
        for pat in 0..5u8 {
            v.push(Scen::BinT(op, pat));
        }
    }
    if F::HAS_ZOPS {
        v.extend([Scen::ZVar("subset1"), Scen::ZVar("change"), Scen::ZBin("union"), Scen::ZBin("diff")]);
    }
    v
}

struct Setup {
    f: Slot,
    g: Slot,
    h: Slot,
    cube: Slot,
    lits: Slot,
    t: Slot,
    fls: Slot,
    ballast: Vec<Slot>,
}

/// operands over variables 0..4 and ballast over variables 4..8; all built
/// deterministically from `seed`
fn setup<F: BoolExt>(s: &mut Session<F>, seed: u64) -> Option<Setup> {
    let mut rng = Rng::new(seed);
    let vars: Vec<Slot> = (0..4).map(|v| s.var(v)).collect::<Option<Vec<_>>>()?;
    let mut pool = vars.clone();
    for _ in 0..10 {
        let a = pool[rng.below(pool.len())];
        let b = pool[rng.below(pool.len())];
        let x = s.bin(BIN_OPS[rng.below(8)], a, b)?;
        pool.push(x);
    }
    let (f, g, h) = (pool[pool.len() - 1], pool[pool.len() - 2], pool[pool.len() - 3]);
    // variable set {x1, x2} and literal cube x0 & !x2
    let cube = s.bin("and", vars[1], vars[2])?;
    let n2 = s.not_var(2)?;
    let lits = s.bin("and", vars[0], n2)?;
    // ballast: parity-like functions over the other variables hold many nodes
    let mut ballast = Vec::new();
    let ys: Vec<Slot> = (4..s.n).map(|v| s.var(v)).collect::<Option<Vec<_>>>()?;
    let mut acc = ys[0];
    for &y in &ys[1..] {
        acc = s.bin("xor", acc, y)?;
        ballast.push(acc);
    }
    let mut acc2 = ys[0];
    for &y in &ys[1..] {
        let t = s.bin("and", acc2, y)?;
        acc2 = s.bin("xor", t, acc)?;
        ballast.push(acc2);
    }
    let t = s.konst(true);
    let fls = s.konst(false);
    Some(Setup { f, g, h, cube, lits, t, fls, ballast })
}

fn pattern(su: &Setup, pat: u8) -> (Slot, Slot) {
    match pat {
        0 => (su.f, su.t),
        1 => (su.f, su.fls),
        2 => (su.t, su.f),
        3 => (su.fls, su.f),
        _ => (su.f, su.f),
    }
}

fn run_op<F: BoolExt>(s: &mut Session<F>, sc: &Scen, su: &Setup) -> Option<Slot> {
    let (f, g, h) = (su.f, su.g, su.h);
    match sc {
        Scen::Var => s.var(3),
        Scen::Not => s.not(f),
        Scen::Bin(op) => s.bin(op, f, g),
        Scen::Ite => s.ite(f, g, h),
        Scen::Quant(q) => s.op(q, &[f, su.cube], json!({}), |s| s.get(f).quant(q, s.get(su.cube))),
        Scen::AQuant(q, op) => s.op(&format!("apply_{q}"), &[f, g, su.cube], json!({ "bop": op }), |s| {
            s.get(f).apply_quant(q, op, s.get(g), s.get(su.cube))
        }),
        Scen::AQuantT(q, op, pat) => {
            let (a, b) = pattern(su, *pat);
            s.op(&format!("apply_{q}"), &[a, b, su.cube], json!({ "bop": op }), |s| {
                s.get(a).apply_quant(q, op, s.get(b), s.get(su.cube))
            })
        }
        Scen::BinT(op, pat) => {
            let (a, b) = pattern(su, *pat);
            s.bin(op, a, b)
        }
        Scen::Restrict => s.op("restrict", &[f, su.lits], json!({}), |s| s.get(f).restrict(s.get(su.lits))),
        Scen::Subst => {
            let (h1, r1) = s.hold_ext(g);
            let (h2, r2) = s.hold_ext(h);
            let sub = Subst::new(vec![0u32, 2], vec![r1, r2]);
            let r = catch(|| s.get(f).subst(&sub));
            let res = s.log_result("subst", &[f], json!({"pairs": [[0, h1], [2, h2]], "sid": 0}), r);
            s.release_ext(h1);
            s.release_ext(h2);
            drop(sub);
            res
        }
        Scen::PickDd => {
            let r = catch(|| s.get(f).pick_cube_dd(|_, _, l| l % 2 == 0));
            let choice: Vec<bool> = (0..s.n).map(|l| l % 2 == 0).collect();
            s.log_result("pick_dd", &[f], json!({"choice": choice, "calls": []}), r)
        }
        Scen::PickDdSet => s.op("pick_dd_set", &[f, su.lits], json!({}), |s| {
            s.get(f).pick_cube_dd_set(s.get(su.lits))
        }),
        Scen::ZVar(op) => s.op(op, &[f], json!({ "v": 1 }), |s| s.get(f).zvar(op, 1)),
        Scen::ZBin(op) => s.op(op, &[f, g], json!({}), |s| s.get(f).zbin(op, s.get(g))),
    }
}

pub fn oom<F: BoolExt>(args: &Args) {
    let dir = args.get("out", "/verif/out/tmp");
    let seed = args.num("seed", 1);
    let thorough = args.get("tier", "quick") == "thorough";
    let mut out = TraceOut::new(&dir, &format!("oom-{}", F::KIND), 4000);
    let mut cases = 0u64;
    let mut failures = 0u64;
    let mut retried = 0u64;
    let nvars = 10u32;
    let seeds: Vec<u64> = if thorough { (0..8).map(|i| seed * 100 + i).collect() } else { vec![seed * 100, seed * 100 + 1] };
    for &sd in &seeds {
        for sc in scenarios::<F>() {
            let terminal_case = matches!(sc, Scen::AQuantT(..) | Scen::BinT(..));
            if terminal_case && !thorough && sd != seeds[0] {
                continue;
            }
            for threads in if thorough { vec![1u32, 4] } else if terminal_case { vec![1u32] } else { vec![1u32, 3] } {
                // measure: nodes after the setup and after the operation, no gc
                let (p_setup, p_total) = {
                    let mut sink = TraceOut::new(&format!("{dir}/measure"), "m", usize::MAX);
                    let mut s: Session<F> = Session::new(&mut sink, 1 << 14, 64, threads);
                    s.add_vars(nvars);
                    let Some(su) = setup(&mut s, sd) else { continue };
                    let a = s.mref.with_manager_shared(|m| m.num_inner_nodes());
                    run_op(&mut s, &sc, &su);
                    let b = s.mref.with_manager_shared(|m| m.num_inner_nodes());
                    (a, b)
                };
                let _ = std::fs::remove_dir_all(format!("{dir}/measure"));
                if p_total == p_setup && !thorough {
                    // the operation needs no node: nothing to enumerate, one run
                }
                for c in p_setup..=(p_total + 1) {
                    let mut s: Session<F> =
                        Session::new_tagged(&mut out, c, 16, threads, if threads > 1 { "mt" } else { "" });
                    if threads > 1 {
                        s.mref.with_manager_shared(|m| F::set_split_depth(m, Some(4)));
                    }
                    s.add_vars(nvars);
                    let Some(su) = setup(&mut s, sd) else {
                        // cannot happen: c >= p_setup
                        continue;
                    };
                    s.snap();
                    cases += 1;
                    let r = run_op(&mut s, &sc, &su);
                    if s.dead {
                        continue;
                    }
                    s.snap();
                    if r.is_none() {
                        failures += 1;
                        // free space: drop the ballast, collect, retry
                        for &b in &su.ballast {
                            s.drop_h(b);
                        }
                        s.gc();
                        s.snap();
                        // the retry must succeed if the freed space suffices for
                        // everything the operation allocates (measured above)
                        let now = s.mref.with_manager_shared(|m| m.num_inner_nodes());
                        if c - now >= p_total - p_setup {
                            s.out.emit(json!({"ev":"expect_ok","op":format!("{sc:?}")}));
                            retried += 1;
                        }
                        let r2 = run_op(&mut s, &sc, &su);
                        if s.dead {
                            continue;
                        }
                        let _ = r2;
                        s.snap();
                    }
                    s.obs();
                }
            }
        }
    }
    out.finish();
    write_summary(&dir, &format!("oom-{}", F::KIND), &out, json!({"rows":cases,"nontrivial":failures,"retries_required_ok":retried}));
}


/// C14, calls whose API cannot report an error (set_var_order, add_vars): run
/// under memory pressure in a process of their own (the library may abort).
pub fn oomabort<F: BoolExt>(args: &Args) {
    let dir = args.get("out", "/verif/out/tmp");
    let seed = args.num("seed", 1);
    let scen = args.get("scen", "reorder");
    let slack = args.num("slack", 0) as usize;
    let mut out = TraceOut::new(&dir, &format!("oomabort-{}-{}-{}", F::KIND, scen, slack), 4000);
    let n = 6u32;
    let build = |s: &mut Session<F>| -> Option<()> {
        let mut rng = Rng::new(seed);
        for v in 0..n {
            s.var(v)?;
        }
        for _ in 0..10 {
            let live = s.live();
            let a = live[rng.below(live.len())];
            let b = live[rng.below(live.len())];
            s.bin(BIN_OPS[rng.below(8)], a, b)?;
        }
        Some(())
    };
    // measure the number of nodes the set-up needs
    let need = {
        let mut sink = TraceOut::new(&format!("{dir}/measure"), "m", usize::MAX);
        let mut s: Session<F> = Session::new(&mut sink, 1 << 14, 64, 1);
        s.add_vars(n);
        build(&mut s);
        s.mref.with_manager_shared(|m| m.num_inner_nodes())
    };
    let _ = std::fs::remove_dir_all(format!("{dir}/measure"));
    let mut s: Session<F> = Session::new_tagged(&mut out, need + slack, 64, 1, "oom");
    s.add_vars(n);
    if build(&mut s).is_none() {
        return;
    }
    s.snap();
    match scen.as_str() {
        "reorder" => {
            if F::REORDER_LIVE_OK {
                let p: Vec<u32> = (0..n).rev().collect();
                s.reorder(&p);
            }
        }
        _ => s.add_vars(2),
    }
    if !s.dead {
        s.snap();
        s.obs();
    }
    out.finish();
    write_summary(&dir, &format!("oomabort-{}", F::KIND), &out, json!({"rows":1,"nontrivial":1}));
}


/// fill the (empty) manager with nodes created one at a time until an
/// allocation fails; returns the number of inner nodes at that point.
/// Deterministic for a given manager state, no events.
fn fill_to_capacity<F: BoolExt>(s: &Session<F>) -> usize {
    let n = s.n;
    let r = catch(|| {
        let (l2v, _) = s.order();
        let mut vars: Vec<F> = Vec::new();
        for v in 0..n {
            match s.mref.with_manager_shared(|m| F::var(m, v)) {
                Ok(x) => vars.push(x),
                Err(_) => return s.mref.with_manager_shared(|m| m.num_inner_nodes()),
            }
        }
        let (t, f) = s.mref.with_manager_shared(|m| (F::t(m), F::f(m)));
        let mut pool: Vec<F> = vec![t, f];
        // bottom-up: ite(x, a, b) with a, b below x is one new node
        for lvl in (0..n).rev() {
            let x = &vars[l2v[lvl as usize] as usize];
            let below = pool.clone();
            let mut made = 0usize;
            'pairs: for a in &below {
                for b in &below {
                    if a == b {
                        continue;
                    }
                    match x.ite(a, b) {
                        Ok(r) => pool.push(r),
                        Err(_) => return s.mref.with_manager_shared(|m| m.num_inner_nodes()),
                    }
                    made += 1;
                    if made > 40_000 {
                        break 'pairs;
                    }
                }
            }
        }
        // not full (cannot happen for the capacities used): report what is there
        s.mref.with_manager_shared(|m| m.num_inner_nodes())
    });
    // every handle created above is gone: collect without an event (the
    // trace specification never saw these nodes)
    let _ = catch(|| s.mref.with_manager_shared(|m| m.gc()));
    r.unwrap_or(usize::MAX)
}

/// C05 / C14: after any history, dropping every handle and collecting makes
/// the full node capacity available again: the manager can be filled exactly
/// as far as a fresh one.
pub fn capprobe<F: BoolExt>(args: &Args) {
    let dir = args.get("out", "/verif/out/tmp");
    let seed = args.num("seed", 1);
    let thorough = args.get("tier", "quick") == "thorough";
    let mut out = TraceOut::new(&dir, &format!("capprobe-{}", F::KIND), 3000);
    let mut rng = Rng::new(seed ^ 0xca9);
    let mut cases = 0u64;
    let count = if thorough { 120 } else { 24 };
    for h in 0..count {
        let cap = [64usize, 100, 128, 257, 512][rng.below(5)];
        let threads = if thorough && h % 3 == 2 { 2u32 } else { 1 };
        let n = 10u32;
        let mut s: Session<F> = Session::new_tagged(&mut out, cap, [1usize, 16, 256][rng.below(3)], threads,
                                                    if threads > 1 { "mt" } else { "" });
        s.add_vars(n);
        let fresh = fill_to_capacity(&s);
        s.snap();
        // random phase: build, drop, collect, then operations that create exactly one node
        let rounds = 2 + rng.below(3);
        for _ in 0..rounds {
            if s.dead {
                break;
            }
            let mut guard = 0;
            while !s.dead && guard < 60 {
                guard += 1;
                let used = s.mref.with_manager_shared(|m| m.num_inner_nodes());
                if used * 10 > cap * 7 {
                    break;
                }
                let live = s.live();
                if live.len() < 3 {
                    let v = rng.below(n as usize) as u32;
                    s.var(v);
                    continue;
                }
                let (a, b) = (live[rng.below(live.len())], live[rng.below(live.len())]);
                if s.bin(BIN_OPS[rng.below(8)], a, b).is_none() {
                    break;
                }
            }
            // drop most handles, collect: at least two nodes die
            let live = s.live();
            for (i, &x) in live.iter().enumerate() {
                if i % 4 != 0 {
                    s.drop_h(x);
                }
            }
            s.gc();
            s.snap();
            // single-node operations, each in a manager session of its own
            let k = 1 + rng.below(3);
            for _ in 0..k {
                let v = rng.below(n as usize) as u32;
                if rng.chance(1, 2) {
                    s.var(v);
                } else {
                    s.not_var(v);
                }
            }
            let live = s.live();
            if live.len() >= 2 && rng.chance(1, 2) {
                let (a, b) = (live[rng.below(live.len())], live[rng.below(live.len())]);
                s.bin("and", a, b);
            }
        }
        if s.dead {
            continue;
        }
        s.obs();
        for x in s.live() {
            s.drop_h(x);
        }
        s.gc();
        s.snap();
        let filled = fill_to_capacity(&s);
        cases += 1;
        s.out.emit(json!({"ev":"probe","cap":cap,"fresh":fresh,"filled":filled,"thr":threads}));
        s.snap();
    }
    out.finish();
    write_summary(&dir, &format!("capprobe-{}", F::KIND), &out, json!({"rows":cases,"nontrivial":cases}));
}

/// GcThread.tla (beyond the listed properties): replay of the model's
/// counterexample schedules on the real manager: the last reference is
/// dropped (a) right after creation, (b) after the collector had time to go
/// to sleep, (c) while a background collection is likely to run.  Reports
/// how many threads are still alive afterwards (informational, no event).
pub fn gcthread(args: &Args) {
    use oxidd::bdd::BDDFunction;
    use oxidd::BooleanFunction;
    let dir = args.get("out", "/verif/out/tmp");
    let n = args.num("count", 100) as usize;
    let threads = || std::fs::read_dir("/proc/self/task").map(|d| d.count()).unwrap_or(0);
    let settle = |base: usize| {
        // the collector needs a moment to wake up and exit
        for _ in 0..100 {
            if threads() <= base {
                break;
            }
            std::thread::sleep(std::time::Duration::from_millis(20));
        }
        threads().saturating_sub(base)
    };
    let base = threads();
    let mut res = serde_json::Map::new();
    for (name, delay_us) in [("immediate", 0u64), ("after_2ms", 2000), ("after_20ms", 20000)] {
        for _ in 0..n {
            let m = oxidd::bdd::new_manager(1 << 10, 1 << 6, 1);
            m.with_manager_exclusive(|m| {
                m.add_vars(2);
            });
            let x = m.with_manager_shared(|m| BDDFunction::var(m, 0).unwrap());
            if delay_us > 0 {
                std::thread::sleep(std::time::Duration::from_micros(delay_us));
            }
            drop(x);
            drop(m);
        }
        res.insert(name.to_string(), json!({"managers": n, "leaked_threads": settle(base)}));
    }
    // (c) garbage across the high-water mark, then drop at once
    for _ in 0..n {
        let m = oxidd::bdd::new_manager(128, 64, 1);
        m.with_manager_exclusive(|m| {
            m.add_vars(12);
        });
        let mut acc = m.with_manager_shared(|m| BDDFunction::var(m, 0).unwrap());
        for v in 1..12 {
            let x = m.with_manager_shared(|m| BDDFunction::var(m, v).unwrap());
            match acc.xor(&x) {
                Ok(r) => acc = r,
                Err(_) => break,
            }
        }
        drop(acc);
        drop(m);
    }
    res.insert("during_gc".to_string(), json!({"managers": n, "leaked_threads": settle(base)}));
    let out = TraceOut::new(&dir, "gcthread", usize::MAX);
    write_summary(&dir, "gcthread", &out, Value::Object(res));
}
