//! A `Session` owns one manager, a table of handle slots and the trace output.
//! Every public call goes through a method that performs the call on the real
//! library and writes one event with arguments, result and projected state.

use std::collections::{BTreeMap, HashMap};

use oxidd::util::AllocResult;
use oxidd::{BooleanFunction, Manager, ManagerRef};

use crate::kinds::{g_json, snap_json, Kind};
use crate::util::{catch, json, TraceOut, Value};

pub struct Session<'t, F: Kind> {
    pub mref: F::ManagerRef,
    pub slots: Vec<Option<F>>,
    pub out: &'t mut TraceOut,
    pub n: u32,
    /// a panic of the library was observed: the history must be abandoned
    pub dead: bool,
    /// slots of handles held outside the slot table (e.g. inside a `Subst`)
    pub ext: std::collections::BTreeMap<Slot, (i64, u32)>,
    /// number of add_vars calls so far (selects the entry point)
    pub add_calls: u32,
    /// use add_vars / add_named_vars / add_named_vars_from_map in turn
    pub rotate_add: bool,
    /// entry point for the next add_vars call (replay of a recorded call)
    pub force_via: Option<u32>,
}

pub type Slot = usize;

/// truth table by `eval` on every assignment; a panic of `eval` is reported
/// as the table `[-1]` (no function has it)
pub fn tt_of<F: BooleanFunction>(f: &F, n: u32) -> Vec<i64> {
    let r = catch(|| {
        let mut tt = Vec::new();
        for a in 0..(1u32 << n) {
            if f.eval((0..n).map(|v| (v, (a >> v) & 1 == 1))) {
                tt.push(a as i64);
            }
        }
        tt
    });
    r.unwrap_or_else(|_| vec![-1])
}

/// truth table by `eval` with argument lists in which every variable occurs twice, first with the
/// opposite value, then (in reverse variable order) with the intended one: the last value counts
pub fn tt_dup_of<F: BooleanFunction>(f: &F, n: u32) -> Vec<i64> {
    let r = catch(|| {
        let mut tt = Vec::new();
        for a in 0..(1u32 << n) {
            let first = (0..n).map(|v| (v, (a >> v) & 1 == 0));
            let second = (0..n).rev().map(|v| (v, (a >> v) & 1 == 1));
            if f.eval(first.chain(second)) {
                tt.push(a as i64);
            }
        }
        tt
    });
    r.unwrap_or_else(|_| vec![-1])
}

impl<'t, F: Kind + BooleanFunction> Session<'t, F> {
    pub fn new(out: &'t mut TraceOut, cap: usize, cache: usize, threads: u32) -> Self {
        Self::new_tagged(out, cap, cache, threads, "")
    }
    /// `tag` becomes part of the signature of every finding in this history
    pub fn new_tagged(out: &'t mut TraceOut, cap: usize, cache: usize, threads: u32, tag: &str) -> Self {
        out.begin_history();
        crate::kinds::reset_ids();
        let mref = F::new_manager(cap, cache, threads);
        let mut ev = json!({"ev":"reset","kind":F::KIND,"cap":cap,"cache":cache,"thr":threads,
            "backend": if cfg!(feature="ptr") {"ptr"} else {"idx"}});
        if !tag.is_empty() {
            ev["tag"] = json!(tag);
        }
        out.emit(ev);
        Session {
            mref,
            slots: Vec::new(),
            out,
            n: 0,
            dead: false,
            ext: Default::default(),
            rotate_add: false,
            force_via: None,
            add_calls: {
                static SESSIONS: std::sync::atomic::AtomicU32 = std::sync::atomic::AtomicU32::new(0);
                SESSIONS.fetch_add(1, std::sync::atomic::Ordering::Relaxed) % 3
            },
        }
    }

    pub fn order(&self) -> (Vec<u32>, Vec<u32>) {
        self.mref.with_manager_shared(|m| F::order(m))
    }

    pub fn add_vars(&mut self, k: u32) {
        self.out.emit(json!({"ev":"begin","what":"add_vars","k":k}));
        // all three entry points in turn: add_vars, add_named_vars,
        // add_named_vars_from_map (fresh unique names)
        self.add_calls += 1;
        // (only for drivers that opted in; the others name variables themselves)
        let via = match self.force_via.take() {
            Some(v) => v,
            None if self.rotate_add => self.add_calls % 3,
            None => 1,
        };
        let r = self.mref.with_manager_exclusive(|m| {
            catch(|| {
                let n0 = m.num_vars();
                let names = (0..k).map(|i| format!("x{}", n0 + i));
                match via {
                    1 => m.add_vars(k),
                    2 => m.add_named_vars(names).expect("harness: fresh names"),
                    _ => {
                        let mut map = oxidd_core::util::VarNameMap::new();
                        // the names of the existing variables come first
                        let old: Vec<String> = (0..n0).map(|v| m.var_name(v).to_string()).collect();
                        if old.iter().all(|s| s.is_empty()) && n0 == 0 {
                            map.add_named(names).expect("harness: fresh names");
                            m.add_named_vars_from_map(map).expect("harness: fresh names")
                        } else {
                            m.add_named_vars(names).expect("harness: fresh names")
                        }
                    }
                }
            })
        });
        let (l2v, v2l) = self.order();
        let (nv, nl) = self
            .mref
            .with_manager_shared(|m| (m.num_vars(), m.num_levels()));
        match r {
            Ok(range) => {
                self.n = nv;
                self.out.emit(json!({"ev":"add_vars","k":k,"range":[range.start, range.end],
                    "n":nv,"nl":nl,"l2v":l2v,"v2l":v2l,"via":via}));
            }
            Err(p) => self.out.emit(json!({"ev":"add_vars","k":k,"res":{"panic":p}})),
        }
    }

    pub fn get(&self, s: Slot) -> &F {
        self.slots[s].as_ref().expect("live slot")
    }
    pub fn live(&self) -> Vec<Slot> {
        (0..self.slots.len())
            .filter(|&s| self.slots[s].is_some())
            .collect()
    }
    fn put(&mut self, f: F) -> Slot {
        self.slots.push(Some(f));
        self.slots.len() - 1
    }

    pub fn edge_of(&self, f: &F) -> (i64, u32) {
        f.with_manager_shared(|m, e| F::edge_code(m, e))
    }

    /// Perform `call`, log it as event `op` with arguments `args` (slots) and
    /// extra fields; returns the slot of the result.
    pub fn op(
        &mut self,
        op: &str,
        args: &[Slot],
        extra: Value,
        call: impl FnOnce(&Self) -> AllocResult<F>,
    ) -> Option<Slot> {
        let r = catch(|| call(self));
        self.log_result(op, args, extra, r)
    }

    /// Log an already obtained result of an operation
    pub fn log_result(
        &mut self,
        op: &str,
        args: &[Slot],
        extra: Value,
        r: Result<AllocResult<F>, String>,
    ) -> Option<Slot> {
        let mut ev = json!({"ev":"op","op":op,"a":args});
        if let Value::Object(o) = extra {
            for (k, v) in o {
                ev[k] = v;
            }
        }
        match r {
            Ok(Ok(f)) => {
                let n = self.n;
                let e = self.edge_of(&f);
                ev["e"] = json!([e.0, e.1]);
                ev["tt"] = json!(tt_of(&f, n));
                ev["nc"] = json!(f.node_count());
                let g = f.with_manager_shared(|m, e| F::subgraph(m, &[e]));
                ev["g"] = g_json(&g);
                let s = self.put(f);
                ev["h"] = json!(s);
                self.out.emit(ev);
                Some(s)
            }
            Ok(Err(_)) => {
                ev["res"] = json!({"oom": true});
                self.out.emit(ev);
                None
            }
            Err(p) => {
                ev["res"] = json!({ "panic": p });
                self.out.emit(ev);
                self.dead = true;
                None
            }
        }
    }

    /// Adopt handles obtained through unlogged calls
    pub fn adopt(&mut self, fs: Vec<F>) -> Vec<Slot> {
        let mut slots = Vec::new();
        let mut hs = Vec::new();
        for f in fs {
            let e = self.edge_of(&f);
            let s = self.put(f);
            hs.push(json!([s, e.0, e.1]));
            slots.push(s);
        }
        let g = {
            let fs: Vec<&F> = slots.iter().map(|&s| self.get(s)).collect();
            self.mref.with_manager_shared(|m| {
                let roots: Vec<_> = fs.iter().map(|f| f.as_edge(m)).collect();
                F::subgraph(m, &roots)
            })
        };
        self.out.emit(json!({"ev":"adopt","hs":hs,"g":g_json(&g)}));
        slots
    }

    pub fn clone_h(&mut self, s: Slot) -> Slot {
        let f = self.get(s).clone();
        let h = self.put(f);
        self.out.emit(json!({"ev":"clone","a":s,"h":h}));
        h
    }
    /// clone the handle in slot `a` for a holder outside the slot table; the
    /// clone is logged and accounted for under the returned slot
    pub fn hold_ext(&mut self, a: Slot) -> (Slot, F) {
        let f = self.get(a).clone();
        let e = self.edge_of(&f);
        self.slots.push(None);
        let h = self.slots.len() - 1;
        self.ext.insert(h, e);
        self.out.emit(json!({"ev":"clone","a":a,"h":h,"ext":true}));
        (h, f)
    }
    /// the external holder is about to drop its handle
    pub fn release_ext(&mut self, h: Slot) {
        self.ext.remove(&h).expect("harness: ext slot");
        self.out.emit(json!({"ev":"drop","a":h}));
    }
    pub fn drop_h(&mut self, s: Slot) {
        let f = self.slots[s].take();
        self.out.emit(json!({"ev":"drop","a":s}));
        drop(f);
    }
    /// drop the handle in slot `s` through `Manager::try_remove_node`
    pub fn try_remove_h(&mut self, s: Slot) {
        let Some(f) = self.slots[s].take() else { return };
        self.out.emit(json!({"ev":"begin","what":"try_remove"}));
        let r = catch(|| F::try_remove(&self.mref, f));
        match r {
            Ok(rm) => {
                // (no JSON null: the TLC Json module cannot read it)
                let removed = match rm {
                    Some(true) => "yes",
                    Some(false) => "no",
                    None => "terminal",
                };
                self.out.emit(json!({"ev":"drop","a":s,"via":"try_remove","removed":removed}))
            }
            Err(p) => {
                self.out.emit(json!({"ev":"drop","a":s,"via":"try_remove","res":{"panic":p}}));
                self.dead = true;
            }
        }
    }
    pub fn gc(&mut self) -> usize {
        let (before, after, ret) = self.mref.with_manager_shared(|m| {
            let b = m.num_inner_nodes();
            let r = m.gc();
            (b, m.num_inner_nodes(), r)
        });
        self.out
            .emit(json!({"ev":"gc","ret":ret,"before":before,"after":after}));
        ret
    }

    /// observations of every live handle: eval truth table, node count,
    /// equality class by ==/Hash, rank by Ord
    pub fn obs(&mut self) {
        let live = self.live();
        let n = self.n;
        let mut classes: HashMap<F, usize> = HashMap::new();
        let mut sorted: BTreeMap<F, usize> = BTreeMap::new();
        for &s in &live {
            let f = self.get(s).clone();
            let k = classes.len();
            classes.entry(f.clone()).or_insert(k);
            sorted.entry(f).or_insert(0);
        }
        for (i, (_, r)) in sorted.iter_mut().enumerate() {
            *r = i;
        }
        let mut hs = Vec::new();
        for &s in &live {
            let f = self.get(s);
            let e = self.edge_of(f);
            hs.push(json!([
                s,
                e.0,
                e.1,
                tt_of(f, n),
                f.node_count(),
                classes[f],
                sorted[f],
                f.satisfiable(),
                f.valid(),
                tt_dup_of(f, n)
            ]));
        }
        // direct pairwise == on a bounded number of pairs (not via Hash)
        let mut eqp = Vec::new();
        let lim = live.len().min(24);
        for i in 0..lim {
            for j in (i + 1)..lim {
                if self.get(live[i]) == self.get(live[j]) {
                    eqp.push(json!([live[i], live[j]]));
                }
            }
        }
        self.out
            .emit(json!({"ev":"obs","hs":hs,"eqp":eqp,"eqn":lim}));
    }

    /// full snapshot of the store
    pub fn snap(&mut self) {
        let live = self.live();
        let (nodes, ninner, gcn, ron, l2v, v2l, nv, nl) = self.mref.with_manager_exclusive(|m| {
            let m = &*m;
            let (l2v, v2l) = F::order(m);
            (
                F::snapshot(m),
                m.num_inner_nodes(),
                m.gc_count(),
                m.reorder_count(),
                l2v,
                v2l,
                m.num_vars(),
                m.num_levels(),
            )
        });
        let mut hs: Vec<Value> = live
            .iter()
            .map(|&s| {
                let e = self.edge_of(self.get(s));
                json!([s, e.0, e.1])
            })
            .collect();
        for (s, e) in &self.ext {
            hs.push(json!([s, e.0, e.1]));
        }
        self.out.emit(json!({"ev":"snap","nodes":snap_json(&nodes),"hs":hs,"ninner":ninner,
            "gc":gcn,"ro":ron,"l2v":l2v,"v2l":v2l,"n":nv,"nl":nl}));
    }

    pub fn reorder(&mut self, req: &[u32]) {
        self.out.emit(json!({"ev":"begin","what":"reorder","req":req}));
        oxidd_reorder::verif::EVENTS.lock().clear();
        let r = self
            .mref
            .with_manager_exclusive(|m| catch(|| F::set_var_order(m, req)));
        // hook events: level swap begin (0) / end (1), concurrent sort chosen (2)
        let evs: Vec<(u8, u32)> = std::mem::take(&mut *oxidd_reorder::verif::EVENTS.lock());
        let conc = evs.iter().any(|e| e.0 == 2);
        let swaps: Vec<Value> = evs.iter().filter(|e| e.0 < 2).map(|e| json!([e.0, e.1])).collect();
        // input of the level sort (target positions of the non-empty levels) and whether it returned
        let sortseq: Vec<u32> = evs.iter().filter(|e| e.0 == 3).map(|e| e.1).collect();
        let sorted = evs.iter().any(|e| e.0 == 4);
        let (l2v, v2l) = self.order();
        match r {
            Ok(()) => self
                .out
                .emit(json!({"ev":"reorder","req":req,"l2v":l2v,"v2l":v2l,"conc":conc,"swaps":swaps,
                    "sortseq":sortseq,"sorted":sorted})),
            Err(p) => self
                .out
                .emit(json!({"ev":"reorder","req":req,"res":{"panic":p}})),
        }
    }

    /// DDDMP export of some handles into a buffer: a read-only traversal (it keeps the visited
    /// edges in an EdgeHashMap); the next snapshot shows whether it left the manager unchanged
    pub fn export(&mut self, slots: &[Slot], ascii: bool) {
        self.out.emit(json!({"ev":"begin","what":"export"}));
        let roots: Vec<&F> = slots.iter().map(|&a| self.get(a)).collect();
        let r = F::dddmp_export(&self.mref, &roots, ascii);
        drop(roots);
        match r {
            Ok(n) => self.out.emit(json!({"ev":"export","a":slots,"ascii":ascii,"bytes":n})),
            Err(e) => self.out.emit(json!({"ev":"export","a":slots,"ascii":ascii,"res":{"panic":e}})),
        }
    }

    // ---- convenience wrappers for the Boolean API -------------------------

    pub fn konst(&mut self, val: bool) -> Slot {
        self.op(if val { "t" } else { "f" }, &[], json!({}), |s| {
            Ok(s.mref
                .with_manager_shared(|m| if val { F::t(m) } else { F::f(m) }))
        })
        .unwrap()
    }
    pub fn var(&mut self, v: u32) -> Option<Slot> {
        self.op("var", &[], json!({ "v": v }), |s| {
            s.mref.with_manager_shared(|m| F::var(m, v))
        })
    }
    pub fn not_var(&mut self, v: u32) -> Option<Slot> {
        self.op("not_var", &[], json!({ "v": v }), |s| {
            s.mref.with_manager_shared(|m| F::not_var(m, v))
        })
    }
    pub fn not(&mut self, a: Slot) -> Option<Slot> {
        self.op("not", &[a], json!({}), |s| s.get(a).not())
    }
    pub fn bin(&mut self, op: &str, a: Slot, b: Slot) -> Option<Slot> {
        self.op(op, &[a, b], json!({}), |s| bin_call(op, s.get(a), s.get(b)))
    }
    pub fn ite(&mut self, a: Slot, b: Slot, c: Slot) -> Option<Slot> {
        self.op("ite", &[a, b, c], json!({}), |s| {
            s.get(a).ite(s.get(b), s.get(c))
        })
    }
}

pub const BIN_OPS: [&str; 8] = [
    "and",
    "or",
    "xor",
    "equiv",
    "nand",
    "nor",
    "imp",
    "imp_strict",
];

pub fn bin_call<F: BooleanFunction>(op: &str, a: &F, b: &F) -> AllocResult<F> {
    match op {
        "and" => a.and(b),
        "or" => a.or(b),
        "xor" => a.xor(b),
        "equiv" => a.equiv(b),
        "nand" => a.nand(b),
        "nor" => a.nor(b),
        "imp" => a.imp(b),
        "imp_strict" => a.imp_strict(b),
        _ => panic!("harness: unknown op {op}"),
    }
}
