//! Drivers for MTBDD over I64 (C10; C07 mtconc; C14 mtoom).  Index backend only.
//! Events are validated by spec/TraceMV.tla.

use std::borrow::Borrow;
use std::collections::{HashMap, HashSet};

use oxidd::mtbdd::terminal::I64;
use oxidd::mtbdd::MTBDDFunction;
use oxidd::util::AllocResult;
use oxidd::{
    Edge, Function, HasLevel, InnerNode, Manager, ManagerRef, Node, NumberBase,
    PseudoBooleanFunction,
};

use crate::drv_mv::{Mv, MvSession};
use crate::util::{catch, json, write_summary, Args, Rng, TraceOut, Value};

type MT = MTBDDFunction<I64>;

pub fn i64_json(v: &I64) -> Value {
    match v {
        I64::NaN => json!(["nan", 0, []]),
        I64::PlusInf => json!(["pinf", 0, []]),
        I64::MinusInf => json!(["ninf", 0, []]),
        I64::Num(x) => {
            let mut m = x.unsigned_abs();
            let mut limbs = Vec::new();
            while m != 0 {
                limbs.push(m & 0x7fff);
                m >>= 15;
            }
            json!(["num", if *x < 0 { 1 } else { 0 }, limbs])
        }
    }
}

impl Mv for MT {
    const KIND: &'static str = "mtbdd";
    const BASE: u32 = 2;
    fn new_manager(cache: usize) -> Self::ManagerRef {
        oxidd::mtbdd::new_manager(1 << 14, 1 << 12, cache, 1)
    }
    fn values(&self, n: u32) -> Vec<Value> {
        (0..(1u32 << n))
            .map(|a| i64_json(&self.eval((0..n).map(|v| (v, (a >> v) & 1 == 1)))))
            .collect()
    }
    fn graph(&self) -> (Value, Value, usize) {
        fn code<M: Manager<Terminal = I64>>(m: &M, e: &M::Edge) -> Value {
            match m.get_node(e) {
                Node::Inner(_) => json!({"n": e.node_id()}),
                Node::Terminal(t) => json!({"t": i64_json(t.borrow())}),
            }
        }
        fn rec<M: Manager<Terminal = I64>>(m: &M, e: &M::Edge, seen: &mut HashSet<usize>, out: &mut Vec<Value>)
        where
            M::InnerNode: HasLevel,
        {
            if let Node::Inner(node) = m.get_node(e) {
                if !seen.insert(e.node_id()) {
                    return;
                }
                for c in node.children() {
                    rec(m, &*c, seen, out);
                }
                let mut v = vec![json!(e.node_id()), json!(node.level())];
                for c in node.children() {
                    v.push(code(m, &*c));
                }
                out.push(Value::Array(v));
            }
        }
        self.with_manager_shared(|m, e| {
            let mut out = Vec::new();
            rec(m, e, &mut HashSet::new(), &mut out);
            (code(m, e), Value::Array(out), 0)
        })
    }
}

// ---------------------------------------------------------------------------
// MTBDD over I64

const AOPS: [&str; 6] = ["add", "sub", "mul", "div", "min", "max"];

fn mt_bin(op: &str, a: &MT, b: &MT) -> AllocResult<MT> {
    match op {
        "add" => a.add(b),
        "sub" => a.sub(b),
        "mul" => a.mul(b),
        "div" => a.div(b),
        "min" => PseudoBooleanFunction::min(a, b),
        "max" => PseudoBooleanFunction::max(a, b),
        _ => panic!("harness: mtbdd op {op}"),
    }
}
fn scalar(op: &str, x: &I64, y: &I64) -> Option<I64> {
    Some(match op {
        "add" => x.add(y),
        "sub" => x.sub(y),
        "mul" => x.mul(y),
        "div" => x.div(y),
        _ => return None,
    })
}

fn mt_values(f: &MT, n: u32) -> Vec<I64> {
    (0..(1u32 << n)).map(|a| f.eval((0..n).map(|v| (v, (a >> v) & 1 == 1)))).collect()
}

/// binary arithmetic operation with the scalar results of the library for the
/// value pairs that occur (decided separately by the scalar part of C10)
fn mt_arith(s: &mut MvSession<MT>, op: &str, a: usize, b: usize) -> Option<usize> {
    let mut sc = Vec::new();
    if let Ok((va, vb)) = catch(|| (mt_values(s.get(a), s.n), mt_values(s.get(b), s.n))) {
        let mut seen = HashSet::new();
        for (x, y) in va.iter().zip(vb.iter()) {
            if let Ok(Some(z)) = catch(|| scalar(op, x, y)) {
                let key = format!("{x:?}|{y:?}");
                if seen.insert(key) {
                    sc.push(json!([i64_json(x), i64_json(y), i64_json(&z)]));
                }
            }
        }
    }
    let r = catch(|| mt_bin(op, s.get(a), s.get(b)));
    s.log(op, &[a, b], json!({ "sc": sc }), r)
}

fn mt_const(s: &mut MvSession<MT>, c: I64) -> Option<usize> {
    let r = catch(|| s.mref.with_manager_shared(|m| MT::constant(m, c)));
    s.log("constant", &[], json!({"c": i64_json(&c)}), r)
}
fn mt_var(s: &mut MvSession<MT>, v: u32) -> Option<usize> {
    let r = catch(|| s.mref.with_manager_shared(|m| <MT as PseudoBooleanFunction>::var(m, v)));
    s.log("var", &[], json!({ "v": v }), r)
}

const BOUNDARY: [I64; 11] = [
    I64::Num(0),
    I64::Num(1),
    I64::Num(-1),
    I64::Num(2),
    I64::Num(3),
    I64::Num(-7),
    I64::Num(i64::MIN),
    I64::Num(i64::MAX),
    I64::PlusInf,
    I64::MinusInf,
    I64::NaN,
];

/// function of `n` variables with the given values (assignment-indexed), built
/// with ite from constants: f = ite(x_{n-1}, hi, lo) recursively
fn mt_build(s: &mut MvSession<MT>, vals: &[I64], vars: &[usize], v: usize) -> Option<usize> {
    if vals.len() == 1 {
        return mt_const(s, vals[0]);
    }
    let half = vals.len() / 2;
    let lo = mt_build(s, &vals[..half], vars, v - 1)?;
    let hi = mt_build(s, &vals[half..], vars, v - 1)?;
    let c = vars[v - 1];
    let r = catch(|| s.get(c).ite(s.get(hi), s.get(lo)));
    let h = s.log("ite", &[c, hi, lo], json!({}), r);
    s.drop_h(lo);
    s.drop_h(hi);
    h
}

pub fn mtbdd(args: &Args) {
    let dir = args.get("out", "/verif/out/tmp");
    let seed = args.num("seed", 1);
    let thorough = args.get("tier", "quick") == "thorough";
    let mut rng = Rng::new(seed ^ 0x1010);
    let mut out = TraceOut::new(&dir, "mv-mtbdd", 2500);
    let mut cases = 0u64;

    // constants: all boundary pairs x operators (terminal case of the lifting)
    {
        let mut s: MvSession<MT> = MvSession::new(&mut out, 1, 1);
        let cs: Vec<usize> = BOUNDARY.iter().filter_map(|c| mt_const(&mut s, *c)).collect();
        for &a in &cs {
            for &b in &cs {
                for op in AOPS {
                    if s.dead {
                        break;
                    }
                    cases += 1;
                    if let Some(h) = mt_arith(&mut s, op, a, b) {
                        s.drop_h(h);
                    }
                }
            }
        }
        s.obs();
        // constants only: handles dropped one by one, a collection after each
        // (no inner node dies: the terminal sweep must run nevertheless)
        for &c in &cs {
            s.drop_h(c);
            s.gc();
        }
    }
    // functions over 1..2 variables with boundary values: pairs x operators,
    // different operators on the same operands with a 1-bucket cache
    let rounds = if thorough { 200 } else { 30 };
    for round in 0..rounds {
        let n = 1 + (round % 3) as u32;
        let cache = [1usize, 1, 2, 64][rng.below(4)];
        let mut s: MvSession<MT> = MvSession::new(&mut out, cache, n);
        let vars: Vec<usize> = (0..n).filter_map(|v| mt_var(&mut s, v)).collect();
        if vars.len() != n as usize {
            continue;
        }
        let mut fs = Vec::new();
        for _ in 0..(if thorough { 6 } else { 4 }) {
            let vals: Vec<I64> = (0..(1usize << n)).map(|_| BOUNDARY[rng.below(BOUNDARY.len())]).collect();
            if let Some(f) = mt_build(&mut s, &vals, &vars, n as usize) {
                fs.push(f);
            }
        }
        // zero and one as operands in either position
        if let (Some(z), Some(o)) = (mt_const(&mut s, I64::Num(0)), mt_const(&mut s, I64::Num(1))) {
            fs.push(z);
            fs.push(o);
        }
        for &a in &fs {
            for &b in &fs {
                let mut ops: Vec<&str> = AOPS.to_vec();
                rng.shuffle(&mut ops);
                for op in ops {
                    if s.dead {
                        break;
                    }
                    cases += 1;
                    if let Some(h) = mt_arith(&mut s, op, a, b) {
                        s.drop_h(h);
                    }
                }
            }
        }
        // restrict by literal cubes (0-1-valued products of x and 1 - x); operands also
        // the variables themselves and functions that skip levels (x_i * x_j + c)
        let mut skipping: Vec<usize> = vars.clone();
        if !s.dead && n >= 2 {
            for i in 0..n as usize {
                for j in (i + 1)..n as usize {
                    if let Some(p) = mt_arith(&mut s, "mul", vars[i], vars[j]) {
                        if let Some(c7) = mt_const(&mut s, I64::Num(7)) {
                            if let Some(q) = mt_arith(&mut s, "add", p, c7) {
                                skipping.push(q);
                            }
                        }
                        skipping.push(p);
                    }
                }
            }
        }
        if !s.dead {
            if let Some(one) = mt_const(&mut s, I64::Num(1)) {
                for code in 0..3usize.pow(n) {
                    let mut cube = one;
                    for v in 0..n as usize {
                        let d = (code / 3usize.pow(v as u32)) % 3;
                        if d == 0 {
                            continue;
                        }
                        let lit = if d == 1 { vars[v] } else {
                            match mt_arith(&mut s, "sub", one, vars[v]) { Some(x) => x, None => break }
                        };
                        match mt_arith(&mut s, "mul", cube, lit) { Some(x) => cube = x, None => break }
                    }
                    for &f in fs.iter().take(4).chain(skipping.iter()) {
                        if s.dead {
                            break;
                        }
                        let r = catch(|| s.get(f).restrict(s.get(cube)));
                        cases += 1;
                        if let Some(h) = s.log("restrict", &[f, cube], json!({}), r) {
                            s.drop_h(h);
                        }
                    }
                }
            }
        }
        if !s.dead {
            s.obs();
            s.finish();
        }
    }
    // 3..4 variables, random expressions over small and boundary constants
    for _ in 0..(if thorough { 150 } else { 20 }) {
        let n = 3 + rng.below(2) as u32;
        let mut s: MvSession<MT> = MvSession::new(&mut out, [1usize, 4, 256][rng.below(3)], n);
        for v in 0..n {
            mt_var(&mut s, v);
        }
        for _ in 0..3 {
            let c = if rng.chance(1, 2) { I64::Num(rng.below(9) as i64 - 4) } else { BOUNDARY[rng.below(BOUNDARY.len())] };
            mt_const(&mut s, c);
        }
        for _ in 0..24 {
            if s.dead {
                break;
            }
            let live = s.live();
            let a = live[rng.below(live.len())];
            let b = live[rng.below(live.len())];
            cases += 1;
            if rng.below(10) == 0 && live.len() > 8 {
                s.drop_h(a);
                s.gc();
            } else if rng.below(12) == 0 {
                let mut p = rng.perm(n as usize);
                p.truncate(1 + rng.below(n as usize));
                s.reorder_and_check(&p, |mref, p| {
                    mref.with_manager_exclusive(|m| catch(|| oxidd_reorder::set_var_order(m, p)))
                });
            } else {
                mt_arith(&mut s, AOPS[rng.below(6)], a, b);
            }
        }
        if !s.dead {
            s.obs();
            s.finish();
        }
    }
    out.finish();
    write_summary(&dir, "mv-mtbdd", &out, json!({"rows":cases,"nontrivial":cases}));
}

/// C07 for a kind with a dynamic terminal manager: application threads apply
/// arithmetic operators to shared MTBDD operands (many results are constants
/// referenced by nothing else) and drop the results at once, while a collector
/// thread calls gc() all the time.  Every result is projected by the thread
/// that computed it; the records are emitted in the order of a completion
/// stamp (operands are live throughout, so every order is a sequential
/// explanation) and validated against the pointwise lifting by TraceMV.
pub fn mtconc(args: &Args) {
    use std::sync::atomic::{AtomicBool, AtomicU64, Ordering::Relaxed, Ordering::SeqCst};
    let dir = args.get("out", "/verif/out/tmp");
    let seed = args.num("seed", 1);
    let thorough = args.get("tier", "quick") == "thorough";
    let mut rng = Rng::new(seed ^ 0x7c07);
    let mut out = TraceOut::new(&dir, "mv-mtconc", 4000);
    let mut cases = 0u64;
    let mut collections = 0u64;
    let runs = if thorough { 40 } else { 8 };
    for run in 0..runs {
        let n = 2 + rng.below(2) as u32;
        let workers = [2u32, 4, 8][rng.below(3)];
        let cache = [1usize, 64, 1024][rng.below(3)];
        oxidd_core::util::verif::PERTURB.store([0u32, 3, 8][run % 3], Relaxed);
        let mref = oxidd::mtbdd::new_manager(1 << 14, 1 << 12, cache, workers);
        let mut s: MvSession<MT> = MvSession::with_manager(&mut out, mref, cache, n, "conc");
        let vars: Vec<usize> = (0..n).filter_map(|v| mt_var(&mut s, v)).collect();
        if vars.len() != n as usize {
            continue;
        }
        // operand pairs (f_i, g_i = K_i - f_i): f_i + g_i is the constant K_i, which
        // no live function contains
        let pairs = if thorough { 40 } else { 24 };
        let mut ops: Vec<usize> = Vec::new();
        for i in 0..pairs {
            let k = 1000 * (run as i64 + 1) + i as i64;
            let vals: Vec<I64> = (0..(1usize << n)).map(|_| I64::Num(1 + rng.below(400) as i64)).collect();
            let Some(f) = mt_build(&mut s, &vals, &vars, n as usize) else { break };
            let Some(kc) = mt_const(&mut s, I64::Num(k)) else { break };
            let g = mt_arith(&mut s, "sub", kc, f);
            s.drop_h(kc);
            let Some(g) = g else { break };
            ops.push(f);
            ops.push(g);
        }
        if s.dead || ops.len() < 4 {
            continue;
        }
        s.gc();
        // ---- concurrent phase ----
        s.out.emit(json!({"ev":"begin","what":"mtconc"}));
        let handles: Vec<MT> = ops.iter().map(|&h| s.get(h).clone()).collect();
        let values: Vec<Vec<I64>> = handles.iter().map(|f| mt_values(f, n)).collect();
        let stamp = AtomicU64::new(0);
        let stop = AtomicBool::new(false);
        let nthreads = 2 + rng.below(3);
        // identical records (same call, same projected result) are emitted once
        // with a count: the specification's verdict depends on nothing else
        let iters = if thorough { 20000 } else { 3000 };
        let seeds: Vec<u64> = (0..nthreads).map(|_| rng.next()).collect();
        let mref2 = s.mref.clone();
        let mut records: Vec<(u64, Value)> = Vec::new();
        let mut gcs = 0u64;
        std::thread::scope(|sc| {
            let mut hs = Vec::new();
            for t in 0..nthreads {
                let (handles, values, ops, stamp) = (&handles, &values, &ops, &stamp);
                let tseed = seeds[t];
                hs.push(sc.spawn(move || {
                    let mut rng = Rng::new(tseed);
                    let mut recs: Vec<(u64, Value)> = Vec::new();
                    let mut seen_recs: HashMap<String, usize> = HashMap::new();
                    for _ in 0..iters {
                        let i = rng.below(handles.len() / 2);
                        // mostly the pair whose sum is an otherwise unreferenced constant
                        let (a, b, op) = match rng.below(10) {
                            0..=5 => (2 * i, 2 * i + 1, "add"),
                            6 => (2 * i + 1, 2 * i, "add"),
                            7 => (2 * i, rng.below(handles.len()), "add"),
                            8 => (2 * i, 2 * i + 1, ["min", "max"][rng.below(2)]),
                            _ => (rng.below(handles.len()), rng.below(handles.len()), ["sub", "mul"][rng.below(2)]),
                        };
                        let mut scv = Vec::new();
                        let mut seen = HashSet::new();
                        for (x, y) in values[a].iter().zip(values[b].iter()) {
                            if let Ok(Some(z)) = catch(|| scalar(op, x, y)) {
                                if seen.insert(format!("{x:?}|{y:?}")) {
                                    scv.push(json!([i64_json(x), i64_json(y), i64_json(&z)]));
                                }
                            }
                        }
                        let r = catch(|| mt_bin(op, &handles[a], &handles[b]));
                        let mut ev = json!({"ev":"mop","op":op,"a":[ops[a], ops[b]],"sc":scv,"thr":t});
                        match r {
                            Ok(Ok(f)) => {
                                let (e, g, _) = f.graph();
                                ev["e"] = e;
                                ev["g"] = g;
                                ev["vt"] = Value::Array(catch(|| f.values(n)).unwrap_or_else(|p| vec![json!({"panic": p})]));
                                ev["nc"] = json!(f.node_count());
                                drop(f);
                                let key = ev.to_string();
                                if let Some(&i) = seen_recs.get(&key) {
                                    let c = recs[i].1["count"].as_u64().unwrap_or(1);
                                    recs[i].1["count"] = json!(c + 1);
                                } else {
                                    seen_recs.insert(key, recs.len());
                                    let st = stamp.fetch_add(1, SeqCst);
                                    recs.push((st, ev));
                                }
                            }
                            Ok(Err(_)) => {
                                ev["res"] = json!({"oom": true});
                                recs.push((stamp.fetch_add(1, SeqCst), ev));
                            }
                            Err(p) => {
                                ev["res"] = json!({ "panic": p });
                                recs.push((stamp.fetch_add(1, SeqCst), ev));
                                break;
                            }
                        }
                    }
                    recs
                }));
            }
            let stop_ref = &stop;
            let gc_handle = sc.spawn(move || {
                let mut k = 0u64;
                let mut x = 0x9e3779b97f4a7c15u64 ^ seed;
                while !stop_ref.load(Relaxed) {
                    mref2.with_manager_shared(|m| m.gc());
                    k += 1;
                    x ^= x << 13;
                    x ^= x >> 7;
                    x ^= x << 17;
                    std::thread::sleep(std::time::Duration::from_micros(20 + x % 200));
                }
                k
            });
            let mut panicked = false;
            for h in hs {
                match h.join() {
                    Ok(r) => records.extend(r),
                    Err(_) => panicked = true,
                }
            }
            stop.store(true, Relaxed);
            gcs = gc_handle.join().unwrap_or(0);
            if panicked {
                records.push((u64::MAX, json!({"ev":"abort","what":"thread panicked"})));
            }
        });
        collections += gcs;
        records.sort_by_key(|r| r.0);
        for (_, mut ev) in records {
            cases += 1;
            if ev["ev"] == "mop" && ev.get("res").is_none() {
                s.slots.push(None);
                let h = s.slots.len() - 1;
                ev["h"] = json!(h);
                s.out.emit(ev);
                s.out.emit(json!({"ev":"mdrop","a":h}));
            } else {
                s.out.emit(ev);
            }
        }
        drop(handles);
        // ---- quiescent again: every operand unchanged, exact collection ----
        for &a in &ops {
            let f = s.get(a).clone();
            let (e, g, _) = f.graph();
            let vt = Value::Array(catch(|| f.values(n)).unwrap_or_else(|p| vec![json!({"panic": p})]));
            s.out.emit(json!({"ev":"mcheck","a":a,"e":e,"g":g,"vt":vt,"nc":f.node_count()}));
        }
        s.gc();
        s.obs();
        s.finish();
    }
    oxidd_core::util::verif::PERTURB.store(0, Relaxed);
    out.finish();
    write_summary(&dir, "mv-mtconc", &out, json!({"rows":cases,"nontrivial":cases,"collections":collections}));
}

/// C14 for the dynamic terminal manager: the TERMINAL capacity is the binding
/// limit.  Variables take the terminals 0 and 1; a ballast function holds
/// `cap - 2` further terminals only through its inner nodes; operations that
/// need new terminals must fail with the out-of-memory error and leave every
/// handle intact; after dropping the ballast and ONE collection the same
/// operations must succeed (`must_ok`), since everything they need was freed.
pub fn mtoom(args: &Args) {
    let dir = args.get("out", "/verif/out/tmp");
    let seed = args.num("seed", 1);
    let thorough = args.get("tier", "quick") == "thorough";
    let mut rng = Rng::new(seed ^ 0x0014);
    let mut out = TraceOut::new(&dir, "mv-mtoom", 3000);
    let mut cases = 0u64;
    let mut failures = 0u64;
    let caps: Vec<usize> = if thorough { (4..=12).collect() } else { vec![4, 5, 7] };
    for &cap in &caps {
        // `free`: terminal slots left after the set-up (0: exactly full; 1: an operation that needs two
        // new terminals gets the first and fails at the second)
        for free in 0..3usize {
            if cap < 4 + free {
                continue;
            }
            for variant in 0..(if thorough { 4 } else { 2 }) {
                let n = 2u32;
                let mref = oxidd::mtbdd::new_manager(1 << 10, cap, [1usize, 16][variant % 2], 1);
                let mut s: MvSession<MT> = MvSession::with_manager(&mut out, mref, 16, n, "oom");
                let vars: Vec<usize> = (0..n).filter_map(|v| mt_var(&mut s, v)).collect();
                if vars.len() != n as usize {
                    continue;
                }
                // ballast: cap - 2 - free distinct constants below inner nodes only
                let k = cap - 2 - free;
                let base = 100 + 10 * rng.below(50) as i64;
                let vals: Vec<I64> = (0..4).map(|i| I64::Num(base + (i % k.min(4)) as i64)).collect();
                let Some(ballast) = mt_build(&mut s, &vals, &vars, n as usize) else { continue };
                let mut ballast2 = None;
                if k > 4 {
                    let vals2: Vec<I64> = (0..4).map(|i| I64::Num(base + 4 + (i % (k - 4)) as i64)).collect();
                    ballast2 = mt_build(&mut s, &vals2, &vars, n as usize);
                }
                s.gc();
                // (a) operations whose results only need terminals that exist already: they must succeed
                // however full the terminal store is
                for (op, a, b) in [("mul", vars[0], vars[1]), ("min", ballast, vars[0]), ("max", vars[0], vars[1]),
                                   ("min", ballast, ballast)] {
                    if s.dead {
                        break;
                    }
                    cases += 1;
                    let mut sc = Vec::new();
                    if let Ok((va, vb)) = catch(|| (mt_values(s.get(a), n), mt_values(s.get(b), n))) {
                        for (x, y) in va.iter().zip(vb.iter()) {
                            if let Some(z) = scalar(op, x, y) {
                                sc.push(json!([i64_json(x), i64_json(y), i64_json(&z)]));
                            }
                        }
                    }
                    let r = catch(|| mt_bin(op, s.get(a), s.get(b)));
                    if let Some(h) = s.log(op, &[a, b], json!({"sc": sc, "must_ok": true}), r) {
                        s.drop_h(h);
                    }
                }
                // (b) operations that need 1..2 new terminals: they fail (free = 0), or get the first new
                // terminal and fail at the second (free = 1), or succeed
                let fresh = I64::Num(base + 50 + variant as i64);
                for (op, a, b) in [("add", vars[0], ballast), ("sub", vars[1], ballast), ("mul", ballast, ballast)] {
                    if s.dead {
                        break;
                    }
                    cases += 1;
                    match mt_arith(&mut s, op, a, b) {
                        Some(h) => s.drop_h(h),
                        None => failures += 1,
                    }
                    // what a failed operation acquired must be released: exact collection
                    s.gc();
                }
                cases += 1;
                match mt_const(&mut s, fresh) {
                    Some(c) => s.drop_h(c),
                    None => failures += 1,
                }
                if s.dead {
                    continue;
                }
                // every handle is intact after the failures
                for a in s.live() {
                    let f = s.get(a).clone();
                    let (e, g, _) = f.graph();
                    let vt = Value::Array(catch(|| f.values(n)).unwrap_or_else(|p| vec![json!({"panic": p})]));
                    s.out.emit(json!({"ev":"mcheck","a":a,"e":e,"g":g,"vt":vt,"nc":f.node_count()}));
                }
                // free the terminals: drop the ballast, ONE collection, then operations that need at most
                // as many new terminals as were freed
                s.drop_h(ballast);
                if let Some(b2) = ballast2 {
                    s.drop_h(b2);
                }
                s.gc();
                let r = catch(|| s.mref.with_manager_shared(|m| MT::constant(m, fresh)));
                let c2 = s.log("constant", &[], json!({"c": i64_json(&fresh), "must_ok": true}), r);
                if let Some(c2) = c2 {
                    // x0 + c needs one more terminal (c + 1); k + free >= 2 are available, one is taken by c
                    let r = catch(|| mt_bin("add", s.get(vars[0]), s.get(c2)));
                    let mut sc = Vec::new();
                    for (x, y) in [(I64::Num(0), fresh), (I64::Num(1), fresh)] {
                        if let Some(z) = scalar("add", &x, &y) {
                            sc.push(json!([i64_json(&x), i64_json(&y), i64_json(&z)]));
                        }
                    }
                    s.log("add", &[vars[0], c2], json!({"sc": sc, "must_ok": true}), r);
                }
                if !s.dead {
                    s.obs();
                    s.finish();
                }
            }
        }
    }
    // variable functions need the terminals 1 and 0: the store runs full between the two
    // (cap 1..3, with or without the constant 1 present, 0 or 1 slot left)
    for cap in 1..=3usize {
        for have_one in [false, true] {
            for free in 0..2usize {
                let fill = cap.saturating_sub(free);
                if fill == 0 || (have_one && fill < 1) {
                    continue;
                }
                let mref = oxidd::mtbdd::new_manager(1 << 10, cap, 16, 1);
                let mut s: MvSession<MT> = MvSession::with_manager(&mut out, mref, 16, 1, "oom");
                let mut k = 0;
                if have_one {
                    mt_const(&mut s, I64::Num(1));
                    k += 1;
                }
                let mut c = 40;
                while k < fill {
                    mt_const(&mut s, I64::Num(c));
                    c += 1;
                    k += 1;
                }
                cases += 1;
                if mt_var(&mut s, 0).is_none() {
                    failures += 1;
                }
                if s.dead {
                    continue;
                }
                s.gc();
                s.obs();
                s.finish();
            }
        }
    }
    out.finish();
    write_summary(&dir, "mv-mtoom", &out, json!({"rows":cases,"nontrivial":failures}));
}
