//! C17: the open-addressing table `linear_hashtbl::raw::RawTable` behaves as a set.
//!
//! * `hashtbl-replay` (binding T): steps a real `RawTable<(u32, u32), S>` through behaviours of
//!   the implementation-shaped model `spec/HashTblImpl.tla` printed by TLC (`--behaviours
//!   <ndjson>`: `{"cfg", "hash": [H(1), H(2), ..], "tabs", "ops": [[op, t, u, k, v, [p..], n, sit], ..]}`),
//!   passing the model's hash values to the API, and audits every table after every mutating call.
//! * `hashtbl-random` (binding V): long seeded random call sequences over <= 20 keys with
//!   adversarial hash functions.
//!
//! The drivers only call and log; `spec/TraceHashTbl.tla` decides.  Every call on a table runs
//! in a worker thread under a watchdog: a call that does not return is logged as
//! `"fail":"hang"`, a panic as `"fail":{"panic":msg}`; both end the history.
//!
//! Events (`ev` = operation): reset, new, insert, find, get, remove, retain, drain, drain_partial,
//! into_iter, iter, len, clear, reserve, clone, audit.  `slots` is informational only.

use std::io::BufRead;
use std::sync::mpsc::{channel, Receiver, RecvTimeoutError, Sender};
use std::time::Duration;

use linear_hashtbl::raw::{RawTable, Status};

use crate::util::{catch, json, write_summary, Args, Rng, TraceOut, Value};

type Elem = (u32, u32);
const MAXTAB: usize = 3;

fn ej(e: &Elem) -> Value {
    json!([e.0, e.1])
}
fn opt(e: Option<&Elem>) -> Value {
    match e {
        Some(e) => json!([ej(e)]),
        None => json!([]),
    }
}
fn u(v: &Value, f: &str) -> u64 {
    v.get(f).and_then(|x| x.as_u64()).unwrap_or_else(|| panic!("harness: field {f} missing in {v}"))
}
/// hashes are logged as strings (64-bit values do not fit TLC's integers; the spec ignores them)
fn h_of(v: &Value) -> u64 {
    v["h"].as_str().expect("harness: h").parse().expect("harness: h")
}

/// perform the call described by `c` on the tables and add the observed results to it
fn exec<S: Status>(tabs: &mut Vec<RawTable<Elem, S>>, c: &mut Value) {
    let ev = c["ev"].as_str().expect("harness: ev").to_string();
    let t = u(c, "t") as usize;
    assert!(t >= 1 && t <= MAXTAB, "harness: table id");
    match ev.as_str() {
        "new" => {
            let cap = u(c, "cap") as usize;
            tabs[t] = if cap == 0 { RawTable::new() } else { RawTable::with_capacity(cap) };
        }
        "insert" => {
            let (k, v, h) = (u(c, "k") as u32, u(c, "v") as u32, h_of(c));
            let tab = &mut tabs[t];
            match tab.find_or_find_insert_slot(h, |e| e.0 == k) {
                Ok(i) => {
                    // SAFETY: `i` was returned in the `Ok` case, no modification since
                    let e = *unsafe { tab.get_at_slot_unchecked(i) };
                    c["res"] = json!("found");
                    c["out"] = json!([ej(&e)]);
                }
                Err(i) => {
                    // SAFETY: `i` was returned in the `Err` case, no modification since
                    unsafe { tab.insert_in_slot_unchecked(h, i, (k, v)) };
                    c["res"] = json!("inserted");
                    c["out"] = json!([]);
                }
            }
        }
        "find" => {
            let (k, h) = (u(c, "k") as u32, h_of(c));
            let tab = &tabs[t];
            match tab.find(h, |e| e.0 == k) {
                Some(i) => {
                    c["found"] = json!(true);
                    // SAFETY: `i` was returned by find, no modification since
                    c["out"] = json!([ej(unsafe { tab.get_at_slot_unchecked(i) })]);
                }
                None => {
                    c["found"] = json!(false);
                    c["out"] = json!([]);
                }
            }
        }
        "get" => {
            let (k, h) = (u(c, "k") as u32, h_of(c));
            c["out"] = opt(tabs[t].get(h, |e| e.0 == k));
        }
        "remove" => {
            let (k, h) = (u(c, "k") as u32, h_of(c));
            let r = tabs[t].remove_entry(h, |e| e.0 == k);
            c["out"] = opt(r.as_ref());
        }
        "retain" => {
            let keep: Vec<u32> = c["p"].as_array().expect("harness: p").iter().map(|x| x.as_u64().unwrap() as u32).collect();
            let mut seen = Vec::new();
            let mut dropped = Vec::new();
            tabs[t].retain(
                |e| {
                    seen.push(ej(e));
                    keep.contains(&e.0)
                },
                |e| dropped.push(ej(&e)),
            );
            c["seen"] = json!(seen);
            c["out"] = json!(dropped);
        }
        "drain" => {
            let it = tabs[t].drain();
            c["ilen"] = json!(it.len());
            let out: Vec<Value> = it.map(|e| ej(&e)).collect();
            c["out"] = json!(out);
        }
        "drain_partial" => {
            let take = u(c, "take") as usize;
            let mut it = tabs[t].drain();
            c["ilen"] = json!(it.len());
            let mut out = Vec::new();
            for _ in 0..take {
                match it.next() {
                    Some(e) => out.push(ej(&e)),
                    None => break,
                }
            }
            c["rest"] = json!(it.len());
            drop(it);
            c["out"] = json!(out);
        }
        "into_iter" => {
            let tab = std::mem::replace(&mut tabs[t], RawTable::new());
            let it = tab.into_iter();
            c["ilen"] = json!(it.len());
            let out: Vec<Value> = it.map(|e| ej(&e)).collect();
            c["out"] = json!(out);
        }
        "iter" => {
            let it = tabs[t].iter();
            c["ilen"] = json!(it.len());
            let out: Vec<Value> = it.map(ej).collect();
            c["out"] = json!(out);
        }
        "len" => {
            c["empty"] = json!(tabs[t].is_empty());
        }
        "clear" => tabs[t].clear(),
        "clear_nd" => tabs[t].clear_no_drop(),
        "reset_nd" => tabs[t].reset_no_drop(),
        "reserve" => tabs[t].reserve(u(c, "n") as usize),
        "clone" => {
            let dst = u(c, "u") as usize;
            assert!(dst >= 1 && dst <= MAXTAB && dst != t, "harness: clone target");
            let cl = tabs[t].clone();
            tabs[dst] = cl;
            c["ulen"] = json!(tabs[dst].len());
        }
        "audit" => {
            let keys: Vec<(u32, u64)> = c["keys"]
                .as_array()
                .expect("harness: keys")
                .iter()
                .map(|x| (x[0].as_u64().unwrap() as u32, x[1].as_str().unwrap().parse().unwrap()))
                .collect();
            let tab = &tabs[t];
            let gets: Vec<Value> = keys.iter().map(|&(k, h)| json!([k, opt(tab.get(h, |e| e.0 == k))])).collect();
            c["gets"] = json!(gets);
            let it = tab.iter();
            c["ilen"] = json!(it.len());
            let out: Vec<Value> = it.map(ej).collect();
            c["out"] = json!(out);
            c.as_object_mut().unwrap().remove("keys");
        }
        e => panic!("harness: unknown call {e}"),
    }
    c["len"] = json!(tabs[t].len());
    c["slots"] = json!(tabs[t].slots());
}

fn worker<S: Status>(rx: Receiver<Value>, tx: Sender<Value>) {
    let mut tabs: Vec<RawTable<Elem, S>> = (0..=MAXTAB).map(|_| RawTable::new()).collect();
    while let Ok(mut c) = rx.recv() {
        if let Err(msg) = catch(|| exec(&mut tabs, &mut c)) {
            if msg.starts_with("harness:") {
                eprintln!("{msg}");
                std::process::exit(3);
            }
            c["fail"] = json!({ "panic": msg });
            c.as_object_mut().unwrap().remove("keys");
        }
        if tx.send(c).is_err() {
            return;
        }
    }
}

/// the tables of one history, living in a worker thread
struct Session {
    tx: Sender<Value>,
    rx: Receiver<Value>,
    timeout: Duration,
}

impl Session {
    fn new(status: &str, timeout: Duration) -> Self {
        let (tx, wrx) = channel::<Value>();
        let (wtx, rx) = channel::<Value>();
        let b = std::thread::Builder::new().name("tables".into());
        match status {
            "u32" => b.spawn(move || worker::<u32>(wrx, wtx)),
            "usize" => b.spawn(move || worker::<usize>(wrx, wtx)),
            s => panic!("harness: unknown status type {s}"),
        }
        .expect("harness: spawn");
        Session { tx, rx, timeout }
    }
    /// run one call under the watchdog; the returned event has `fail` if it did not complete
    fn call(&mut self, c: Value) -> Value {
        let mut pending = c.clone();
        self.tx.send(c).expect("harness: worker gone");
        match self.rx.recv_timeout(self.timeout) {
            Ok(r) => r,
            Err(RecvTimeoutError::Timeout) => {
                pending["fail"] = json!("hang");
                pending.as_object_mut().unwrap().remove("keys");
                pending
            }
            Err(RecvTimeoutError::Disconnected) => panic!("harness: worker died"),
        }
    }
}

fn failed(e: &Value) -> bool {
    e.get("fail").is_some()
}
fn is_hang(e: &Value) -> bool {
    e.get("fail").and_then(|f| f.as_str()) == Some("hang")
}

struct Stats {
    hangs: u64,
    panics: u64,
    grow: u64,
    shrink: u64,
    slots: [u64; MAXTAB + 1],
}
impl Stats {
    fn new() -> Self {
        Stats { hangs: 0, panics: 0, grow: 0, shrink: 0, slots: [0; MAXTAB + 1] }
    }
    /// record the (informational) capacity changes of the real table
    fn see(&mut self, e: &Value) {
        if failed(e) {
            if is_hang(e) {
                self.hangs += 1
            } else {
                self.panics += 1
            }
            return;
        }
        let t = if e["ev"] == "clone" { return } else { e["t"].as_u64().unwrap_or(0) as usize };
        if let Some(s) = e.get("slots").and_then(|s| s.as_u64()) {
            if e["ev"] != "new" && e["ev"] != "into_iter" {
                if s > self.slots[t] && self.slots[t] > 0 {
                    self.grow += 1
                } else if s < self.slots[t] {
                    self.shrink += 1
                }
            }
            self.slots[t] = s;
        }
    }
}

fn audit_cmd(t: usize, keys: &[(u32, u64)]) -> Value {
    let ks: Vec<Value> = keys.iter().map(|&(k, h)| json!([k, h.to_string()])).collect();
    json!({"ev": "audit", "t": t, "keys": ks})
}

const MAX_HANGS: u64 = 3;
/// a driver stops after this many histories that ended in a failed call (each of them is a
/// violation and gets its own chunk file)
const MAX_FAILS: u64 = 20;

/// start a history; after a history that ended in a failed call the next one goes to a new chunk
/// file (the validation of a chunk stops at an event that is not a step of the specification)
fn begin(out: &mut TraceOut, rotate: &mut bool) {
    if *rotate {
        let ce = out.chunk_events;
        out.chunk_events = 0;
        out.begin_history();
        out.chunk_events = ce;
        *rotate = false;
    } else {
        out.begin_history();
    }
}

// ---------------------------------------------------------------------------------------------
// T: replay of model behaviours

fn replay(args: &Args) {
    let dir = args.get("out", "out/hashtbl");
    let path = args.get("behaviours", "");
    let status = args.get("status", "u32");
    let timeout = Duration::from_millis(args.num("timeout-ms", 5000));
    let mut out = TraceOut::new(&dir, &format!("hashtbl-replay-{status}"), args.num("chunk", 6000) as usize);
    let f = std::fs::File::open(&path).unwrap_or_else(|e| panic!("harness: cannot open {path}: {e}"));
    let mut st = Stats::new();
    let (mut rows, mut nontrivial, mut skipped) = (0u64, 0u64, 0u64);
    let mut rotate = false;
    let interesting = ["reuse", "+tomb", "+wrap", "+grow", "+rehash", "+shrink", "+t2f", "trailtombs", "totomb", "+lastslot", "+alloc", "tombs"];
    for line in std::io::BufReader::new(f).lines() {
        let line = line.unwrap();
        if line.trim().is_empty() {
            continue;
        }
        if st.hangs >= MAX_HANGS || st.hangs + st.panics >= MAX_FAILS {
            skipped += 1;
            continue;
        }
        let b: Value = serde_json::from_str(&line).expect("harness: behaviour is not JSON");
        let hash: Vec<u64> = b["hash"].as_array().expect("harness: hash").iter().map(|x| x.as_u64().unwrap()).collect();
        let keys: Vec<(u32, u64)> = hash.iter().enumerate().map(|(i, &h)| (i as u32 + 1, h)).collect();
        let ntab = b["tabs"].as_u64().unwrap_or(1) as usize;
        let ops = b["ops"].as_array().expect("harness: ops");
        rows += 1;
        if ops.iter().any(|o| interesting.iter().any(|s| o[7].as_str().unwrap_or("").contains(s))) {
            nontrivial += 1;
        }
        begin(&mut out, &mut rotate);
        out.emit(json!({"ev": "reset", "kind": "hashtbl", "tag": b["cfg"], "status": status, "tabs": ntab, "src": "model"}));
        let mut s = Session::new(&status, timeout);
        st.slots = [0; MAXTAB + 1];
        let mut ok = true;
        for t in 1..=ntab {
            let e = s.call(json!({"ev": "new", "t": t, "cap": 0}));
            st.see(&e);
            ok &= !failed(&e);
            out.emit(e);
        }
        for o in ops {
            if !ok {
                break;
            }
            let op = o[0].as_str().expect("harness: op");
            let (t, dst, k, v, n) = (o[1].as_u64().unwrap(), o[2].as_u64().unwrap(), o[3].as_u64().unwrap(), o[4].as_u64().unwrap(), o[6].as_u64().unwrap());
            let hs = || keys[k as usize - 1].1.to_string();
            let c = match op {
                "new" => json!({"ev": "new", "t": t, "cap": n}),
                "insert" => json!({"ev": "insert", "t": t, "k": k, "v": v, "h": hs()}),
                "find" | "get" | "remove" => json!({"ev": op, "t": t, "k": k, "h": hs()}),
                "retain" => json!({"ev": "retain", "t": t, "p": o[5]}),
                "drain" | "into_iter" | "iter" | "len" | "clear" | "clear_nd" | "reset_nd" => json!({"ev": op, "t": t}),
                "reserve" => json!({"ev": "reserve", "t": t, "n": n}),
                "clone" => json!({"ev": "clone", "t": t, "u": dst}),
                x => panic!("harness: unknown model call {x}"),
            };
            let e = s.call(c);
            st.see(&e);
            ok &= !failed(&e);
            out.emit(e);
            if ok && !matches!(op, "find" | "get" | "iter" | "len") {
                // what every table contains now
                for a in 1..=ntab {
                    let e = s.call(audit_cmd(a, &keys));
                    st.see(&e);
                    ok &= !failed(&e);
                    out.emit(e);
                    if !ok {
                        break;
                    }
                }
            }
        }
        rotate = !ok;
    }
    out.finish();
    write_summary(&dir, &format!("hashtbl-replay-{status}"), &out, json!({"rows": rows, "nontrivial": nontrivial,
        "hangs": st.hangs, "panics": st.panics, "grow_observed": st.grow, "shrink_observed": st.shrink, "skipped_after_hangs": skipped}));
}

// ---------------------------------------------------------------------------------------------
// V: random sequences

const FAMILIES: [&str; 9] = ["collide", "above", "above32", "wrap", "ident", "topbit", "clusters", "random", "golden"];

fn hashes(fam: &str, nkeys: usize, rng: &mut Rng) -> Vec<u64> {
    let c = rng.below(64) as u64;
    (0..nkeys as u64)
        .map(|k| match fam {
            "collide" => c,                                     // every key the same hash
            "above" => c + ((k + 1) << (4 + rng.below(3))),     // equal below the mask of 16/32/64 slots
            "above32" => c + ((k + 1) << 32),                   // equal as u32 status: only `eq` tells them apart
            "wrap" => (14 + k % 3) % 16 + 16 * (k / 3 % 2) + 32 * (k % 2), // homes 14, 15, 0 (30, 31, 0 with 32 slots)
            "ident" => k,                                       // key k lives in slot k
            "topbit" => (k / 2) | ((k % 2) << 63),              // pairs differing in the bit dropped by from_hash
            "clusters" => (k % 3) * 5 + c,
            "golden" => (k + 1).wrapping_mul(0x9E3779B97F4A7C15),
            _ => rng.next(),
        })
        .collect()
}

fn random(args: &Args) {
    let dir = args.get("out", "out/hashtbl");
    let seed = args.num("seed", 1);
    let total = args.num("ops", 20000);
    let hist_len = args.num("hist-len", 1200);
    let maxkeys = args.num("keys", 20).min(20) as usize;
    let timeout = Duration::from_millis(args.num("timeout-ms", 5000));
    let mut out = TraceOut::new(&dir, "hashtbl-random", args.num("chunk", 5000) as usize);
    let mut rng = Rng::new(seed ^ 0xC17);
    let mut st = Stats::new();
    let (mut done, mut histories, mut stamp) = (0u64, 0u64, 0u32);
    let mut fams_used = std::collections::BTreeMap::<String, u64>::new();
    let mut rotate = false;
    while done < total && st.hangs < MAX_HANGS && st.hangs + st.panics < MAX_FAILS {
        let fam = FAMILIES[(histories as usize + rng.below(2) * 4) % FAMILIES.len()];
        let status = if histories % 2 == 0 { "u32" } else { "usize" };
        // ten short "to the brim" histories after every long random one
        let brim = histories % 11 != 0;
        let nkeys = if brim { maxkeys } else { 6 + rng.below(maxkeys - 5) };
        let hash = hashes(fam, nkeys, &mut rng);
        let keys: Vec<(u32, u64)> = hash.iter().enumerate().map(|(i, &h)| (i as u32 + 1, h)).collect();
        *fams_used.entry(fam.to_string()).or_insert(0) += 1;
        histories += 1;
        begin(&mut out, &mut rotate);
        out.emit(json!({"ev": "reset", "kind": "hashtbl", "tag": fam, "status": status, "tabs": 2, "src": "random",
            "keys": nkeys, "seed": seed}));
        let mut s = Session::new(status, timeout);
        st.slots = [0; MAXTAB + 1];
        let mut ok = true;
        macro_rules! call {
            ($c:expr) => {{
                let e = s.call($c);
                st.see(&e);
                ok &= !failed(&e);
                out.emit(e);
                done += 1;
            }};
        }
        let cap0 = [0u64, 0, 3, 12, 13, 30][rng.below(6)];
        call!(json!({"ev": "new", "t": 1, "cap": cap0}));
        call!(json!({"ev": "new", "t": 2, "cap": 0}));
        let mut cur = 1usize;
        let mut other_live = false;
        let mut n = 0u64;
        let mut sweep = 0usize;
        let mut refill = false;
        // "to the brim": the free-slot accounting after removals and a bulk call only matters when
        // the table is filled up afterwards.  Fill 8..12 keys, remove some (in index order from the
        // back, from the front or at random: tombstones behind / before the remaining elements),
        // one bulk call, then insert absent keys one by one until the table grows or all keys are in,
        // with a look-up of an absent key after every insertion (a full table makes it spin).
        if brim {
            let mut order: Vec<usize> = (0..nkeys).collect();
            rng.shuffle(&mut order);
            let nf = (8 + rng.below(5)).min(nkeys);
            let mut present: Vec<usize> = order[..nf].to_vec();
            for &k in &present {
                stamp = (stamp + 1) % 1_000_000;
                call!(json!({"ev": "insert", "t": cur, "k": keys[k].0, "v": stamp, "h": keys[k].1.to_string()}));
            }
            let mut victims: Vec<usize> = present.clone();
            match rng.below(5) {
                0 => victims.sort_by(|a, b| (keys[*b].1 % 16).cmp(&(keys[*a].1 % 16))), // home slots from the back
                1 => victims.sort_by(|a, b| (keys[*a].1 % 16).cmp(&(keys[*b].1 % 16))), // ... from the front
                2 => {}                  // in insertion order: the head of every collision chain
                3 => victims.reverse(),  // ... the tail
                _ => rng.shuffle(&mut victims),
            }
            victims.truncate(rng.below(nf + 1));
            for &k in &victims {
                if !ok {
                    break;
                }
                call!(json!({"ev": "remove", "t": cur, "k": keys[k].0, "h": keys[k].1.to_string()}));
            }
            present.retain(|k| !victims.contains(k));
            if ok {
                match rng.below(9) {
                    0 | 8 => {
                        let which = ["clear", "clear_nd", "reset_nd"][rng.below(3)];
                        call!(json!({"ev": which, "t": cur}));
                        present.clear();
                    }
                    1 => {
                        call!(json!({"ev": "drain", "t": cur}));
                        present.clear();
                    }
                    2 => {
                        // the table is empty afterwards whatever is taken
                        call!(json!({"ev": "drain_partial", "t": cur, "take": rng.below(4)}));
                        present.clear();
                    }
                    3 => {
                        call!(json!({"ev": "retain", "t": cur, "p": []}));
                        present.clear();
                    }
                    4 => {
                        let keep: Vec<usize> = present.iter().copied().filter(|_| rng.chance(1, 2)).collect();
                        let p: Vec<u32> = keep.iter().map(|&k| keys[k].0).collect();
                        call!(json!({"ev": "retain", "t": cur, "p": p}));
                        present = keep;
                    }
                    5 => call!(json!({"ev": "reserve", "t": cur, "n": rng.below(3)})),
                    _ => {}
                }
            }
            let slots0 = st.slots[cur];
            let absent: Vec<usize> = (0..nkeys).filter(|k| !present.contains(k)).collect();
            for (i, &k) in absent.iter().enumerate() {
                if !ok || st.slots[cur] != slots0 {
                    break;
                }
                stamp = (stamp + 1) % 1_000_000;
                call!(json!({"ev": "insert", "t": cur, "k": keys[k].0, "v": stamp, "h": keys[k].1.to_string()}));
                if let Some(&a) = absent.get(i + 1) {
                    if ok {
                        call!(json!({"ev": "find", "t": cur, "k": keys[a].0, "h": keys[a].1.to_string()}));
                    }
                }
            }
            if ok {
                call!(audit_cmd(cur, &keys));
            }
            n = hist_len;
        }
        while ok && n < hist_len && done < total {
            // a phase: fill / churn / purge (random or sweeping over the keys in order) / lookups
            // (after emptying a table it is usually filled again)
            let mode = if refill { [0, 1, 5][rng.below(3)] } else { rng.below(7) };
            refill = false;
            // sweeping phases (4: remove the keys in order, 5: insert them in order) go over all keys
            let plen = if mode == 4 || mode == 5 { nkeys * (1 + rng.below(2)) } else { 8 + rng.below(5 * nkeys) };
            for _ in 0..plen {
                if !ok {
                    break;
                }
                n += 1;
                let (pi, pr) = match mode {
                    0 | 1 => (70, 10),
                    2 => (40, 40),
                    3 => (5, 75),
                    4 => (0, 95),
                    5 => (92, 0),
                    _ => (15, 15),
                };
                let x = rng.below(100);
                let k = if mode == 4 || mode == 5 {
                    sweep = (sweep + 1) % nkeys;
                    sweep
                } else {
                    rng.below(nkeys)
                };
                let (key, h) = (keys[k].0, keys[k].1.to_string());
                if x < pi {
                    stamp = (stamp + 1) % 1_000_000;
                    call!(json!({"ev": "insert", "t": cur, "k": key, "v": stamp, "h": h}));
                } else if x < pi + pr {
                    call!(json!({"ev": "remove", "t": cur, "k": key, "h": h}));
                } else {
                    match rng.below(8) {
                        0..=2 => call!(json!({"ev": "find", "t": cur, "k": key, "h": h})),
                        3..=5 => call!(json!({"ev": "get", "t": cur, "k": key, "h": h})),
                        6 => call!(json!({"ev": "iter", "t": cur})),
                        _ => call!(json!({"ev": "len", "t": cur})),
                    }
                }
                if ok && rng.chance(1, 12) {
                    call!(audit_cmd(cur, &keys));
                    if ok && other_live {
                        call!(audit_cmd(3 - cur, &keys));
                    }
                }
            }
            if !ok {
                break;
            }
            // between phases: a bulk call, then what the tables contain
            n += 1;
            // (a table that was purged is often drained / cleared next)
            let bulk = if (mode == 3 || mode == 4) && rng.chance(1, 2) { 2 + rng.below(4) } else { rng.below(12) };
            if (2..=5).contains(&bulk) {
                refill = rng.chance(2, 3);
            }
            match bulk {
                0 | 1 => {
                    let dens = [0u64, 25, 50, 75, 100][rng.below(5)];
                    let p: Vec<u32> = keys.iter().filter(|_| rng.chance(dens, 100)).map(|k| k.0).collect();
                    call!(json!({"ev": "retain", "t": cur, "p": p}));
                }
                2 | 3 => call!(json!({"ev": "drain", "t": cur})),
                4 => {
                    let take = rng.below(6);
                    call!(json!({"ev": "drain_partial", "t": cur, "take": take}));
                }
                5 => {
                    let which = ["clear", "clear_nd", "reset_nd"][rng.below(3)];
                    call!(json!({"ev": which, "t": cur}))
                }
                6 | 7 => {
                    call!(json!({"ev": "clone", "t": cur, "u": 3 - cur}));
                    other_live = true;
                    if rng.chance(1, 2) {
                        cur = 3 - cur;
                    }
                }
                8 => call!(json!({"ev": "into_iter", "t": cur})),
                9 => {
                    let add = [0u64, 1, 5, 20, 40][rng.below(5)];
                    call!(json!({"ev": "reserve", "t": cur, "n": add}));
                }
                10 => {
                    if other_live {
                        cur = 3 - cur;
                    }
                }
                _ => {}
            }
            if ok {
                call!(audit_cmd(cur, &keys));
            }
            if ok && other_live {
                call!(audit_cmd(3 - cur, &keys));
            }
        }
        rotate = !ok;
    }
    out.finish();
    write_summary(&dir, "hashtbl-random", &out, json!({"rows": 0, "nontrivial": st.grow + st.shrink,
        "hangs": st.hangs, "panics": st.panics, "grow_observed": st.grow, "shrink_observed": st.shrink,
        "families": fams_used, "calls": done}));
}

pub fn run(driver: &str, args: &Args) {
    match driver {
        "hashtbl-replay" => replay(args),
        "hashtbl-random" => random(args),
        d => {
            eprintln!("unknown driver {d}");
            std::process::exit(2);
        }
    }
    // a call that hangs keeps its worker thread spinning: leave without joining
    std::process::exit(0);
}
