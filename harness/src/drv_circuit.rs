//! Drivers for property C18 (oxidd-parser): `circuit-enum`, `circuit-random`,
//! `parse-mutate`.
//!
//! The drivers call `Circuit::simplify` / `Problem::simplify` and the
//! DIMACS / AIGER / NNF parsers, observe the outcome through the public API
//! and log it; every judgement is made by TLC (`spec/TraceCircuit.tla`).
//! A panic of the code under test is data (`"res":{"panic":..}`).

use std::collections::HashSet;
use std::hash::{Hash, Hasher};

use nom::error::VerboseError;
use oxidd_parser::{
    Circuit, GateKind, Literal, ParseOptions, ParseOptionsBuilder, Problem, ProblemDetails, VarSet,
};

use crate::util::{catch, json, write_summary, Args, Rng, TraceOut, Value};

// ---------------------------------------------------------------------------
// test input description (harness side) and projection of library values

/// literal of a circuit to be built
#[derive(Clone, Copy, PartialEq, Eq, Debug)]
enum L {
    F,
    T,
    In(usize, bool),
    Undef(bool),
    G(usize, bool),
}

impl L {
    fn lit(self) -> Literal {
        match self {
            L::F => Literal::FALSE,
            L::T => Literal::TRUE,
            L::In(i, neg) => Literal::from_input(neg, i),
            L::Undef(false) => Literal::UNDEF,
            L::Undef(true) => !Literal::UNDEF,
            L::G(j, neg) => Literal::from_gate(neg, j),
        }
    }
}

#[derive(Clone, Debug)]
struct CSpec {
    n: usize,
    gates: Vec<(u8, Vec<L>)>, // kind 0 and, 1 or, 2 xor
    roots: Vec<L>,
}

fn kind_of(k: u8) -> GateKind {
    match k {
        0 => GateKind::And,
        1 => GateKind::Or,
        _ => GateKind::Xor,
    }
}

fn build(spec: &CSpec) -> Circuit {
    let mut c = Circuit::new(VarSet::new(spec.n));
    for (k, ins) in &spec.gates {
        c.push_gate(kind_of(*k));
        c.push_gate_inputs(ins.iter().map(|l| l.lit()));
    }
    c
}

const CLAMP: usize = 999_999_999; // TLC integers are 32 bit

/// projection of a library literal: [t, i, s] (see spec/Circuit.tla)
fn lit_json(l: Literal) -> Value {
    let s = l.is_negative() as u8;
    if let Some(g) = l.get_gate_no() {
        json!([2, g.min(CLAMP), s])
    } else if let Some(i) = l.get_input() {
        if i > Literal::MAX_INPUT {
            json!([3, 0, s])
        } else {
            json!([1, i.min(CLAMP), s])
        }
    } else {
        json!([0, 0, s])
    }
}

fn lits_json(ls: &[Literal]) -> Value {
    Value::Array(ls.iter().map(|&l| lit_json(l)).collect())
}

fn circuit_json(c: &Circuit) -> Value {
    let gates: Vec<Value> = c
        .iter_gates()
        .map(|g| {
            let k = match g.kind {
                GateKind::And => "and",
                GateKind::Or => "or",
                GateKind::Xor => "xor",
            };
            json!({"k": k, "ins": lits_json(g.inputs)})
        })
        .collect();
    json!({"n": c.inputs().len().min(CLAMP), "gates": gates})
}

/// short stable class of a panic message (letters of its first words)
fn panic_json(msg: &str) -> Value {
    let class: String = msg
        .split(|c: char| !c.is_ascii_alphabetic())
        .filter(|w| !w.is_empty())
        .take(4)
        .collect::<Vec<_>>()
        .join("_");
    json!({"panic": msg, "pclass": class})
}

fn hash_str(s: &str) -> u64 {
    let mut h = std::collections::hash_map::DefaultHasher::new();
    s.hash(&mut h);
    h.finish()
}

// ---------------------------------------------------------------------------
// simplify

struct SimpStats {
    cases: u64,
    ok: u64,
    err: u64,
    panic: u64,
    nontrivial: HashSet<u64>,
    in_history: usize,
    /// `kind` and `tag` of the reset events (part of a finding's signature)
    kind: &'static str,
    tag: &'static str,
}

impl SimpStats {
    fn new(kind: &'static str, tag: &'static str) -> Self {
        SimpStats { cases: 0, ok: 0, err: 0, panic: 0, nontrivial: HashSet::new(), in_history: 0, kind, tag }
    }
}

const HISTORY_EVENTS: usize = 32;

fn next_event(out: &mut TraceOut, st: &mut SimpStats) {
    if st.in_history == 0 || st.in_history >= HISTORY_EVENTS {
        out.begin_history();
        out.emit(json!({"ev":"reset","kind":st.kind,"tag":st.tag}));
        st.in_history = 0;
    }
    st.in_history += 1;
}

/// call `simplify` on an already built circuit / problem and log the event
fn log_simplify(
    out: &mut TraceOut,
    st: &mut SimpStats,
    tag: &str,
    via: &str,
    circuit: &Circuit,
    roots: &[Literal],
    call: impl FnOnce() -> Result<(Circuit, Vec<Literal>, Vec<Literal>), Literal>,
) {
    next_event(out, st);
    let cj = circuit_json(circuit);
    let rj = lits_json(roots);
    let r = catch(call);
    st.cases += 1;
    let identity = |nc: &Circuit, map: &[Literal]| {
        circuit_json(nc) == cj
            && map.iter().enumerate().all(|(i, &l)| l == Literal::from_gate(false, i))
    };
    let (res, nontrivial) = match r {
        Err(msg) => {
            st.panic += 1;
            (panic_json(&msg), true)
        }
        Ok(Err(l)) => {
            st.err += 1;
            (json!({"err": lit_json(l)}), true)
        }
        Ok(Ok((nc, map, nroots))) => {
            st.ok += 1;
            let nt = !identity(&nc, &map);
            (
                json!({"ok": {"c": circuit_json(&nc), "map": lits_json(&map), "roots": lits_json(&nroots)}}),
                nt,
            )
        }
    };
    if nontrivial {
        st.nontrivial.insert(hash_str(&format!("{cj}|{rj}")));
    }
    out.emit(json!({"ev":"simplify","cls":tag,"via":via,"c":cj,"roots":rj,"res":res}));
}

fn run_simplify(out: &mut TraceOut, st: &mut SimpStats, tag: &str, spec: &CSpec) {
    let circuit = build(spec);
    let roots: Vec<Literal> = spec.roots.iter().map(|l| l.lit()).collect();
    let c2 = &circuit;
    let r2 = roots.clone();
    log_simplify(out, st, tag, "circuit", &circuit, &roots, move || {
        let (nc, map) = c2.simplify(r2.iter().copied())?;
        let nroots = r2.iter().map(|l| l.apply_gate_map(&map)).collect();
        Ok((nc, map, nroots))
    });
}

/// root literals of a problem that the public API gives access to; None if
/// the problem has roots that cannot be observed (bad / invariant / justice
/// / fairness literals of an AIGER problem have no accessor)
fn problem_roots(p: &Problem, hidden_roots: bool) -> Option<Vec<Literal>> {
    match &p.details {
        ProblemDetails::Root(l) => Some(vec![*l]),
        ProblemDetails::AIGER(a) => {
            if hidden_roots {
                None
            } else {
                Some(a.latches().iter().chain(a.outputs().iter()).copied().collect())
            }
        }
    }
}

fn run_problem_simplify(out: &mut TraceOut, st: &mut SimpStats, tag: &str, p: &Problem, hidden_roots: bool) {
    if p.circuit.num_gates() > 40 || p.circuit.inputs().len() > 7 {
        return;
    }
    let Some(roots) = problem_roots(p, hidden_roots) else { return };
    log_simplify(out, st, tag, "problem", &p.circuit, &roots, || {
        let (np, map) = p.simplify()?;
        let nroots = problem_roots(&np, false).unwrap();
        Ok((np.circuit, map, nroots))
    });
}

/// literal alphabet of a circuit with `n` inputs and `g` gates; `unknown`
/// lists the unknown input numbers to include (None = Literal::UNDEF)
fn alphabet(n: usize, g: usize, unknown: &[Option<usize>]) -> Vec<L> {
    let mut a = vec![L::F, L::T];
    for i in 0..n {
        a.push(L::In(i, false));
        a.push(L::In(i, true));
    }
    for u in unknown {
        match u {
            Some(i) => {
                a.push(L::In(*i, false));
                a.push(L::In(*i, true));
            }
            None => {
                a.push(L::Undef(false));
                a.push(L::Undef(true));
            }
        }
    }
    for j in 0..g {
        a.push(L::G(j, false));
        a.push(L::G(j, true));
    }
    a
}

/// number of gates (kind, literal sequence of length 0..=maxlen) over an alphabet of size a
fn gate_space(a: u64, maxlen: u32) -> u64 {
    3 * (0..=maxlen).map(|k| a.pow(k)).sum::<u64>()
}

fn decode_gate(mut idx: u64, alpha: &[L], maxlen: u32) -> (u8, Vec<L>) {
    let kind = (idx % 3) as u8;
    idx /= 3;
    let a = alpha.len() as u64;
    let mut len = 0u32;
    while len <= maxlen && idx >= a.pow(len) {
        idx -= a.pow(len);
        len += 1;
    }
    let mut ins = Vec::with_capacity(len as usize);
    for _ in 0..len {
        ins.push(alpha[(idx % a) as usize]);
        idx /= a;
    }
    (kind, ins)
}

fn keep(seed: u64, class: u64, idx: u64, stride: u64) -> bool {
    if stride <= 1 {
        return true;
    }
    let mut r = Rng::new(seed ^ class.wrapping_mul(0xA24BAED4963EE407) ^ idx.wrapping_mul(0x9FB21C651E98DF25));
    r.next() % stride == 0
}

fn circuit_enum(args: &Args) {
    let dir = args.get("out", "out/circuit-enum");
    let seed = args.num("seed", 1);
    let thorough = args.get("tier", "quick") == "thorough";
    let stride_e2 = args.num("stride-e2", if thorough { 1 } else { 48 });
    let stride_g1 = args.num("stride-g1", if thorough { 1 } else { 6 });
    let count_s3 = args.num("count-s3", if thorough { 1_000_000 } else { 12_000 });
    let mut out = TraceOut::new(&dir, "cenum", args.num("chunk", 4000) as usize);
    let mut st = SimpStats::new("circuit", "enum");
    let mut exhaustive_classes = Vec::new();

    // class e2: all circuits with <= 2 inputs, <= 2 gates, <= 2 literals per
    // gate; literals: constants, inputs, the first unknown input (number
    // exactly `n`), gates (self references and mutual references included)
    for n in 0..=2usize {
        for g in 1..=2usize {
            let alpha = alphabet(n, g, &[Some(n)]);
            let per_gate = gate_space(alpha.len() as u64, 2);
            let total = per_gate.pow(g as u32);
            let root_sets: Vec<Vec<L>> = if g == 1 {
                vec![vec![L::G(0, false)], vec![L::G(0, true)]]
            } else {
                vec![vec![L::G(0, false)], vec![L::G(1, false)], vec![L::G(0, false), L::G(1, true)]]
            };
            let class = (n * 10 + g) as u64;
            for idx in 0..total {
                if !keep(seed, class, idx, stride_e2) {
                    continue;
                }
                let mut gates = Vec::new();
                let mut rest = idx;
                for _ in 0..g {
                    gates.push(decode_gate(rest % per_gate, &alpha, 2));
                    rest /= per_gate;
                }
                for roots in &root_sets {
                    run_simplify(&mut out, &mut st, "enum2", &CSpec { n, gates: gates.clone(), roots: roots.clone() });
                }
            }
            exhaustive_classes.push(json!({"class":"enum2","n":n,"g":g,"circuits":total,"stride":stride_e2}));
        }
    }

    // class g1: one gate with <= 3 literals over <= 3 inputs, wide alphabet of
    // unknown inputs: n, n+1, 2n+g, 2n+g+1 and Literal::UNDEF
    for n in 0..=3usize {
        let g = 1usize;
        let mut unk: Vec<Option<usize>> = Vec::new();
        for u in [n, n + 1, 2 * n + g, 2 * n + g + 1] {
            if !unk.contains(&Some(u)) {
                unk.push(Some(u));
            }
        }
        unk.push(None);
        let alpha = alphabet(n, g, &unk);
        let total = gate_space(alpha.len() as u64, 3);
        for idx in 0..total {
            if !keep(seed, 100 + n as u64, idx, stride_g1) {
                continue;
            }
            let gate = decode_gate(idx, &alpha, 3);
            run_simplify(&mut out, &mut st, "gate1", &CSpec { n, gates: vec![gate], roots: vec![L::G(0, false)] });
        }
        exhaustive_classes.push(json!({"class":"gate1","n":n,"g":1,"circuits":total,"stride":stride_g1}));
    }

    // class s3: seeded sample of the circuits with <= 3 inputs, 2..3 gates,
    // <= 3 literals per gate, one root (gate 0)
    let mut rng = Rng::new(seed.wrapping_mul(7919) + 3);
    for _ in 0..count_s3 {
        let n = rng.below(4);
        let g = if rng.chance(1, 4) { 2 } else { 3 };
        let with_unknown = rng.chance(1, 5);
        let dag = rng.chance(1, 2);
        let unk: Vec<Option<usize>> = if with_unknown { vec![Some(n), Some(2 * n + g + 1), None] } else { vec![] };
        let base = alphabet(n, 0, &unk);
        let mut gates = Vec::new();
        for j in 0..g {
            let mut alpha = base.clone();
            for k in 0..g {
                if !dag || k > j {
                    alpha.push(L::G(k, false));
                    alpha.push(L::G(k, true));
                }
            }
            let len = rng.below(4);
            let ins = (0..len).map(|_| alpha[rng.below(alpha.len())]).collect();
            gates.push((rng.below(3) as u8, ins));
        }
        run_simplify(&mut out, &mut st, "sample3", &CSpec { n, gates, roots: vec![L::G(0, false)] });
    }

    out.finish();
    write_summary(
        &dir,
        "circuit-enum",
        &out,
        json!({"rows": st.cases, "nontrivial": st.nontrivial.len(), "ok": st.ok, "err": st.err, "panic": st.panic,
               "classes": exhaustive_classes, "sample3": count_s3}),
    );
}

fn random_spec(rng: &mut Rng) -> CSpec {
    let n = 1 + rng.below(5);
    let g = 1 + rng.below(8);
    let with_unknown = rng.chance(1, 10);
    let dag = !rng.chance(3, 20);
    let perm = rng.perm(g); // position -> gate number: the circuit is not stored in topological order
    let mut gates: Vec<(u8, Vec<L>)> = vec![(0, vec![]); g];
    for pos in 0..g {
        let len = match rng.below(10) {
            0 => 0,
            1 => 1,
            2..=5 => 2,
            6..=8 => 3,
            _ => 4 + rng.below(2),
        };
        let mut ins = Vec::new();
        for _ in 0..len {
            let neg = rng.chance(1, 2);
            let r = rng.below(100);
            let l = if r < 6 {
                if neg { L::T } else { L::F }
            } else if r < 50 || (dag && pos + 1 == g) {
                if with_unknown && rng.chance(1, 6) {
                    if rng.chance(1, 4) { L::Undef(neg) } else { L::In(n + rng.below(2 * n + g + 3), neg) }
                } else {
                    L::In(rng.below(n), neg)
                }
            } else if dag {
                L::G(perm[pos + 1 + rng.below(g - pos - 1)] as usize, neg)
            } else {
                L::G(rng.below(g), neg)
            };
            ins.push(l);
        }
        gates[perm[pos] as usize] = (rng.below(3) as u8, ins);
    }
    let mut roots = vec![L::G(perm[0] as usize, rng.chance(1, 2))];
    for _ in 0..rng.below(3) {
        let neg = rng.chance(1, 2);
        roots.push(match rng.below(10) {
            0 if with_unknown && rng.chance(1, 3) => {
                // a root that is itself an unknown input (passed through by apply_gate_map)
                if rng.chance(1, 3) { L::Undef(neg) } else { L::In(n + rng.below(3), neg) }
            }
            0 => L::In(rng.below(n), neg),
            1 => if neg { L::T } else { L::F },
            _ => L::G(rng.below(g), neg),
        });
    }
    CSpec { n, gates, roots }
}

fn circuit_random(args: &Args) {
    let dir = args.get("out", "out/circuit-random");
    let seed = args.num("seed", 1);
    let thorough = args.get("tier", "quick") == "thorough";
    let count = args.num("count", if thorough { 150_000 } else { 6_000 });
    let mut out = TraceOut::new(&dir, "crand", args.num("chunk", 2500) as usize);
    let mut st = SimpStats::new("circuit", "random");
    let mut rng = Rng::new(seed.wrapping_mul(104729) + 11);
    for _ in 0..count {
        let spec = random_spec(&mut rng);
        run_simplify(&mut out, &mut st, "random", &spec);
    }
    out.finish();
    write_summary(
        &dir,
        "circuit-random",
        &out,
        json!({"rows": st.cases, "nontrivial": st.nontrivial.len(), "ok": st.ok, "err": st.err, "panic": st.panic}),
    );
}

// ---------------------------------------------------------------------------
// parsers

#[derive(Clone, Copy, PartialEq, Eq)]
enum Fmt {
    Dimacs,
    Aiger,
    Nnf,
}

impl Fmt {
    fn name(self) -> &'static str {
        match self {
            Fmt::Dimacs => "dimacs",
            Fmt::Aiger => "aiger",
            Fmt::Nnf => "nnf",
        }
    }
    fn ext(self, bytes: &[u8]) -> &'static str {
        match self {
            Fmt::Dimacs => "cnf",
            Fmt::Aiger => if bytes.starts_with(b"aig") { "aig" } else { "aag" },
            Fmt::Nnf => "nnf",
        }
    }
}

/// option sets: bit 0 = var_order + clause_tree, bit 1 = no acyclicity check
fn options(set: u8) -> ParseOptions {
    ParseOptionsBuilder::default()
        .var_order(set & 1 != 0)
        .clause_tree(set & 1 != 0)
        .check_acyclic(set & 2 == 0)
        .build()
        .unwrap()
}

struct Seed {
    fmt: Fmt,
    name: String,
    bytes: Vec<u8>,
    /// option sets under which the input is a member of the format
    valid_with: Vec<u8>,
    /// AIGER: has bad / invariant / justice / fairness literals
    hidden_roots: bool,
}

fn err_class<E>(e: &nom::Err<E>) -> &'static str {
    match e {
        nom::Err::Error(_) => "error",
        nom::Err::Failure(_) => "failure",
        nom::Err::Incomplete(_) => "incomplete",
    }
}

fn sanitize(s: String) -> String {
    s.chars()
        .map(|c| match c {
            '⊥' => 'F',
            '⊤' => 'T',
            c if c.is_ascii() && !c.is_ascii_control() => c,
            _ => '?',
        })
        .collect()
}

/// projection of a problem through the public API
fn problem_json(p: &Problem, with_dbg: bool) -> Value {
    let names: Vec<Value> = (0..p.circuit.inputs().len().min(16))
        .map(|v| json!(p.circuit.inputs().name(v).unwrap_or("")))
        .collect();
    let order = match p.circuit.inputs().order() {
        Some(o) => json!(o.iter().take(64).collect::<Vec<_>>()),
        None => json!([]),
    };
    let (roots, det) = match &p.details {
        ProblemDetails::Root(l) => (vec![*l], json!({"t":"root"})),
        ProblemDetails::AIGER(a) => {
            let roots: Vec<Literal> = a.latches().iter().chain(a.outputs().iter()).copied().collect();
            let init: Vec<i32> = (0..a.latches().len())
                .map(|i| match a.latch_init_value(i) {
                    Some(false) => 0,
                    Some(true) => 1,
                    None => 2,
                })
                .collect();
            let onames: Vec<Value> = (0..a.outputs().len()).map(|i| json!(a.output_name(i).unwrap_or(""))).collect();
            (
                roots,
                json!({"t":"aiger","inputs":a.inputs().min(CLAMP),"latches":a.latches().len(),"init":init,
                       "outputs":a.outputs().len(),"onames":onames}),
            )
        }
    };
    let mut v = json!({"c": circuit_json(&p.circuit), "roots": lits_json(&roots), "det": det,
                       "names": names, "order": order});
    if with_dbg {
        v["dbg"] = json!(sanitize(format!("{p:?}")));
    }
    v
}

const BIG_GATES: usize = 48;

/// one call of a parser; the result value and (if accepted) the problem
fn parse_call(fmt: Fmt, set: u8, bytes: &[u8], with_dbg: bool) -> (Value, Option<Problem>) {
    let opts = options(set);
    let r = catch(|| {
        type E<'a> = VerboseError<&'a [u8]>;
        let r = match fmt {
            Fmt::Dimacs => oxidd_parser::dimacs::parse::<E>(&opts)(bytes),
            Fmt::Aiger => oxidd_parser::aiger::parse::<E>(&opts)(bytes),
            Fmt::Nnf => oxidd_parser::nnf::parse::<E>(&opts)(bytes),
        };
        match r {
            Ok((rest, p)) => Ok((rest.len(), p)),
            Err(e) => Err((err_class(&e), match &e {
                nom::Err::Error(v) | nom::Err::Failure(v) => v.errors.len(),
                _ => 0,
            })),
        }
    });
    match r {
        Err(msg) => (panic_json(&msg), None),
        Ok(Err((class, ctxs))) => (json!({"err": class, "ctx": ctxs}), None),
        Ok(Ok((rest, p))) => {
            let big = p.circuit.num_gates() > BIG_GATES
                || p.circuit.inputs().len() > 64
                || p.circuit.iter_gates().any(|g| g.inputs.len() > 64);
            let v = if big {
                json!({"ok": {"big": [p.circuit.inputs().len().min(CLAMP), p.circuit.num_gates().min(CLAMP)], "rest": rest}})
            } else {
                // the projection itself runs library code (accessors, Debug)
                match catch(|| problem_json(&p, with_dbg)) {
                    Ok(pj) => json!({"ok": {"p": pj, "rest": rest}}),
                    Err(msg) => panic_json(&format!("projection: {msg}")),
                }
            };
            (v, Some(p))
        }
    }
}

fn hex(bytes: &[u8]) -> String {
    let mut s = String::with_capacity(bytes.len() * 2);
    for b in bytes {
        s.push_str(&format!("{b:02x}"));
    }
    s
}

struct ParseStats {
    cases: u64,
    ok: u64,
    err: u64,
    panic: u64,
    distinct: HashSet<u64>,
}

#[allow(clippy::too_many_arguments)]
fn log_parse(
    out: &mut TraceOut,
    st: &mut SimpStats,
    ps: &mut ParseStats,
    fmt: Fmt,
    set: u8,
    cls: &str,
    name: &str,
    bytes: &[u8],
    hidden_roots: bool,
    tmpdir: Option<&str>,
) {
    let mut hs = std::collections::hash_map::DefaultHasher::new();
    (fmt.name(), set, bytes).hash(&mut hs);
    if !ps.distinct.insert(hs.finish()) && cls != "valid" {
        return; // the same bytes were already tried with these options
    }
    next_event(out, st);
    let (res, problem) = parse_call(fmt, set, bytes, false);
    ps.cases += 1;
    if res.get("panic").is_some() {
        ps.panic += 1;
    } else if res.get("err").is_some() {
        ps.err += 1;
    } else {
        ps.ok += 1;
    }
    let mut ev = json!({"ev":"parse","fmt":fmt.name(),"api":"parse","cls":cls,"seed":name,"set":set,
                        "ac": if set & 2 == 0 { 1 } else { 0 }, "len": bytes.len(), "res": res});
    if bytes.len() <= 400 {
        ev["hex"] = json!(hex(bytes));
    }
    out.emit(ev);
    if let Some(p) = &problem {
        // accepted inputs feed Problem::simplify
        run_problem_simplify(out, st, "parsed", p, hidden_roots);
    }
    if let Some(tmp) = tmpdir {
        // the convenience API renders the diagnostic (span arithmetic, codespan)
        let path = format!("{tmp}/input.{}", fmt.ext(bytes));
        std::fs::write(&path, bytes).expect("harness: cannot write temporary input");
        let opts = options(set);
        let r = catch(|| oxidd_parser::load_file(&path, &opts).is_some());
        let res = match r {
            Err(msg) => panic_json(&msg),
            Ok(true) => json!({"ok": {}}),
            Ok(false) => json!({"err": "diagnostic"}),
        };
        next_event(out, st);
        let mut ev = json!({"ev":"parse","fmt":fmt.name(),"api":"load_file","cls":cls,"seed":name,"set":set,
                            "ac": if set & 2 == 0 { 1 } else { 0 }, "len": bytes.len(), "res": res});
        if bytes.len() <= 400 {
            ev["hex"] = json!(hex(bytes));
        }
        out.emit(ev);
    }
}

// ---- and-inverter graphs generated by the harness (test input generation) --

struct Aig {
    i: usize,
    l: usize,
    /// (next, init): init 0, 1, 2 = the latch literal itself (uninitialised), 3 = omitted
    latches: Vec<(usize, u8)>,
    outputs: Vec<usize>,
    bad: Vec<usize>,
    constraints: Vec<usize>,
    justice: Vec<Vec<usize>>,
    fairness: Vec<usize>,
    ands: Vec<(usize, usize)>, // rhs0 >= rhs1, rhs0 < lhs
    symbols: Vec<String>,
    comment: Option<String>,
}

fn random_aig(rng: &mut Rng) -> Aig {
    let i = rng.below(4);
    let l = rng.below(3);
    let a = rng.below(7);
    let first_and = i + l + 1;
    let maxlit = 2 * (i + l + a + 1); // exclusive
    let mut ands = Vec::new();
    for k in 0..a {
        let lhs = 2 * (first_and + k);
        let r0 = rng.below(lhs);
        let r1 = rng.below(r0 + 1);
        ands.push((r0, r1));
    }
    let lit = |rng: &mut Rng| rng.below(maxlit);
    let latches = (0..l).map(|_| (lit(rng), rng.below(4) as u8)).collect();
    let outputs = (0..rng.below(4)).map(|_| lit(rng)).collect();
    let ext = rng.chance(1, 3);
    let bad: Vec<usize> = if ext { (0..rng.below(3)).map(|_| lit(rng)).collect() } else { vec![] };
    let constraints: Vec<usize> = if ext { (0..rng.below(2)).map(|_| lit(rng)).collect() } else { vec![] };
    let justice: Vec<Vec<usize>> = if ext {
        (0..rng.below(3)).map(|_| (0..1 + rng.below(2)).map(|_| lit(rng)).collect()).collect()
    } else {
        vec![]
    };
    let fairness: Vec<usize> = if ext { (0..rng.below(2)).map(|_| lit(rng)).collect() } else { vec![] };
    let mut symbols = Vec::new();
    if rng.chance(1, 2) {
        for k in 0..i {
            if rng.chance(1, 2) {
                symbols.push(format!("i{k} in{k}"));
            }
        }
        for k in 0..l {
            if rng.chance(1, 2) {
                symbols.push(format!("l{k} latch {k}"));
            }
        }
    }
    let comment = if rng.chance(1, 3) { Some("generated\nby the harness".to_string()) } else { None };
    let mut g = Aig { i, l, latches, outputs, bad, constraints, justice, fairness, ands, symbols, comment };
    if rng.chance(1, 2) {
        for k in 0..g.outputs.len() {
            if rng.chance(1, 2) {
                g.symbols.push(format!("o{k} out{k}"));
            }
        }
        for k in 0..g.bad.len() {
            g.symbols.push(format!("b{k} bad{k}"));
        }
        for k in 0..g.constraints.len() {
            g.symbols.push(format!("c{k} inv{k}"));
        }
        for k in 0..g.justice.len() {
            g.symbols.push(format!("j{k} just{k}"));
        }
        for k in 0..g.fairness.len() {
            g.symbols.push(format!("f{k} fair{k}"));
        }
    }
    g
}

impl Aig {
    fn hidden_roots(&self) -> bool {
        !(self.bad.is_empty() && self.constraints.is_empty() && self.justice.is_empty() && self.fairness.is_empty())
    }
    fn header(&self, tag: &str) -> String {
        let m = self.i + self.l + self.ands.len();
        let mut h = format!("{tag} {m} {} {} {} {}", self.i, self.l, self.outputs.len(), self.ands.len());
        let ext = [self.bad.len(), self.constraints.len(), self.justice.len(), self.fairness.len()];
        let last = ext.iter().rposition(|&x| x != 0).map_or(0, |p| p + 1);
        for x in &ext[..last] {
            h.push_str(&format!(" {x}"));
        }
        h.push('\n');
        h
    }
    fn latch_line(&self, k: usize, ascii: bool) -> String {
        let lit = 2 * (self.i + 1 + k);
        let (next, init) = self.latches[k];
        let mut s = if ascii { format!("{lit} {next}") } else { format!("{next}") };
        match init {
            0 => s.push_str(" 0"),
            1 => s.push_str(" 1"),
            2 => s.push_str(&format!(" {lit}")),
            _ => {}
        }
        s.push('\n');
        s
    }
    fn middle(&self) -> String {
        let mut s = String::new();
        for x in self.outputs.iter().chain(&self.bad).chain(&self.constraints) {
            s.push_str(&format!("{x}\n"));
        }
        for j in &self.justice {
            s.push_str(&format!("{}\n", j.len()));
        }
        for j in &self.justice {
            for x in j {
                s.push_str(&format!("{x}\n"));
            }
        }
        for x in &self.fairness {
            s.push_str(&format!("{x}\n"));
        }
        s
    }
    fn tail(&self) -> String {
        let mut s = String::new();
        for sym in &self.symbols {
            s.push_str(sym);
            s.push('\n');
        }
        if let Some(c) = &self.comment {
            s.push_str("c\n");
            s.push_str(c);
            s.push('\n');
        }
        s
    }
    fn to_aag(&self) -> Vec<u8> {
        let mut s = self.header("aag");
        for k in 0..self.i {
            s.push_str(&format!("{}\n", 2 * (k + 1)));
        }
        for k in 0..self.l {
            s.push_str(&self.latch_line(k, true));
        }
        s.push_str(&self.middle());
        for (k, (r0, r1)) in self.ands.iter().enumerate() {
            s.push_str(&format!("{} {r0} {r1}\n", 2 * (self.i + self.l + 1 + k)));
        }
        s.push_str(&self.tail());
        s.into_bytes()
    }
    fn to_aig(&self) -> Vec<u8> {
        let mut s = self.header("aig").into_bytes();
        for k in 0..self.l {
            s.extend(self.latch_line(k, false).into_bytes());
        }
        s.extend(self.middle().into_bytes());
        let enc = |mut x: usize, s: &mut Vec<u8>| {
            while x & !0x7f != 0 {
                s.push(((x & 0x7f) | 0x80) as u8);
                x >>= 7;
            }
            s.push(x as u8);
        };
        for (k, (r0, r1)) in self.ands.iter().enumerate() {
            let lhs = 2 * (self.i + self.l + 1 + k);
            enc(lhs - r0, &mut s);
            enc(r0 - r1, &mut s);
        }
        s.extend(self.tail().into_bytes());
        s
    }
}

// ---- seeds ------------------------------------------------------------------

fn seed(fmt: Fmt, name: &str, bytes: &[u8], valid_with: &[u8]) -> Seed {
    Seed { fmt, name: name.to_string(), bytes: bytes.to_vec(), valid_with: valid_with.to_vec(), hidden_roots: false }
}

fn fixed_seeds() -> Vec<Seed> {
    use Fmt::*;
    let mut v = vec![
        // ---- DIMACS (unit tests of dimacs.rs and variations)
        seed(Dimacs, "example_cnf", b"c Example CNF format file\nc\np cnf 4 3\n1 3 -4 0\n4 0 2\n-3", &[0, 2]),
        seed(Dimacs, "example_cnf_0term", b"c Example CNF format file\nc\np cnf 4 3\n1 3 -4 0\n4 0 2\n-3 0", &[0, 2]),
        seed(Dimacs, "empty_cnf", b"p cnf 0 0\n", &[0, 1, 2, 3]),
        seed(Dimacs, "example_sat", b"c Sample SAT format\nc\np sat 4\n(*(+(1 3 -4)\n    +(4)\n    +(2 3)))", &[0, 2]),
        seed(Dimacs, "xcnf", b"p cnf 3 3\nx1 2 -3 0\n-1 2 0\nx -2 3 0\n", &[0, 1, 2, 3]),
        seed(Dimacs, "cnf_units_empty", b"p cnf 3 4\n1 0\n-2 0\n1 2 3 0\n0\n", &[0, 1, 2, 3]),
        seed(Dimacs, "satex", b"p satex 3\n=(xor(1 -2) *(2 3 +()) -(+(1 -3)))\n", &[0, 1, 2, 3]),
        seed(Dimacs, "satx", b"p satx 2\nxor(1 2 -(*(1 2)))\n", &[0, 1, 2, 3]),
        seed(Dimacs, "sate", b"p sate 2\n=(1 2 *())\n", &[0, 1, 2, 3]),
        seed(Dimacs, "cnf_order", b"c 2 b\nc 1 a\nc 3\nc 4 d\np cnf 4 3\n1 3 -4 0\n4 0 2\n-3 0\n", &[0, 1, 2, 3]),
        seed(Dimacs, "cnf_vo_co", b"c vo [[2, 1], [3, 4]]\nc 1 a\nc co [[0, 1], 2]\np cnf 4 3\n1 3 -4 0\n4 2 0\n-3 1 0\n", &[0, 1, 2, 3]),
        seed(Dimacs, "sat_vo", b"c vo [1, 2, 3]\np sat 3\n*(1 +(2 -3))\n", &[0, 1, 2, 3]),
        // ---- NNF (unit test of nnf.rs and variations)
        seed(Nnf, "c2d_example", b"nnf 15 17 4\nL -3\nL -2\nL 1\nA 3 2 1 0\nL 3\nO 3 2 4 3\nL -4\nA 2 6 5\nL 4\nA 2 2 8\nA 2 1 4\nL 2\nO 2 2 11 10\nA 2 12 9\nO 4 2 13 7\n", &[0, 1, 2, 3]),
        seed(Nnf, "nnf_ext", b"c comment\nnnf 8 9 3\nL 1\nL -2\nX 2 0 1\nA 0\nO 0 0\nB 3 2 3 4\nL 3\nO 0 3 5 6 2\n", &[0, 2]),
        seed(Nnf, "nnf_order", b"c 1 x\nc 3 z\nc 2 y\nnnf 4 3 3\nL 1\nL -3\nL 2\nA 3 0 1 2\n", &[0, 1, 2, 3]),
        seed(Nnf, "nnf_vo", b"c vo [[3, 1], 2]\nnnf 3 2 3\nL 1\nL -3\no 0 2 0 1\n", &[0, 1, 2, 3]),
        seed(Nnf, "nnf_forward", b"nnf 4 4 2\nA 2 1 2\nL 1\nL 2\nO 0 2 0 1\n", &[0, 1, 2, 3]),
        // ---- AIGER (unit tests of aiger.rs)
        seed(Aiger, "aag_empty", b"aag 0 0 0 0 0\n", &[0, 2]),
        seed(Aiger, "aig_empty", b"aig 0 0 0 0 0\n", &[0, 2]),
        seed(Aiger, "aag_false", b"aag 0 0 0 1 0\n0\n", &[0, 2]),
        seed(Aiger, "aig_true", b"aig 0 0 0 1 0\n1\n", &[0, 2]),
        seed(Aiger, "aag_in_out", b"aag 1 1 0 1 0\n2\n2\n", &[0, 2]),
        seed(Aiger, "aig_neg", b"aig 1 1 0 1 0\n3\n", &[0, 2]),
        seed(Aiger, "aag_and", b"aag 3 2 0 1 1\n2\n4\n6\n6 4 2\n", &[0, 2]),
        seed(Aiger, "aig_and", b"aig 3 2 0 1 1\n6\n\x02\x02", &[0, 2]),
        seed(Aiger, "aag_or", b"aag 3 2 0 1 1\n2\n4\n7\n6 5 3\n", &[0, 2]),
        seed(Aiger, "aig_or", b"aig 3 2 0 1 1\n7\n\x01\x02", &[0, 2]),
        seed(Aiger, "aag_half_adder", b"aag 7 2 0 2 3\n2\n4\n6\n12\n6 13 15\n12 2 4\n14 3 5\ni0 x\ni1 y\no0 s\no1 c\nc\nhalf adder\n", &[0, 2]),
        seed(Aiger, "aig_half_adder", b"aig 5 2 0 2 3\n10\n6\n\x02\x02\x03\x02\x01\x02i0 x\ni1 y\no0 s\no1 c\nc\nhalf adder\n", &[0, 2]),
        seed(Aiger, "aag_toggle", b"aag 1 0 1 2 0\n2 3\n2\n3\n", &[0, 2]),
        seed(Aiger, "aig_toggle", b"aig 1 0 1 2 0\n3\n2\n3\n", &[0, 2]),
        seed(Aiger, "aag_toggle_reset", b"aag 7 2 1 2 4\n2\n4\n6 8\n6\n7\n8 4 10\n10 13 15\n12 2 6\n14 3 7\ni0 toggle\ni1 ~reset\no0 q\no1 ~q\nl0 q\nc foobar\n", &[0, 2]),
        seed(Aiger, "aig_toggle_reset", b"aig 7 2 1 2 4\n14\n6\n7\n\x02\x04\x03\x04\x01\x02\x02\x08", &[0, 2]),
    ];
    let mut ext = vec![
        seed(Aiger, "aag_bad_inv", b"aag 5 1 1 0 3 1 1\n2\n4 10 0\n4\n3\n6 5 3\n8 4 2\n10 9 7\n", &[0, 2]),
        seed(Aiger, "aig_bad_inv", b"aig 5 1 1 0 3 1 1\n10 0\n4\n3\n\x01\x02\x04\x02\x01\x02", &[0, 2]),
        seed(Aiger, "aag_extra", b"aag 3 2 0 1 1 1 1 2 1\n2\n4\n6\n2\n3\n1\n2\n1\n4\n5\n6\n6 4 2\n", &[0, 2]),
        seed(Aiger, "aig_extra", b"aig 3 2 0 1 1 1 1 2 1\n6\n2\n3\n1\n2\n1\n4\n5\n6\n\x02\x02", &[0, 2]),
    ];
    for s in &mut ext {
        s.hidden_roots = true;
    }
    v.append(&mut ext);
    v
}

fn directed_inputs() -> Vec<(Fmt, u8, Vec<u8>)> {
    let mut v: Vec<(Fmt, u8, Vec<u8>)> = Vec::new();
    // symbol table entries for sections whose count is not in the header
    for head in ["aag 0 0 0 0 0", "aig 0 0 0 0 0", "aag 1 1 0 0 0 0\n2", "aag 0 0 0 0 0 0 0"] {
        for sym in ["i0 x", "l0 x", "o0 x", "b0 x", "c0 x", "j0 x", "f0 x", "i1 x", "o7 x"] {
            v.push((Fmt::Aiger, 0, format!("{head}\n{sym}\n").into_bytes()));
        }
    }
    for txt in [
        "c vo []\np cnf 2 1\n1 2 0\n",
        "c vo [[]]\np cnf 1 1\n1 0\n",
        "c co []\np cnf 1 2\n1 0\n-1 0\n",
        "c co [0]\np cnf 1 0\n",
        "c co [0]\np sat 1\n1\n",
        "c co [1, 0]\np cnf 1 1\n1 0\n",
        "c 1 a\nc vo [2, 1]\np cnf 1 0\n",
        "c 2 a\np cnf 1 0\n",
        "c 1 a\nc 1 b\np cnf 1 0\n",
        "c vo [1]\nc vo [1]\np cnf 1 0\n",
        "c vo [1, 1]\np cnf 1 0\n",
        "c vo [0]\np cnf 1 0\n",
        "c vo [2]\np cnf 2 0\n",
        "p cnf 1 1\n2 0\n",
        "p cnf 1 1\n1 0\n1 0\n",
        "p sat 1\n(2)\n",
        "p sat 1\n)\n",
        "p sat 1\n*(1 1) 1\n",
    ] {
        v.push((Fmt::Dimacs, 1, txt.as_bytes().to_vec()));
    }
    v.push((Fmt::Dimacs, 1, b"c 1 \xff\np cnf 1 0\n".to_vec()));
    for txt in [
        "c vo []\nnnf 1 0 1\nL 1\n",
        "c vo [[]]\nnnf 1 0 2\nL 1\n",
        "c 2 a\nnnf 1 0 1\nL 1\n",
        "c 1 a\nc vo [2, 1]\nnnf 1 0 1\nL 1\n",
        "nnf 0 0 0\n",
        "nnf 1 0 0\nL 1\n",
        "nnf 1 0 1\nO 2 2 0 0\n",
        "nnf 2 1 1\nA 1 1\nA 1 0\n",
        "nnf 1 1 1\nA 1 0\n",
        "nnf 1 1 1\nA 1 1\n",
    ] {
        v.push((Fmt::Nnf, 1, txt.as_bytes().to_vec()));
    }
    v
}

const ALPHABET: &[u8] = b"0123456789 \n\r\t-+*=()[],xXcpaigloOAaBbLjf\x00\x01\x02\x7f\x80\xff";

/// (start, end, value) of every maximal run of ASCII digits (at most 9 digits)
fn number_tokens(src: &[u8]) -> Vec<(usize, usize, u64)> {
    let mut out = Vec::new();
    let mut i = 0;
    while i < src.len() {
        if src[i].is_ascii_digit() {
            let st = i;
            while i < src.len() && src[i].is_ascii_digit() {
                i += 1;
            }
            if i - st <= 9 {
                let v: u64 = std::str::from_utf8(&src[st..i]).unwrap().parse().unwrap();
                out.push((st, i, v));
            }
        } else {
            i += 1;
        }
    }
    out
}

/// the input with one number replaced by 0, 1, v - 1, v + 1 and h - 1, h, h + 1 for every number h
/// of the header line (the first line that is not a comment)
fn number_boundary_mutations(src: &[u8]) -> (Vec<Vec<u8>>, Vec<Vec<u8>>) {
    let toks = number_tokens(src);
    // header line: first line not starting with 'c' followed by a space / end
    let mut pos = 0usize;
    let mut header: Vec<u64> = Vec::new();
    for ln in src.split_inclusive(|&c| c == b'\n') {
        let is_comment = ln.first() == Some(&b'c') && (ln.len() == 1 || ln[1] == b' ' || ln[1] == b'\n');
        if !is_comment && !ln.iter().all(|c| c.is_ascii_whitespace()) {
            header = toks.iter().filter(|t| t.0 >= pos && t.1 <= pos + ln.len()).map(|t| t.2).collect();
            break;
        }
        pos += ln.len();
    }
    // .0: the header counts themselves and their neighbours (always used), .1: the rest (sampled in the quick tier)
    let mut out = (Vec::new(), Vec::new());
    for &(st, en, v) in &toks {
        let mut first: Vec<u64> = Vec::new();
        for &h in &header {
            first.extend([h.saturating_sub(1), h, h + 1]);
        }
        first.sort_unstable();
        first.dedup();
        let mut rest: Vec<u64> = vec![0, 1, v.saturating_sub(1), v + 1];
        for &h in &header {
            rest.extend([2 * h, 2 * h + 1]);
        }
        rest.sort_unstable();
        rest.dedup();
        rest.retain(|c| !first.contains(c));
        for (k, cands) in [first, rest].into_iter().enumerate() {
            for c in cands {
                if c == v {
                    continue;
                }
                let mut b = src[..st].to_vec();
                b.extend_from_slice(c.to_string().as_bytes());
                b.extend_from_slice(&src[en..]);
                if k == 0 {
                    out.0.push(b);
                } else {
                    out.1.push(b);
                }
            }
        }
    }
    out
}

fn mutate(rng: &mut Rng, src: &[u8]) -> Vec<u8> {
    let mut b = src.to_vec();
    let ops = 1 + rng.below(3);
    for _ in 0..ops {
        let byte = if rng.chance(3, 4) { ALPHABET[rng.below(ALPHABET.len())] } else { rng.below(256) as u8 };
        match rng.below(7) {
            0 | 1 | 2 if !b.is_empty() => {
                let p = rng.below(b.len());
                b[p] = byte;
            }
            3 => {
                let p = rng.below(b.len() + 1);
                b.insert(p, byte);
            }
            4 if !b.is_empty() => {
                let p = rng.below(b.len());
                b.remove(p);
            }
            5 if b.len() >= 2 => {
                let p = rng.below(b.len() - 1);
                b.swap(p, p + 1);
            }
            6 if !b.is_empty() => {
                // duplicate or drop a line
                let lines: Vec<&[u8]> = b.split_inclusive(|&c| c == b'\n').collect();
                let k = rng.below(lines.len());
                let mut nb = Vec::new();
                let dup = rng.chance(1, 2);
                for (i, ln) in lines.iter().enumerate() {
                    if i != k || dup {
                        nb.extend_from_slice(ln);
                    }
                    if i == k && dup {
                        nb.extend_from_slice(ln);
                    }
                }
                b = nb;
            }
            _ => {
                let p = rng.below(b.len() + 1);
                b.insert(p, byte);
            }
        }
    }
    b
}

fn parse_mutate(args: &Args) {
    let dir = args.get("out", "out/parse-mutate");
    let seed_no = args.num("seed", 1);
    let thorough = args.get("tier", "quick") == "thorough";
    let muts = args.num("mutations", if thorough { 1500 } else { 60 });
    let pairs = args.num("pairs", if thorough { 20_000 } else { 1_500 });
    let gen_muts = args.num("gen-mutations", if thorough { 8 } else { 2 });
    let load_every = args.num("load-every", if thorough { 8 } else { 10 });
    let mut out = TraceOut::new(&dir, "parse", args.num("chunk", 2500) as usize);
    let mut st = SimpStats::new("parse", "mutate");
    let mut ps = ParseStats { cases: 0, ok: 0, err: 0, panic: 0, distinct: HashSet::new() };
    let mut rng = Rng::new(seed_no.wrapping_mul(15485863) + 5);
    let tmp = format!("{dir}/tmp");
    std::fs::create_dir_all(&tmp).expect("harness: cannot create temporary directory");
    let mut counter = 0u64;
    let mut pair_events = 0u64;

    let sets_of = |fmt: Fmt| -> &'static [u8] {
        match fmt {
            Fmt::Dimacs | Fmt::Nnf => &[0, 1],
            Fmt::Aiger => &[0, 2],
        }
    };

    for s in fixed_seeds() {
        for &set in sets_of(s.fmt) {
            let valid = s.valid_with.contains(&set);
            // the input itself
            log_parse(&mut out, &mut st, &mut ps, s.fmt, set, if valid { "valid" } else { "mut" }, &s.name,
                      &s.bytes, s.hidden_roots, Some(&tmp));
            // every truncation point
            for cut in 0..s.bytes.len() {
                counter += 1;
                let t = if counter % load_every == 0 { Some(tmp.as_str()) } else { None };
                log_parse(&mut out, &mut st, &mut ps, s.fmt, set, "trunc", &s.name, &s.bytes[..cut], s.hidden_roots, t);
            }
            // every decimal number replaced by the boundary values around 0, itself and the numbers of
            // the header line (node / variable / gate counts): off-by-one bounds checks
            let (nb_first, nb_rest) = number_boundary_mutations(&s.bytes);
            let step = if thorough { 1 } else { (nb_rest.len() / 150).max(1) };
            for m in nb_first.into_iter().chain(nb_rest.into_iter().skip((seed_no as usize) % step).step_by(step)) {
                counter += 1;
                let t = if counter % load_every == 0 { Some(tmp.as_str()) } else { None };
                log_parse(&mut out, &mut st, &mut ps, s.fmt, set, "mut", &s.name, &m, s.hidden_roots, t);
            }
            // seeded byte mutations
            for _ in 0..muts {
                let m = mutate(&mut rng, &s.bytes);
                counter += 1;
                let t = if counter % load_every == 0 { Some(tmp.as_str()) } else { None };
                log_parse(&mut out, &mut st, &mut ps, s.fmt, set, "mut", &s.name, &m, s.hidden_roots, t);
            }
        }
    }

    // directed non-members: constructs that make a parser report a position
    // it has not seen in the input (absent optional header fields, empty
    // order trees, clause tree for an empty CNF); always also through load_file
    for (k, (fmt, set, bytes)) in directed_inputs().into_iter().enumerate() {
        let name = format!("directed{k}");
        log_parse(&mut out, &mut st, &mut ps, fmt, set, "mut", &name, &bytes, true, Some(&tmp));
    }

    // random and-inverter graphs, serialised as aag and as aig
    for k in 0..pairs {
        let g = random_aig(&mut rng);
        let aag = g.to_aag();
        let aig = g.to_aig();
        next_event(&mut out, &mut st);
        let (ra, _) = parse_call(Fmt::Aiger, 0, &aag, true);
        let (rb, pb) = parse_call(Fmt::Aiger, 0, &aig, true);
        out.emit(json!({"ev":"aiger-pair","aag":ra,"aig":rb,"hex_aag":hex(&aag),"hex_aig":hex(&aig)}));
        pair_events += 1;
        if let Some(p) = &pb {
            run_problem_simplify(&mut out, &mut st, "parsed", p, g.hidden_roots());
        }
        // the generated files are members of the format ...
        let name = format!("gen{k}");
        let t = if k % load_every == 0 { Some(tmp.as_str()) } else { None };
        log_parse(&mut out, &mut st, &mut ps, Fmt::Aiger, 0, "valid", &name, &aag, g.hidden_roots(), t);
        log_parse(&mut out, &mut st, &mut ps, Fmt::Aiger, 2, "valid", &name, &aig, g.hidden_roots(), None);
        // ... and seeds for truncation / mutation
        for _ in 0..gen_muts {
            let (src, set) = if rng.chance(1, 2) { (&aag, 0) } else { (&aig, 2) };
            let m = if rng.chance(1, 4) { src[..rng.below(src.len())].to_vec() } else { mutate(&mut rng, src) };
            log_parse(&mut out, &mut st, &mut ps, Fmt::Aiger, set, "mut", &name, &m, g.hidden_roots(), None);
        }
    }

    let _ = std::fs::remove_dir_all(&tmp);
    out.finish();
    write_summary(
        &dir,
        "parse-mutate",
        &out,
        json!({"rows": ps.cases + pair_events, "nontrivial": ps.distinct.len() + st.nontrivial.len(),
               "parse_ok": ps.ok, "parse_err": ps.err, "parse_panic": ps.panic, "pairs": pair_events,
               "simplify_cases": st.cases, "simplify_nontrivial": st.nontrivial.len(),
               "simplify_err": st.err, "simplify_panic": st.panic}),
    );
}

pub fn run(driver: &str, args: &Args) {
    match driver {
        "circuit-enum" => circuit_enum(args),
        "circuit-random" => circuit_random(args),
        "parse-mutate" => parse_mutate(args),
        d => {
            eprintln!("unknown driver {d}");
            std::process::exit(2);
        }
    }
}
