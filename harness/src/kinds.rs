//! The projection function: from a live manager to the abstract store that the
//! TLA+ specification talks about.  Public API only; no interpretation.

use std::borrow::Borrow;
use std::collections::HashSet;

use oxidd::{Edge, Function, HasLevel, InnerNode, Manager, Node};
use oxidd_core::LevelView;
use oxidd_core::function::EdgeOfFunc;
use oxidd_core::Countable;

use crate::util::{json, Value};

/// One stored inner node
#[derive(Clone, Debug, PartialEq, Eq)]
pub struct NodeRec {
    pub id: i64,
    /// level of the level view in which the node was listed (u32::MAX if the
    /// record stems from a sub-graph walk)
    pub lvl_listed: u32,
    /// level stored in the node itself
    pub lvl_stored: u32,
    pub rc: usize,
    /// children: (id or -1-terminal code, tag)
    pub ch: Vec<(i64, u32)>,
}

impl NodeRec {
    /// `[id, lvl, c0id, c0tag, c1id, c1tag, ...]` (sub-graph form)
    pub fn to_g(&self) -> Value {
        let mut v: Vec<i64> = vec![self.id, self.lvl_stored as i64];
        for (c, t) in &self.ch {
            v.push(*c);
            v.push(*t as i64);
        }
        json!(v)
    }
    /// `[id, lvlListed, lvlStored, rc, c0id, c0tag, ...]` (snapshot form)
    pub fn to_snap(&self) -> Value {
        let mut v: Vec<i64> = vec![
            self.id,
            self.lvl_listed as i64,
            self.lvl_stored as i64,
            self.rc as i64,
        ];
        for (c, t) in &self.ch {
            v.push(*c);
            v.push(*t as i64);
        }
        json!(v)
    }
}

/// Node ids are opaque; the pointer-based backend uses addresses, which do
/// not fit TLC's 32-bit integers.  They are renumbered densely in order of
/// first appearance (transport only: equal ids stay equal, distinct ids stay
/// distinct within one history).
static ID_MAP: std::sync::Mutex<Option<std::collections::HashMap<usize, i64>>> = std::sync::Mutex::new(None);
pub fn reset_ids() {
    *ID_MAP.lock().unwrap() = Some(Default::default());
}
pub fn norm_id(raw: usize) -> i64 {
    let mut g = ID_MAP.lock().unwrap();
    let m = g.get_or_insert_with(Default::default);
    let next = m.len() as i64 + 1;
    *m.entry(raw).or_insert(next)
}

pub trait Kind: Function + Sized + 'static {
    const KIND: &'static str;
    fn new_manager(cap: usize, cache: usize, threads: u32) -> Self::ManagerRef;
    /// (node id | -1 - terminal code, tag code)
    fn edge_code<'id>(m: &Self::Manager<'id>, e: &EdgeOfFunc<'id, Self>) -> (i64, u32);
    /// every stored inner node, deepest level first
    fn snapshot<'id>(m: &Self::Manager<'id>) -> Vec<NodeRec>;
    /// the inner nodes reachable from `roots`, children first
    fn subgraph<'id>(m: &Self::Manager<'id>, roots: &[&EdgeOfFunc<'id, Self>]) -> Vec<NodeRec>;
    fn set_var_order<'id>(m: &mut Self::Manager<'id>, req: &[u32]);
    /// set the split depth of the worker pool (None = automatic)
    fn set_split_depth<'id>(m: &Self::Manager<'id>, depth: Option<u32>);
    /// drop the handle through `Manager::try_remove_node` (legal at any time: "may fail if the manager
    /// is not prepared"); returns whether the node was removed, None for terminals
    fn try_remove(mref: &Self::ManagerRef, f: Self) -> Option<bool>;
    /// DDDMP export of `roots` into a buffer (ASCII or binary-if-supported); returns the size
    fn dddmp_export(mref: &Self::ManagerRef, roots: &[&Self], ascii: bool) -> Result<usize, String>;
    fn order<'id>(m: &Self::Manager<'id>) -> (Vec<u32>, Vec<u32>) {
        let n = m.num_levels();
        let l2v = (0..n).map(|l| m.level_to_var(l)).collect();
        let v2l = (0..m.num_vars()).map(|v| m.var_to_level(v)).collect();
        (l2v, v2l)
    }
}

macro_rules! impl_kind {
    ($name:literal, $f:ty, $newmgr:expr, $term:ty) => {
        impl Kind for $f {
            const KIND: &'static str = $name;
            fn new_manager(cap: usize, cache: usize, threads: u32) -> Self::ManagerRef {
                $newmgr(cap, cache, threads)
            }
            fn edge_code<'id>(m: &Self::Manager<'id>, e: &EdgeOfFunc<'id, Self>) -> (i64, u32) {
                let tag = e.tag().as_usize() as u32;
                match m.get_node(e) {
                    Node::Inner(_) => (norm_id(e.node_id()), tag),
                    Node::Terminal(t) => {
                        let t: &$term = t.borrow();
                        (-1 - (t.as_usize() as i64), tag)
                    }
                }
            }
            fn set_var_order<'id>(m: &mut Self::Manager<'id>, req: &[u32]) {
                oxidd_reorder::set_var_order(m, req)
            }
            fn set_split_depth<'id>(m: &Self::Manager<'id>, depth: Option<u32>) {
                use oxidd::{HasWorkers, WorkerPool};
                m.workers().set_split_depth(depth)
            }
            fn try_remove(mref: &Self::ManagerRef, f: Self) -> Option<bool> {
                use oxidd::ManagerRef;
                mref.with_manager_shared(|m| {
                    let e = f.into_edge(m);
                    let lvl = match m.get_node(&e) {
                        Node::Inner(n) => Some(n.level()),
                        Node::Terminal(_) => None,
                    };
                    match lvl {
                        Some(l) => Some(m.try_remove_node(e, l)),
                        None => {
                            m.drop_edge(e);
                            None
                        }
                    }
                })
            }
            fn dddmp_export(mref: &Self::ManagerRef, roots: &[&Self], ascii: bool) -> Result<usize, String> {
                use oxidd::ManagerRef;
                let mut buf: Vec<u8> = Vec::new();
                let r = crate::util::catch(|| {
                    mref.with_manager_shared(|m| {
                        let st = oxidd_dump::dddmp::ExportSettings::default();
                        let st = if ascii { st.ascii() } else { st.binary() };
                        st.export(&mut buf, m, roots.iter().copied())
                    })
                });
                match r {
                    Ok(Ok(())) => Ok(buf.len()),
                    Ok(Err(e)) => Err(format!("io: {e}")),
                    Err(p) => Err(format!("panic: {p}")),
                }
            }
            fn snapshot<'id>(m: &Self::Manager<'id>) -> Vec<NodeRec> {
                let mut out = Vec::new();
                for level in m.levels().rev() {
                    let lno = level.level_no();
                    for e in level.iter() {
                        let node = m.get_node(e).unwrap_inner();
                        let ch = node
                            .children()
                            .map(|c| <Self as Kind>::edge_code(m, &*c))
                            .collect();
                        out.push(NodeRec {
                            id: norm_id(e.node_id()),
                            lvl_listed: lno,
                            lvl_stored: node.level(),
                            rc: node.ref_count(),
                            ch,
                        });
                    }
                }
                out
            }
            fn subgraph<'id>(
                m: &Self::Manager<'id>,
                roots: &[&EdgeOfFunc<'id, Self>],
            ) -> Vec<NodeRec> {
                fn rec<'id>(
                    m: &<$f as Function>::Manager<'id>,
                    e: &EdgeOfFunc<'id, $f>,
                    seen: &mut HashSet<i64>,
                    out: &mut Vec<NodeRec>,
                ) {
                    if let Node::Inner(node) = m.get_node(e) {
                        let id = norm_id(e.node_id());
                        if !seen.insert(id) {
                            return;
                        }
                        for c in node.children() {
                            rec(m, &*c, seen, out);
                        }
                        let ch = node
                            .children()
                            .map(|c| <$f as Kind>::edge_code(m, &*c))
                            .collect();
                        out.push(NodeRec {
                            id,
                            lvl_listed: u32::MAX,
                            lvl_stored: node.level(),
                            rc: node.ref_count(),
                            ch,
                        });
                    }
                }
                let mut seen = HashSet::new();
                let mut out = Vec::new();
                for r in roots {
                    rec(m, r, &mut seen, &mut out);
                }
                out
            }
        }
    };
}

impl_kind!(
    "bdd",
    oxidd::bdd::BDDFunction,
    oxidd::bdd::new_manager,
    oxidd_rules_bdd::simple::BDDTerminal
);
impl_kind!(
    "bcdd",
    oxidd::bcdd::BCDDFunction,
    oxidd::bcdd::new_manager,
    oxidd_rules_bdd::complement_edge::BCDDTerminal
);
impl_kind!(
    "zbdd",
    oxidd::zbdd::ZBDDFunction,
    oxidd::zbdd::new_manager,
    oxidd_rules_zbdd::ZBDDTerminal
);
impl_kind!(
    "tdd",
    oxidd::tdd::TDDFunction,
    oxidd::tdd::new_manager,
    oxidd_rules_tdd::TDDTerminal
);

pub fn g_json(g: &[NodeRec]) -> Value {
    Value::Array(g.iter().map(|n| n.to_g()).collect())
}
pub fn snap_json(g: &[NodeRec]) -> Value {
    Value::Array(g.iter().map(|n| n.to_snap()).collect())
}
