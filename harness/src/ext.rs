//! Optional capabilities of the Boolean kinds (quantification, substitution,
//! ZBDD family operations) behind one trait so that drivers stay generic.

use oxidd::bcdd::BCDDFunction;
use oxidd::bdd::BDDFunction;
use oxidd::util::AllocResult;
use oxidd::zbdd::ZBDDFunction;
use oxidd::{
    BooleanFunction, BooleanFunctionQuant, BooleanOperator, BooleanVecSet, Function,
    FunctionSubst, ManagerRef, Subst,
};

use crate::kinds::Kind;

pub fn bool_op(op: &str) -> BooleanOperator {
    match op {
        "and" => BooleanOperator::And,
        "or" => BooleanOperator::Or,
        "xor" => BooleanOperator::Xor,
        "equiv" => BooleanOperator::Equiv,
        "nand" => BooleanOperator::Nand,
        "nor" => BooleanOperator::Nor,
        "imp" => BooleanOperator::Imp,
        "imp_strict" => BooleanOperator::ImpStrict,
        _ => panic!("harness: unknown operator {op}"),
    }
}

pub trait BoolExt: Kind + BooleanFunction {
    const HAS_QUANT: bool = false;
    const HAS_ZOPS: bool = false;
    /// set_var_order with live nodes preserves the functions (false for ZBDDs
    /// before the level_swap fix in /repo; kept as a switch for drivers)
    const REORDER_LIVE_OK: bool = true;
    fn quant(&self, _q: &str, _vars: &Self) -> AllocResult<Self> {
        panic!("harness: quant unsupported")
    }
    fn apply_quant(&self, _q: &str, _op: &str, _rhs: &Self, _vars: &Self) -> AllocResult<Self> {
        panic!("harness: apply_quant unsupported")
    }
    fn subst(&self, _s: &Subst<Self>) -> AllocResult<Self> {
        panic!("harness: subst unsupported")
    }
    /// unary-with-variable family op: subset0 | subset1 | change
    fn zvar(&self, _op: &str, _v: u32) -> AllocResult<Self> {
        panic!("harness: zvar unsupported")
    }
    /// union | intsec | diff
    fn zbin(&self, _op: &str, _rhs: &Self) -> AllocResult<Self> {
        panic!("harness: zbin unsupported")
    }
    /// singleton(v) | empty | base
    fn zconst(_mref: &Self::ManagerRef, _op: &str, _v: u32) -> AllocResult<Self> {
        panic!("harness: zconst unsupported")
    }
    fn make_node(_var: &Self, _hi: &Self, _lo: &Self) -> AllocResult<Self> {
        panic!("harness: make_node unsupported")
    }
}

macro_rules! impl_quant {
    ($f:ty) => {
        impl BoolExt for $f {
            const HAS_QUANT: bool = true;
            fn quant(&self, q: &str, vars: &Self) -> AllocResult<Self> {
                match q {
                    "exists" => self.exists(vars),
                    "forall" => self.forall(vars),
                    "unique" => self.unique(vars),
                    _ => panic!("harness: unknown quantifier {q}"),
                }
            }
            fn apply_quant(&self, q: &str, op: &str, rhs: &Self, vars: &Self) -> AllocResult<Self> {
                let op = bool_op(op);
                match q {
                    "exists" => self.apply_exists(op, rhs, vars),
                    "forall" => self.apply_forall(op, rhs, vars),
                    "unique" => self.apply_unique(op, rhs, vars),
                    _ => panic!("harness: unknown quantifier {q}"),
                }
            }
            fn subst(&self, s: &Subst<Self>) -> AllocResult<Self> {
                self.substitute(s)
            }
        }
    };
}
impl_quant!(BDDFunction);
impl_quant!(BCDDFunction);

impl BoolExt for ZBDDFunction {
    const HAS_ZOPS: bool = true;
    const REORDER_LIVE_OK: bool = true;
    fn zvar(&self, op: &str, v: u32) -> AllocResult<Self> {
        match op {
            "subset0" => self.subset0(v),
            "subset1" => self.subset1(v),
            "change" => self.change(v),
            _ => panic!("harness: unknown zvar {op}"),
        }
    }
    fn zbin(&self, op: &str, rhs: &Self) -> AllocResult<Self> {
        match op {
            "union" => self.union(rhs),
            "intsec" => self.intsec(rhs),
            "diff" => self.diff(rhs),
            _ => panic!("harness: unknown zbin {op}"),
        }
    }
    fn zconst(mref: &Self::ManagerRef, op: &str, v: u32) -> AllocResult<Self> {
        mref.with_manager_shared(|m| match op {
            "singleton" => Self::singleton(m, v),
            "empty" => Ok(Self::empty(m)),
            "base" => Ok(Self::base(m)),
            _ => panic!("harness: unknown zconst {op}"),
        })
    }
    fn make_node(var: &Self, hi: &Self, lo: &Self) -> AllocResult<Self> {
        var.with_manager_shared(|m, ve| {
            use oxidd::Manager;
            let hi = m.clone_edge(hi.as_edge(m));
            let lo = m.clone_edge(lo.as_edge(m));
            let e = oxidd::zbdd::make_node(m, ve, hi, lo)?;
            Ok(Self::from_edge(m, e))
        })
    }
}
