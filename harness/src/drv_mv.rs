//! Drivers for the multi-valued kinds: TDD (C11) and MTBDD over I64 (C10).
//! Events are validated by spec/TraceMV.tla.

use std::borrow::Borrow;
use std::collections::{BTreeMap, HashMap, HashSet};

use oxidd::tdd::TDDFunction;
use oxidd::util::AllocResult;
use oxidd::{
    Edge, Function, HasLevel, InnerNode, Manager, ManagerRef, Node, NumberBase,
    PseudoBooleanFunction, TVLFunction,
};

use crate::util::{catch, json, write_summary, Args, Rng, TraceOut, Value};



pub trait Mv: Function + Clone + Eq + std::hash::Hash + Ord + Sized + 'static {
    const KIND: &'static str;
    const BASE: u32;
    fn new_manager(cache: usize) -> Self::ManagerRef;
    /// evaluate on every assignment
    fn values(&self, n: u32) -> Vec<Value>;
    /// (edge, sub-graph, node count)
    fn graph(&self) -> (Value, Value, usize);
}

impl Mv for TDDFunction {
    const KIND: &'static str = "tdd";
    const BASE: u32 = 3;
    fn new_manager(cache: usize) -> Self::ManagerRef {
        oxidd::tdd::new_manager(1 << 14, cache, 1)
    }
    fn values(&self, n: u32) -> Vec<Value> {
        let mut out = Vec::new();
        for a in 0..3u32.pow(n) {
            let r = self.eval((0..n).map(|v| {
                let d = (a / 3u32.pow(v)) % 3;
                (v, match d {
                    0 => Some(false),
                    1 => None,
                    _ => Some(true),
                })
            }));
            out.push(json!(match r {
                Some(false) => 0,
                None => 1,
                Some(true) => 2,
            }));
        }
        out
    }
    fn graph(&self) -> (Value, Value, usize) {
        use crate::kinds::Kind;
        let conv = |(id, _tag): (i64, u32)| {
            if id < 0 {
                json!({"t": -1 - id})
            } else {
                json!({ "n": id })
            }
        };
        self.with_manager_shared(|m, e| {
            let g = <Self as Kind>::subgraph(m, &[e]);
            let gj: Vec<Value> = g
                .iter()
                .map(|nd| {
                    let mut v = vec![json!(nd.id), json!(nd.lvl_stored)];
                    for c in &nd.ch {
                        v.push(conv(*c));
                    }
                    Value::Array(v)
                })
                .collect();
            (conv(<Self as Kind>::edge_code(m, e)), Value::Array(gj), 0)
        })
    }
}


pub struct MvSession<'t, F: Mv> {
    pub mref: F::ManagerRef,
    pub slots: Vec<Option<F>>,
    pub out: &'t mut TraceOut,
    pub n: u32,
    pub dead: bool,
}

impl<'t, F: Mv> MvSession<'t, F> {
    pub fn new(out: &'t mut TraceOut, cache: usize, n: u32) -> Self {
        out.begin_history();
        let mref = F::new_manager(cache);
        out.emit(json!({"ev":"reset","kind":F::KIND,"cache":cache}));
        mref.with_manager_exclusive(|m| m.add_vars(n));
        let l2v: Vec<u32> = mref.with_manager_shared(|m| (0..n).map(|l| m.level_to_var(l)).collect());
        out.emit(json!({"ev":"add_vars","n":n,"l2v":l2v}));
        MvSession { mref, slots: Vec::new(), out, n, dead: false }
    }
    /// like `new` for a manager created by the caller (worker threads, capacities)
    pub fn with_manager(out: &'t mut TraceOut, mref: F::ManagerRef, cache: usize, n: u32, tag: &str) -> Self {
        out.begin_history();
        out.emit(json!({"ev":"reset","kind":F::KIND,"cache":cache,"tag":tag}));
        mref.with_manager_exclusive(|m| m.add_vars(n));
        let l2v: Vec<u32> = mref.with_manager_shared(|m| (0..n).map(|l| m.level_to_var(l)).collect());
        out.emit(json!({"ev":"add_vars","n":n,"l2v":l2v}));
        MvSession { mref, slots: Vec::new(), out, n, dead: false }
    }
    pub fn get(&self, s: usize) -> &F {
        self.slots[s].as_ref().unwrap()
    }
    pub fn live(&self) -> Vec<usize> {
        (0..self.slots.len()).filter(|&s| self.slots[s].is_some()).collect()
    }
    pub fn log(&mut self, op: &str, args: &[usize], extra: Value, r: Result<AllocResult<F>, String>) -> Option<usize> {
        let mut ev = json!({"ev":"mop","op":op,"a":args});
        if let Value::Object(o) = extra {
            for (k, v) in o {
                ev[k] = v;
            }
        }
        match r {
            Ok(Ok(f)) => {
                let (e, g, _) = f.graph();
                ev["e"] = e;
                ev["g"] = g;
                ev["vt"] = Value::Array(catch(|| f.values(self.n)).unwrap_or_else(|p| vec![json!({"panic": p})]));
                ev["nc"] = json!(f.node_count());
                self.slots.push(Some(f));
                let h = self.slots.len() - 1;
                ev["h"] = json!(h);
                self.out.emit(ev);
                Some(h)
            }
            Ok(Err(_)) => {
                ev["res"] = json!({"oom": true});
                self.out.emit(ev);
                None
            }
            Err(p) => {
                ev["res"] = json!({ "panic": p });
                self.out.emit(ev);
                self.dead = true;
                None
            }
        }
    }
    pub fn drop_h(&mut self, s: usize) {
        self.out.emit(json!({"ev":"mdrop","a":s}));
        self.slots[s] = None;
    }
    pub fn gc(&mut self) {
        let (ret, ninner, nterm) = self
            .mref
            .with_manager_shared(|m| (m.gc(), m.num_inner_nodes(), m.num_terminals()));
        self.out
            .emit(json!({"ev":"mgc","ret":ret,"ninner":ninner,"nterm":nterm}));
    }
    /// set_var_order with live functions, then re-project every live handle
    pub fn reorder_and_check(&mut self, req: &[u32], f: impl FnOnce(&F::ManagerRef, &[u32]) -> Result<(), String>) {
        let ok = f(&self.mref, req).is_ok();
        let n = self.n;
        let l2v: Vec<u32> = self.mref.with_manager_shared(|m| (0..n).map(|l| m.level_to_var(l)).collect());
        self.out.emit(json!({"ev":"reorder","l2v":l2v,"ok":ok,"req":req}));
        if !ok {
            self.dead = true;
            return;
        }
        for a in self.live() {
            let f = self.get(a).clone();
            let (e, g, _) = f.graph();
            let vt = Value::Array(catch(|| f.values(n)).unwrap_or_else(|p| vec![json!({"panic": p})]));
            self.out.emit(json!({"ev":"mcheck","a":a,"e":e,"g":g,"vt":vt,"nc":f.node_count()}));
        }
    }
    /// drop every handle and collect: the manager must be empty again
    pub fn finish(&mut self) {
        for x in self.live() {
            self.drop_h(x);
        }
        self.gc();
    }
    pub fn obs(&mut self) {
        let live = self.live();
        let mut classes: HashMap<F, usize> = HashMap::new();
        let mut sorted: BTreeMap<F, usize> = BTreeMap::new();
        for &s in &live {
            let f = self.get(s).clone();
            let k = classes.len();
            classes.entry(f.clone()).or_insert(k);
            sorted.entry(f).or_insert(0);
        }
        for (i, (_, r)) in sorted.iter_mut().enumerate() {
            *r = i;
        }
        let hs: Vec<Value> = live
            .iter()
            .map(|&s| {
                let f = self.get(s);
                json!([s, classes[f], sorted[f], f.values(self.n)])
            })
            .collect();
        self.out.emit(json!({"ev":"mobs","hs":hs}));
    }
}

// ---------------------------------------------------------------------------
// TDD

const TBIN: [&str; 8] = ["and", "or", "nand", "nor", "imp", "equiv", "xor", "imp_strict"];

fn tdd_bin(op: &str, a: &TDDFunction, b: &TDDFunction) -> AllocResult<TDDFunction> {
    match op {
        "and" => a.and(b),
        "or" => a.or(b),
        "nand" => a.nand(b),
        "nor" => a.nor(b),
        "imp" => a.imp(b),
        "equiv" => a.equiv(b),
        "xor" => a.xor(b),
        "imp_strict" => a.imp_strict(b),
        _ => panic!("harness: tdd op {op}"),
    }
}

fn tdd_base(s: &mut MvSession<TDDFunction>) {
    for c in ["f", "t", "u"] {
        let r = catch(|| {
            Ok(s.mref.with_manager_shared(|m| match c {
                "f" => TDDFunction::f(m),
                "t" => TDDFunction::t(m),
                _ => TDDFunction::u(m),
            }))
        });
        s.log(c, &[], json!({}), r);
    }
    for v in 0..s.n {
        let r = catch(|| s.mref.with_manager_shared(|m| TDDFunction::var(m, v)));
        s.log("var", &[], json!({ "v": v }), r);
    }
}

fn tdd_cofactors(s: &mut MvSession<TDDFunction>, a: usize) {
    match catch(|| s.get(a).cofactors()) {
        Ok(None) => s.out.emit(json!({"ev":"mcofnone","a":a})),
        Ok(Some((t, u, f))) => {
            for (name, x) in [("cof_t", t), ("cof_u", u), ("cof_f", f)] {
                if let Some(h) = s.log(name, &[a], json!({}), Ok(Ok(x))) {
                    s.drop_h(h);
                }
            }
        }
        Err(p) => {
            s.log("cof_t", &[a], json!({}), Err(p));
        }
    }
}

pub fn tdd(args: &Args) {
    let dir = args.get("out", "/verif/out/tmp");
    let seed = args.num("seed", 1);
    let thorough = args.get("tier", "quick") == "thorough";
    let mut rng = Rng::new(seed ^ 0x1111);
    let mut out = TraceOut::new(&dir, "mv-tdd", 2500);
    let mut cases = 0u64;

    // one variable: closure of the constants and the variable under all
    // connectives, then every unary / binary / (sampled) ternary combination
    {
        let mut s: MvSession<TDDFunction> = MvSession::new(&mut out, [1usize, 16, 1024][rng.below(3)], 1);
        tdd_base(&mut s);
        let mut known: HashMap<Vec<Value>, usize> = HashMap::new();
        let mut reps: Vec<usize> = Vec::new();
        for h in s.live() {
            let key = s.get(h).values(1);
            if !known.contains_key(&key) {
                known.insert(key, h);
                reps.push(h);
            }
        }
        let mut changed = true;
        while changed && !s.dead {
            changed = false;
            let cur = reps.clone();
            for &a in &cur {
                let r = catch(|| s.get(a).not());
                cases += 1;
                if let Some(h) = s.log("not", &[a], json!({}), r) {
                    let key = s.get(h).values(1);
                    if known.contains_key(&key) {
                        s.drop_h(h);
                    } else {
                        known.insert(key, h);
                        reps.push(h);
                        changed = true;
                    }
                }
                for &b in &cur {
                    for op in TBIN {
                        let r = catch(|| tdd_bin(op, s.get(a), s.get(b)));
                        cases += 1;
                        if let Some(h) = s.log(op, &[a, b], json!({}), r) {
                            let key = s.get(h).values(1);
                            if known.contains_key(&key) {
                                s.drop_h(h);
                            } else {
                                known.insert(key, h);
                                reps.push(h);
                                changed = true;
                            }
                        }
                    }
                }
                if s.dead {
                    break;
                }
            }
        }
        s.obs();
        // ite over all triples of the reachable functions (sampled in quick)
        let k = reps.len();
        for i in 0..k {
            for j in 0..k {
                for l in 0..k {
                    if !thorough && rng.below(8) != 0 {
                        continue;
                    }
                    if s.dead {
                        break;
                    }
                    let (a, b, c) = (reps[i], reps[j], reps[l]);
                    let r = catch(|| s.get(a).ite(s.get(b), s.get(c)));
                    cases += 1;
                    if let Some(h) = s.log("ite", &[a, b, c], json!({}), r) {
                        s.drop_h(h);
                    }
                }
            }
        }
        for &a in &reps {
            if !s.dead {
                tdd_cofactors(&mut s, a);
            }
        }
        s.obs();
    }
    // two variables, both orders: random operations
    for hist in 0..(if thorough { 400 } else { 60 }) {
        let mut s: MvSession<TDDFunction> = MvSession::new(&mut out, [1usize, 2, 64][rng.below(3)], 2);
        if hist % 2 == 1 {
            let ok = s
                .mref
                .with_manager_exclusive(|m| catch(|| oxidd_reorder::set_var_order(m, &[1, 0])))
                .is_ok();
            let l2v: Vec<u32> = s.mref.with_manager_shared(|m| (0..2).map(|l| m.level_to_var(l)).collect());
            s.out.emit(json!({"ev":"reorder","l2v":l2v,"ok":ok}));
        }
        tdd_base(&mut s);
        for _ in 0..(if thorough { 60 } else { 35 }) {
            if s.dead {
                break;
            }
            let live = s.live();
            let a = live[rng.below(live.len())];
            let b = live[rng.below(live.len())];
            let c = live[rng.below(live.len())];
            cases += 1;
            match rng.below(12) {
                0 => {
                    let r = catch(|| s.get(a).not());
                    s.log("not", &[a], json!({}), r);
                }
                1 | 2 => {
                    let r = catch(|| s.get(a).ite(s.get(b), s.get(c)));
                    s.log("ite", &[a, b, c], json!({}), r);
                }
                3 => tdd_cofactors(&mut s, a),
                4 => {
                    if live.len() > 6 {
                        s.drop_h(a);
                        s.gc();
                    }
                }
                5 if rng.chance(1, 3) => {
                    let p: Vec<u32> = if rng.chance(1, 2) { vec![1, 0] } else { vec![0, 1] };
                    s.reorder_and_check(&p, |mref, p| {
                        mref.with_manager_exclusive(|m| catch(|| oxidd_reorder::set_var_order(m, p)))
                    });
                }
                _ => {
                    let op = TBIN[rng.below(8)];
                    let r = catch(|| tdd_bin(op, s.get(a), s.get(b)));
                    s.log(op, &[a, b], json!({}), r);
                }
            }
        }
        if !s.dead {
            s.obs();
            s.finish();
        }
    }
    // three variables, every order (the rotations are the orders whose variable -> level map is
    // not its own inverse): random operations, reorderings in between
    for hist in 0..(if thorough { 180 } else { 30 }) {
        let mut s: MvSession<TDDFunction> = MvSession::new(&mut out, [1usize, 4, 256][rng.below(3)], 3);
        let orders: [[u32; 3]; 6] = [[0, 1, 2], [1, 2, 0], [2, 0, 1], [0, 2, 1], [1, 0, 2], [2, 1, 0]];
        let first = orders[hist % 6];
        s.reorder_and_check(&first, |mref, p| {
            mref.with_manager_exclusive(|m| catch(|| oxidd_reorder::set_var_order(m, p)))
        });
        tdd_base(&mut s);
        for _ in 0..(if thorough { 40 } else { 24 }) {
            if s.dead {
                break;
            }
            let live = s.live();
            let a = live[rng.below(live.len())];
            let b = live[rng.below(live.len())];
            let c = live[rng.below(live.len())];
            cases += 1;
            match rng.below(12) {
                0 => {
                    let r = catch(|| s.get(a).not());
                    s.log("not", &[a], json!({}), r);
                }
                1 | 2 => {
                    let r = catch(|| s.get(a).ite(s.get(b), s.get(c)));
                    s.log("ite", &[a, b, c], json!({}), r);
                }
                3 => tdd_cofactors(&mut s, a),
                4 => {
                    if live.len() > 8 {
                        s.drop_h(a);
                        s.gc();
                    }
                }
                5 => {
                    let p = orders[rng.below(6)];
                    s.reorder_and_check(&p, |mref, p| {
                        mref.with_manager_exclusive(|m| catch(|| oxidd_reorder::set_var_order(m, p)))
                    });
                }
                _ => {
                    let op = TBIN[rng.below(8)];
                    let r = catch(|| tdd_bin(op, s.get(a), s.get(b)));
                    s.log(op, &[a, b], json!({}), r);
                }
            }
        }
        if !s.dead {
            s.obs();
            s.finish();
        }
    }
    out.finish();
    write_summary(&dir, "mv-tdd", &out, json!({"rows":cases,"nontrivial":cases}));
}


/// C11: TDD `eval` with many variables (two bits per level packed into words: boundaries at 8 and
/// 16 levels): f = x_i <op> x_j, three-valued assignments; self-contained events (`mevalw`)
pub fn tddwide(args: &Args) {
    let dir = args.get("out", "/verif/out/tmp");
    let seed = args.num("seed", 1);
    let thorough = args.get("tier", "quick") == "thorough";
    let mut out = TraceOut::new(&dir, "mv-tddwide", 4000);
    let mut rng = Rng::new(seed ^ 0x71d3);
    let mut cases = 0u64;
    let sizes: Vec<u32> = if thorough { vec![9, 12, 17, 20, 33, 40] } else { vec![9, 17, 33] };
    for (si, &n) in sizes.iter().enumerate() {
        for rotate in [false, true] {
            out.begin_history();
            let mref = oxidd::tdd::new_manager(1 << 14, 256, 1);
            out.emit(json!({"ev":"reset","kind":"tdd","cache":256,"tag":"wide"}));
            let ok = catch(|| {
                mref.with_manager_exclusive(|m| {
                    m.add_vars(n);
                    if rotate {
                        let ord: Vec<u32> = (0..n).map(|l| (l + 3) % n).collect();
                        oxidd_reorder::set_var_order(m, &ord);
                    }
                })
            });
            if ok.is_err() {
                out.emit(json!({"ev":"abort","what":"wide setup","signal":0}));
                continue;
            }
            let l2v: Vec<u32> = mref.with_manager_shared(|m| (0..n).map(|l| m.level_to_var(l)).collect());
            let mut pairs: Vec<(u32, u32)> = vec![(0, n - 1), (n - 1, 0), (0, 1)];
            for b in [8u32, 16, 32] {
                if b < n {
                    pairs.push((l2v[(b - 1) as usize], l2v[b as usize]));
                    pairs.push((l2v[0], l2v[b as usize]));
                    pairs.push((l2v[b as usize], l2v[(b - 8) as usize]));
                }
            }
            for _ in 0..(if thorough { 12 } else { 5 }) {
                pairs.push((rng.below(n as usize) as u32, rng.below(n as usize) as u32));
            }
            for (pi, &(i, j)) in pairs.iter().enumerate() {
                let op = TBIN[(pi + si) % 8];
                let f = catch(|| {
                    mref.with_manager_shared(|m| {
                        let a = TDDFunction::var(m, i)?;
                        let b = TDDFunction::var(m, j)?;
                        tdd_bin(op, &a, &b)
                    })
                });
                let Ok(Ok(f)) = f else {
                    out.emit(json!({"ev":"mevalw","n":n,"op":op,"i":i,"j":j,"res":{"panic":"construction failed"}}));
                    continue;
                };
                for k in 0..(if thorough { 12 } else { 7 }) {
                    let asg: Vec<u8> = match k {
                        0 => vec![0; n as usize],
                        1 => vec![2; n as usize],
                        2 => vec![1; n as usize],
                        _ => (0..n).map(|_| rng.below(3) as u8).collect(),
                    };
                    cases += 1;
                    let r = catch(|| {
                        f.eval((0..n).map(|v| {
                            (v, match asg[v as usize] {
                                0 => Some(false),
                                1 => None,
                                _ => Some(true),
                            })
                        }))
                    });
                    match r {
                        Ok(b) => {
                            let code = match b {
                                Some(false) => 0,
                                None => 1,
                                Some(true) => 2,
                            };
                            out.emit(json!({"ev":"mevalw","n":n,"op":op,"i":i,"j":j,"ai":asg[i as usize],"aj":asg[j as usize],
                                "res":code,"rot":rotate}))
                        }
                        Err(p) => out.emit(json!({"ev":"mevalw","n":n,"op":op,"i":i,"j":j,"res":{"panic":p}})),
                    }
                }
            }
        }
    }
    out.finish();
    write_summary(&dir, "mv-tddwide", &out, json!({"rows":cases,"nontrivial":cases}));
}
