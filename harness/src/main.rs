mod drv_bool;
mod drv_circuit;
mod drv_conc;
#[cfg(feature = "idx")]
mod drv_dddmp;
mod drv_hashtbl;
#[cfg(feature = "idx")]
mod drv_mt;
mod drv_mv;
mod drv_names;
mod drv_oom;
mod drv_pick;
mod drv_num;
mod ext;
mod kinds;
mod session;
mod util;

use oxidd::bcdd::BCDDFunction;
use oxidd::bdd::BDDFunction;
use oxidd::zbdd::ZBDDFunction;

use util::Args;

macro_rules! by_kind {
    ($kind:expr, $f:ident, $args:expr) => {
        match $kind.as_str() {
            "bdd" => drv_bool::$f::<BDDFunction>($args),
            "bcdd" => drv_bool::$f::<BCDDFunction>($args),
            "zbdd" => drv_bool::$f::<ZBDDFunction>($args),
            k => panic!("harness: unknown kind {k}"),
        }
    };
}

fn main() {
    let argv: Vec<String> = std::env::args().collect();
    if argv.len() < 2 {
        eprintln!("usage: oxv <driver> [--key value]...");
        std::process::exit(2);
    }
    let args = Args::parse(&argv[2..]);
    let kind = args.get("kind", "bdd");
    // panics of the library under test are data; keep stderr quiet
    if !args.has("verbose") {
        std::panic::set_hook(Box::new(|_| {}));
    }
    util::start_watchdog(args.num("watchdog", 300));
    match argv[1].as_str() {
        "tables" => by_kind!(kind, tables, &args),
        "hist" => by_kind!(kind, hist, &args),
        "reorder" => by_kind!(kind, reorder, &args),
        "replay" => by_kind!(kind, replay, &args),
        "bggc" => by_kind!(kind, bggc, &args),
        "gcchurn" => by_kind!(kind, gcchurn, &args),
        "widevars" => by_kind!(kind, widevars, &args),
        "tdd" => drv_mv::tdd(&args),
        "tddwide" => drv_mv::tddwide(&args),
        #[cfg(feature = "idx")]
        "mtbdd" => drv_mt::mtbdd(&args),
        #[cfg(feature = "idx")]
        "mtconc" => drv_mt::mtconc(&args),
        #[cfg(feature = "idx")]
        "mtoom" => drv_mt::mtoom(&args),
        "pick" => match kind.as_str() {
            "bdd" => drv_pick::pick::<BDDFunction>(&args),
            "bcdd" => drv_pick::pick::<BCDDFunction>(&args),
            "zbdd" => drv_pick::pick::<ZBDDFunction>(&args),
            k => panic!("harness: unknown kind {k}"),
        },
        "count" => match kind.as_str() {
            "bdd" => drv_pick::count::<BDDFunction>(&args),
            "bcdd" => drv_pick::count::<BCDDFunction>(&args),
            "zbdd" => drv_pick::count::<ZBDDFunction>(&args),
            k => panic!("harness: unknown kind {k}"),
        },
        "conc" => match kind.as_str() {
            "bdd" => drv_conc::conc::<BDDFunction>(&args),
            "bcdd" => drv_conc::conc::<BCDDFunction>(&args),
            "zbdd" => drv_conc::conc::<ZBDDFunction>(&args),
            k => panic!("harness: unknown kind {k}"),
        },
        "oom" => match kind.as_str() {
            "bdd" => drv_oom::oom::<BDDFunction>(&args),
            "bcdd" => drv_oom::oom::<BCDDFunction>(&args),
            "zbdd" => drv_oom::oom::<ZBDDFunction>(&args),
            k => panic!("harness: unknown kind {k}"),
        },
        "gcthread" => drv_oom::gcthread(&args),
        "oomabort" => match kind.as_str() {
            "bdd" => drv_oom::oomabort::<BDDFunction>(&args),
            "bcdd" => drv_oom::oomabort::<BCDDFunction>(&args),
            "zbdd" => drv_oom::oomabort::<ZBDDFunction>(&args),
            k => panic!("harness: unknown kind {k}"),
        },
        "capprobe" => match kind.as_str() {
            "bdd" => drv_oom::capprobe::<BDDFunction>(&args),
            "bcdd" => drv_oom::capprobe::<BCDDFunction>(&args),
            "zbdd" => drv_oom::capprobe::<ZBDDFunction>(&args),
            k => panic!("harness: unknown kind {k}"),
        },
        "names" => match kind.as_str() {
            "bdd" => drv_names::run::<BDDFunction>(&args),
            "bcdd" => drv_names::run::<BCDDFunction>(&args),
            "zbdd" => drv_names::run::<ZBDDFunction>(&args),
            k => panic!("harness: unknown kind {k}"),
        },
        #[cfg(feature = "idx")]
        d if d.starts_with("dddmp") => drv_dddmp::run(d, &args),
        d if d.starts_with("hashtbl") => drv_hashtbl::run(d, &args),
        d if d.starts_with("circuit") || d.starts_with("parse") => drv_circuit::run(d, &args),
        d if d.starts_with("num") || d.starts_with("natural") => drv_num::run(d, &args),
        d => {
            eprintln!("unknown driver {d}");
            std::process::exit(2);
        }
    }
}
