//! C16: variable and name bookkeeping. (T) replay of every edge of the state
//! graph of spec/VarNames.tla, (V) random call sequences with unicode names.

use std::io::BufRead;

use oxidd::{BooleanFunction, Manager, ManagerRef};
use oxidd_core::util::VarNameMap;

use crate::ext::BoolExt;
use crate::util::{catch, json, write_summary, Args, Rng, TraceOut, Value};

fn observe<F: BoolExt>(mref: &F::ManagerRef, universe: &[String]) -> Value {
    mref.with_manager_shared(|m| {
        let nv = m.num_vars();
        let names: Vec<String> = (0..nv).map(|v| m.var_name(v).to_string()).collect();
        let mut n2v = Vec::new();
        for s in universe {
            let v = m.name_to_var(s).map(|v| v as i64).unwrap_or(-1);
            n2v.push(json!([s, v]));
        }
        json!({"nv": nv, "nl": m.num_levels(), "nn": m.num_named_vars(), "names": names, "n2v": n2v})
    })
}

fn res_json(r: Result<Result<std::ops::Range<u32>, oxidd::error::DuplicateVarName>, String>) -> Value {
    match r {
        Ok(Ok(range)) => json!({"ok": true, "lo": range.start, "hi": range.end}),
        Ok(Err(e)) => json!({"ok": false, "name": e.name, "present": e.present_var,
            "lo": e.added_vars.start, "hi": e.added_vars.end}),
        Err(p) => json!({ "panic": p }),
    }
}

/// perform `call` (JSON array as in the spec) on the manager
fn do_call<F: BoolExt>(mref: &F::ManagerRef, call: &Value) -> Value {
    let strs = |v: &Value| -> Vec<String> {
        v.as_array()
            .unwrap()
            .iter()
            .map(|s| s.as_str().unwrap().to_string())
            .collect()
    };
    let name = call[0].as_str().unwrap();
    mref.with_manager_exclusive(|m| match name {
        "add_vars" => {
            let k = call[1].as_u64().unwrap() as u32;
            res_json(catch(|| Ok(m.add_vars(k))))
        }
        "add_named" => {
            let ss = strs(&call[1]);
            res_json(catch(|| m.add_named_vars(ss)))
        }
        "from_map" => {
            let ss = strs(&call[1]);
            res_json(catch(|| {
                let mut map = VarNameMap::new();
                map.add_named(ss).expect("harness: from_map needs unique names");
                m.add_named_vars_from_map(map)
            }))
        }
        "set_name" => {
            let v = call[1].as_u64().unwrap() as u32;
            let s = call[2].as_str().unwrap().to_string();
            let len = m.num_vars();
            res_json(catch(|| m.set_var_name(v, s).map(|()| len..len)))
        }
        _ => panic!("harness: unknown call {name}"),
    })
}

fn res_matches(obs: &Value, exp: &Value) -> bool {
    if obs.get("panic").is_some() {
        return false;
    }
    let keys: &[&str] = if exp["ok"].as_bool().unwrap() {
        &["ok", "lo", "hi"]
    } else {
        &["ok", "name", "present", "lo", "hi"]
    };
    keys.iter().all(|k| obs.get(*k) == exp.get(*k))
}

pub fn run<F: BoolExt>(args: &Args) {
    let dir = args.get("out", "/verif/out/tmp");
    let seed = args.num("seed", 1);
    let thorough = args.get("tier", "quick") == "thorough";
    let mut rng = Rng::new(seed ^ 0x1616);
    let mut out = TraceOut::new(&dir, &format!("names-{}", F::KIND), 3000);
    let alphabet: Vec<String> = ["", "a", "b", "c"].iter().map(|s| s.to_string()).collect();
    let mut rows = 0u64;
    let mut mismatches = 0u64;
    let mut errs = 0u64;

    // (T) every edge of the model's state graph
    if let Some(path) = args.0.get("edges") {
        let f = std::fs::File::open(path).expect("harness: edges file");
        for line in std::io::BufReader::new(f).lines() {
            let edge: Value = serde_json::from_str(&line.unwrap()).unwrap();
            let mref = F::new_manager(256, 16, 1);
            // reach the pre-state by one call (its names are unique)
            let pre: Vec<String> = edge["pre"]
                .as_array()
                .unwrap()
                .iter()
                .map(|s| s.as_str().unwrap().to_string())
                .collect();
            let pre_call = json!(["add_named", pre]);
            let r0 = if pre.is_empty() {
                json!({"ok": true, "lo": 0, "hi": 0})
            } else {
                do_call::<F>(&mref, &pre_call)
            };
            let o0 = observe::<F>(&mref, &alphabet);
            let r = do_call::<F>(&mref, &edge["call"]);
            let o = observe::<F>(&mref, &alphabet);
            rows += 1;
            if !edge["res"]["ok"].as_bool().unwrap() {
                errs += 1;
            }
            let good = res_matches(&r, &edge["res"])
                && o["names"] == edge["post"]
                && o0["names"] == edge["pre"];
            if !good {
                mismatches += 1;
            }
            if !good || rows % 7 == 0 {
                out.begin_history();
                out.emit(json!({"ev":"reset","kind":F::KIND}));
                if !pre.is_empty() {
                    out.emit(json!({"ev":"ncall","call":pre_call,"res":r0,"obs":o0}));
                }
                out.emit(json!({"ev":"ncall","call":edge["call"],"res":r,"obs":o}));
            }
        }
    }

    // (V) random sequences, unicode names, interleaved with other activity
    let pool: Vec<String> = [
        "", "x", "y", "x0", "ü", "λ", "变量", "a b", "\t", "🦀", "X", "x ", "long_name_with_many_chars",
    ]
    .iter()
    .map(|s| s.to_string())
    .collect();
    let seqs = if thorough { 1500 } else { 150 };
    for _ in 0..seqs {
        out.begin_history();
        out.emit(json!({"ev":"reset","kind":F::KIND}));
        let mref = F::new_manager(4096, 64, 1);
        let mut handles: Vec<F> = Vec::new();
        let steps = 4 + rng.below(16);
        for _ in 0..steps {
            let nv = mref.with_manager_shared(|m| m.num_vars());
            let pick = |rng: &mut Rng| pool[rng.below(pool.len())].clone();
            let c = rng.below(100);
            let call = if nv == 0 || c < 15 {
                json!(["add_vars", 1 + rng.below(2)])
            } else if c < 45 {
                let k = 1 + rng.below(3);
                let ss: Vec<String> = (0..k).map(|_| pick(&mut rng)).collect();
                json!(["add_named", ss])
            } else if c < 55 {
                // unique batch for the map variant
                let mut ss: Vec<String> = Vec::new();
                for _ in 0..(1 + rng.below(3)) {
                    let s = pick(&mut rng);
                    if s.is_empty() || !ss.contains(&s) {
                        ss.push(s);
                    }
                }
                json!(["from_map", ss])
            } else if c < 90 {
                json!(["set_name", rng.below(nv as usize), pick(&mut rng)])
            } else {
                // noise: create a function, reorder, collect
                let r = catch(|| {
                    mref.with_manager_shared(|m| {
                        if let Ok(f) = F::var(m, rng.below(nv as usize) as u32) {
                            handles.push(f);
                        }
                    });
                    if handles.len() >= 2 {
                        if let Ok(g) = handles[0].and(&handles[handles.len() - 1]) {
                            handles.push(g);
                        }
                    }
                    if F::REORDER_LIVE_OK && rng.chance(1, 2) {
                        let p = rng.perm(nv as usize);
                        mref.with_manager_exclusive(|m| F::set_var_order(m, &p));
                    }
                    mref.with_manager_shared(|m| m.gc());
                });
                let o = observe::<F>(&mref, &pool);
                let mut ev = json!({"ev":"noise","obs":o});
                if let Err(p) = r {
                    ev["panic"] = json!(p);
                }
                out.emit(ev);
                continue;
            };
            let r = do_call::<F>(&mref, &call);
            let o = observe::<F>(&mref, &pool);
            rows += 1;
            if r.get("ok") == Some(&json!(false)) {
                errs += 1;
            }
            out.emit(json!({"ev":"ncall","call":call,"res":r,"obs":o}));
        }
        drop(handles);
    }
    out.finish();
    write_summary(
        &dir,
        &format!("names-{}", F::KIND),
        &out,
        json!({"rows":rows,"mismatches":mismatches,"nontrivial":errs}),
    );
}
