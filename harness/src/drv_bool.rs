//! Drivers for the Boolean kinds (BDD, BCDD, ZBDD): oracle-table replay (T),
//! random histories (V, S).

use std::fs::File;

use oxidd::{Function, Manager, ManagerRef, Subst};

use crate::ext::BoolExt;
use crate::session::{bin_call, tt_of, Session, Slot, BIN_OPS};
use crate::util::{catch, json, permutations, write_summary, Args, Rng, TraceOut, Value};

pub fn load_table(dir: &str, name: &str) -> Value {
    let p = format!("{dir}/{name}.json");
    let f = File::open(&p).unwrap_or_else(|_| panic!("harness: missing table {p}"));
    serde_json::from_reader(std::io::BufReader::new(f)).unwrap()
}
fn t2(v: &Value, i: usize, j: usize) -> usize {
    v[i][j].as_u64().unwrap() as usize
}

/// Build the canonical handle of every 3-variable truth table by the
/// elementary route (minterms), unlogged; returns None (after emitting
/// `construct_mismatch`) if eval disagrees with the intended table.
pub fn build_all3<F: BoolExt>(s: &mut Session<F>, reversed_route: bool) -> Option<Vec<Slot>> {
    let n = 3u32;
    let r = catch(|| -> Option<Vec<F>> {
        let lits: Vec<(F, F)> = (0..n)
            .map(|v| {
                s.mref.with_manager_shared(|m| {
                    (F::var(m, v).unwrap(), F::not_var(m, v).unwrap())
                })
            })
            .collect();
        let ff = s.mref.with_manager_shared(|m| F::f(m));
        let mut minterms = Vec::new();
        for a in 0..8u32 {
            let mut c = s.mref.with_manager_shared(|m| F::t(m));
            let vs: Vec<u32> = if reversed_route {
                (0..n).rev().collect()
            } else {
                (0..n).collect()
            };
            for v in vs {
                let l = if (a >> v) & 1 == 1 {
                    &lits[v as usize].0
                } else {
                    &lits[v as usize].1
                };
                c = c.and(l).unwrap();
            }
            minterms.push(c);
        }
        let mut fs = Vec::new();
        for tt in 0..256u32 {
            let mut f = ff.clone();
            for a in 0..8 {
                if (tt >> a) & 1 == 1 {
                    f = f.or(&minterms[a]).unwrap();
                }
            }
            fs.push(f);
        }
        Some(fs)
    });
    let fs = match r {
        Ok(Some(fs)) => fs,
        _ => {
            s.out
                .emit(json!({"ev":"construct_mismatch","why":"panic or oom while building"}));
            return None;
        }
    };
    for (tt, f) in fs.iter().enumerate() {
        let obs = tt_of(f, n);
        let want: Vec<i64> = (0..8).filter(|a| (tt >> a) & 1 == 1).collect();
        if obs != want {
            s.out
                .emit(json!({"ev":"construct_mismatch","tt":tt,"eval":obs}));
            return None;
        }
    }
    Some(s.adopt(fs))
}

/// T binding: replay the complete operator tables for 3 variables
pub fn tables<F: BoolExt>(args: &Args) {
    let dir = args.get("out", "/verif/out/tmp");
    let tdir = args.get("tables", "/verif/out/tables");
    let thorough = args.get("tier", "quick") == "thorough";
    let seed = args.num("seed", 1);
    let mut rng = Rng::new(seed);
    let mut out = TraceOut::new(&dir, &format!("tables-{}", F::KIND), 4000);
    let sample_every = args.num("sample", if thorough { 401 } else { 211 }) as usize;
    let groups = args.get("groups", "bool,quant,zbdd");
    let grp = |g: &str| groups.split(',').any(|x| x == g);

    let orders = permutations(3);
    let order_sel: Vec<usize> = if thorough {
        (0..6).collect()
    } else {
        // identity-free pair: one chosen by seed plus the reversed order
        vec![rng.below(6), 5]
    };
    let bin_tabs: Vec<(String, Value)> = BIN_OPS
        .iter()
        .map(|op| (op.to_string(), load_table(&tdir, op)))
        .collect();
    let misc = load_table(&tdir, "misc");
    let ite = load_table(&tdir, "ite");
    let quant: Vec<(String, Value)> = ["exists", "forall", "unique"]
        .iter()
        .map(|q| (q.to_string(), load_table(&tdir, q)))
        .collect();
    let restrict = load_table(&tdir, "restrict");
    let zbin: Vec<(String, Value)> = ["union", "intsec", "diff"]
        .iter()
        .map(|q| (q.to_string(), load_table(&tdir, q)))
        .collect();
    let zvar = load_table(&tdir, "zvar");

    let mut rows: u64 = 0;
    let mut sessions = 0;
    let mut mismatches: u64 = 0;
    let mut nontrivial: u64 = 0;
    let threads_opts: Vec<u32> = if thorough { vec![1, 4] } else { vec![1] };

    for (oi, &osel) in order_sel.iter().enumerate() {
        for &threads in &threads_opts {
            for reorder_after in [false, true] {
                if !thorough && reorder_after != (oi % 2 == 1) && F::REORDER_LIVE_OK {
                    continue;
                }
                if reorder_after && !F::REORDER_LIVE_OK {
                    continue;
                }
                // the first session always has a large cache (entries survive),
                // the others a random capacity
                let cache = if sessions == 0 { 4096 } else { [1usize, 2, 16, 4096][rng.below(4)] };
                sessions += 1;
                let mut s: Session<F> = Session::new(&mut out, 8192, cache, threads);
                s.add_vars(3);
                let ord = &orders[osel];
                if !reorder_after {
                    s.reorder(ord);
                }
                let Some(h) = build_all3(&mut s, oi % 2 == 1) else {
                    continue;
                };
                if reorder_after {
                    s.reorder(ord);
                }
                s.obs();
                s.snap();

                let mut cnt = 0usize;
                // helper: compare a raw result against the canonical handle
                macro_rules! row {
                    ($opname:expr, $args:expr, $extra:expr, $exp:expr, $call:expr) => {{
                        let r = catch(|| $call);
                        rows += 1;
                        cnt += 1;
                        let exp: usize = $exp;
                        let good = matches!(&r, Ok(Ok(f)) if f == s.get(h[exp]));
                        if !good {
                            mismatches += 1;
                        }
                        if !good || cnt % sample_every == 0 {
                            if let Some(slot) = s.log_result($opname, $args, $extra, r) {
                                if !good {
                                    // not the canonical handle: are its cofactors still the Shannon cofactors?
                                    cofactors_of(&mut s, slot);
                                }
                                s.drop_h(slot);
                            }
                        }
                        good
                    }};
                }

                if grp("bool") {
                // constants, variables
                row!("f", &[], json!({}), misc["f"].as_u64().unwrap() as usize, Ok(s
                    .mref
                    .with_manager_shared(|m| F::f(m))));
                row!("t", &[], json!({}), misc["t"].as_u64().unwrap() as usize, Ok(s
                    .mref
                    .with_manager_shared(|m| F::t(m))));
                for v in 0..3u32 {
                    row!(
                        "var",
                        &[],
                        json!({ "v": v }),
                        misc["var"][v as usize].as_u64().unwrap() as usize,
                        s.mref.with_manager_shared(|m| F::var(m, v))
                    );
                    row!(
                        "not_var",
                        &[],
                        json!({ "v": v }),
                        misc["not_var"][v as usize].as_u64().unwrap() as usize,
                        s.mref.with_manager_shared(|m| F::not_var(m, v))
                    );
                }
                for f in 0..256usize {
                    row!(
                        "not",
                        &[h[f]],
                        json!({}),
                        misc["not"][f].as_u64().unwrap() as usize,
                        s.get(h[f]).not()
                    );
                }
                // binary connectives: all pairs
                for (op, tab) in &bin_tabs {
                    for f in 0..256usize {
                        for g in 0..256usize {
                            let exp = t2(tab, f, g);
                            if row!(op, &[h[f], h[g]], json!({}), exp, bin_call(
                                op,
                                s.get(h[f]),
                                s.get(h[g])
                            )) && exp != f
                                && exp != g
                                && exp != 0
                                && exp != 255
                            {
                                nontrivial += 1;
                            }
                        }
                    }
                }
                // ite over the selected index set
                let sel: Vec<usize> = ite["sel"]
                    .as_array()
                    .unwrap()
                    .iter()
                    .map(|x| x.as_u64().unwrap() as usize)
                    .collect();
                for (i, &f) in sel.iter().enumerate() {
                    for (j, &g) in sel.iter().enumerate() {
                        for (k, &e) in sel.iter().enumerate() {
                            let exp = ite["tab"][i][j][k].as_u64().unwrap() as usize;
                            row!(
                                "ite",
                                &[h[f], h[g], h[e]],
                                json!({}),
                                exp,
                                s.get(h[f]).ite(s.get(h[g]), s.get(h[e]))
                            );
                        }
                    }
                }
                }
                let cube_tt = |c: usize| misc["cube"][c].as_u64().unwrap() as usize;
                if F::HAS_QUANT && grp("quant") {
                    // quantifiers: variable set = positive cube
                    let pos_cube = |mask: usize| -> usize {
                        // cube code with digit 1 for members of mask
                        (0..3).map(|v| if (mask >> v) & 1 == 1 { 3usize.pow(v) } else { 0 }).sum()
                    };
                    for (q, tab) in &quant {
                        for mask in 0..8usize {
                            let cs = h[cube_tt(pos_cube(mask))];
                            for f in 0..256usize {
                                let exp = t2(tab, mask, f);
                                row!(q, &[h[f], cs], json!({}), exp, s
                                    .get(h[f])
                                    .quant(q, s.get(cs)));
                            }
                        }
                    }
                    // apply-and-quantify = composition of two table look-ups
                    let stride = if thorough { 4 } else { 16 };
                    let mut k = rng.below(stride);
                    for (q, qtab) in &quant {
                        for (op, btab) in &bin_tabs {
                            for mask in 1..8usize {
                                let cs = h[cube_tt(pos_cube(mask))];
                                for f in 0..256usize {
                                    for g in 0..256usize {
                                        k += 1;
                                        if k % stride != 0 {
                                            continue;
                                        }
                                        let exp = t2(qtab, mask, t2(btab, f, g));
                                        let opn = format!("apply_{q}");
                                        row!(
                                            &opn,
                                            &[h[f], h[g], cs],
                                            json!({ "bop": op }),
                                            exp,
                                            s.get(h[f]).apply_quant(q, op, s.get(h[g]), s.get(cs))
                                        );
                                    }
                                }
                            }
                        }
                    }
                }
                // restrict by every literal cube
                for c in 0..(if grp("quant") || grp("restrict") { 27usize } else { 0 }) {
                    let cs = h[cube_tt(c)];
                    for f in 0..256usize {
                        let exp = t2(&restrict, c, f);
                        row!("restrict", &[h[f], cs], json!({}), exp, s
                            .get(h[f])
                            .restrict(s.get(cs)));
                    }
                }
                if F::HAS_ZOPS && grp("zbdd") {
                    for (op, tab) in &zbin {
                        for f in 0..256usize {
                            for g in 0..256usize {
                                let exp = t2(tab, f, g);
                                row!(op, &[h[f], h[g]], json!({}), exp, s
                                    .get(h[f])
                                    .zbin(op, s.get(h[g])));
                            }
                        }
                    }
                    // the same operation on the same operand with every
                    // variable back to back (the variable is part of the cache key)
                    for op in ["subset0", "subset1", "change"] {
                        for f in 0..256usize {
                            for v in 0..3usize {
                                let exp = zvar[op][v][f].as_u64().unwrap() as usize;
                                row!(op, &[h[f]], json!({ "v": v }), exp, s
                                    .get(h[f])
                                    .zvar(op, v as u32));
                            }
                        }
                    }
                    for v in 0..3usize {
                        let exp = zvar["singleton"][v].as_u64().unwrap() as usize;
                        row!("singleton", &[], json!({ "v": v }), exp, F::zconst(
                            &s.mref,
                            "singleton",
                            v as u32
                        ));
                    }
                    row!("empty", &[], json!({}), 0, F::zconst(&s.mref, "empty", 0));
                    row!("base", &[], json!({}), 1, F::zconst(&s.mref, "base", 0));
                    // make_node(var, hi, lo) for the top-most variable and every pair of families
                    // over the other variables (incl. hi = lo and hi = empty)
                    let (l2v_now, _) = s.order();
                    let top = l2v_now[0] as usize;
                    let cands: Vec<usize> = (0..256usize).filter(|f| (0..8).all(|a| (f >> a) & 1 == 0 || (a >> top) & 1 == 0)).collect();
                    let var_tt = 1usize << (1usize << top);
                    for &hi in &cands {
                        for &lo in &cands {
                            // family = lo + { x + {top} | x in hi }
                            let mut exp = lo;
                            for a in 0..8usize {
                                if (hi >> a) & 1 == 1 {
                                    exp |= 1 << (a | (1 << top));
                                }
                            }
                            row!("make_node", &[h[var_tt], h[hi], h[lo]], json!({}), exp,
                                F::make_node(s.get(h[var_tt]), s.get(h[hi]), s.get(h[lo])));
                        }
                    }
                }
                // cofactors (V): w.r.t. the top-most variable of the current order
                for f in (0..(if grp("bool") { 256usize } else { 0 })).step_by(if thorough { 1 } else { 3 }) {
                    cofactors_of(&mut s, h[f]);
                }
                s.out
                    .emit(json!({"ev":"rows","count":cnt,"mismatch":mismatches}));
                s.obs();
                s.snap();
            }
        }
    }
    out.finish();
    write_summary(
        &dir,
        &format!("tables-{}", F::KIND),
        &out,
        json!({"rows":rows,"mismatches":mismatches,"nontrivial":nontrivial}),
    );
}

pub fn cofactors_of<F: BoolExt>(s: &mut Session<F>, a: Slot) {
    let r = catch(|| s.get(a).cofactors());
    match r {
        Ok(None) => s.out.emit(json!({"ev":"cofnone","a":a})),
        Ok(Some((t, e))) => {
            if let Some(x) = s.log_result("cof_t", &[a], json!({}), Ok(Ok(t))) {
                s.drop_h(x);
            }
            if let Some(x) = s.log_result("cof_f", &[a], json!({}), Ok(Ok(e))) {
                s.drop_h(x);
            }
        }
        Err(p) => {
            s.log_result("cof_t", &[a], json!({}), Err(p));
        }
    }
}

/// conjunction of literals: `lits` = (var, positive)
fn cube<F: BoolExt>(s: &mut Session<F>, lits: &[(u32, bool)]) -> Option<Slot> {
    let mut c = s.konst(true);
    for &(v, pos) in lits {
        let l = if pos { s.var(v)? } else { s.not_var(v)? };
        let c2 = s.bin("and", c, l)?;
        s.drop_h(c);
        s.drop_h(l);
        c = c2;
    }
    Some(c)
}

fn release_substs<F: BoolExt>(s: &mut Session<F>, substs: &mut Vec<(Subst<F>, Vec<(u32, Slot)>)>) {
    for (sub, pairs) in substs.drain(..) {
        for (_, h) in pairs {
            s.release_ext(h);
        }
        drop(sub);
    }
}

/// stress mode: every cached operator on a small window of operands and the
/// kept cube / variable-set handles; results are dropped at once.  Called
/// with the very same handles before and after an invalidation point
/// (add_vars, gc, reordering): a stale cache entry changes a result.
fn same_calls_block<F: BoolExt>(s: &mut Session<F>, win: &[Slot], cubes: &[Slot], varsets: &[Slot], salt: usize) {
    // results are dropped at once; every third one through Manager::try_remove_node
    let cnt = std::cell::Cell::new(salt);
    let dropr = |s: &mut Session<F>, r: Option<Slot>| {
        if let Some(x) = r {
            cnt.set(cnt.get() + 1);
            if cnt.get() % 3 == 0 {
                s.try_remove_h(x);
            } else {
                s.drop_h(x);
            }
        }
    };
    for (i, &a) in win.iter().enumerate() {
        if s.dead {
            return;
        }
        for &c in cubes {
            let r = s.op("restrict", &[a, c], json!({}), |s| s.get(a).restrict(s.get(c)));
            dropr(s, r);
        }
        if F::HAS_QUANT {
            for (k, &vs) in varsets.iter().enumerate() {
                let q = ["exists", "forall", "unique"][(i + k + salt) % 3];
                let r = s.op(q, &[a, vs], json!({}), |s| s.get(a).quant(q, s.get(vs)));
                dropr(s, r);
            }
        }
        if F::HAS_ZOPS {
            let op = ["subset0", "subset1", "change"][(i + salt) % 3];
            for v in 0..s.n {
                let r = s.op(op, &[a], json!({ "v": v }), |s| s.get(a).zvar(op, v));
                dropr(s, r);
            }
        }
        let r = s.not(a);
        dropr(s, r);
        for (j, &b) in win.iter().enumerate() {
            let op = BIN_OPS[(i * 3 + j + salt) % 8];
            let r = s.bin(op, a, b);
            dropr(s, r);
            if F::HAS_ZOPS {
                let op = ["union", "intsec", "diff"][(i + j + salt) % 3];
                let r = s.op(op, &[a, b], json!({}), |s| s.get(a).zbin(op, s.get(b)));
                dropr(s, r);
            }
            if F::HAS_QUANT && !varsets.is_empty() {
                let vs = varsets[(i + j) % varsets.len()];
                let q = ["exists", "forall", "unique"][(j + salt) % 3];
                let r = s.op(&format!("apply_{q}"), &[a, b, vs], json!({ "bop": op }), |s| {
                    s.get(a).apply_quant(q, op, s.get(b), s.get(vs))
                });
                dropr(s, r);
            }
        }
        let (b, c) = (win[(i + 1) % win.len()], win[(i + 2) % win.len()]);
        let r = s.ite(a, b, c);
        dropr(s, r);
    }
}

/// V + S binding: seeded random histories over 2..=nmax variables
pub fn hist<F: BoolExt>(args: &Args) {
    let dir = args.get("out", "/verif/out/tmp");
    let seed = args.num("seed", 1);
    let count = args.num("count", 50);
    let nmax = args.num("nmax", 6) as u32;
    let steps_max = args.num("steps", 40) as usize;
    // stress mode (C06): few operands, every operator on the same operands
    // again and again with varying numeric arguments, results mostly dropped
    let stress = args.has("stress");
    let mut out = TraceOut::new(&dir, &format!("hist-{}", F::KIND), args.num("chunk", 1500) as usize);
    let mut rng = Rng::new(seed ^ 0x5151);
    let mut ops_done = 0u64;

    for _h in 0..count {
        let n0 = 2 + rng.below((nmax - 1) as usize) as u32; // 2..=nmax
        let cache = [1usize, 2, 16, 1024][rng.below(4)];
        let threads = [1u32, 1, 2, 4][rng.below(4)];
        let mut s: Session<F> = Session::new(&mut out, 1 << 16, cache, threads);
        s.rotate_add = true;
        // the high-water mark of the background collector (95 % of the capacity) is far out of reach
        s.add_vars(n0);
        if rng.chance(1, 2) {
            let p = rng.perm(n0 as usize);
            s.reorder(&p);
        }
        let steps = 8 + rng.below(steps_max);
        let mut substs: Vec<(Subst<F>, Vec<(u32, Slot)>)> = Vec::new();
        // stress mode: a few fixed literal sets / variable sets, so that the very
        // same (operator, operand, cube) triple is requested again and again
        let fixed_lits: Vec<Vec<(u32, bool)>> = (0..3)
            .map(|_| {
                let mut l = Vec::new();
                for v in 0..n0 {
                    if rng.chance(1, 2) {
                        l.push((v, rng.chance(1, 2)));
                    }
                }
                l
            })
            .collect();
        // ... and, built once and kept alive, the handles of these cubes: the
        // very same handles are then used before and after every collection,
        // add_vars and reordering (stale cache entries keyed by them)
        let mut fixed_cubes: Vec<Slot> = Vec::new();
        let mut fixed_varsets: Vec<Slot> = Vec::new();
        if stress {
            for l in &fixed_lits {
                if let Some(c) = cube(&mut s, l) {
                    fixed_cubes.push(c);
                }
                let vs: Vec<(u32, bool)> = l.iter().map(|&(v, _)| (v, true)).collect();
                if let Some(c) = cube(&mut s, &vs) {
                    fixed_varsets.push(c);
                }
            }
        }
        let block_at = steps / 2;
        for step in 0..steps {
            if s.dead {
                break;
            }
            let mut live = s.live();
            live.retain(|x| !fixed_cubes.contains(x) && !fixed_varsets.contains(x));
            if stress && step == block_at && live.len() >= 3 {
                // the same calls on the same handles around every invalidation point
                let win: Vec<Slot> = live.iter().copied().take(4).collect();
                let salt = rng.below(24);
                same_calls_block(&mut s, &win, &fixed_cubes, &fixed_varsets, salt);
                s.add_vars(1);
                same_calls_block(&mut s, &win, &fixed_cubes, &fixed_varsets, salt);
                s.snap();
                s.gc();
                same_calls_block(&mut s, &win, &fixed_cubes, &fixed_varsets, salt);
                if F::REORDER_LIVE_OK && !s.dead {
                    let p = rng.perm(s.n as usize);
                    s.reorder(&p);
                    same_calls_block(&mut s, &win, &fixed_cubes, &fixed_varsets, salt);
                }
                s.snap();
                continue;
            }
            // keep the store small: collect when many handles are live
            if live.len() > 20 {
                for &x in live.iter().take(8) {
                    s.drop_h(x);
                }
                release_substs(&mut s, &mut substs);
                s.snap();
                s.gc();
                s.snap();
                continue;
            }
            let pick = |rng: &mut Rng, live: &[Slot]| {
                if stress {
                    // a small window of operands
                    live[rng.below(live.len().min(5))]
                } else {
                    live[rng.below(live.len())]
                }
            };
            let c = if stress && live.len() >= 5 {
                // mostly operations; now and then a collection, a new
                // variable or a reordering (cache invalidation points)
                if rng.chance(1, 12) { 90 + rng.below(8) } else { 12 + rng.below(66) }
            } else {
                rng.below(100)
            };
            if stress && live.len() > 9 {
                // keep the pool small: drop the newest results
                for &x in live.iter().skip(5) {
                    s.drop_h(x);
                }
                if rng.chance(1, 4) {
                    s.snap();
                    s.gc();
                    s.snap();
                }
                continue;
            }
            ops_done += 1;
            if live.len() < 2 || c < 12 {
                let v = rng.below(s.n as usize) as u32;
                if rng.chance(2, 3) {
                    s.var(v);
                } else {
                    s.not_var(v);
                }
            } else if c < 45 {
                let op = BIN_OPS[rng.below(8)];
                let (a, b) = (pick(&mut rng, &live), pick(&mut rng, &live));
                s.bin(op, a, b);
            } else if c < 50 {
                let a = pick(&mut rng, &live);
                s.not(a);
            } else if c < 57 {
                let (a, b, c3) = (
                    pick(&mut rng, &live),
                    pick(&mut rng, &live),
                    pick(&mut rng, &live),
                );
                s.ite(a, b, c3);
            } else if c < 66 {
                // quantification / family operations
                if F::HAS_QUANT {
                    let vs: Vec<(u32, bool)> = if stress {
                        fixed_lits[rng.below(3)].iter().map(|&(v, _)| (v, true)).collect()
                    } else {
                        (0..s.n).filter(|_| rng.chance(1, 3)).map(|v| (v, true)).collect()
                    };
                    let kept = stress && fixed_varsets.len() == 3 && rng.chance(2, 3);
                    let cs0 = if kept { Some(fixed_varsets[rng.below(3)]) } else { cube(&mut s, &vs) };
                    if let Some(cs) = cs0 {
                        let q = ["exists", "forall", "unique"][rng.below(3)];
                        let a = pick(&mut rng, &live);
                        if rng.chance(1, 2) {
                            s.op(q, &[a, cs], json!({}), |s| s.get(a).quant(q, s.get(cs)));
                        } else {
                            let b = pick(&mut rng, &live);
                            let op = BIN_OPS[rng.below(8)];
                            s.op(
                                &format!("apply_{q}"),
                                &[a, b, cs],
                                json!({ "bop": op }),
                                |s| s.get(a).apply_quant(q, op, s.get(b), s.get(cs)),
                            );
                        }
                        if !kept {
                            s.drop_h(cs);
                        }
                    }
                } else if F::HAS_ZOPS {
                    let a = pick(&mut rng, &live);
                    match rng.below(3) {
                        0 if stress => {
                            // the same operation on the same operand with every variable
                            let op = ["subset0", "subset1", "change"][rng.below(3)];
                            for v in 0..s.n {
                                if let Some(x) = s.op(op, &[a], json!({ "v": v }), |s| s.get(a).zvar(op, v)) {
                                    s.drop_h(x);
                                }
                            }
                        }
                        0 => {
                            let op = ["subset0", "subset1", "change"][rng.below(3)];
                            let v = rng.below(s.n as usize) as u32;
                            s.op(op, &[a], json!({ "v": v }), |s| s.get(a).zvar(op, v));
                        }
                        1 => {
                            let op = ["union", "intsec", "diff"][rng.below(3)];
                            let b = pick(&mut rng, &live);
                            s.op(op, &[a, b], json!({}), |s| s.get(a).zbin(op, s.get(b)));
                        }
                        _ => {
                            let op = ["singleton", "empty", "base"][rng.below(3)];
                            let v = rng.below(s.n as usize) as u32;
                            s.op(op, &[], json!({ "v": v }), |s| F::zconst(&s.mref, op, v));
                        }
                    }
                }
            } else if c < 72 {
                // restrict by a random literal cube
                let mut lits: Vec<(u32, bool)> = Vec::new();
                if stress {
                    lits = fixed_lits[rng.below(3)].clone();
                } else {
                    for v in 0..s.n {
                        if rng.chance(1, 3) {
                            lits.push((v, rng.chance(1, 2)));
                        }
                    }
                }
                let kept = stress && fixed_cubes.len() == 3 && rng.chance(2, 3);
                let cs0 = if kept { Some(fixed_cubes[rng.below(3)]) } else { cube(&mut s, &lits) };
                if let Some(cs) = cs0 {
                    let a = pick(&mut rng, &live);
                    s.op("restrict", &[a, cs], json!({}), |s| {
                        s.get(a).restrict(s.get(cs))
                    });
                    if !kept {
                        s.drop_h(cs);
                    }
                }
            } else if c < 78 {
                // substitution (new object or reuse of an earlier one)
                if F::HAS_QUANT {
                    if substs.is_empty() || rng.chance(1, 2) {
                        let mut vars: Vec<u32> =
                            (0..s.n).filter(|_| rng.chance(1, 3)).collect();
                        if vars.is_empty() {
                            vars.push(rng.below(s.n as usize) as u32);
                        }
                        let mut pairs = Vec::new();
                        let mut repl = Vec::new();
                        for &v in &vars {
                            let (h, f) = s.hold_ext(pick(&mut rng, &live));
                            pairs.push((v, h));
                            repl.push(f);
                        }
                        substs.push((Subst::new(vars.clone(), repl), pairs));
                    }
                    let k = rng.below(substs.len());
                    let a = pick(&mut rng, &live);
                    let pairs = json!(substs[k]
                        .1
                        .iter()
                        .map(|&(v, sl)| json!([v, sl]))
                        .collect::<Vec<_>>());
                    let r = catch(|| s.get(a).subst(&substs[k].0));
                    s.log_result("subst", &[a], json!({"pairs":pairs,"sid":k}), r);
                }
            } else if c < 83 {
                let a = pick(&mut rng, &live);
                s.clone_h(a);
            } else if c < 90 {
                let a = pick(&mut rng, &live);
                s.drop_h(a);
            } else if c < 93 {
                s.snap();
                s.gc();
                s.snap();
            } else if c < 95 {
                if s.n < nmax {
                    s.add_vars(1);
                    s.snap();
                }
            } else if c < 98 && F::REORDER_LIVE_OK {
                // random partial order request
                let mut p = rng.perm(s.n as usize);
                let keep = 1 + rng.below(s.n as usize);
                p.truncate(keep);
                s.reorder(&p);
                s.snap();
            } else if rng.chance(1, 2) {
                let a = pick(&mut rng, &live);
                cofactors_of(&mut s, a);
            } else {
                // DDDMP export of a few handles (shared sub-diagrams are visited more than once),
                // then the full audit
                let k = 1 + rng.below(3);
                let roots: Vec<Slot> = (0..k).map(|_| pick(&mut rng, &live)).collect();
                s.export(&roots, rng.chance(1, 2));
                s.snap();
            }
            if rng.chance(1, 10) {
                s.obs();
            }
        }
        if !s.dead {
            s.obs();
            s.snap();
            release_substs(&mut s, &mut substs);
            for x in s.live() {
                s.drop_h(x);
            }
            s.snap();
            s.gc();
            s.snap();
        }
    }
    out.finish();
    write_summary(&dir, &format!("hist-{}", F::KIND), &out, json!({"ops":ops_done}));
}

/// Histories with many nodes per level: build ~60 chained functions over 7..8
/// variables, drop a third of them, collect (partial sweeps of well-filled
/// unique tables), re-derive the kept functions by the same recipes: the
/// re-derived handles must be the kept ones (canonicity across gc and slot
/// reuse), reference counts and structure are audited before and after.
pub fn gcchurn<F: BoolExt>(args: &Args) {
    let dir = args.get("out", "/verif/out/tmp");
    let seed = args.num("seed", 1);
    let thorough = args.get("tier", "quick") == "thorough";
    let mut rng = Rng::new(seed ^ 0xc4c4);
    let mut out = TraceOut::new(&dir, &format!("gcchurn-{}", F::KIND), 400);
    let mut cases = 0u64;
    for _ in 0..(if thorough { 30 } else { 4 }) {
        let n = 7 + rng.below(2) as u32;
        let mut s: Session<F> = Session::new(&mut out, 1 << 16, [16usize, 1024][rng.below(2)], [1u32, 2][rng.below(2)]);
        s.add_vars(n);
        let vars: Vec<Slot> = (0..n).filter_map(|v| s.var(v)).collect();
        if vars.len() != n as usize {
            continue;
        }
        // recipes refer to variables (index < n) or earlier recipes (index - n)
        let count = 50 + rng.below(20);
        let mut recipes: Vec<(usize, usize, usize)> = Vec::new();
        let mut slots: Vec<Option<Slot>> = Vec::new();
        let get = |slots: &Vec<Option<Slot>>, vars: &Vec<Slot>, i: usize| -> Option<Slot> {
            if i < vars.len() { Some(vars[i]) } else { slots[i - vars.len()] }
        };
        for k in 0..count {
            let hi = n as usize + k;
            // prefer recent results: chains
            let a = if k > 0 && rng.chance(2, 3) { n as usize + k - 1 - rng.below(k.min(3)) } else { rng.below(hi) };
            let b = rng.below(hi);
            let op = rng.below(8);
            recipes.push((op, a, b));
            let (sa, sb) = (get(&slots, &vars, a), get(&slots, &vars, b));
            let r = match (sa, sb) {
                (Some(x), Some(y)) => s.bin(BIN_OPS[op], x, y),
                _ => None,
            };
            slots.push(r);
            cases += 1;
        }
        s.snap();
        // drop every third chain element
        let mut dropped = vec![false; count];
        for k in 0..count {
            if k % 3 == rng.below(3) {
                if let Some(x) = slots[k].take() {
                    s.drop_h(x);
                    dropped[k] = true;
                }
            }
        }
        s.gc();
        s.snap();
        // re-derive everything by the same recipes (dropped ones are rebuilt,
        // kept ones must come out as the very same handles)
        let mut again: Vec<Option<Slot>> = Vec::new();
        for k in 0..count {
            if s.dead {
                break;
            }
            let (op, a, b) = recipes[k];
            let (sa, sb) = (get(&again, &vars, a), get(&again, &vars, b));
            let r = match (sa, sb) {
                (Some(x), Some(y)) => s.bin(BIN_OPS[op], x, y),
                _ => None,
            };
            again.push(r);
            cases += 1;
        }
        if !s.dead {
            s.obs();
            s.snap();
            for x in s.live() {
                s.drop_h(x);
            }
            s.gc();
            s.snap();
        }
    }
    out.finish();
    write_summary(&dir, &format!("gcchurn-{}", F::KIND), &out, json!({"rows":cases,"nontrivial":cases}));
}

/// C05: automatic background collections.  The capacity is small (128..512),
/// so the node count crosses the collector's high-water mark (95 %) while
/// garbage accumulates; the collector thread then runs concurrently with the
/// history.  Snapshots are taken under the exclusive manager lock.
pub fn bggc<F: BoolExt>(args: &Args) {
    let dir = args.get("out", "/verif/out/tmp");
    let seed = args.num("seed", 1);
    let thorough = args.get("tier", "quick") == "thorough";
    let mut rng = Rng::new(seed ^ 0xb66c);
    let mut out = TraceOut::new(&dir, &format!("bggc-{}", F::KIND), 2000);
    let mut triggered = 0u64;
    let mut runs = 0u64;
    for _ in 0..(if thorough { 60 } else { 10 }) {
        let cap = [128usize, 200, 384, 512][rng.below(4)];
        let n = 7 + rng.below(3) as u32;
        let mut s: Session<F> = Session::new(&mut out, cap, 64, [1u32, 2, 4][rng.below(3)]);
        s.add_vars(n);
        for v in 0..n {
            s.var(v);
        }
        runs += 1;
        let gc0 = s.mref.with_manager_shared(|m| m.gc_count());
        let mut steps = 0;
        // produce garbage: results are dropped at once, operands stay
        while steps < 400 && !s.dead {
            steps += 1;
            let live = s.live();
            let a = live[rng.below(live.len())];
            let b = live[rng.below(live.len())];
            let r = s.bin(BIN_OPS[rng.below(8)], a, b);
            match r {
                Some(x) => {
                    if live.len() > 12 || rng.chance(2, 3) {
                        s.drop_h(x);
                    }
                }
                None => {
                    // out of memory is legitimate here: make room and go on
                    let l = s.live();
                    for &x in l.iter().skip(n as usize) {
                        s.drop_h(x);
                    }
                    std::thread::sleep(std::time::Duration::from_millis(2));
                }
            }
            if steps % 40 == 0 {
                s.snap();
                s.obs();
            }
            let g = s.mref.with_manager_shared(|m| m.gc_count());
            if g > gc0 + 2 {
                break;
            }
        }
        let g = s.mref.with_manager_shared(|m| m.gc_count());
        if g > gc0 {
            triggered += 1;
        }
        if !s.dead {
            s.obs();
            s.snap();
            for x in s.live() {
                s.drop_h(x);
            }
            s.gc();
            s.snap();
        }
    }
    out.finish();
    write_summary(&dir, &format!("bggc-{}", F::KIND), &out, json!({"rows":runs,"nontrivial":triggered,"bg_collections_seen":triggered}));
}

/// Re-execute the calls of recorded histories (trace files written by other
/// drivers) on managers with a different configuration (cache capacity,
/// thread count, build features) and record a new trace.  The results of the
/// two executions are compared by TraceConfig.tla (C06, C20).
pub fn replay<F: BoolExt>(args: &Args) {
    use std::io::BufRead;
    let dir = args.get("out", "/verif/out/tmp");
    let input = args.get("in", "");
    let cache_override = args.0.get("cache").map(|c| c.parse::<usize>().unwrap());
    let thr_override = args.0.get("threads").map(|c| c.parse::<u32>().unwrap());
    let split = args.0.get("split").map(|c| c.parse::<u32>().unwrap());
    let mut out = TraceOut::new(&dir, &format!("replay-{}", F::KIND), args.num("chunk", 1500) as usize);
    let mut events: Vec<Value> = Vec::new();
    for path in input.split(',').filter(|p| !p.is_empty()) {
        let f = File::open(path).unwrap_or_else(|_| panic!("harness: cannot open {path}"));
        for line in std::io::BufReader::new(f).lines() {
            events.push(serde_json::from_str(&line.unwrap()).unwrap());
        }
    }
    let mut i = 0;
    let mut ops = 0u64;
    while i < events.len() {
        assert_eq!(events[i]["ev"], "reset", "harness: history must start with reset");
        let r = &events[i];
        let cap = r["cap"].as_u64().unwrap() as usize;
        let cache = cache_override.unwrap_or(r["cache"].as_u64().unwrap() as usize);
        let thr = thr_override.unwrap_or(r["thr"].as_u64().unwrap() as u32);
        let tag = r["tag"].as_str().unwrap_or("");
        // with more than one worker the concurrent variant of set_var_order is used (hook)
        oxidd_reorder::verif::FORCE_CONCURRENT.store(thr > 1, std::sync::atomic::Ordering::Relaxed);
        let mut s: Session<F> = Session::new_tagged(&mut out, cap, cache, thr, tag);
        if let Some(d) = split {
            s.mref.with_manager_shared(|m| F::set_split_depth(m, Some(d)));
        }
        // slot numbers are allocated in the same order as in the recording
        let mut pending: std::collections::HashMap<usize, F> = Default::default();
        let mut substs: std::collections::HashMap<u64, (Subst<F>, Vec<usize>)> = Default::default();
        let mut released: std::collections::HashSet<usize> = Default::default();
        let mut stash: Option<F> = None;
        i += 1;
        while i < events.len() && events[i]["ev"] != "reset" {
            let e = events[i].clone();
            i += 1;
            if s.dead {
                continue;
            }
            let sl = |v: &Value| v.as_u64().unwrap() as usize;
            match e["ev"].as_str().unwrap() {
                "add_vars" => {
                    // the same entry point as in the recording
                    s.force_via = e.get("via").and_then(|v| v.as_u64()).map(|v| v as u32);
                    s.add_vars(e["k"].as_u64().unwrap() as u32)
                }
                "reorder" => {
                    let req: Vec<u32> = e["req"].as_array().unwrap().iter().map(|x| x.as_u64().unwrap() as u32).collect();
                    s.reorder(&req)
                }
                "gc" => {
                    s.gc();
                }
                "obs" => s.obs(),
                "snap" => s.snap(),
                "clone" => {
                    if e["ext"].as_bool().unwrap_or(false) {
                        let (h, f) = s.hold_ext(sl(&e["a"]));
                        pending.insert(h, f);
                    } else {
                        s.clone_h(sl(&e["a"]));
                    }
                }
                "drop" => {
                    let a = sl(&e["a"]);
                    if s.ext.contains_key(&a) {
                        s.release_ext(a);
                        released.insert(a);
                        pending.remove(&a);
                        let done: Vec<u64> = substs
                            .iter()
                            .filter(|(_, (_, hs))| hs.iter().all(|h| released.contains(h)))
                            .map(|(k, _)| *k)
                            .collect();
                        for k in done {
                            substs.remove(&k);
                        }
                    } else if e.get("via").and_then(|v| v.as_str()) == Some("try_remove") {
                        s.try_remove_h(a);
                    } else {
                        s.drop_h(a);
                    }
                }
                "cofnone" => cofactors_of(&mut s, sl(&e["a"])),
                "op" => {
                    ops += 1;
                    let op = e["op"].as_str().unwrap().to_string();
                    let a: Vec<usize> = e["a"].as_array().unwrap().iter().map(sl).collect();
                    let v = e["v"].as_u64().unwrap_or(0) as u32;
                    match op.as_str() {
                        "t" | "f" => {
                            s.konst(op == "t");
                        }
                        "var" => {
                            s.var(v);
                        }
                        "not_var" => {
                            s.not_var(v);
                        }
                        "not" => {
                            s.not(a[0]);
                        }
                        "ite" => {
                            s.ite(a[0], a[1], a[2]);
                        }
                        "exists" | "forall" | "unique" => {
                            s.op(&op, &a, json!({}), |s| s.get(a[0]).quant(&op, s.get(a[1])));
                        }
                        "apply_exists" | "apply_forall" | "apply_unique" => {
                            let bop = e["bop"].as_str().unwrap().to_string();
                            let q = op.trim_start_matches("apply_").to_string();
                            s.op(&op, &a, json!({ "bop": bop }), |s| {
                                s.get(a[0]).apply_quant(&q, &bop, s.get(a[1]), s.get(a[2]))
                            });
                        }
                        "restrict" => {
                            s.op(&op, &a, json!({}), |s| s.get(a[0]).restrict(s.get(a[1])));
                        }
                        "subst" => {
                            let sid = e["sid"].as_u64().unwrap();
                            if !substs.contains_key(&sid) {
                                let mut vars = Vec::new();
                                let mut repl = Vec::new();
                                let mut hs = Vec::new();
                                for p in e["pairs"].as_array().unwrap() {
                                    vars.push(p[0].as_u64().unwrap() as u32);
                                    let h = sl(&p[1]);
                                    hs.push(h);
                                    repl.push(pending.remove(&h).expect("harness: ext slot of subst"));
                                }
                                substs.insert(sid, (Subst::new(vars, repl), hs));
                            }
                            let r = catch(|| s.get(a[0]).subst(&substs[&sid].0));
                            s.log_result("subst", &a, json!({"pairs": e["pairs"], "sid": sid}), r);
                        }
                        "cof_t" => match catch(|| s.get(a[0]).cofactors()) {
                            Ok(Some((t, el))) => {
                                s.log_result("cof_t", &a, json!({}), Ok(Ok(t)));
                                stash = Some(el);
                            }
                            Ok(None) => s.out.emit(json!({"ev":"cofnone","a":a[0]})),
                            Err(p) => {
                                s.log_result("cof_t", &a, json!({}), Err(p));
                            }
                        },
                        "cof_f" => {
                            if let Some(el) = stash.take() {
                                s.log_result("cof_f", &a, json!({}), Ok(Ok(el)));
                            }
                        }
                        "subset0" | "subset1" | "change" => {
                            s.op(&op, &a, json!({ "v": v }), |s| s.get(a[0]).zvar(&op, v));
                        }
                        "union" | "intsec" | "diff" => {
                            s.op(&op, &a, json!({}), |s| s.get(a[0]).zbin(&op, s.get(a[1])));
                        }
                        "singleton" | "empty" | "base" => {
                            s.op(&op, &[], json!({ "v": v }), |s| F::zconst(&s.mref, &op, v));
                        }
                        o if BIN_OPS.contains(&o) => {
                            s.bin(o, a[0], a[1]);
                        }
                        o => panic!("harness: replay of {o} not supported"),
                    }
                }
                "export" => {
                    let a: Vec<usize> = e["a"].as_array().unwrap().iter().map(sl).collect();
                    s.export(&a, e["ascii"].as_bool().unwrap_or(true));
                }
                "begin" | "rows" | "adopt" | "pick" | "unistat" | "satcount" | "abort" => {
                    if e["ev"] == "adopt" {
                        panic!("harness: histories with adopted handles cannot be replayed");
                    }
                }
                x => panic!("harness: replay of event {x} not supported"),
            }
        }
        drop(substs);
    }
    out.finish();
    write_summary(&dir, &format!("replay-{}", F::KIND), &out, json!({"rows":ops,"nontrivial":ops}));
}

/// all ordered subsets (sequences without repetition) of 0..n
pub fn ordered_subsets(n: usize) -> Vec<Vec<u32>> {
    fn rec(cur: &mut Vec<u32>, n: usize, out: &mut Vec<Vec<u32>>) {
        out.push(cur.clone());
        for i in 0..n as u32 {
            if !cur.contains(&i) {
                cur.push(i);
                rec(cur, n, out);
                cur.pop();
            }
        }
    }
    let mut out = Vec::new();
    rec(&mut Vec::new(), n, &mut out);
    out
}

/// `count` random functions built by logged operations over the variables
pub fn random_funcs<F: BoolExt>(s: &mut Session<F>, rng: &mut Rng, count: usize) {
    for v in 0..s.n {
        s.var(v);
    }
    for _ in 0..count {
        let live = s.live();
        let a = live[rng.below(live.len())];
        let b = live[rng.below(live.len())];
        match rng.below(10) {
            0 => {
                s.not(a);
            }
            1 => {
                let c = live[rng.below(live.len())];
                s.ite(a, b, c);
            }
            _ => {
                s.bin(BIN_OPS[rng.below(8)], a, b);
            }
        }
        if s.dead {
            return;
        }
    }
}

/// after a reordering: the diagram must behave like a freshly built one
fn post_reorder_activity<F: BoolExt>(s: &mut Session<F>, rng: &mut Rng, ops: usize) {
    s.snap();
    s.obs();
    for _ in 0..ops {
        let live = s.live();
        if live.len() < 2 || s.dead {
            break;
        }
        let a = live[rng.below(live.len())];
        let b = live[rng.below(live.len())];
        if let Some(x) = s.bin(BIN_OPS[rng.below(8)], a, b) {
            if rng.chance(1, 2) {
                s.drop_h(x);
            }
        }
    }
    s.snap();
    s.gc();
    s.snap();
}

/// Reordering of managers that hold no function yet (for ZBDDs only the
/// manager's own tautology chain, which is dropped and rebuilt); functions
/// are built afterwards.  One history with live functions comes last and is
/// tagged so that the known finding is attributed to exactly this case.
fn reorder_empty<F: BoolExt>(out: &mut TraceOut, rng: &mut Rng, thorough: bool, cases: &mut u64) {
    for n in 3..=(if thorough { 5usize } else { 4 }) {
        let perms = permutations(n);
        let reqs = ordered_subsets(n);
        let total = perms.len() * reqs.len();
        let take = if thorough { total.min(2500) } else { 120 };
        for c in 0..take {
            let k = if take == total { c } else { rng.below(total) };
            let (src, req) = (&perms[k / reqs.len()], &reqs[k % reqs.len()]);
            let mut s: Session<F> = Session::new(out, 4096, 64, [1u32, 2][rng.below(2)]);
            s.add_vars(n as u32);
            s.reorder(src);
            s.snap();
            s.reorder(req);
            *cases += 1;
            s.snap();
            if n == 3 && c % 8 == 0 {
                if build_all3(&mut s, c % 16 == 0).is_some() {
                    s.obs();
                    s.snap();
                }
            } else {
                random_funcs(&mut s, rng, 8);
                post_reorder_activity(&mut s, rng, 3);
            }
        }
    }
    let mut s: Session<F> = Session::new(out, 4096, 64, 1);
    s.add_vars(3);
    if build_all3(&mut s, false).is_some() {
        s.snap();
        s.reorder(&[0, 2, 1]);
        *cases += 1;
        s.snap();
    }
}

/// C08: set_var_order for all (source order, request) pairs
pub fn reorder<F: BoolExt>(args: &Args) {
    let dir = args.get("out", "/verif/out/tmp");
    let seed = args.num("seed", 1);
    let thorough = args.get("tier", "quick") == "thorough";
    let mut rng = Rng::new(seed ^ 0x0808);
    let mut out = TraceOut::new(&dir, &format!("reorder-{}", F::KIND), 1200);
    let mut cases = 0u64;

    if !F::REORDER_LIVE_OK {
        reorder_empty::<F>(&mut out, &mut rng, thorough, &mut cases);
        out.finish();
        write_summary(&dir, &format!("reorder-{}", F::KIND), &out, json!({"rows":cases,"nontrivial":cases}));
        return;
    }
    // n = 3: every function alive
    let perms3 = permutations(3);
    let reqs3 = ordered_subsets(3);
    let srcs: Vec<usize> = if thorough {
        (0..6).collect()
    } else {
        let a = rng.below(6);
        vec![a, (a + 1 + rng.below(5)) % 6]
    };
    for &si in &srcs {
        for req in &reqs3 {
            if !thorough && req.len() < 2 && rng.chance(1, 2) {
                continue;
            }
            let threads = [1u32, 2, 4][rng.below(3)];
            let mut s: Session<F> = Session::new(&mut out, 4096, [1usize, 16, 1024][rng.below(3)], threads);
            s.add_vars(3);
            s.reorder(&perms3[si]);
            let Some(_h) = build_all3(&mut s, rng.chance(1, 2)) else { continue };
            s.snap();
            s.reorder(req);
            cases += 1;
            post_reorder_activity(&mut s, &mut rng, 6);
        }
    }
    // n = 3 sparse: only one or two functions alive (nodes that a level swap
    // needs do not exist yet), every source order x every request
    for si in 0..6usize {
        for req in &reqs3 {
            for rep in 0..(if thorough { 4 } else { 2 }) {
                if !thorough && rng.chance(1, 2) {
                    continue;
                }
                let mut s: Session<F> = Session::new(&mut out, 4096, 64, 1);
                s.add_vars(3);
                s.reorder(&perms3[si]);
                let vars: Vec<Slot> = (0..3).filter_map(|v| s.var(v)).collect();
                if vars.len() != 3 {
                    continue;
                }
                // one or two functions of two/three variables; the plain
                // variables are dropped again
                let mut keep = Vec::new();
                for _ in 0..(1 + rep % 2) {
                    let a = vars[rng.below(3)];
                    let b = vars[rng.below(3)];
                    if let Some(x) = s.bin(BIN_OPS[rng.below(8)], a, b) {
                        if rng.chance(1, 2) {
                            let c = vars[rng.below(3)];
                            if let Some(y) = s.bin(BIN_OPS[rng.below(8)], x, c) {
                                s.drop_h(x);
                                keep.push(y);
                                continue;
                            }
                        }
                        keep.push(x);
                    }
                }
                for &v in &vars {
                    s.drop_h(v);
                }
                s.gc();
                s.snap();
                s.reorder(req);
                cases += 1;
                s.snap();
                s.obs();
                s.gc();
                s.snap();
            }
        }
    }
    // n = 4 (all sources x all requests in thorough, a sample in quick) and
    // n = 5..8 random, with random live functions; chains of reorderings
    let perms4 = permutations(4);
    let reqs4 = ordered_subsets(4);
    let n4_cases = if thorough { perms4.len() * reqs4.len() } else { 60 };
    for c in 0..n4_cases {
        let (src, req) = if thorough {
            (&perms4[c / reqs4.len()], &reqs4[c % reqs4.len()])
        } else {
            (&perms4[rng.below(24)], &reqs4[rng.below(reqs4.len())])
        };
        let mut s: Session<F> = Session::new(&mut out, 4096, 64, [1u32, 3][rng.below(2)]);
        s.add_vars(4);
        if rng.chance(1, 2) {
            s.reorder(src);
            random_funcs(&mut s, &mut rng, 14);
        } else {
            random_funcs(&mut s, &mut rng, 14);
            s.reorder(src);
        }
        s.snap();
        s.reorder(req);
        cases += 1;
        post_reorder_activity(&mut s, &mut rng, 4);
    }
    let chains = if thorough { 300 } else { 40 };
    for chain in 0..chains {
        let n = 5 + rng.below(if thorough { 4 } else { 2 }) as u32;
        let threads = [1u32, 2, 8][rng.below(3)];
        // every other chain uses the concurrent bubble sort (hook: the node
        // threshold of set_var_order is overridden)
        oxidd_reorder::verif::FORCE_CONCURRENT.store(chain % 2 == 1, std::sync::atomic::Ordering::Relaxed);
        let mut s: Session<F> = Session::new(&mut out, 8192, 256, if chain % 2 == 1 { threads.max(2) } else { threads });
        s.add_vars(n);
        random_funcs(&mut s, &mut rng, 12);
        // half of the chains have one or two variables that occur in no node (empty levels
        // take part in the reordering without any level swap)
        let n = if chain % 4 >= 2 {
            let k = 1 + rng.below(2) as u32;
            s.add_vars(k);
            n + k
        } else {
            n
        };
        let len = 2 + rng.below(4);
        for _ in 0..len {
            if s.dead {
                break;
            }
            let mut p = rng.perm(n as usize);
            p.truncate(1 + rng.below(n as usize));
            s.snap();
            s.reorder(&p);
            cases += 1;
            post_reorder_activity(&mut s, &mut rng, 3);
        }
    }
    // concurrent sort on larger diagrams (swaps take time, several workers overlap)
    for _ in 0..(if thorough { 40 } else { 6 }) {
        let n = 9 + rng.below(3) as u32;
        oxidd_reorder::verif::FORCE_CONCURRENT.store(true, std::sync::atomic::Ordering::Relaxed);
        let mut s: Session<F> = Session::new(&mut out, 1 << 16, 1024, [2u32, 4, 8][rng.below(3)]);
        s.add_vars(n);
        random_funcs(&mut s, &mut rng, 30);
        for x in s.live().into_iter().take(n as usize) {
            s.drop_h(x); // the plain variables
        }
        let mut p: Vec<u32> = (0..n).rev().collect();
        if rng.chance(1, 2) {
            p = rng.perm(n as usize);
        }
        s.reorder(&p);
        cases += 1;
        // no semantic snapshot here (n > 8 is too large for TLC's sets); the
        // swap events and the resulting order are validated
        let p2 = rng.perm(n as usize);
        s.reorder(&p2);
        cases += 1;
    }
    oxidd_reorder::verif::FORCE_CONCURRENT.store(false, std::sync::atomic::Ordering::Relaxed);
    out.finish();
    write_summary(&dir, &format!("reorder-{}", F::KIND), &out, json!({"rows":cases,"nontrivial":cases}));
}

#[allow(dead_code)]
fn unused<F: Function>(_f: &F)
where
    for<'id> F::Manager<'id>: Manager,
{
}


/// C02: `eval` with many variables (the assignment is packed into machine words; block boundaries at
/// 8, 16, 32, 64 levels): f = x_i <op> x_j for pairs around the boundaries and far apart, under the
/// identity order and a rotation; self-contained events (no shadow state: `evalw`)
pub fn widevars<F: BoolExt>(args: &Args) {
    let dir = args.get("out", "/verif/out/tmp");
    let seed = args.num("seed", 1);
    let thorough = args.get("tier", "quick") == "thorough";
    let mut out = TraceOut::new(&dir, &format!("wide-{}", F::KIND), 4000);
    let mut rng = Rng::new(seed ^ 0x71de);
    let mut cases = 0u64;
    let sizes: Vec<u32> = if thorough { vec![9, 12, 17, 20, 33, 40, 65, 70] } else { vec![9, 17, 33, 65] };
    for (si, &n) in sizes.iter().enumerate() {
        for rotate in [false, true] {
            out.begin_history();
            let mref = F::new_manager(1 << 16, 256, 1);
            out.emit(json!({"ev":"reset","kind":F::KIND,"cap":1 << 16,"cache":256,"thr":1,"tag":"wide"}));
            let ok = catch(|| {
                mref.with_manager_exclusive(|m| {
                    m.add_vars(n);
                    if rotate {
                        let ord: Vec<u32> = (0..n).map(|l| (l + 3) % n).collect();
                        F::set_var_order(m, &ord);
                    }
                })
            });
            if ok.is_err() {
                out.emit(json!({"ev":"abort","what":"wide setup","signal":0}));
                continue;
            }
            let l2v: Vec<u32> = mref.with_manager_shared(|m| (0..n).map(|l| m.level_to_var(l)).collect());
            let mut pairs: Vec<(u32, u32)> = vec![(0, n - 1), (n - 1, 0), (0, 1)];
            for b in [8u32, 16, 32, 64] {
                if b < n {
                    pairs.push((l2v[(b - 1) as usize], l2v[b as usize]));
                    pairs.push((l2v[0], l2v[b as usize]));
                    pairs.push((l2v[b as usize], l2v[(b - 8) as usize]));
                }
            }
            for _ in 0..(if thorough { 12 } else { 5 }) {
                pairs.push((rng.below(n as usize) as u32, rng.below(n as usize) as u32));
            }
            for (pi, &(i, j)) in pairs.iter().enumerate() {
                let op = BIN_OPS[(pi + si) % 8];
                let f = catch(|| {
                    mref.with_manager_shared(|m| {
                        let a = F::var(m, i)?;
                        let b = F::var(m, j)?;
                        bin_call(op, &a, &b)
                    })
                });
                let Ok(Ok(f)) = f else {
                    out.emit(json!({"ev":"evalw","n":n,"op":op,"i":i,"j":j,"res":{"panic":"construction failed"}}));
                    continue;
                };
                for k in 0..(if thorough { 10 } else { 6 }) {
                    let asg: Vec<u8> = match k {
                        0 => vec![0; n as usize],
                        1 => vec![1; n as usize],
                        _ => (0..n).map(|_| rng.below(2) as u8).collect(),
                    };
                    cases += 1;
                    let r = catch(|| f.eval((0..n).map(|v| (v, asg[v as usize] == 1))));
                    match r {
                        Ok(b) => out.emit(json!({"ev":"evalw","n":n,"op":op,"i":i,"j":j,"ai":asg[i as usize],"aj":asg[j as usize],
                            "ones":asg.iter().filter(|&&x| x == 1).count(),"res":b,"rot":rotate})),
                        Err(p) => out.emit(json!({"ev":"evalw","n":n,"op":op,"i":i,"j":j,"res":{"panic":p}})),
                    }
                }
            }
        }
    }
    out.finish();
    write_summary(&dir, &format!("wide-{}", F::KIND), &out, json!({"rows":cases,"nontrivial":cases}));
}
