//! C13 (cube picking) and C12 (model counting) drivers for the Boolean kinds.

use std::collections::BTreeMap;
use std::hash::BuildHasherDefault;

use oxidd::util::num::{Natural, Saturating, F64};
use oxidd::util::{OptBool, SatCountCache};
use oxidd::{BooleanFunction, Manager};
use oxidd_core::HasLevel;

use crate::drv_bool::{build_all3, random_funcs};
use crate::ext::BoolExt;
use crate::kinds::Kind;
use crate::session::{Session, Slot};
use crate::util::{catch, json, permutations, write_summary, Args, Rng, TraceOut, Value};

type Hasher = BuildHasherDefault<std::collections::hash_map::DefaultHasher>;

fn optbools(v: &[OptBool]) -> Vec<i8> {
    v.iter().map(|&b| b as i8).collect()
}

/// pick_cube with a per-level constant choice vector; logs the callback calls
fn pick_cube_ev<F: BoolExt>(s: &mut Session<F>, a: Slot, choice: &[bool])
where
    for<'id> <F::Manager<'id> as Manager>::InnerNode: HasLevel,
{
    let mut calls: Vec<(u32, u32)> = Vec::new();
    let r = catch(|| {
        s.get(a).pick_cube(|m, e, lvl| {
            let node_lvl = m.get_node(e).level();
            calls.push((lvl, node_lvl));
            choice.get(lvl as usize).copied().unwrap_or(false)
        })
    });
    let mut ev = json!({"ev":"pick","variant":"cube","a":a,"choice":choice,"calls":calls});
    match r {
        Ok(Some(c)) => ev["cube"] = json!(optbools(&c)),
        Ok(None) => ev["none"] = json!(true),
        Err(p) => ev["res"] = json!({ "panic": p }),
    }
    s.out.emit(ev);
}

fn pick_dd_ev<F: BoolExt>(s: &mut Session<F>, a: Slot, choice: &[bool])
where
    for<'id> <F::Manager<'id> as Manager>::InnerNode: HasLevel,
{
    let mut calls: Vec<(u32, u32)> = Vec::new();
    let r = catch(|| {
        s.get(a).pick_cube_dd(|m, e, lvl| {
            let node_lvl = m.get_node(e).level();
            calls.push((lvl, node_lvl));
            choice.get(lvl as usize).copied().unwrap_or(false)
        })
    });
    if let Some(x) = s.log_result("pick_dd", &[a], json!({"choice":choice,"calls":calls}), r) {
        s.drop_h(x);
    }
}

fn pick_set_ev<F: BoolExt>(s: &mut Session<F>, a: Slot, lits: Slot) {
    let r = catch(|| s.get(a).pick_cube_dd_set(s.get(lits)));
    if let Some(x) = s.log_result("pick_dd_set", &[a, lits], json!({}), r) {
        s.drop_h(x);
    }
}

fn uniform_ev<F: BoolExt>(s: &mut Session<F>, a: Slot, draws: usize, seed: u64) {
    let mut cache: SatCountCache<F64, Hasher> = SatCountCache::default();
    cache.cache_all = seed % 2 == 0;
    let mut rng = oxidd_core::util::Rng::new_seed(seed);
    let mut counts: BTreeMap<Vec<i8>, u64> = BTreeMap::new();
    let mut nones = 0u64;
    let r = catch(|| {
        for _ in 0..draws {
            match s.get(a).pick_cube_uniform(&mut cache, &mut rng) {
                Some(c) => *counts.entry(optbools(&c)).or_insert(0) += 1,
                None => nones += 1,
            }
        }
    });
    let cs: Vec<Value> = counts.iter().map(|(c, k)| json!([c, k])).collect();
    let mut ev = json!({"ev":"unistat","a":a,"draws":draws,"nones":nones,"counts":cs});
    if let Err(p) = r {
        ev = json!({"ev":"pick","variant":"uniform","a":a,"res":{"panic":p}});
    }
    s.out.emit(ev);
}

/// literal cube handle for code c (base 3 digits per variable: 0 absent, 1 positive, 2 negative)
fn lit_cube<F: BoolExt>(s: &mut Session<F>, n: u32, code: usize) -> Option<Slot> {
    let mut cur = s.konst(true);
    for v in 0..n {
        let d = (code / 3usize.pow(v)) % 3;
        if d == 0 {
            continue;
        }
        let l = if d == 1 { s.var(v)? } else { s.not_var(v)? };
        let c2 = s.bin("and", cur, l)?;
        s.drop_h(cur);
        s.drop_h(l);
        cur = c2;
    }
    Some(cur)
}

pub fn pick<F: BoolExt>(args: &Args)
where
    for<'id> <F::Manager<'id> as Manager>::InnerNode: HasLevel,
{
    let dir = args.get("out", "/verif/out/tmp");
    let seed = args.num("seed", 1);
    let thorough = args.get("tier", "quick") == "thorough";
    let mut rng = Rng::new(seed ^ 0x1313);
    let mut out = TraceOut::new(&dir, &format!("pick-{}", F::KIND), 2500);
    let mut cases = 0u64;

    // n = 3: all functions x all choice vectors x all 27 literal sets
    let orders = permutations(3);
    let osel: Vec<usize> = if thorough {
        (0..6).collect()
    } else {
        vec![rng.below(6), (rng.below(5) + 1) % 6]
    };
    for &oi in &osel {
        let mut s: Session<F> = Session::new(&mut out, 1 << 14, 64, 1);
        s.add_vars(3);
        s.reorder(&orders[oi]);
        let Some(h) = build_all3(&mut s, false) else { continue };
        let lits: Vec<Slot> = (0..27).filter_map(|c| lit_cube(&mut s, 3, c)).collect();
        let fstep = if thorough { 1 } else { 3 };
        let f0 = rng.below(fstep);
        for f in (f0..256).step_by(fstep) {
            for cv in 0..8usize {
                let choice: Vec<bool> = (0..3).map(|l| (cv >> l) & 1 == 1).collect();
                pick_cube_ev(&mut s, h[f], &choice);
                pick_dd_ev(&mut s, h[f], &choice);
                cases += 2;
            }
            for &ls in &lits {
                pick_set_ev(&mut s, h[f], ls);
                cases += 1;
            }
            if s.dead {
                break;
            }
        }
        // uniform sampling on a sample of functions
        for _ in 0..(if thorough { 40 } else { 10 }) {
            let f = rng.below(256);
            uniform_ev(&mut s, h[f], if thorough { 20000 } else { 4000 }, rng.next());
            cases += 1;
        }
    }
    // random functions over 4..8 variables
    for _ in 0..(if thorough { 300 } else { 40 }) {
        let n = 4 + rng.below(if thorough { 5 } else { 3 }) as u32;
        let mut s: Session<F> = Session::new(&mut out, 1 << 16, 256, 1);
        s.add_vars(n);
        let p = rng.perm(n as usize);
        s.reorder(&p);
        random_funcs(&mut s, &mut rng, 14);
        let live = s.live();
        for _ in 0..10 {
            if s.dead {
                break;
            }
            let a = live[rng.below(live.len())];
            let choice: Vec<bool> = (0..n).map(|_| rng.chance(1, 2)).collect();
            pick_cube_ev(&mut s, a, &choice);
            pick_dd_ev(&mut s, a, &choice);
            let code = rng.below(3usize.pow(n));
            if let Some(ls) = lit_cube(&mut s, n, code) {
                pick_set_ev(&mut s, a, ls);
                s.drop_h(ls);
            }
            cases += 3;
        }
        if n <= 5 && !s.dead {
            let a = live[rng.below(live.len())];
            uniform_ev(&mut s, a, 3000, rng.next());
        }
    }
    out.finish();
    write_summary(&dir, &format!("pick-{}", F::KIND), &out, json!({"rows":cases,"nontrivial":cases}));
}

// ---------------------------------------------------------------------------

fn limbs_of(mut digits: Vec<u64>) -> Vec<u32> {
    // transport only: split little-endian 64-bit digits into base-2^15 limbs
    let mut out = Vec::new();
    let total_bits = digits.len() * 64;
    let mut bit = 0;
    while bit < total_bits {
        let mut limb = 0u32;
        for i in 0..15 {
            let b = bit + i;
            if b < total_bits && (digits[b / 64] >> (b % 64)) & 1 == 1 {
                limb |= 1 << i;
            }
        }
        out.push(limb);
        bit += 15;
    }
    digits.clear();
    out
}

struct Caches {
    u64c: SatCountCache<Saturating<u64>, Hasher>,
    u128c: SatCountCache<Saturating<u128>, Hasher>,
    f64c: SatCountCache<F64, Hasher>,
    natc: SatCountCache<Natural, Hasher>,
}
impl Caches {
    fn new() -> Self {
        Caches {
            u64c: Default::default(),
            u128c: Default::default(),
            f64c: Default::default(),
            natc: Default::default(),
        }
    }
}

fn count_ev<F: BoolExt>(s: &mut Session<F>, a: Slot, vars: u32, ty: &str, caches: &mut Caches, fresh: bool) {
    let val = catch(|| match ty {
        "u64" => {
            let v = if fresh {
                s.get(a).sat_count::<Saturating<u64>, Hasher>(vars, &mut Default::default())
            } else {
                s.get(a).sat_count(vars, &mut caches.u64c)
            };
            json!({"limbs": limbs_of(vec![v.0])})
        }
        "u128" => {
            let v = if fresh {
                s.get(a).sat_count::<Saturating<u128>, Hasher>(vars, &mut Default::default())
            } else {
                s.get(a).sat_count(vars, &mut caches.u128c)
            };
            json!({"limbs": limbs_of(vec![v.0 as u64, (v.0 >> 64) as u64])})
        }
        "f64" => {
            let v = if fresh {
                s.get(a).sat_count::<F64, Hasher>(vars, &mut Default::default())
            } else {
                s.get(a).sat_count(vars, &mut caches.f64c)
            };
            let bits = v.0.to_bits();
            let frac = bits & ((1u64 << 52) - 1);
            json!({"sign": bits >> 63, "exp": (bits >> 52) & 0x7ff, "frac": limbs_of(vec![frac])[..4].to_vec()})
        }
        "nat" => {
            let v = if fresh {
                s.get(a).sat_count::<Natural, Hasher>(vars, &mut Default::default())
            } else {
                s.get(a).sat_count(vars, &mut caches.natc)
            };
            if v.is_nan() {
                json!({"nan": true, "limbs": [], "exp": 0})
            } else {
                json!({"nan": false, "limbs": limbs_of(v.mantissa().to_vec()), "exp": v.exp()})
            }
        }
        _ => panic!("harness: number type {ty}"),
    });
    let mut ev = json!({"ev":"satcount","a":a,"vars":vars,"ty":ty,"fresh":fresh});
    match val {
        Ok(v) => ev["val"] = v,
        Err(p) => ev["res"] = json!({ "panic": p }),
    }
    s.out.emit(ev);
}

const TYPES: [&str; 4] = ["u64", "u128", "f64", "nat"];

pub fn count<F: BoolExt>(args: &Args) {
    let dir = args.get("out", "/verif/out/tmp");
    let seed = args.num("seed", 1);
    let thorough = args.get("tier", "quick") == "thorough";
    let mut rng = Rng::new(seed ^ 0x1212);
    let mut out = TraceOut::new(&dir, &format!("count-{}", F::KIND), 3000);
    let mut cases = 0u64;
    let zbdd = F::KIND == "zbdd";

    let orders = permutations(3);
    let osel: Vec<usize> = if thorough { (0..6).collect() } else { vec![rng.below(6), 5] };
    for &oi in &osel {
        let mut s: Session<F> = Session::new(&mut out, 1 << 14, 64, 1);
        s.add_vars(3);
        s.reorder(&orders[oi]);
        let Some(h) = build_all3(&mut s, false) else { continue };
        let mut caches = Caches::new();
        // ZBDD: only vars = number of levels is in the documented domain
        let vars_opts: Vec<u32> = if zbdd { vec![3] } else { vec![3, 4, 62, 63, 64, 73, 127, 128, 1100] };
        for f in 0..256 {
            for &vars in &vars_opts {
                if !thorough && vars > 4 && (f + vars as usize) % 5 != 0 {
                    continue;
                }
                for ty in TYPES {
                    count_ev(&mut s, h[f], vars, ty, &mut caches, (f + vars as usize) % 4 == 0);
                    cases += 1;
                }
            }
        }
    }
    // cache histories: one cache shared across handles, gc with slot reuse,
    // reordering and changing `vars`
    for _ in 0..(if thorough { 300 } else { 40 }) {
        let n = 3 + rng.below(if thorough { 10 } else { 5 }) as u32;
        let mut s: Session<F> = Session::new(&mut out, 1 << 16, 256, 1);
        s.add_vars(n);
        let mut caches = Caches::new();
        caches.u64c.cache_all = rng.chance(1, 2);
        caches.natc.cache_all = rng.chance(1, 2);
        for round in 0..4 {
            if s.dead {
                break;
            }
            random_funcs(&mut s, &mut rng, 10);
            let live = s.live();
            for _ in 0..6 {
                let a = live[rng.below(live.len())];
                let vars = if zbdd { n } else { [n, n, n + 1, n + 70, 1100][rng.below(5)] };
                let ty = TYPES[rng.below(4)];
                count_ev(&mut s, a, vars, ty, &mut caches, false);
                cases += 1;
            }
            // drop everything, collect (node ids get recycled), maybe reorder
            for x in s.live() {
                s.drop_h(x);
            }
            s.gc();
            if round % 2 == 1 && F::REORDER_LIVE_OK {
                let p = rng.perm(n as usize);
                s.reorder(&p);
            }
            if round == 2 && F::REORDER_LIVE_OK {
                // reorder with live functions, then count again with the same cache
                random_funcs(&mut s, &mut rng, 8);
                let live = s.live();
                for &a in live.iter().take(4) {
                    count_ev(&mut s, a, n, TYPES[rng.below(4)], &mut caches, false);
                }
                let p = rng.perm(n as usize);
                s.reorder(&p);
                for &a in live.iter().take(4) {
                    for ty in TYPES {
                        count_ev(&mut s, a, n, ty, &mut caches, false);
                        cases += 1;
                    }
                }
            }
        }
    }
    out.finish();
    write_summary(&dir, &format!("count-{}", F::KIND), &out, json!({"rows":cases,"nontrivial":cases}));
}

#[allow(dead_code)]
fn _unused<F: Kind>() {}
