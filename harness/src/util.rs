//! Small utilities: PRNG, trace output, argument parsing.

use std::collections::HashMap;
use std::fs::File;
use std::io::{BufWriter, Write};
use std::path::PathBuf;

pub use serde_json::{json, Value};

/// splitmix64 / xorshift style PRNG (deterministic, seedable)
#[derive(Clone)]
pub struct Rng(pub u64);

impl Rng {
    pub fn new(seed: u64) -> Self {
        Rng(seed.wrapping_mul(0x9E3779B97F4A7C15) ^ 0xD1B54A32D192ED03)
    }
    pub fn next(&mut self) -> u64 {
        self.0 = self.0.wrapping_add(0x9E3779B97F4A7C15);
        let mut z = self.0;
        z = (z ^ (z >> 30)).wrapping_mul(0xBF58476D1CE4E5B9);
        z = (z ^ (z >> 27)).wrapping_mul(0x94D049BB133111EB);
        z ^ (z >> 31)
    }
    pub fn below(&mut self, n: usize) -> usize {
        if n == 0 {
            0
        } else {
            (self.next() % n as u64) as usize
        }
    }
    pub fn chance(&mut self, num: u64, den: u64) -> bool {
        self.next() % den < num
    }
    pub fn shuffle<T>(&mut self, v: &mut [T]) {
        for i in (1..v.len()).rev() {
            let j = self.below(i + 1);
            v.swap(i, j);
        }
    }
    pub fn perm(&mut self, n: usize) -> Vec<u32> {
        let mut p: Vec<u32> = (0..n as u32).collect();
        self.shuffle(&mut p);
        p
    }
}

/// All permutations of 0..n
pub fn permutations(n: usize) -> Vec<Vec<u32>> {
    fn rec(cur: &mut Vec<u32>, used: &mut Vec<bool>, n: usize, out: &mut Vec<Vec<u32>>) {
        if cur.len() == n {
            out.push(cur.clone());
            return;
        }
        for i in 0..n {
            if !used[i] {
                used[i] = true;
                cur.push(i as u32);
                rec(cur, used, n, out);
                cur.pop();
                used[i] = false;
            }
        }
    }
    let mut out = Vec::new();
    rec(&mut Vec::new(), &mut vec![false; n], n, &mut out);
    out
}

/// seconds since the process start of the last emitted event (watchdog)
pub static LAST_EMIT: std::sync::atomic::AtomicU64 = std::sync::atomic::AtomicU64::new(0);
static START: std::sync::OnceLock<std::time::Instant> = std::sync::OnceLock::new();
fn now_s() -> u64 {
    START.get_or_init(std::time::Instant::now).elapsed().as_secs()
}
/// A hang of the library under test is data: if no event is written for
/// `limit` seconds the process aborts itself (the orchestrator then appends
/// an `abort` event naming the call that was in progress).
pub fn start_watchdog(limit: u64) {
    LAST_EMIT.store(now_s(), std::sync::atomic::Ordering::Relaxed);
    std::thread::spawn(move || loop {
        std::thread::sleep(std::time::Duration::from_secs(2));
        let last = LAST_EMIT.load(std::sync::atomic::Ordering::Relaxed);
        if now_s() > last + limit {
            eprintln!("harness watchdog: no event for {limit} s (hang)");
            std::process::abort();
        }
    });
}

/// Trace output: NDJSON chunk files `<dir>/<prefix>-<k>.ndjson`; a chunk is
/// rotated at a history boundary once it holds `chunk_events` events.
pub struct TraceOut {
    dir: PathBuf,
    prefix: String,
    chunk: usize,
    w: Option<BufWriter<File>>,
    in_chunk: usize,
    pub chunk_events: usize,
    pub total_events: u64,
    pub histories: u64,
    pub counts: HashMap<String, u64>,
    pub files: Vec<String>,
}

impl TraceOut {
    pub fn new(dir: &str, prefix: &str, chunk_events: usize) -> Self {
        std::fs::create_dir_all(dir).unwrap();
        TraceOut {
            dir: PathBuf::from(dir),
            prefix: prefix.to_string(),
            chunk: 0,
            w: None,
            in_chunk: 0,
            chunk_events,
            total_events: 0,
            histories: 0,
            counts: HashMap::new(),
            files: Vec::new(),
        }
    }
    /// Call at the start of every history (before its `reset` event)
    pub fn begin_history(&mut self) {
        self.histories += 1;
        if self.w.is_none() || self.in_chunk >= self.chunk_events {
            if let Some(mut w) = self.w.take() {
                w.flush().unwrap();
            }
            let p = self.dir.join(format!("{}-{:04}.ndjson", self.prefix, self.chunk));
            self.chunk += 1;
            self.in_chunk = 0;
            self.files.push(p.to_string_lossy().to_string());
            self.w = Some(BufWriter::new(File::create(p).unwrap()));
        }
    }
    pub fn emit(&mut self, v: Value) {
        if self.w.is_none() {
            self.begin_history();
        }
        if let Some(ev) = v.get("ev").and_then(|e| e.as_str()) {
            let key = match v.get("op").and_then(|e| e.as_str()) {
                Some(op) => format!("{ev}:{op}"),
                None => ev.to_string(),
            };
            *self.counts.entry(key).or_insert(0) += 1;
        }
        let w = self.w.as_mut().unwrap();
        serde_json::to_writer(&mut *w, &v).unwrap();
        w.write_all(b"\n").unwrap();
        // the process may be aborted by the library under test: keep the
        // file complete up to the last event
        w.flush().unwrap();
        LAST_EMIT.store(now_s(), std::sync::atomic::Ordering::Relaxed);
        self.in_chunk += 1;
        self.total_events += 1;
    }
    pub fn finish(&mut self) {
        if let Some(mut w) = self.w.take() {
            w.flush().unwrap();
        }
    }
}

/// Summary written by every driver to `<dir>/summary.json`
pub fn write_summary(dir: &str, name: &str, out: &TraceOut, extra: Value) {
    let v = json!({
        "driver": name,
        "files": out.files,
        "events": out.total_events,
        "histories": out.histories,
        "counts": out.counts,
        "extra": extra,
    });
    let p = PathBuf::from(dir).join(format!("{name}.summary.json"));
    std::fs::write(p, serde_json::to_string_pretty(&v).unwrap()).unwrap();
}

/// `--key value` arguments
pub struct Args(pub HashMap<String, String>);
impl Args {
    pub fn parse(args: &[String]) -> Self {
        let mut m = HashMap::new();
        let mut i = 0;
        while i < args.len() {
            if let Some(k) = args[i].strip_prefix("--") {
                if i + 1 < args.len() && !args[i + 1].starts_with("--") {
                    m.insert(k.to_string(), args[i + 1].clone());
                    i += 2;
                } else {
                    m.insert(k.to_string(), "1".to_string());
                    i += 1;
                }
            } else {
                i += 1;
            }
        }
        Args(m)
    }
    pub fn get(&self, k: &str, d: &str) -> String {
        self.0.get(k).cloned().unwrap_or_else(|| d.to_string())
    }
    pub fn num(&self, k: &str, d: u64) -> u64 {
        self.0.get(k).map(|s| s.parse().unwrap()).unwrap_or(d)
    }
    pub fn has(&self, k: &str) -> bool {
        self.0.contains_key(k)
    }
}

/// run `f`, turning a panic of the code under test into data
pub fn catch<T>(f: impl FnOnce() -> T) -> Result<T, String> {
    match std::panic::catch_unwind(std::panic::AssertUnwindSafe(f)) {
        Ok(v) => Ok(v),
        Err(e) => {
            let msg = if let Some(s) = e.downcast_ref::<&str>() {
                s.to_string()
            } else if let Some(s) = e.downcast_ref::<String>() {
                s.clone()
            } else {
                "panic".to_string()
            };
            Err(msg)
        }
    }
}
