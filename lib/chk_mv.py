"""C11 (TDD) and the lifted part of C10 (MTBDD over I64), spec/TraceMV.tla."""
import os

import vlib

TRACE_MODULE = {"C11": "TraceMV", "C10": "TraceMV"}


def _run(ck, driver, acts, tier, seed):
    binary = vlib.build_harness()
    od = os.path.join(ck.outdir, driver)
    res = vlib.run_driver(binary, driver, {"seed": seed, "tier": tier}, od)
    files = ck.add_driver(res)
    ck.sample_from(files)
    results = vlib.validate("TraceMV", files, acts)
    ck.add_validation(results, driver_cmd=[" ".join(map(str, res["cmd"]))])
    return files


def c11(ck, tier, seed):
    ck.cov["rule"] = ("V: one variable: closure of f/t/u/var under not and the 8 binary connectives, every (function, function) "
                      "pair of the closure x every connective, ite over the triples (1/8 sample in quick, all in thorough), cofactors; "
                      "two variables in both orders: seeded random operation sequences; every event judged by the fixed truth tables of "
                      "TraceMV.tla (Kleene not/and/or, Lukasiewicz imp/equiv, ite as in the property) lifted pointwise over all "
                      "3^n assignments, eval against the node-by-node interpretation of the stored graph")
    _run(ck, "tdd", ["C11"], tier, seed)
    # eval with 9..40 variables (two bits per level packed into words), identity order and a rotation
    _run(ck, "tddwide", ["C11"], tier, seed + 3)
    ck.cov["rule"] += ("; three variables under all 6 orders with reorderings in between; eval of x_i <op> x_j with 9..40 "
                       "variables (eval.wide)")


def c10(ck, tier, seed):
    ck.cov["rule"] = ("V: MTBDD<I64>: all pairs of constants from {0,1,-1,2,3,-7,MIN,MAX,+inf,-inf,NaN} x {add,sub,mul,div,min,max}; "
                      "functions over 1..2 variables with boundary values: all pairs x all operators in random order on 1..64-bucket caches "
                      "(different operators on the same operands), ite, restrict by all literal cubes; random expressions over 3..4 "
                      "variables; pointwise lifting checked by TLC over all assignments, terminal arithmetic by the native rules of "
                      "TraceMV.tla (NaN/infinity algebra, comparisons, magnitudes < 2^15) and by NumArith.tla for the scalar part")
    _run(ck, "mtbdd", ["C10"], tier, seed)
    try:
        import chk_num
        chk_num.scalar_part(ck, tier, seed)
    except ImportError:
        ck.assumptions.append("scalar part (chk_num.scalar_part, NumArith.tla) not available in this run")
    ck.assumptions += ["IEEE-754 rounding of inexact F64 results is not decided (TLC has no floats)"]


REGISTER = {"C11": (c11, "model_checking"), "C10": (c10, "model_checking")}
