"""C14: resource exhaustion (fault enumeration over the node capacity)."""
import os

import vlib

KINDS = ["bdd", "bcdd", "zbdd"]


def c14(ck, tier, seed):
    ck.cov["rule"] = ("fault enumeration: for each scripted operation (var, not, and/xor/imp, ite, exists/unique, apply_forall/apply_exists, "
                      "substitute, restrict, pick_cube_dd, pick_cube_dd_set; ZBDD subset1/change/union/diff) the number of nodes after "
                      "the set-up (P0) and after the operation (P1) is measured, then the history runs with every capacity c in P0..P1+1 "
                      "(1 and 3 worker threads, split depth 2), so each allocation of the operation is the failing one in some run; "
                      "obligations: the failure is the out-of-memory error (no panic/abort/hang), snapshot after the failure: all "
                      "handles keep edge and denotation, structure and reference counts exact; after dropping ballast + gc the retry "
                      "succeeds with the canonical correct result; distinct_nontrivial = runs in which the operation failed")
    binary = vlib.build_harness()
    files, cmds = [], []
    for i, k in enumerate(KINDS):
        od = os.path.join(ck.outdir, "oom-" + k)
        res = vlib.run_driver(binary, "oom", {"kind": k, "seed": seed + i, "tier": tier}, od, timeout=1200)
        files += ck.add_driver(res)
        cmds.append(" ".join(map(str, res["cmd"])))
    # capacity probe: the full capacity is available again after drop-all + gc (fill to the first failure = fresh fill)
    for i, k in enumerate(KINDS):
        od = os.path.join(ck.outdir, "capprobe-" + k)
        res = vlib.run_driver(binary, "capprobe", {"kind": k, "seed": seed * 29 + i, "tier": tier}, od, timeout=900)
        files += ck.add_driver(res)
        cmds.append(" ".join(map(str, res["cmd"])))
    # calls without an error return (set_var_order, add_vars) under memory pressure, one process each
    for k in KINDS:
        for scen in (["reorder", "add_vars"] if k != "zbdd" else ["add_vars"]):
            for slack in ([0, 1] if tier == "quick" else [0, 1, 2, 4]):
                od = os.path.join(ck.outdir, "oomabort-%s-%s-%d" % (k, scen, slack))
                res = vlib.run_driver(binary, "oomabort", {"kind": k, "scen": scen, "slack": slack, "seed": seed}, od, timeout=300)
                files += ck.add_driver(res)
                cmds.append(" ".join(map(str, res["cmd"])))
    ck.sample_from(files)
    results = vlib.validate("TraceManager", files, ["C14"])
    ck.add_validation(results, driver_cmd=cmds)
    # dynamic terminal manager (MTBDD): the terminal capacity is the binding limit (TraceMV)
    od = os.path.join(ck.outdir, "mtoom")
    res = vlib.run_driver(binary, "mtoom", {"seed": seed + 9, "tier": tier}, od, timeout=600)
    mfiles = ck.add_driver(res)
    ck.add_validation(vlib.validate("TraceMV", mfiles, ["C14"]), driver_cmd=[" ".join(map(str, res["cmd"]))])
    ck.cov["rule"] += ("; MTBDD<I64> with terminal capacities 4..12: operations needing new terminals fail with the out-of-memory "
                       "error, every handle keeps graph and values, after dropping the ballast and ONE collection (exact for inner "
                       "nodes and terminals) the retry succeeds")
    import checks
    checks.store_mc(ck, tier)
    checks.slotalloc_mc(ck, tier)
    ck.assumptions += ["index backend only (capacity is exact there)", "reordering / add_vars under memory pressure abort the "
                       "process by design of their API (no error return): exercised separately when registered as findings"]


REGISTER = {"C14": (c14, "fault_enumeration")}
