"""C17: the open-addressing table behind the unique tables behaves as a set
(spec/HashTbl.tla, spec/HashTblImpl.tla, spec/TraceHashTbl.tla; harness/src/drv_hashtbl.rs).

1. TLC model-checks the implementation-shaped model HashTblImpl (a transcription of
   linear-hashtbl/src/raw.rs) under adversarial hash functions: refinement of HashTbl,
   ProbeTerminates, free-slot accounting, ... over the COMPLETE reachable state graph of a small
   key universe (all call sequences of any length), or up to a bound on the number of calls.
   A violated invariant is reported and attributed to the last call of its counterexample; the
   model check is then repeated with that invariant switched off and, if this is violated again,
   without the call, so that violations behind the first one are found, too (and the export of
   step 2 is complete).
2. T: the same TLC runs print, for every reachable table layout, the calls that reach it, and a
   sample of all transitions; a selection that covers every situation tag (tombstone reuse,
   wrap-around, rehash, grow, shrink, ...) is replayed on the real RawTable with the model's hash
   values, every call and an audit of the contents after every mutating call is logged.
   Counterexamples of step 1 are replayed as well.
3. V: long seeded random call sequences on the real table.
   All traces are validated by TLC against HashTbl (TraceHashTbl), event by event.
"""
import json
import os
import random
import re

import vlib

TRACE_MODULE = {"C17": "TraceHashTbl"}

ACTIONS = {"DoNew": "new", "DoInsert": "insert", "DoFind": "find", "DoGet": "get", "DoRemove": "remove",
           "DoRetain": "retain", "DoDrain": "drain", "DoIntoIter": "into_iter", "DoIter": "iter",
           "DoLen": "len", "DoClear": "clear", "DoClearNd": "clear_nd", "DoReset": "reset_nd", "DoReserve": "reserve", "DoClone": "clone"}

# (cfg suffix, tables, {tier: env}, situation tags (substring, or regex if it starts with ^) that the
#  replayed behaviours must contain)
CONFIGS = [
    # every key has the same hash: one long collision chain, tombstones inside the chain
    ("collide", 1, {"quick": {"HT_KEYS": 4, "HT_MAXOPS": 0}, "thorough": {"HT_KEYS": 5, "HT_MAXOPS": 0}},
     ["reuse", "+tomb", "totomb", "tofree", "+grow", "+rehash", "+t2f", "+tk", "+rf", "+rt", "+shrink0", "found"]),
    # home slots 14, 15, 15, 14, 0, ...: clusters wrap around the last slot
    # (5 keys: the smallest universe in which retain can leave tombstones behind without rehashing)
    ("wrap", 1, {"quick": {"HT_KEYS": 6, "HT_MAXOPS": 0}, "thorough": {"HT_KEYS": 7, "HT_MAXOPS": 0}},
     ["+wrap", "+lastslot", "reuse", "+tomb", "totomb", "+t2f", "+tk", "+rf", "+rt", r"^keepall\+tk$",
      "+last0tomb", "+last0occ", "+last0free", "+last0tomb+wrapkept", "+last0occ+wrapkept",
      # ... and the table is not rehashed afterwards (only then the slots written by retain stay)
      r"^drop(\+\w+)*\+last0tomb\+wrapkept$", r"^drop(\+\w+)*\+last0occ\+wrapkept$"]),
    # MIN_CAP scaled to 4: growth 4 -> 8 -> 16 and shrinking with few keys
    ("small", 1, {"quick": {"HT_KEYS": 5, "HT_MAXOPS": 0}, "thorough": {"HT_KEYS": 7, "HT_MAXOPS": 0}},
     ["+grow", "+shrink", "+shrink0", "+rehash", "reuse", "+wrap"]),
    # two tables: clone, then the tables diverge
    ("clone", 2, {"quick": {"HT_KEYS": 3, "HT_MAXOPS": 4}, "thorough": {"HT_KEYS": 3, "HT_MAXOPS": 7}},
     ["clone", "totomb"]),
    # equal below the mask of 16 slots, different above it
    ("above", 1, {"thorough": {"HT_KEYS": 5, "HT_MAXOPS": 0}}, ["reuse", "+tomb", "+grow"]),
    # spread home slots, some adjacent
    ("spread", 1, {"thorough": {"HT_KEYS": 7, "HT_MAXOPS": 0}}, ["totomb", "tofree", "+grow"]),
    ("smallcollide", 1, {"thorough": {"HT_KEYS": 5, "HT_MAXOPS": 0}}, ["+grow", "+shrink", "reuse", "+wrap"]),
]

# environment for every TLC run of the model, e.g. {"HT_VARIANT_drain_all": "1"} when raw.rs was changed
# so that dropping a Drain marks all remaining slots FREE (the model is a transcription: keep it in step)
MODEL_VARIANT = {k: v for k, v in os.environ.items() if k.startswith("HT_VARIANT_")}

RE_LAST_ACTION = re.compile(r"^State \d+: <(\w+)[ (]")


def _mc_once(cfg, env, workers, timeout):
    res = vlib.model_check("HashTblImpl", cfg, workers=workers, env=env, keep_output=True, timeout=timeout)
    out = res.pop("out", "")
    paths, bad, hashes = [], [], None
    last_action = None
    for line in out.splitlines():
        if line.startswith('"PATH '):
            paths.append(json.loads(line)[5:])       # kept as JSON text (there may be 10^6 of them)
        elif line.startswith('"BAD '):
            s = json.loads(line)[4:]
            name, js = s.split(" ", 1)
            bad.append((name, json.loads(js)))
        elif line.startswith('"HASH '):
            hashes = json.loads(json.loads(line)[5:])
        else:
            m = RE_LAST_ACTION.match(line)
            if m:
                last_action = m.group(1)
    return res, paths, bad, hashes, last_action


def _model_check(ck, name, env, workers, timeout):
    """model-check one configuration.  On a violation: report it, then go on looking for
    violations behind it: first with the violated invariant switched off (so that the call
    stays in the exported behaviours), and if that run is violated too, without the call the
    first violation is attributed to (all invariants on).
    Returns (paths, counterexamples, hash values, disabled calls, skipped invariants)"""
    cfg = "MC_HashTbl_" + name
    disabled, skipped, cex, hashes, paths = [], [], [], None, []
    first_op, reported = None, set()
    for attempt in range(4):
        e = {k: str(v) for k, v in env.items()}
        e.update(MODEL_VARIANT)
        e["HT_EXPORT"] = "1"
        for op in disabled:
            e["HT_DISABLE_" + op] = "1"
        for inv in skipped:
            e["HT_SKIP_" + inv] = "1"
        res, paths, bad, hashes, last_action = _mc_once(cfg, e, workers, timeout)
        if res["ok"]:
            must = [a for a, op in ACTIONS.items() if op not in disabled and (a != "DoClone" or name == "clone")]
            ck.add_mc(res, must_cover=must)
            return paths, cex, hashes, disabled, skipped
        if not res["violated"] or not bad:
            ck.add_mc(res)          # tool error, or a violation that is not one of the named invariants
            return None
        # the invariant TLC reports; its violating state's calls (several workers may print BAD lines)
        m = re.search(r"Invariant (\w+) is violated", res["violated"])
        inv = m.group(1) if m else ("Refines" if "Action property" in res["violated"] else bad[-1][0])
        calls = next((c for (n, c) in reversed(bad) if n == inv), bad[-1][1])
        op = calls[-1][0] if calls else None
        last_action = next((a for a, o in ACTIONS.items() if o == op), last_action)
        what = "Invariant %s is violated by %s" % (inv, last_action)
        res["violated"] = what
        res["out_tail"] = json.dumps({"disabled_calls": disabled, "skipped_invariants": skipped, "hash": hashes,
                                      "counterexample": calls})
        if what in reported:
            break
        reported.add(what)
        ck.add_mc(res)
        ck.cov.setdefault("model_violations", []).append({"cfg": cfg, "what": what, "hash": hashes, "calls": calls})
        cex.append(calls)
        if attempt == 0:
            first_op = op
            skipped = [inv]
            vlib.log("%s: %s; repeating with this invariant switched off" % (cfg, what))
        elif first_op and first_op not in disabled and first_op != "insert":
            disabled, skipped = disabled + [first_op], []
            vlib.log("%s: %s; repeating without the call `%s`" % (cfg, what, first_op))
        elif op and op not in disabled and op != "insert":
            disabled = disabled + [op]
            vlib.log("%s: %s; repeating without the call `%s`" % (cfg, what, op))
        else:
            break
    ck.tool_errors.append("%s: could not complete the model check behind its violations" % cfg)
    return None


def _select(paths, budget, rng, min_per_sit=12, reservoir=40000):
    """choose behaviours to replay from the printed paths (JSON texts): every situation tag at least
    `min_per_sit` times (the shortest paths ending in it), then, from a uniform sample of the
    paths, those that are not a prefix of another sampled path, within `budget` calls"""
    by_sit, sample, seen = {}, [], set()
    n = 0
    for txt in paths:
        if txt in seen:
            continue
        seen.add(txt)
        n += 1
        p = json.loads(txt)
        if not p:
            continue
        best = by_sit.setdefault(p[-1][7], [])
        if len(best) < min_per_sit or len(p) < best[-1][0]:
            best.append((len(p), txt))
            best.sort()
            del best[min_per_sit:]
        if len(sample) < reservoir:
            sample.append(txt)
        else:
            j = rng.randrange(n)
            if j < reservoir:
                sample[j] = txt
    del seen
    chosen, used = {}, 0
    for sit in sorted(by_sit):
        for (ln, txt) in by_sit[sit]:
            if txt not in chosen:
                chosen[txt] = json.loads(txt)
                used += ln
    parsed = [json.loads(t) for t in sample]
    prefixes = set()
    for p in parsed:
        for i in range(len(p)):
            prefixes.add(json.dumps(p[:i]))
    leaves = [p for p in parsed if json.dumps(p) not in prefixes]
    rng.shuffle(leaves)
    for p in leaves:
        if used + len(p) > budget:
            continue
        k = json.dumps(p)
        if k not in chosen:
            chosen[k] = p
            used += len(p)
    return list(chosen.values()), n, len(leaves)


def _sit_counts(behaviours):
    c = {}
    for p in behaviours:
        for o in p:
            c[o[7]] = c.get(o[7], 0) + 1
    return c


def c17(ck, tier, seed):
    quick = tier == "quick"
    rng = random.Random(seed)
    ck.cov["rule"] = (
        "MC: HashTblImpl (transcription of raw.rs; MIN_CAP 16, ratio 3/4; hash function per config: all keys collide / "
        "home slots wrapping around the last slot / equal below the mask / spread / MIN_CAP scaled to 4 for growth and "
        "shrinking) refines HashTbl with ProbeTerminates, FreeSound, LoadBound, LenExact, KeysUnique, Reachable, StructOK over "
        "the complete reachable state graph of 4-5 (quick) / 5-7 (thorough) keys (HT_MAXOPS=0: call sequences of any length) "
        "resp. all sequences of <= 4 / <= 7 calls on two tables with clone; "
        "T: for every reachable layout the calls reaching it plus a 1/K sample of all transitions are printed by TLC; "
        "replayed on the real RawTable<(u32,u32),S> (S=u32 and usize) with the model's hash values: every situation tag "
        ">= 12 times, then prefix-tree leaves within the budget; audit (get of every key, iter, len) after every mutating call; "
        "V: seeded random sequences (<= 20 keys, 9 hash families incl. hashes equal as u32 status and differing only in the "
        "dropped top bit) with fill/churn/purge phases and bulk calls; every call under a watchdog (hang = data); "
        "non-trivial = behaviours containing tombstone reuse / probing across tombstones / wrap-around / rehash / grow / shrink")
    workers = 8
    # VERIF_C17_HARNESS: a scratch copy of the harness whose Cargo.toml points to a modified copy of
    # linear-hashtbl (mutation experiments; /repo and /verif/harness stay untouched)
    binary = vlib.build_harness(package_dir=os.environ.get("VERIF_C17_HARNESS") or vlib.HARNESS)
    files, cmds = [], []
    budget = 12000 if quick else 80000
    all_sits = {}
    for (name, ntab, tiers, must_sits) in CONFIGS:
        if tier not in tiers:
            continue
        env = dict(tiers[tier])
        # sample 1/K of all transitions (in addition to one path per reachable layout)
        env["HT_TRANS"] = 6 if quick else 25
        r = _model_check(ck, name, env, workers, 1500 if quick else 3000)
        if r is None:
            continue
        paths, cex, hashes, disabled, skipped = r
        if hashes is None:
            ck.tool_errors.append("MC_HashTbl_%s: hash values not printed" % name)
            continue
        chosen, n_paths, n_leaves = _select(paths, budget, rng)
        sits = _sit_counts(chosen)
        for s, n in sits.items():
            all_sits[name + ":" + s] = n
        for tag in must_sits:
            if not any(re.search(tag if tag[0] == "^" else re.escape(tag), s) for s in sits):
                ck.tool_errors.append("vacuity: no replayed behaviour of MC_HashTbl_%s contains situation %s" % (name, tag))
        bpath = os.path.join(ck.outdir, "behaviours-%s.ndjson" % name)
        with open(bpath, "w") as f:
            for p in cex:       # counterexamples of the model check first
                f.write(json.dumps({"cfg": "model-" + name + "-counterexample", "hash": hashes, "tabs": ntab, "ops": p}) + "\n")
            for p in chosen:
                f.write(json.dumps({"cfg": "model-" + name, "hash": hashes, "tabs": ntab, "ops": p}) + "\n")
        ck.cov.setdefault("replay", []).append({"cfg": name, "paths_printed": n_paths, "sampled_maximal_paths": n_leaves,
                                                "behaviours_replayed": len(chosen) + len(cex),
                                                "calls": sum(len(p) for p in chosen), "calls_disabled_in_model": disabled, "invariants_switched_off": skipped})
        if len(ck.cov["samples"]) < 2 and chosen:
            ck.sample({"cfg": name, "hash": hashes, "ops": max(chosen, key=len)[:12]})
        for status in (["u32"] if quick and name != "collide" else ["u32", "usize"]):
            od = os.path.join(ck.outdir, "replay-%s-%s" % (name, status))
            res = vlib.run_driver(binary, "hashtbl-replay", {"behaviours": bpath, "status": status, "seed": seed, "tier": tier, "chunk": 20000}, od)
            files += ck.add_driver(res)
            cmds.append(" ".join(map(str, res["cmd"])))
            for s in res["summaries"]:
                for k in ("hangs", "panics", "grow_observed", "shrink_observed"):
                    ck.cov[k] = ck.cov.get(k, 0) + int(s.get("extra", {}).get(k, 0))
    ck.cov["situations_replayed"] = all_sits
    # V: random sequences
    nrand = 4 if quick else 12
    for i in range(nrand):
        od = os.path.join(ck.outdir, "random-%d" % i)
        res = vlib.run_driver(binary, "hashtbl-random", {"seed": seed * 101 + i, "tier": tier,
                                                          "ops": 25000 if quick else 100000, "chunk": 20000}, od)
        files += ck.add_driver(res)
        cmds.append(" ".join(map(str, res["cmd"])))
        for s in res["summaries"]:
            for k in ("hangs", "panics", "grow_observed", "shrink_observed"):
                ck.cov[k] = ck.cov.get(k, 0) + int(s.get("extra", {}).get(k, 0))
    ck.sample_from(files[-2:])
    results = vlib.validate("TraceHashTbl", files, ["C17"])
    for r in results:
        r["module"] = "TraceHashTbl"
    ck.add_validation(results, driver_cmd=cmds)
    ck.cov["exhaustive"] = not ck.cov.get("model_violations")
    ck.assumptions += [
        "the model is a hand transcription of raw.rs; it is bound to the code by replaying its behaviours (T) and by the "
        "random traces (V), both judged by HashTbl.tla only",
        "growth over three capacities is model-checked with MIN_CAP scaled to 4 (configs small*); with the real MIN_CAP = 16 "
        "growth to 32 slots is reached in the model by reserve(20) and on the real table by the random sequences (<= 20 keys)",
        "slot layout, capacity and iteration order are never compared; `slots` in the traces only feeds grow/shrink counters",
        "a call that does not return within 5 s is taken to hang",
    ]


REGISTER = {"C17": (c17, "model_checking")}
