"""C06: apply cache transparency; C20: build configurations (TraceConfig.tla)."""
import os

import vlib

KINDS = ["bdd", "bcdd", "zbdd"]


def _record_and_replay(ck, prop, tier, seed, base_args, variants, features_list=("idx,cache,mt",), kinds=KINDS, sub=""):
    """record histories once, re-execute the same calls under every variant
    (driver arguments) x feature set, validate every execution on its own and
    the product trace by TraceConfig"""
    base_bin = vlib.build_harness("idx,cache,mt")
    for i, k in enumerate(kinds):
        od = os.path.join(ck.outdir, "rec-" + sub + k)
        args = dict(base_args)
        args.update({"kind": k, "seed": seed * 19 + i, "tier": tier})
        res = vlib.run_driver(base_bin, "hist", args, od)
        rec_files = ck.add_driver(res)
        configs = [rec_files]
        labels = ["recorded"]
        all_files = list(rec_files)
        cmds = [" ".join(map(str, res["cmd"]))]
        for feats in features_list:
            binary = vlib.build_harness(feats)
            for j, var in enumerate(variants):
                od2 = os.path.join(ck.outdir, "rep-%s%s-%s-%d" % (sub, k, feats.replace(",", "_") or "none", j))
                a = {"kind": k, "in": ",".join(rec_files), "chunk": 1000000}
                a.update(var)
                r2 = vlib.run_driver(binary, "replay", a, od2)
                f2 = ck.add_driver(r2)
                configs.append(f2)
                labels.append("%s %s" % (feats, var))
                all_files += f2
                cmds.append(" ".join(map(str, r2["cmd"])))
        ck.sample_from(rec_files, 1)
        results = vlib.validate("TraceManager", all_files, [prop])
        ck.add_validation(results, driver_cmd=cmds)
        prod = os.path.join(ck.outdir, "product-%s%s.ndjson" % (sub, k))
        n = vlib.product_trace(configs, prop, prod, labels)
        ck.cov["evaluations"] += n
        pres = vlib.validate("TraceConfig", [prod], [prop])
        for r in pres:
            r["module"] = "TraceConfig"
        ck.add_validation(pres, driver_cmd=cmds)
        ck.cov.setdefault("configurations", labels)


def c06(ck, tier, seed):
    ck.cov["rule"] = ("V: seeded random histories (all operators incl. quantification, apply_Q, restrict, substitution with reused "
                      "objects, ZBDD family operations; gc, reordering, add_vars in between) recorded with a 4096-entry cache and "
                      "re-executed call by call with capacities 1, 2 and 16 and with 1 and 4 threads; every execution is validated "
                      "against TraceManager (obligation cache:<op>: the result denotes the operator applied to the operands' "
                      "denotations), and the product trace against TraceConfig (same truth table, node count and order for every "
                      "call under every capacity)")
    variants = [{"cache": 1}, {"cache": 2, "threads": 4}, {"cache": 16}]
    base = {"count": 25 if tier == "quick" else 300, "nmax": 5, "steps": 60}
    _record_and_replay(ck, "C06", tier, seed, base, variants)
    # stress histories: few operands, every operator again and again with varying numeric arguments
    base = {"count": 25 if tier == "quick" else 300, "nmax": 5, "steps": 120, "stress": 1}
    _record_and_replay(ck, "C06", tier, seed + 1000, base, variants, sub="stress")
    # MTBDD and TDD: different operators on the same operands (min then max, sub with 0 on either side, ...) on
    # 1/2/64-bucket caches, gc in between (TraceMV, obligation cache:<op>)
    import chk_mv
    for drv in ["mtbdd", "tdd"]:
        chk_mv._run(ck, drv, ["C06"], tier, seed + 11)
    import checks
    # table replay: every operator on every operand (pair) and every cube / variable set of the 3-variable universe
    # inside one manager per order, the first with a 4096-entry cache that keeps the entries of all earlier calls
    vlib.ensure_tables()
    checks._bool_suite(ck, ["C06"], checks._tables_plan(tier, seed + 3, "bool,restrict,quant,zbdd"), tag="tab-")
    checks.store_mc(ck, tier)
    ck.assumptions += ["cache insertion/hit events are not instrumented (no hook): only observable results are judged"]


REGISTER = {"C06": (c06, "model_checking")}
TRACE_MODULE = {}


ALL_FEATURES = ["idx,cache,mt", "idx,cache", "idx,mt", "idx", "ptr,cache,mt", "ptr,cache", "ptr,mt", "ptr"]


def c20(ck, tier, seed):
    ck.cov["rule"] = ("V: seeded random histories (all operators, gc, reordering for BDD/BCDD, add_vars) recorded with the default build and "
                      "re-executed call by call in all 8 builds {manager-index, manager-pointer} x {apply cache on, off} x "
                      "{multi-threading on, off} with 2 threads (quick) / 1, 2, 8 threads (thorough); every execution is validated on "
                      "its own by TraceManager (semantics, canonicity, structural and reference-count invariants on snapshots), the "
                      "product trace by TraceConfig (same truth table, node count, order per call in every configuration)")
    base = {"count": 25 if tier == "quick" else 250, "nmax": 5, "steps": 50}
    variants = [{"threads": 2}] if tier == "quick" else [{"threads": 1}, {"threads": 2}, {"threads": 8, "split": 4}]
    _record_and_replay(ck, "C20", tier, seed, base, variants, features_list=ALL_FEATURES)
    # stress histories (few operands, every operator again and again, add_vars / gc / reorder in between)
    base = {"count": 15 if tier == "quick" else 150, "nmax": 5, "steps": 120, "stress": 1}
    _record_and_replay(ck, "C20", tier, seed + 500, base, variants, features_list=ALL_FEATURES, sub="stress")
    # TDD (ternary nodes) exists on both backends: the TDD histories (all operators, cofactors, 3 variables under all
    # orders with reorderings in between) executed by the pointer-based builds, validated by TraceMV
    for feats in (["ptr,cache,mt"] if tier == "quick" else ["ptr,cache,mt", "ptr,cache", "ptr,mt", "ptr"]):
        binary = vlib.build_harness(feats)
        od = os.path.join(ck.outdir, "tdd-" + feats.replace(",", "_"))
        res = vlib.run_driver(binary, "tdd", {"seed": seed + 31, "tier": tier}, od, timeout=1800)
        tfiles = ck.add_driver(res)
        ck.add_validation(vlib.validate("TraceMV", tfiles, ["C20"]), driver_cmd=[" ".join(map(str, res["cmd"]))])
    # model counting (shared SatCountCache across gc / reordering / changing vars) and cube picking under the
    # pointer-based builds: the drivers of C12 / C13, their obligations handed over to C20
    for feats in (["ptr,cache,mt"] if tier == "quick" else ["ptr,cache,mt", "ptr"]):
        binary = vlib.build_harness(feats)
        for drv, alias in [("count", "C12"), ("pick", "C13")]:
            pfiles, cmds = [], []
            for i, k in enumerate(["bdd", "bcdd", "zbdd"]):
                od = os.path.join(ck.outdir, "%s-%s-%s" % (drv, feats.replace(",", "_"), k))
                res = vlib.run_driver(binary, drv, {"kind": k, "seed": seed * 11 + i, "tier": "quick"}, od)
                pfiles += ck.add_driver(res)
                cmds.append(" ".join(map(str, res["cmd"])))
            ck.add_validation(vlib.validate("TraceManager", pfiles, ["C20"], extra_env={"ALIAS_" + alias: "C20"}),
                              driver_cmd=cmds)
    ck.cov["rule"] += ("; TDD histories, the model counting histories (C12 driver) and the cube picking histories (C13 driver) "
                       "executed by the pointer-based builds (obligations handed over to C20)")
    ck.assumptions += ["features hugealloc / statistics / parking_lot are not varied", "MTBDD exists on the index backend only"]


REGISTER["C20"] = (c20, "model_checking")
