"""Orchestrator library: build the harness from /repo's working tree, run
drivers, run TLC (model checking, table generation, trace validation, many
JVMs in parallel), attribute failed obligations to properties, match them
against known_findings.json, write evidence and replay files.

Exit codes of a check: 0 held / 1 VIOLATION (with replay file) / 2 tool error.
"""
import concurrent.futures as cf
import hashlib
import json
import os
import re
import shutil
import subprocess
import sys
import time

ROOT = os.path.dirname(os.path.dirname(os.path.abspath(__file__)))
SPEC = os.path.join(ROOT, "spec")
HARNESS = os.path.join(ROOT, "harness")
OUT = os.path.join(ROOT, "out")
REPO = "/repo"
JAR = "/opt/veriftools/tla/tla2tools.jar"
CM = "/opt/veriftools/tla/CommunityModules-deps.jar"
JOBS = int(os.environ.get("VERIF_JOBS", "12"))


class ToolError(Exception):
    pass


def log(*a):
    print("[verif]", *a, file=sys.stderr, flush=True)


def sh(cmd, cwd=None, env=None, timeout=None, check=True):
    e = dict(os.environ)
    if env:
        e.update(env)
    p = subprocess.run(cmd, cwd=cwd, env=e, timeout=timeout, stdout=subprocess.PIPE,
                       stderr=subprocess.STDOUT, text=True, errors="replace")
    if check and p.returncode != 0:
        raise ToolError("command failed (%d): %s\n%s" % (p.returncode, " ".join(map(str, cmd)), p.stdout[-4000:]))
    return p


# --------------------------------------------------------------------------
# building

def build_harness(features="idx,cache,mt", package_dir=HARNESS, bin_name="oxv"):
    """cargo build (offline, incremental) against /repo's current working tree"""
    lock_src = os.path.join(REPO, "Cargo.lock")
    lock_dst = os.path.join(package_dir, "Cargo.lock")
    if not os.path.exists(lock_dst):
        shutil.copyfile(lock_src, lock_dst)
    key = features.replace(",", "_") or "none"
    tdir = os.path.join(package_dir, "target", key)
    profile = os.environ.get("VERIF_PROFILE", "dev")   # "nodebug": debug assertions off (experiments)
    if profile != "dev":
        tdir += "-" + profile
    cmd = ["cargo", "build", "--offline", "--no-default-features", "--features", features,
           "--target-dir", tdir, "--profile", profile]
    t0 = time.time()
    p = sh(cmd, cwd=package_dir, env={"CARGO_NET_OFFLINE": "true"}, timeout=3000, check=False)
    if p.returncode != 0:
        # a stale lock file is the usual reason; refresh it once
        shutil.copyfile(lock_src, lock_dst)
        p = sh(cmd, cwd=package_dir, env={"CARGO_NET_OFFLINE": "true"}, timeout=3000, check=False)
    if p.returncode != 0:
        raise ToolError("harness build failed:\n" + p.stdout[-6000:])
    log("built harness [%s] in %.1fs" % (features, time.time() - t0))
    return os.path.join(tdir, "debug" if profile == "dev" else profile, bin_name)


# --------------------------------------------------------------------------
# TLC

def java_cmd(xmx="2g", deque=False):
    cmd = ["java", "-Xss1g", "-Xmx" + xmx, "-XX:+UseParallelGC"]
    if deque:
        cmd.append("-Dtlc2.tool.queue.IStateQueue=StateDeque")
    cmd += ["-cp", JAR + ":" + CM, "tlc2.TLC"]
    return cmd


_meta_counter = [0]


def _metadir():
    _meta_counter[0] += 1
    d = os.path.join(OUT, "tlcmeta", "%d-%d" % (os.getpid(), _meta_counter[0]))
    os.makedirs(d, exist_ok=True)
    return d


def tlc(module, cfg=None, env=None, workers=1, xmx="2g", timeout=1800, deque=False, extra=()):
    """run TLC on spec/<module>.tla; returns (returncode, output)"""
    md = _metadir()
    cmd = java_cmd(xmx, deque) + ["-workers", str(workers), "-noGenerateSpecTE", "-metadir", md,
                                  "-cleanup", "-config", (cfg or module) + ".cfg"] + list(extra) + [module + ".tla"]
    try:
        p = sh(cmd, cwd=SPEC, env=env, timeout=timeout, check=False)
        return p.returncode, p.stdout
    except subprocess.TimeoutExpired:
        return -9, "TIMEOUT"
    finally:
        shutil.rmtree(md, ignore_errors=True)


def spec_hash(*modules):
    h = hashlib.sha256()
    for m in modules:
        with open(os.path.join(SPEC, m + ".tla"), "rb") as f:
            h.update(f.read())
    return h.hexdigest()[:16]


ALL_TABLES = ["and", "or", "xor", "equiv", "nand", "nor", "imp", "imp_strict", "misc", "ite",
              "exists", "forall", "unique", "restrict", "union", "intsec", "diff", "zvar"]


def ensure_tables(names=ALL_TABLES, ite_n=24):
    """T binding: let TLC evaluate the operator tables (cached by spec hash)"""
    tdir = os.path.join(OUT, "tables")
    os.makedirs(tdir, exist_ok=True)
    stamp = os.path.join(tdir, "STAMP")
    want = spec_hash("DDSem", "Tables") + ":%d" % ite_n
    have = open(stamp).read().strip() if os.path.exists(stamp) else ""
    todo = [n for n in names if have != want or not os.path.exists(os.path.join(tdir, n + ".json"))]
    if not todo:
        return tdir, 0
    t0 = time.time()

    def one(name):
        env = {"TABLE": name, "OUT": os.path.join(tdir, name + ".json"), "ITE_N": str(ite_n)}
        rc, out = tlc("Tables", env=env, xmx="3g", timeout=1200)
        if rc != 0 or "TABLE_DONE" not in out:
            raise ToolError("table generation failed for %s:\n%s" % (name, out[-3000:]))
        return name

    with cf.ThreadPoolExecutor(max_workers=JOBS) as ex:
        list(ex.map(one, todo))
    with open(stamp, "w") as f:
        f.write(want)
    log("generated %d oracle tables with TLC in %.1fs" % (len(todo), time.time() - t0))
    return tdir, len(todo)


RE_FAIL = re.compile(r'^<<"OBL_FAIL", (\d+), <<(.*)>>>>\s*$')
RE_PAIR = re.compile(r'<<"([^"]*)", "([^"]*)">>')
RE_DONE = re.compile(r'^<<"TRACE_DONE", (-?\d+), (\d+)>>')
RE_STATES = re.compile(r'^(\d+) states generated, (\d+) distinct states found')


def _join_printed(out):
    """TLC pretty-prints long values over several lines: join the lines of a
    printed tuple until its brackets balance and normalise the spacing"""
    lines = out.splitlines()
    i = 0
    while i < len(lines):
        ln = lines[i]
        if ln.lstrip().startswith("<<") and ln.count("<<") != ln.count(">>"):
            buf = ln
            while buf.count("<<") != buf.count(">>") and i + 1 < len(lines):
                i += 1
                buf += " " + lines[i].strip()
            buf = re.sub(r"\s+", " ", buf)
            buf = buf.replace("<< ", "<<").replace(" >>", ">>")
            yield buf
        else:
            yield ln
        i += 1


def validate_one(module, path, acts, cfg=None, xmx="2g", timeout=1800, extra_env=None):
    """V/S binding: validate one NDJSON trace chunk against spec/<module>.tla"""
    env = {"TRACE": path}
    for a in acts:
        env["ACT_" + a] = "1"
    if extra_env:
        env.update(extra_env)
    t0 = time.time()
    rc, out = tlc(module, cfg=cfg, env=env, xmx=xmx, timeout=timeout, deque=True)
    res = {"file": path, "module": module, "fails": [], "done": None, "total": None, "states": 0, "distinct": 0,
           "rc": rc, "wall": time.time() - t0, "tool_error": None}
    for line in _join_printed(out):
        m = RE_FAIL.match(line)
        if m:
            res["fails"].append((int(m.group(1)), RE_PAIR.findall(m.group(2))))
            continue
        m = RE_DONE.match(line)
        if m:
            res["done"], res["total"] = int(m.group(1)), int(m.group(2))
            continue
        m = RE_STATES.match(line)
        if m:
            res["states"], res["distinct"] = int(m.group(1)), int(m.group(2))
    if res["done"] is None:
        res["tool_error"] = "TLC did not finish (rc=%s): %s" % (rc, out[-2500:])
    return res


def validate(module, files, acts, cfg=None, jobs=JOBS, xmx="2g", timeout=1800, extra_env=None):
    with cf.ThreadPoolExecutor(max_workers=jobs) as ex:
        futs = [ex.submit(validate_one, module, f, acts, cfg, xmx, timeout, extra_env) for f in files]
        return [f.result() for f in futs]


RE_COV = re.compile(r'^<(\w+) line \d+, col \d+ to line \d+, col \d+ of module (\w+)(?: \([^)]*\))?>: (\d+):(\d+)')


def model_check(module, cfg, workers=8, xmx="6g", timeout=3600, env=None, coverage=True, extra=(), keep_output=False):
    """design-level exhaustive check of a bounded configuration"""
    ex = list(extra)
    if coverage:
        ex += ["-coverage", "1"]
    t0 = time.time()
    rc, out = tlc(module, cfg=cfg, env=env, workers=workers, xmx=xmx, timeout=timeout, extra=ex)
    res = {"module": module, "cfg": cfg, "rc": rc, "states": 0, "distinct": 0, "ok": False,
           "actions": {}, "wall": time.time() - t0, "out_tail": out[-3000:], "violated": None}
    for line in out.splitlines():
        m = RE_STATES.match(line)
        if m:
            res["states"], res["distinct"] = int(m.group(1)), int(m.group(2))
        m = RE_COV.match(line)
        if m:
            res["actions"][m.group(1)] = res["actions"].get(m.group(1), 0) + int(m.group(4))
        if line.startswith("Error: Invariant") or line.startswith("Error: Action property") or \
                line.startswith("Error: Temporal properties were violated") or "is violated" in line and line.startswith("Error:"):
            res["violated"] = line.strip()
    res["ok"] = rc == 0 and "No error has been found" in out
    if keep_output:
        res["out"] = out
    if not res["ok"] and res["violated"] is None and rc != 0:
        if "Deadlock reached" in out:
            res["violated"] = "Deadlock reached"
    return res


# --------------------------------------------------------------------------
# drivers

def run_driver(binary, driver, args, outdir, timeout=1200):
    os.makedirs(outdir, exist_ok=True)
    cmd = [binary, driver, "--out", outdir]
    for k, v in args.items():
        cmd += ["--" + k, str(v)]
    t0 = time.time()
    try:
        p = sh(cmd, timeout=timeout, check=False)
    except subprocess.TimeoutExpired as te:
        # A hang of the library under test is data: the harness has a watchdog of its own that
        # aborts the process after 300 s without an event (-> `abort` event below).  A driver that
        # keeps emitting events but exceeds the outer limit is merely slow: a tool error.
        raise ToolError("driver exceeded its time limit of %ss (still emitting events): %s" % (timeout, " ".join(cmd)))
    aborted = None
    if p.returncode < 0 or p.returncode == 101:
        # the library under test killed the process (abort, or a panic that
        # escaped: exit code 101; the harness' own errors exit with 2): data.
        # Append an `abort` event to the chunk written last.
        chunks = sorted((os.path.join(outdir, f) for f in os.listdir(outdir) if f.endswith(".ndjson")),
                        key=os.path.getmtime)
        if not chunks:
            raise ToolError("driver died (%d) before writing a trace: %s\n%s" % (p.returncode, " ".join(cmd), p.stdout[-3000:]))
        with open(chunks[-1]) as f:
            lines = f.readlines()
        if lines and not lines[-1].endswith("\n"):
            lines = lines[:-1]          # partially written line
        what = "?"
        for ln in reversed(lines):
            try:
                e = json.loads(ln)
            except Exception:
                continue
            what = e.get("what", e.get("ev", "?")) if e.get("ev") == "begin" else "after:" + e.get("ev", "?")
            break
        sig = -p.returncode if p.returncode < 0 else 101
        lines.append(json.dumps({"ev": "abort", "signal": sig, "what": what}) + "\n")
        with open(chunks[-1], "w") as f:
            f.writelines(lines)
        aborted = {"what": what, "signal": sig, "file": chunks[-1], "stderr_tail": p.stdout[-1500:]}
        log("driver %s died with signal/exit %d during %s" % (driver, sig, what))
    elif p.returncode != 0:
        raise ToolError("driver failed (%d): %s\n%s" % (p.returncode, " ".join(cmd), p.stdout[-3000:]))
    sums = []
    for fn in sorted(os.listdir(outdir)):
        if fn.endswith(".summary.json"):
            with open(os.path.join(outdir, fn)) as f:
                sums.append(json.load(f))
    if aborted and not sums:
        # no summary was written: list the chunk files ourselves
        files = sorted(os.path.join(outdir, f) for f in os.listdir(outdir) if f.endswith(".ndjson"))
        n = 0
        for fn in files:
            with open(fn) as f:
                n += sum(1 for _ in f)
        sums.append({"driver": driver, "files": files, "events": n, "histories": 0, "counts": {}, "extra": {}})
    log("driver %s %s: %.1fs" % (driver, args, time.time() - t0))
    return {"cmd": cmd, "summaries": sums, "stdout": p.stdout, "aborted": aborted}


def bubble_trace(files, out_path, nmax=24, wmax=12):
    """extract the level-sort part of every `reorder` event (hook events of
    oxidd_reorder::verif: input sequence, swap begin/end, return) into a
    trace for TraceBubbleSort.tla.  Transport only: no state is computed."""
    stats = {"sorts": 0, "concurrent": 0, "swaps": 0, "skipped_long": 0, "origin": []}
    with open(out_path, "w") as out:
        for fn in files:
            thr = 1
            with open(fn) as f:
                for ln_no, ln in enumerate(f, 1):
                    if '"ev":"reset"' in ln:
                        thr = json.loads(ln).get("thr", 1)
                        continue
                    if '"ev":"reorder"' not in ln:
                        continue
                    e = json.loads(ln)
                    if "sortseq" not in e or (not e["sortseq"] and not e.get("swaps")):
                        continue
                    if len(e["sortseq"]) > nmax:
                        stats["skipped_long"] += 1
                        continue
                    stats["sorts"] += 1
                    stats["concurrent"] += 1 if e.get("conc") else 0
                    stats["swaps"] += sum(1 for x in e["swaps"] if x[0] == 0)
                    stats["origin"].append((fn, ln_no))
                    out.write(json.dumps({"ev": "sort", "seq": e["sortseq"], "workers": min(int(thr), wmax),
                                          "conc": bool(e.get("conc")), "src": ln_no}) + "\n")
                    for k, i in e["swaps"]:
                        out.write(json.dumps({"ev": "b" if k == 0 else "e", "i": i}) + "\n")
                    if e.get("sorted"):
                        out.write(json.dumps({"ev": "sorted"}) + "\n")
    return stats


def product_trace(config_files, prop, out_path, labels=None):
    """zip the traces of the same call sequence executed under several
    configurations into one product trace for TraceConfig.tla (transport
    only: the comparison is done by TLC)"""
    streams = []
    for files in config_files:
        evs = []
        for fn in files:
            with open(fn) as f:
                evs += [json.loads(x) for x in f]
        streams.append(evs)
    n = min(len(s) for s in streams)
    cnt = 0
    with open(out_path, "w") as out:
        out.write(json.dumps({"ev": "reset", "configs": labels or list(range(len(streams)))}) + "\n")
        for i in range(n):
            evs = [s[i] for s in streams]
            kinds = [e.get("ev", "?") + ":" + str(e.get("op", "")) for e in evs]
            e0 = evs[0]
            if any(k != kinds[0] for k in kinds):
                out.write(json.dumps({"ev": "x", "i": i + 1, "prop": prop, "what": "alignment", "kinds": kinds, "res": [0]}) + "\n")
                break
            if e0.get("ev") == "op":
                res = [[e.get("tt"), e.get("nc"), e.get("res", "ok") if "res" in e else "ok"] for e in evs]
            elif e0.get("ev") in ("reorder", "add_vars"):
                res = [e.get("l2v") for e in evs]
            elif e0.get("ev") == "obs":
                res = [[[h[3], h[4], h[5], h[7], h[8]] for h in e.get("hs", [])] for e in evs]
            else:
                res = [0 for _ in evs]
            out.write(json.dumps({"ev": "x", "i": i + 1, "prop": prop, "what": e0.get("ev", "?") + (":" + e0["op"] if "op" in e0 else ""),
                                  "kinds": kinds, "res": res}) + "\n")
            cnt += 1
        if any(len(s) != n for s in streams):
            out.write(json.dumps({"ev": "x", "i": n + 1, "prop": prop, "what": "length", "kinds": ["a", "a"],
                                  "res": [len(s) for s in streams]}) + "\n")
    return cnt


# --------------------------------------------------------------------------
# findings, evidence, verdict

def load_known():
    p = os.path.join(ROOT, "known_findings.json")
    if not os.path.exists(p):
        return []
    with open(p) as f:
        return json.load(f).get("findings", [])


def history_of(path, index, reset_ev="reset"):
    """events of the history containing 1-based event `index` (from its reset)"""
    with open(path) as f:
        lines = f.readlines()
    start = 0
    for i in range(min(index, len(lines)) - 1, -1, -1):
        try:
            if json.loads(lines[i]).get("ev") == reset_ev:
                start = i
                break
        except Exception:
            pass
    end = min(index, len(lines))
    return [json.loads(x) for x in lines[start:end]], (json.loads(lines[index - 1]) if 0 < index <= len(lines) else None)


# which property owns a process abort during which kind of call
ABORT_OWNER = {"reorder": "C08", "add_vars": "C16", "thread panicked": "C07", "mtconc": "C07"}


def _kind_tag(hist):
    """<kind>[:<tag>] of the history's reset event"""
    r = next((e for e in hist if e.get("ev") == "reset"), {})
    return r.get("kind", "?") + ((":" + r["tag"]) if r.get("tag") else "")


class Check:
    def __init__(self, pid, tier, seed, level="model_checking"):
        self.pid = pid
        self.tier = tier
        self.seed = seed
        self.level = level
        self.t0 = time.time()
        self.violations = []      # dicts: sig, what, replay
        self.cov = {"states": 0, "transitions": 0, "traces_validated_against_impl": 0,
                    "evaluations": 0, "distinct_nontrivial": 0, "samples": [], "exhaustive": False,
                    "model_checking_runs": [], "events_by_action": {}, "rule": ""}
        self.assumptions = []
        self.tool_errors = []
        self.outdir = os.path.join(OUT, pid, tier)
        shutil.rmtree(self.outdir, ignore_errors=True)
        os.makedirs(self.outdir, exist_ok=True)
        self.replay_dir = os.path.join(OUT, "replay")
        os.makedirs(self.replay_dir, exist_ok=True)

    # -- accumulate ---------------------------------------------------------
    def add_mc(self, res, must_cover=()):
        self.cov["states"] += res["distinct"]
        self.cov["transitions"] += res["states"]
        self.cov["model_checking_runs"].append({
            "module": res["module"], "cfg": res["cfg"], "distinct_states": res["distinct"],
            "states_generated": res["states"], "ok": res["ok"], "wall_s": round(res["wall"], 1),
            "actions": res["actions"]})
        if not res["ok"]:
            if res["violated"]:
                self.violation("mc:%s:%s" % (res["cfg"], res["violated"][:80]),
                               "TLC model check of %s/%s: %s" % (res["module"], res["cfg"], res["violated"]),
                               {"kind": "model_check", "module": res["module"], "cfg": res["cfg"],
                                "output_tail": res["out_tail"]})
            else:
                self.tool_errors.append("model check %s/%s failed: %s" % (res["module"], res["cfg"], res["out_tail"][-1500:]))
        for a in must_cover:
            if res["actions"].get(a, 0) == 0:
                self.tool_errors.append("vacuity: action %s of %s never taken" % (a, res["cfg"]))

    def add_driver(self, dres):
        for s in dres["summaries"]:
            self.cov["evaluations"] += int(s.get("events", 0))
            ex = s.get("extra", {})
            self.cov["evaluations"] += int(ex.get("rows", 0))
            self.cov["distinct_nontrivial"] += int(ex.get("nontrivial", 0))
            for k, v in s.get("counts", {}).items():
                self.cov["events_by_action"][k] = self.cov["events_by_action"].get(k, 0) + v
        return [f for s in dres["summaries"] for f in s.get("files", [])]

    def add_validation(self, results, driver_cmd=None, owner=None):
        """results of validate(); failed obligations owned by this property
        become violations"""
        owner = owner or self.pid
        for r in results:
            if r["tool_error"]:
                self.tool_errors.append("%s: %s" % (r["file"], r["tool_error"]))
                continue
            self.cov["states"] += r["distinct"]
            self.cov["transitions"] += max(r["states"] - 1, 0)
            try:
                with open(r["file"]) as f:
                    self.cov["traces_validated_against_impl"] += sum(1 for line in f if '"ev":"reset"' in line)
            except OSError:
                pass
            if r["done"] != r["total"] and not r["fails"]:
                hist, ev = history_of(r["file"], (r["done"] or 0) + 1)
                abort_owner = "C14" if _kind_tag(hist).endswith(":oom") else ABORT_OWNER.get((ev or {}).get("what"), owner)
                if (ev or {}).get("ev") == "abort" and abort_owner != owner:
                    log("note: process abort during %s is owned by %s, not reported by %s" % (
                        ev.get("what"), abort_owner, owner))
                    self.cov.setdefault("foreign_aborts", []).append(ev.get("what"))
                    continue
                if (ev or {}).get("ev") == "abort":
                    self.violation("abort:%s:%s" % (ev.get("what"), _kind_tag(hist)),
                                   "the library aborted the process during %s (signal %s)" % (ev.get("what"), ev.get("signal")),
                                   {"kind": "trace", "module": r.get("module"), "file": r["file"],
                                    "event_index": (r["done"] or 0) + 1,
                                    "event": ev, "history": hist, "driver_cmd": driver_cmd})
                    continue
                self.violation("unmatched:%s" % (ev or {}).get("ev", "?"),
                               "event %d of %s is not a step of the specification: %s" % (
                                   (r["done"] or 0) + 1, os.path.basename(r["file"]), json.dumps(ev)[:300]),
                               {"kind": "trace", "module": r.get("module"), "file": r["file"],
                                "event_index": (r["done"] or 0) + 1,
                                "event": ev, "history": hist, "driver_cmd": driver_cmd})
            for (idx, pairs) in r["fails"]:
                mine = [n for (p, n) in pairs if p == owner]
                if not mine:
                    continue
                hist, ev = history_of(r["file"], idx)
                kind = _kind_tag(hist)
                for name in mine:
                    sig = "%s:%s" % (name, kind)
                    self.violation(sig, "obligation %s false at event %d of %s: %s" % (
                        name, idx, os.path.basename(r["file"]), json.dumps(ev)[:400]),
                        {"kind": "trace", "module": r.get("module"), "file": r["file"], "event_index": idx,
                         "obligation": name, "event": ev, "history": hist, "driver_cmd": driver_cmd})

    def sample(self, obj):
        if len(self.cov["samples"]) < 6:
            self.cov["samples"].append(obj)

    def sample_from(self, files, n=3):
        for fn in files[:n]:
            try:
                with open(fn) as f:
                    lines = f.readlines()
                for ln in lines[2:4]:
                    s = ln.strip()
                    self.sample(json.loads(s) if len(s) < 1500 else s[:1500])
            except Exception:
                pass

    def violation(self, sig, what, replay):
        self.violations.append({"sig": sig, "what": what, "replay": replay})

    # -- verdict ------------------------------------------------------------
    def finish(self):
        known = [k for k in load_known() if k.get("property") == self.pid]
        printed_known = set()
        new = {}
        for v in self.violations:
            k = next((k for k in known if k.get("status") == "finding" and sig_match(k["signature"], v["sig"])), None)
            if k is not None:
                if k["signature"] not in printed_known:
                    print("KNOWN-FINDING: property=%s %s" % (self.pid, k["what"]), flush=True)
                    printed_known.add(k["signature"])
                continue
            new.setdefault(v["sig"], v)
        wall = time.time() - self.t0
        cov = dict(self.cov)
        if not cov["samples"]:
            cov["samples"] = ["(no sample recorded)"]
        cov["known_findings_seen"] = sorted(printed_known)
        cov["violation_signatures"] = sorted(new.keys())
        ev = {"property_id": self.pid, "tier": self.tier, "seed": self.seed, "level": self.level,
              "coverage": cov, "assumptions": self.assumptions, "wall_s": round(wall, 1),
              "violations": len(new)}
        os.makedirs(os.path.join(ROOT, "evidence"), exist_ok=True)
        with open(os.path.join(ROOT, "evidence", self.pid + ".json"), "w") as f:
            json.dump(ev, f, indent=1)
        if self.tool_errors and not new:
            for t in self.tool_errors[:5]:
                print("TOOL-ERROR: " + t[:3000], file=sys.stderr)
            return 2
        rc = 0
        for sig, v in sorted(new.items()):
            h = hashlib.sha1(sig.encode()).hexdigest()[:10]
            path = os.path.join(self.replay_dir, "%s-%s.json" % (self.pid, h))
            with open(path, "w") as f:
                json.dump({"property": self.pid, "signature": sig, "what": v["what"], "seed": self.seed,
                           "tier": self.tier, **v["replay"]}, f, indent=1)
            print("VIOLATION property=%s replay=%s" % (self.pid, path), flush=True)
            print("  signature: %s\n  %s" % (sig, v["what"][:600]), flush=True)
            rc = 1
        for t in self.tool_errors[:5]:
            print("TOOL-ERROR: " + t[:2000], file=sys.stderr)
        return rc


def sig_match(pattern, sig):
    """known-finding signatures are shell-style patterns (fnmatch)"""
    import fnmatch
    return fnmatch.fnmatchcase(sig, pattern)
