"""Numeric parts of C12 (arbitrary-precision naturals) and C10 (I64 / F64
terminal scalars): exact arithmetic specified in TLA+ (spec/Natural.tla,
spec/NumArith.tla), validated by TLC (spec/TraceNumeric.tla) against traces of
the real number types recorded by harness/src/drv_num.rs.

Called by the C12 / C10 checks of the main session:
    chk_num.natural_part(ck, tier, seed)      obligations owned by "C12"
    chk_num.scalar_part(ck, tier, seed)       obligations owned by "C10"
and registered stand-alone as C12N / C10S.
"""
import json
import os

import vlib

MODULE = "TraceNumeric"
JVMS = int(os.environ.get("VERIF_NUM_JVMS", "8"))
KEEP = 2


def _stats(ck, files, key):
    """decided / undecided counters written by the spec with the last event"""
    ev = ob = un = 0
    for f in files:
        try:
            with open(f + ".stat") as fh:
                s = json.load(fh)
            ev += s["events"]
            ob += s["obligations"]
            un += s["undecided"]
        except (OSError, ValueError, KeyError):
            pass
    ck.cov.setdefault("numeric", {}).setdefault(key, {}).update(
        {"events_judged": ev, "obligations_evaluated": ob, "undecided_obligations": un})


def _run(ck, owner, plan, key):
    if ck.pid in REGISTER:          # stand-alone: the spec emits the obligations under the stand-alone id
        owner = ck.pid
    binary = vlib.build_harness()
    files, cmds = [], []
    for i, (drv, args) in enumerate(plan):
        od = os.path.join(ck.outdir, "num-%s-%02d-%s" % (owner, i, drv))
        res = vlib.run_driver(binary, drv, args, od)
        files += ck.add_driver(res)
        cmds.append(" ".join(map(str, res["cmd"])))
    ck.sample_from(files[:2], n=2)
    results = vlib.validate(MODULE, files, acts=[owner], jobs=JVMS)
    # measured failure counts per obligation name; only the first KEEP failures of every name are handed to the
    # framework (it re-reads the chunk file for every failure it turns into a violation)
    counts, kept = {}, {}
    for r in results:
        fails = []
        for idx, pairs in r["fails"]:
            keep = False
            for p_, name in pairs:
                if p_ != owner:
                    continue
                counts[name] = counts.get(name, 0) + 1
                if kept.get(name, 0) < KEEP:
                    kept[name] = kept.get(name, 0) + 1
                    keep = True
            if keep:
                fails.append((idx, pairs))
        if r["fails"] and not fails:
            fails = r["fails"][:1]
        r["fails"] = fails
    ck.cov.setdefault("numeric", {}).setdefault(key, {})["failed_obligations"] = dict(sorted(counts.items()))
    n0 = len(ck.violations)
    ck.add_validation(results, driver_cmd=cmds, owner=owner)
    for v in ck.violations[n0:]:
        v["replay"]["module"] = MODULE      # ./check <id> --replay <file> re-validates with this trace module
    _stats(ck, files, key)
    wall = sum(r["wall"] for r in results) or 1.0
    total = sum((r["total"] or 0) for r in results)
    ck.cov.setdefault("numeric", {})[key]["tlc_events_per_s_per_jvm"] = round(total / wall)
    return files


def natural_part(ck, tier, seed):
    rule = ("Natural (V): every operand of the boundary set {0, 1, 2^k-1, 2^k, 2^k+1 : k in 31,32,63,64,65,127,128,129,"
            "191,192,193 (+255,256,257,511)} + 64-bit digit-boundary shapes + shifted copies: all pairs x {add, "
            "partial_cmp/eq/hash/<,<=,>,>=}; per operand shl/shr (u32 and u64 amounts, exact and inexact), "
            "try_into u64/u128, to f64 (round to nearest even, +inf), bit_width, Binary/Octal/LowerHex/UpperHex/Display "
            "under 20 flag combinations (#, +, 0, width, fill, <^>) x 6 widths; From<u8..u128>, from_le_digits; error "
            "value by inexact shr / exponent overflow (shl, add) and its rendering; seeded random operands <= 512 "
            "bits incl. related operands (carry chains, cancellation) and sums of sums; clone_from in a separate "
            "process; oracle = limb arithmetic in TLA+ (Natural.tla); non-trivial = result is none of the operands")
    ck.cov["rule"] = (ck.cov.get("rule", "") + " || " if ck.cov.get("rule") else "") + rule
    plan = [("natural-pairs", {"seed": seed * 7 + 1, "tier": tier}),
            ("natural-clone", {"seed": seed * 7 + 2, "tier": tier})]
    _run(ck, "C12", plan, "natural")
    ck.assumptions += [
        "Natural operands and results are observed through the documented accessors mantissa()/exp()/is_nan(); "
        "sums of operands whose exponents differ by more than 6000 bits and texts of numbers with exponent > 6000 "
        "are not generated (would need the full expansion)",
        "text output is compared with the std::fmt rules for integers (sign, then prefix, then zero padding; fill "
        "padding around the whole text); rendering of the error value: a single '?' padded to the width, default "
        "alignment and zero-flag padding character left open",
        "partial_cmp(NaN, NaN) of Natural is left open (None or Equal)"]


def scalar_part(ck, tier, seed):
    rule = ("I64/F64 scalars (V): all 16x16 pairs of {0,1,-1,2,3,-7,MIN,MIN+1,MAX,MAX-1,2^31,2^32,-2^32,+inf,-inf,NaN} x "
            "{add,sub,mul,div (NumberBase and operator traits), partial_cmp, ==, hash, <,<=,>,>=}, 25 further boundary "
            "integers (sqrt(2^63), 2^62, MIN/2, MAX/3 ...) against all, seeded random integers of every bit length with "
            "partners placed around the overflow boundaries of +,-,*,/; Display/parse round trip, is_zero/is_one/is_nan; "
            "F64: 37 special values pairwise (zeros, subnormals, 2^53, MAX, +-inf, NaN), construction from NaN payloads "
            "and -0, parse, random dyadic operands m*2^e judged when the exact result is representable, zero or >= "
            "2^1024; oracle = exact limb arithmetic in TLA+ (NumArith.tla); non-trivial = result is none of the operands")
    ck.cov["rule"] = (ck.cov.get("rule", "") + " || " if ck.cov.get("rule") else "") + rule
    plan = [("num-i64", {"seed": seed * 11 + 1, "tier": tier}),
            ("num-f64", {"seed": seed * 11 + 2, "tier": tier})]
    _run(ck, "C10", plan, "scalars")
    ck.assumptions += [
        "F64: IEEE rounding of inexact results (inexact sums, products, quotients, underflow, the band between "
        "f64::MAX and 2^1024) is not decided; such events are accepted and counted in coverage.numeric.scalars."
        "undecided_obligations",
        "I64 cases on which the property sentence is silent (NaN operand, inf+x, inf*x, x/inf, inf/x, ordering of "
        "infinities) are specified as extended-real/IEEE arithmetic, as asserted by the crate's own unit test "
        "agrees_with_float; the Display text of +-inf/NaN is only required to parse back",
        "f64::NAN is the bit pattern 0x7ff8000000000000 on the platform under test"]


# stand-alone registration (the C10 / C12 checks call the two functions directly).  Note: `./check C12N --replay`
# cannot re-judge a stored history because replay activates ACT_<pid>; replay under the owning ids C12 / C10.
REGISTER = {"C12N": (natural_part, "model_checking"), "C10S": (scalar_part, "model_checking")}
TRACE_MODULE = {"C12N": "TraceNumeric", "C10S": "TraceNumeric", "C10": "TraceNumeric", "C12": "TraceNumeric"}
