"""C16: variable and name bookkeeping (VarNames.tla)."""
import json
import os

import vlib

TRACE_MODULE = {"C16": "TraceVarNames"}

KINDS = ["bdd", "bcdd", "zbdd"]


def _edges(ck, cfg):
    """model-check VarNames (Bijection, NameToVarInverse over the complete
    state graph) and collect every edge of the graph for replay"""
    res = vlib.model_check("VarNames", cfg, workers=1, keep_output=True, coverage=True)
    ck.add_mc(res, must_cover=["DoAddVars", "DoAddNamed", "DoFromMap", "DoSetName"])
    path = os.path.join(ck.outdir, cfg + ".edges.ndjson")
    n = 0
    with open(path, "w") as f:
        for line in res.get("out", "").splitlines():
            if line.startswith('"EDGE '):
                s = json.loads(line)          # TLA+ string syntax = JSON string syntax here
                f.write(s[5:] + "\n")
                n += 1
    if n == 0:
        raise vlib.ToolError("no edges printed by the VarNames model check")
    return path, n


def c16(ck, tier, seed):
    ck.cov["rule"] = ("MC: complete state graph of VarNames.tla over names {\"\",a,b,c} (<= 3 variables, batches <= 2 in quick; "
                      "<= 4 variables, batches <= 3 in thorough) with invariants Bijection/NameToVarInverse; T: every edge replayed "
                      "on a real manager of each kind, comparing result payload and all observations; V: random call sequences with "
                      "unicode names interleaved with handle creation, reordering and gc, validated by TraceVarNames; add_vars effect "
                      "on existing handles validated by TraceManager (ACT C16); non-trivial = calls answered with DuplicateVarName")
    cfg = "MC_VarNames" if tier == "quick" else "MC_VarNames_big"
    edges, n = _edges(ck, cfg)
    ck.cov["edges_replayed_per_kind"] = n
    binary = vlib.build_harness()
    files, cmds = [], []
    for i, k in enumerate(KINDS):
        od = os.path.join(ck.outdir, "names-" + k)
        res = vlib.run_driver(binary, "names", {"kind": k, "seed": seed * 7 + i, "tier": tier, "edges": edges}, od)
        for s in res["summaries"]:
            if s.get("extra", {}).get("mismatches", 0):
                ck.cov.setdefault("edge_mismatches", 0)
                ck.cov["edge_mismatches"] += s["extra"]["mismatches"]
        files += ck.add_driver(res)
        cmds.append(" ".join(map(str, res["cmd"])))
    ck.sample_from(files)
    results = vlib.validate("TraceVarNames", files, ["C16"])
    ck.add_validation(results, driver_cmd=cmds)
    if ck.cov.get("edge_mismatches") and not ck.violations:
        ck.tool_errors.append("edge replay reported mismatches that trace validation accepted")
    # add_vars must not change existing functions (BDD, BCDD): histories with add_vars + snapshots
    files2, cmds2 = [], []
    for i, k in enumerate(["bdd", "bcdd", "zbdd"]):
        od = os.path.join(ck.outdir, "hist-" + k)
        res = vlib.run_driver(binary, "hist", {"kind": k, "seed": seed * 5 + i, "tier": tier,
                                               "count": 40 if tier == "quick" else 400, "nmax": 6}, od)
        files2 += ck.add_driver(res)
        cmds2.append(" ".join(map(str, res["cmd"])))
    r2 = vlib.validate("TraceManager", files2, ["C16"])
    for r in r2:
        r["module"] = "TraceManager"
    ck.add_validation(r2, driver_cmd=cmds2)
    ck.cov["exhaustive"] = True
    ck.assumptions += ["pre-states of replayed edges are reached by one add_named_vars call; path dependence is covered by the random sequences"]


REGISTER = {"C16": (c16, "model_checking")}
