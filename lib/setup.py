#!/usr/bin/env python3
"""setup: build the harness (all feature sets used by the checks) and the C API
shim from files on disk (offline) and let TLC generate the oracle tables once."""
import os
import sys

sys.path.insert(0, os.path.dirname(os.path.abspath(__file__)))
import vlib  # noqa: E402

for feats in ["idx,cache,mt", "idx,cache", "idx,mt", "idx", "ptr,cache,mt", "ptr,cache", "ptr,mt", "ptr"]:
    vlib.build_harness(feats)
try:
    import chk_c19
    vlib.build_harness(features="idx,cache,mt", package_dir=chk_c19.SHIM, bin_name="oxc")
except Exception as e:  # the check itself reports build problems
    print("note: shim not pre-built:", e)
vlib.ensure_tables()
print("setup ok")
