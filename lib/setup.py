#!/usr/bin/env python3
"""setup: build the harness from files on disk (offline) and let TLC generate
the oracle tables once."""
import os
import sys

sys.path.insert(0, os.path.dirname(os.path.abspath(__file__)))
import vlib  # noqa: E402

vlib.build_harness()
vlib.ensure_tables()
print("setup ok")
