#!/bin/bash
# usage: seed_confirm.sh <seed-id> <worktree>
# Confirms a seeded change in its scratch worktree: the patch applies, the
# whole existing test-suite passes with it, the demonstration fails with it and
# passes without it.  Copies the seed into /verif/seeded/<id>/ and writes
# confirm.json there.
set -u
ID=$1; WT=$2
DST=/verif/seeded/$ID
mkdir -p $DST
cp -r $WT/_seed/. $DST/
cd $WT || exit 2
git checkout -q -- . 2>/dev/null
git apply --check _seed/patch.diff || { echo "{\"applies\": false}" > $DST/confirm.json; exit 1; }
# locate the demo test file and where it goes
DEMO=$(ls _seed/*.rs 2>/dev/null | head -1)
DEMODST=$(grep -o 'crates/[a-z-]*/tests' _seed/README.md | head -1)
[ -z "$DEMODST" ] && DEMODST=crates/oxidd/tests
DEMONAME=$(basename "$DEMO" .rs)
CRATE=$(echo $DEMODST | cut -d/ -f2)
run_demo() { mkdir -p $DEMODST && cp "$DEMO" $DEMODST/ && timeout 1200 cargo test --offline -p $CRATE ${DEMO_FLAGS:-} --test $DEMONAME > $1 2>&1; local rc=$?; rm -f $DEMODST/$(basename $DEMO); return $rc; }
run_demo $DST/demo_clean.log; CLEAN=$?
git apply _seed/patch.diff
timeout 3000 cargo test --workspace --no-fail-fast --offline > $DST/suite_with_change.log 2>&1; SUITE=$?
run_demo $DST/demo_changed.log; CHANGED=$?
git checkout -q -- .
echo "{\"applies\": true, \"suite_exit_with_change\": $SUITE, \"demo_exit_clean\": $CLEAN, \"demo_exit_with_change\": $CHANGED, \"demo\": \"$DEMONAME\", \"demo_dir\": \"$DEMODST\"}" > $DST/confirm.json
cat $DST/confirm.json
