"""Per-property decision procedures (see DESIGN.md section 5)."""
import json
import os

import vlib
from vlib import Check

BOOL_KINDS = ["bdd", "bcdd", "zbdd"]


DRIVER_JOBS = int(os.environ.get("VERIF_DRIVER_JOBS", "6"))


def _bool_suite(ck, acts, plan, features="idx,cache,mt", module="TraceManager", tag=""):
    """run drivers of `plan` = [(driver, args)], validate every trace chunk
    with TLC under the active obligations `acts`"""
    binary = vlib.build_harness(features)
    files = []
    cmds = []
    # the drivers are independent processes with output directories of their own: run them side by side
    import concurrent.futures as cf

    def run(item):
        i, (drv, args) = item
        od = os.path.join(ck.outdir, "%s%02d-%s-%s" % (tag, i, drv, args.get("kind", "")))
        return vlib.run_driver(binary, drv, args, od, timeout=3600)
    with cf.ThreadPoolExecutor(max_workers=DRIVER_JOBS) as ex:
        results = list(ex.map(run, enumerate(plan)))
    for res in results:
        ck._summaries = getattr(ck, "_summaries", []) + res["summaries"]
        fs = ck.add_driver(res)
        files += fs
        cmds.append(" ".join(map(str, res["cmd"])))
    ck.sample_from(files)
    results = vlib.validate(module, files, acts)
    ck.add_validation(results, driver_cmd=cmds)
    return files


def _hist_plan(tier, seed, kinds=BOOL_KINDS, quick_count=30, th_count=600, nmax=6):
    plan = []
    for i, k in enumerate(kinds):
        plan.append(("hist", {"kind": k, "seed": seed * 31 + i, "tier": tier,
                              "count": quick_count if tier == "quick" else th_count,
                              "nmax": nmax if tier == "quick" else 7}))
    return plan


def _churn_plan(tier, seed, kinds=BOOL_KINDS):
    return [("gcchurn", {"kind": k, "seed": seed * 41 + i, "tier": tier}) for i, k in enumerate(kinds)]


def _tables_plan(tier, seed, groups, kinds=BOOL_KINDS):
    return [("tables", {"kind": k, "seed": seed * 17 + i, "tier": tier, "groups": groups})
            for i, k in enumerate(kinds)]


STORE_ACTIONS = ["Start", "CacheGet", "ReleaseOps", "LvlLock", "FindOrInsert", "LvlUnlock", "CacheAdd", "Publish",
                 "HandleClone", "HandleDrop", "GcStart", "GcLevel", "GcEnd"]


def store_mc(ck, tier):
    """design level: exhaustive TLC exploration of Store.tla (all interleavings
    of two application threads, handle clone/drop and the collector) with the
    invariants RcExact, NoDangling, UniqueTable, CacheSound, FailClean"""
    res = vlib.model_check("Store", "MC_StoreConcQuick", workers=6, xmx="4g", timeout=600)
    ck.add_mc(res, must_cover=STORE_ACTIONS)
    # dynamic terminals (MTBDD): terminal table swept after the levels and before the cache is unlocked
    res = vlib.model_check("StoreTerm", "MC_StoreTerm", workers=4, xmx="2g", timeout=600)
    ck.add_mc(res, must_cover=["CacheGet", "GetEdge", "CacheAdd", "Publish", "HandleDrop", "GcTerms", "GcPost"])
    # non-vacuity: with the cache unlocked before the terminal sweep the model must exhibit the dangling entry
    neg = vlib.model_check("StoreTerm", "MC_StoreTerm_early", workers=2, xmx="2g", timeout=600, coverage=False)
    if neg["ok"] or "NoDangling" not in (neg["violated"] or ""):
        ck.tool_errors.append("vacuity: MC_StoreTerm_early (cache unlocked before the terminal sweep) does not violate NoDangling")
    if tier == "thorough":
        res = vlib.model_check("Store", "MC_StoreConcOom", workers=12, xmx="10g", timeout=1800)
        ck.add_mc(res, must_cover=STORE_ACTIONS + ["Fail"])


def substid_mc(ck):
    """design level: substitution ids as apply-cache keys (SubstId.tla); the split allocation and the reuse of
    dropped ids must be rejected"""
    res = vlib.model_check("SubstId", "MC_SubstId", workers=2, xmx="2g", timeout=300)
    ck.add_mc(res, must_cover=["AllocAtomic", "DoApply", "DoDrop", "Gc"])
    for cfg, inv in [("MC_SubstId_split", "UniqueIds"), ("MC_SubstId_reuse", "ResultsRight")]:
        neg = vlib.model_check("SubstId", cfg, workers=2, xmx="2g", timeout=300, coverage=False)
        if neg["ok"] or inv not in (neg["violated"] or ""):
            ck.tool_errors.append("vacuity: %s does not violate %s" % (cfg, inv))


# ---------------------------------------------------------------------------

def c01(ck, tier, seed):
    ck.cov["rule"] = ("histories: all 256 three-variable functions built by minterm routes under 2 (quick) / 6 orders, "
                      "re-derived by every binary operator, interleaved with drop/gc/add_vars/set_var_order; seeded random "
                      "histories over 2..7 variables; non-trivial = result is neither an operand nor a constant")
    vlib.ensure_tables()
    plan = _tables_plan(tier, seed, "bool,restrict,zbdd") + _hist_plan(tier, seed, quick_count=40) + _churn_plan(tier, seed)
    _bool_suite(ck, ["C01"], plan)
    ck.assumptions += ["denotation of a handle = DDSem!SemMap of the logged sub-graph (node-by-node interpretation in TLA+)",
                       "MTBDD/TDD and pointer backend canonicity are exercised by C10/C11/C20"]


def c02(ck, tier, seed):
    ck.cov["rule"] = ("T: TLC-generated complete operator tables over all 256x256 pairs of 3-variable functions "
                      "(8 connectives), not, ite on a 24^3 index cube, var/not_var/constants replayed on BDD, BCDD, ZBDD "
                      "under 2 (quick) / 6 orders; V: sampled rows and random histories over 2..7 variables validated "
                      "event by event; non-trivial = result differs from both operands and from the constants")
    vlib.ensure_tables()
    plan = _tables_plan(tier, seed, "bool") + _hist_plan(tier, seed)
    # eval with 9..70 variables (the assignment is packed into machine words)
    plan += [("widevars", {"kind": k, "seed": seed * 43 + i, "tier": tier}) for i, k in enumerate(BOOL_KINDS)]
    _bool_suite(ck, ["C02"], plan)
    ck.cov["exhaustive"] = True
    ck.assumptions += ["ite is replayed on a 24^3 sub-cube of the 256^3 triples, plus random triples in histories"]


def c03(ck, tier, seed):
    ck.cov["rule"] = ("S: full-store snapshots after every phase of every history (after build, gc, reorder, add_vars, "
                      "drop-all); invariants Ordered, Reduced(kind), NoDupPerLevel, InOwnLevel, VarLevelInverse, "
                      "node_count = CanonSize (semantic definition, n <= 5)")
    vlib.ensure_tables()
    plan = _tables_plan(tier, seed, "bool,restrict,zbdd") + _hist_plan(tier, seed, quick_count=40) + _churn_plan(tier, seed)
    plan += [("reorder", {"kind": k, "seed": seed * 13 + i, "tier": tier}) for i, k in enumerate(BOOL_KINDS)]
    _bool_suite(ck, ["C03"], plan)
    store_mc(ck, tier)


def c04(ck, tier, seed):
    ck.cov["rule"] = ("T: Quant[q][V][f] (3x8x256), Restrict[cube][f] (27x256), apply_Q = Quant o Bin by table "
                      "composition (1/16 sample of 8x3x7x65536 in quick, all in thorough) on BDD and BCDD under 2/6 orders; "
                      "V: random histories with exists/forall/unique, apply_*, restrict, substitute (reused and alternated); "
                      "substitution objects created and applied by 2..4 threads concurrently")
    vlib.ensure_tables()
    plan = _tables_plan(tier, seed, "quant") + _hist_plan(tier, seed, quick_count=60)
    # substitution objects created and used by several threads at once ("different substitutions are used
    # alternately"): ids of simultaneously live objects are distinct (substid.unique), results are right (sem:subst)
    plan += [("conc", {"kind": k, "seed": seed * 3 + i, "tier": tier}) for i, k in enumerate(["bdd", "bcdd"])]
    _bool_suite(ck, ["C04"], plan)
    substid_mc(ck)


def c05(ck, tier, seed):
    ck.cov["rule"] = ("S: reference-count audit rc = handles + parent edges + internal (ZBDD tautology chain) on every "
                      "snapshot; gc: returned count, completeness (no node with rc 0 survives), every handle keeps edge "
                      "and denotation; histories with capacities 128..512 drive the node count across the background "
                      "collector's high-water mark (snapshots under the exclusive lock); design: Store.tla model check")
    plan = _hist_plan(tier, seed, quick_count=80)
    # automatic background collections: small capacities, garbage pushed across the high-water mark
    plan += [("bggc", {"kind": k, "seed": seed * 23 + i, "tier": tier}) for i, k in enumerate(BOOL_KINDS)]
    plan += _churn_plan(tier, seed)
    # capacity probe: after build / drop / gc / single-node operations, drop everything, collect, and fill the manager
    # with one-node operations: it must hold exactly as many nodes as when it was fresh (capacities 64..512)
    plan += [("capprobe", {"kind": k, "seed": seed * 29 + i, "tier": tier}) for i, k in enumerate(BOOL_KINDS)]
    _bool_suite(ck, ["C05"], plan)
    # MTBDD / TDD: after every collection exactly the reachable inner nodes and (MTBDD) the terminals in use remain
    import chk_mv
    for drv in ["mtbdd", "tdd"]:
        chk_mv._run(ck, drv, ["C05"], tier, seed + 7)
    # failed operations (terminal store full / one slot left): what they acquired must be released, the next
    # collection is exact for inner nodes and terminals
    chk_mv._run(ck, "mtoom", ["C05"], tier, seed + 9)
    slotalloc_mc(ck, tier)
    # beyond the property: the collector thread protocol (GcThread.tla, repaired variant) and, for information, the
    # replay of its counterexample schedule on the real manager (threads still alive after dropping managers)
    for cfg in ["MC_GcThread_quitcheck1", "MC_GcThread_quitcheck_seq3"]:
        ck.add_mc(vlib.model_check("GcThread", cfg, workers=2, xmx="2g", timeout=300),
                  must_cover=["ColWait", "ColCheck", "DropLock"])
    try:
        res = vlib.run_driver(vlib.build_harness(), "gcthread", {"count": 60 if tier == "quick" else 400},
                              os.path.join(ck.outdir, "gcthread"), timeout=300)
        ck.cov["gcthread_probe"] = res["summaries"][0].get("extra", {}) if res["summaries"] else {}
    except vlib.ToolError as e:
        ck.cov["gcthread_probe"] = {"error": str(e)[:200]}
    ck.cov["background_collections_seen"] = sum(
        s.get("extra", {}).get("bg_collections_seen", 0) for s in getattr(ck, "_summaries", []))
    store_mc(ck, tier)


def _bubble_binding(ck, files):
    """V binding of BubbleSort.tla: the level sort inside every recorded set_var_order call (input sequence, swap
    begin/end events, return; hook oxidd_reorder::verif) must be a behaviour of the specification: of the
    transcription of concurrent_bubble_sort with its critical sections as silent steps, or exactly the swap
    sequence of the sequential bubble_sort"""
    per_kind = {}
    for f in files:
        per_kind.setdefault(os.path.basename(os.path.dirname(f)), []).append(f)
    total = {"sorts": 0, "concurrent": 0, "swaps": 0, "skipped_long": 0}
    for d, fs in sorted(per_kind.items()):
        path = os.path.join(ck.outdir, "bubble-%s.ndjson" % d)
        st = vlib.bubble_trace(fs, path)
        for k in total:
            total[k] += st[k]
        if st["sorts"] == 0:
            continue
        r = vlib.validate_one("TraceBubbleSort", path, ["C08"], timeout=1200)
        if r["tool_error"]:
            ck.tool_errors.append("%s: %s" % (path, r["tool_error"]))
            continue
        ck.cov["states"] += r["distinct"]
        ck.cov["transitions"] += max(r["states"] - 1, 0)
        ck.cov["traces_validated_against_impl"] += st["sorts"]
        if r["done"] != r["total"]:
            hist, ev = vlib.history_of(path, r["done"] + 1, reset_ev="sort")
            kind = d.split("-")[-1]
            ck.violation("sort.behaviour:%s:%s" % ((ev or {}).get("ev", "?"), kind),
                         "the level swaps of a set_var_order call are not a behaviour of BubbleSort.tla: event %d of %s (%s) "
                         "cannot be taken" % (r["done"] + 1, os.path.basename(path), json.dumps(ev)),
                         {"kind": "trace", "module": "TraceBubbleSort", "file": path, "event_index": r["done"] + 1,
                          "event": ev, "history": hist})
    ck.cov["bubble_sort_binding"] = total
    if total["concurrent"] == 0 or total["swaps"] == 0:
        ck.tool_errors.append("vacuity: no concurrent level sort was recorded (hook events missing?)")


LEVELSWAP_CFGS = ["bdd0", "bdd1", "zbdd0", "zbdd1", "bdd0_dead", "bdd1_dead", "zbdd0_dead", "zbdd1_dead"]


def slotalloc_mc(ck, tier):
    """design level: SlotAlloc.tla, the node slot allocation protocol of oxidd-manager-index (thread-local free lists
    and chunks, shared stack of lists, session guards, hand-back by the collector): FreeListsSound, Disjoint,
    ChunksOwned, CapacityRestored, CountExact for two application threads and the collector, 5 slots, chunks of 2.
    Two defective variants (seeds C05-localstate-leak, C07-bggc-stale-head) must be rejected; with a dedicated pool
    worker that allocates, CapacityRestored is violated: the recorded finding C14 retry.ok:*:mt at the design level."""
    res = vlib.model_check("SlotAlloc", "MC_SlotAlloc_app", workers=4, xmx="3g", timeout=1200)
    ck.add_mc(res, must_cover=["SessionBegin", "AddNode", "FreeSlot", "SessionEnd", "HandBack"])
    for neg, inv in [("neg_guard", "CapacityRestored"), ("neg_head", "Disjoint"), ("workers", "CapacityRestored")]:
        r = vlib.model_check("SlotAlloc", "MC_SlotAlloc_" + neg, workers=2, xmx="2g", timeout=600, coverage=False)
        if r["ok"] or inv not in (r["violated"] or ""):
            ck.tool_errors.append("vacuity: MC_SlotAlloc_%s is expected to violate %s" % (neg, inv))


def levelswap_mc(ck, tier):
    """design level: LevelSwap.tla, the transcription of oxidd_reorder::level_swap, for every canonical store of
    one or two live functions (and one dead function) over 3 variables, both adjacent level pairs, BDD and ZBDD rules,
    every visiting order of the old upper level: SemPreserved, WellFormed, RcExact, NoDangling.  quick: 23 selected
    functions; thorough: all 256 (sharded over several TLC runs).  Two defective variants must be rejected."""
    import concurrent.futures as cf
    jobs = []
    if tier == "quick":
        jobs = [(c, None) for c in LEVELSWAP_CFGS]
    else:
        shards = 6
        jobs = [(c, {"LS_MODE": "all", "LS_SHARDS": str(shards), "LS_SHARD": str(i)})
                for c in LEVELSWAP_CFGS for i in range(shards)]

    def run(job):
        c, env = job
        return vlib.model_check("LevelSwap", "MC_LevelSwap_" + c, workers=1 if env else 2, xmx="2g", timeout=3000, env=env)
    with cf.ThreadPoolExecutor(max_workers=6 if tier == "quick" else 12) as ex:
        for res in ex.map(run, jobs):
            ck.add_mc(res, must_cover=["Finish"])
    for neg, inv in [("neg_lookup", "WellFormed"), ("neg_zskip", "SemPreserved")]:
        r = vlib.model_check("LevelSwap", "MC_LevelSwap_" + neg, workers=2, xmx="2g", timeout=900, coverage=False)
        if r["ok"] or inv not in (r["violated"] or ""):
            ck.tool_errors.append("vacuity: the defective variant MC_LevelSwap_%s is not rejected by %s" % (neg, inv))


def c08(ck, tier, seed):
    ck.cov["rule"] = ("V+S: set_var_order for (source order, request) pairs: n=3 with all 256 functions alive "
                      "(2 sources x 16 requests quick, 6 x 16 thorough), n=4 (60 sampled / all 24x65), chains of 2-5 "
                      "reorderings on 5..8 variables mixed with operations and gc; obligations: request respected, "
                      "minimal number of inversions among all completions (n <= 6), maps inverse, every handle keeps "
                      "edge and denotation, C03/C05 invariants on the snapshot after, operations after behave canonically")
    plan = [("reorder", {"kind": k, "seed": seed * 13 + i, "tier": tier}) for i, k in enumerate(BOOL_KINDS)]
    files = _bool_suite(ck, ["C08"], plan)
    _bubble_binding(ck, files)
    # the pointer-based backend: the same reordering histories, and model counting with a SatCountCache shared
    # across reorderings (an operation after reordering; obligations of the C12 driver handed over to C08)
    pplan = [("reorder", {"kind": k, "seed": seed * 13 + 7 + i, "tier": "quick"}) for i, k in enumerate(BOOL_KINDS)]
    _bool_suite(ck, ["C08"], pplan, features="ptr,cache,mt", tag="ptr-")
    binary = vlib.build_harness("ptr,cache,mt")
    pfiles, cmds = [], []
    for i, k in enumerate(BOOL_KINDS):
        res = vlib.run_driver(binary, "count", {"kind": k, "seed": seed * 11 + i, "tier": "quick"},
                              os.path.join(ck.outdir, "ptr-count-" + k))
        pfiles += ck.add_driver(res)
        cmds.append(" ".join(map(str, res["cmd"])))
    ck.add_validation(vlib.validate("TraceManager", pfiles, ["C08"], extra_env={"ALIAS_C12": "C08"}), driver_cmd=cmds)
    # MTBDD and TDD: reorderings with live functions inside the multi-valued histories (TraceMV, mcheck events)
    import chk_mv
    for drv in ["tdd", "mtbdd"]:
        chk_mv._run(ck, drv, ["C08"], tier, seed + 5)
    # design level: concurrent_bubble_sort transcribed in BubbleSort.tla: all initial permutations of 5 positions,
    # 3 workers, every interleaving: NoOverlap, SwapsAreInversions, SortedAtEnd, NoStuck (no lost wake-up);
    # termination under fairness for 4 positions / 2 workers
    levelswap_mc(ck, tier)
    res = vlib.model_check("BubbleSort", "MC_BubbleSort", workers=4, xmx="4g", timeout=900)
    ck.add_mc(res, must_cover=["Fetch", "AfterSwapAny"])
    res = vlib.model_check("BubbleSort", "MC_BubbleSortLive", workers=2, xmx="4g", timeout=900, coverage=False)
    ck.add_mc(res)
    ck.cov["rule"] += ("; hook (feature oxidd_verif): every other chain and 6/40 runs on 9..11 variables force the concurrent "
                       "bubble sort (2..8 workers); the recorded swap begin/end events of every set_var_order call must never "
                       "overlap on a level (same predicate as BubbleSort!NoOverlap)")
    ck.cov["rule"] += ("; design: LevelSwap.tla (transcription of level_swap; all canonical stores of <= 2 live + 1 dead functions over 3 "
                       "variables, both level pairs, BDD and ZBDD rules, every visiting order): SemPreserved, WellFormed, RcExact, "
                       "NoDangling; two defective variants must be rejected")
    ck.cov["rule"] += ("; V (TraceBubbleSort): input sequence, swap begin/end events and return of the level sort of every "
                       "recorded set_var_order call are validated as a behaviour of BubbleSort.tla (critical sections Fetch/AfterSwap "
                       "as silent steps between the events; sequential sort: exactly the swap sequence of bubble_sort)")


def c09(ck, tier, seed):
    ck.cov["rule"] = ("T: union/intsec/diff over all 256x256 family pairs, subset0/subset1/change for every variable "
                      "and family, singleton/empty/base under 2/6 orders; V: random histories on ZBDDs with add_vars")
    vlib.ensure_tables()
    plan = _tables_plan(tier, seed, "zbdd", kinds=["zbdd"]) + _hist_plan(tier, seed, kinds=["zbdd"], quick_count=80)
    plan.append(("hist", {"kind": "zbdd", "seed": seed * 37, "tier": tier, "stress": 1, "steps": 120,
                          "count": 40 if tier == "quick" else 400, "nmax": 5}))
    _bool_suite(ck, ["C09"], plan)


CHECKS = {
    "C01": (c01, "model_checking"),
    "C02": (c02, "model_checking"),
    "C03": (c03, "model_checking"),
    "C04": (c04, "model_checking"),
    "C05": (c05, "model_checking"),
    "C08": (c08, "model_checking"),
    "C09": (c09, "model_checking"),
}


# per-property modules lib/chk_*.py: each exposes REGISTER = {"Cxx": (fn(ck, tier, seed), level)}
def _load_plugins():
    import glob
    import importlib
    here = os.path.dirname(os.path.abspath(__file__))
    for p in sorted(glob.glob(os.path.join(here, "chk_*.py"))):
        mod = importlib.import_module(os.path.basename(p)[:-3])
        CHECKS.update(getattr(mod, "REGISTER", {}))
        TRACE_MODULE.update(getattr(mod, "TRACE_MODULE", {}))


# trace specification used to re-validate a stored history (replay)
TRACE_MODULE = {}
_load_plugins()


def run(pid, tier, seed):
    fn, level = CHECKS[pid]
    ck = Check(pid, tier, seed, level)
    fn(ck, tier, seed)
    return ck.finish()


def replay(pid, path):
    """re-validate the history stored in a replay file against the spec"""
    with open(path) as f:
        rp = json.load(f)
    if rp.get("kind") != "trace":
        print("replay: model-check violation; re-run ./check %s" % pid)
        return run(pid, rp.get("tier", "quick"), rp.get("seed", 1))
    tmp = os.path.join(vlib.OUT, "replay", "replay-%d.ndjson" % os.getpid())
    with open(tmp, "w") as f:
        for ev in rp["history"]:
            f.write(json.dumps(ev) + "\n")
    module = rp.get("module") or TRACE_MODULE.get(pid, "TraceManager")
    r = vlib.validate_one(module, tmp, [pid])
    os.unlink(tmp)
    if r["tool_error"]:
        print("TOOL-ERROR: " + r["tool_error"])
        return 2
    bad = [(i, [n for (p, n) in pairs if p == pid]) for (i, pairs) in r["fails"]]
    bad = [(i, ns) for (i, ns) in bad if ns]
    if bad or r["done"] != r["total"]:
        print("VIOLATION property=%s replay=%s" % (pid, path))
        for i, ns in bad:
            print("  event %d: %s" % (i, ", ".join(ns)))
        return 1
    print("replayed history accepted")
    return 0
