#!/bin/bash
# consumes lines "<seed-id> <worktree> <check> [<check>...]" from /tmp/seed_todo.txt sequentially
touch /tmp/seed_todo.txt /tmp/seed_done.txt
while true; do
  line=$(grep -vxFf /tmp/seed_done.txt /tmp/seed_todo.txt | head -1)
  if [ -z "$line" ]; then sleep 20; continue; fi
  [ "$line" = "STOP" ] && exit 0
  set -- $line
  ID=$1; WT=$2; shift 2
  BASE=${ID%%@*}
  if [ ! -f /verif/seeded/$BASE/confirm.json ]; then /verif/lib/seed_confirm.sh $BASE $WT >> /tmp/seed_queue.log 2>&1; fi
  /verif/lib/seed_run.sh $ID "$@" >> /tmp/seed_queue.log 2>&1
  echo "$line" >> /tmp/seed_done.txt
done
