"""C19 - C API: handle ownership is balanced and results equal the Rust API's.

Binding: the sources of /repo/crates/oxidd-ffi-c are compiled as an rlib
(ffi-shim), the driver `oxc` calls the `extern "C"` entry points through
hand-written prototypes, mirrors every call on the Rust API in a second
manager and records one event per call in the vocabulary of TraceManager;
TLC validates every history against spec/TraceCApi.tla (which EXTENDS
TraceManager: C results are judged by the same operators as the Rust API) and
model-checks the ownership ledger spec/CApi.tla (MC_CApi.cfg).

Environment (experiments only): C19_SHIM_DIR = alternative copy of ffi-shim
(its [lib] path selects the ffi sources under test).
"""
import os
import re

import vlib

KINDS = ["bdd", "bcdd", "zbdd"]
SHIM = os.environ.get("C19_SHIM_DIR") or os.path.join(vlib.ROOT, "ffi-shim")


# ---------------------------------------------------------------------------
# the hand-written prototypes must match the definitions (else: tool error)

def _ffi_src_dir():
    with open(os.path.join(SHIM, "Cargo.toml")) as f:
        m = re.search(r'\[lib\][^\[]*?path\s*=\s*"([^"]+)"', f.read(), re.S)
    if not m:
        raise vlib.ToolError("ffi-shim/Cargo.toml: no [lib] path")
    return os.path.dirname(m.group(1))


def _split_top(s):
    out, depth, cur = [], 0, ""
    s = s.replace("->", "\u2192")
    for ch in s:
        if ch in "<([":
            depth += 1
        elif ch in ">)]":
            depth -= 1
        if ch == "," and depth == 0:
            out.append(cur)
            cur = ""
        else:
            cur += ch
    if cur.strip():
        out.append(cur)
    return [x.replace("\u2192", "->") for x in out]


def _norm_type(t, kind=None):
    t = re.sub(r"\s+", " ", t.strip())
    t = t.replace("- >", "->")
    for p in ("util::dddmp::", "util::num::", "util::", "std::mem::", "std::ffi::", "crate::"):
        t = t.replace(p, "")
    if kind:
        t = re.sub(r"\b%s_manager_t\b" % kind, "mgr_t", t)
        t = re.sub(r"\b%s_pair_t\b" % kind, "fn_pair_t", t)
        t = re.sub(r"\b%s_substitution_t\b" % kind, "substitution_t", t)
        t = re.sub(r"\b%s_t\b" % kind, "fn_t", t)
    t = t.replace("Option<Box<dddmp_file_t>>", "*mut dddmp_file_t")
    t = re.sub(r"-> ->", "->", t)
    return t.replace(" ", "")


def _sig(params, ret, kind=None):
    ps = []
    for p in _split_top(params):
        p = p.strip()
        if not p:
            continue
        ps.append(_norm_type(p.split(":", 1)[1], kind))
    return ps, _norm_type(ret or "()", kind)


def _find_def(text, cname, kind=None):
    m = re.search(r'extern "C" fn %s\s*\(' % re.escape(cname), text)
    if not m:
        return None
    i = m.end()
    depth, j = 1, i
    while depth:
        depth += {"(": 1, ")": -1}.get(text[j], 0)
        j += 1
    params = text[i:j - 1]
    rest = text[j:text.index("{", j)].strip()
    ret = rest[2:].strip() if rest.startswith("->") else None
    return _sig(params, ret, kind)


def _structs(text, kind=None):
    out = {}
    for m in re.finditer(r"#\[repr\(C\)\]\s*(?:#\[[^\]]*\]\s*)*pub struct (\w+)(?:<[^>]*>)?\s*\{(.*?)\n\}", text, re.S):
        body = re.sub(r"//[^\n]*", "", m.group(2))
        fields = []
        for f in _split_top(body):
            f = f.strip()
            if ":" in f:
                fields.append(_norm_type(f.split(":", 1)[1], kind))
        out[_norm_type(m.group(1), kind)] = fields
    return out


def check_prototypes():
    """compare src/capi.rs with the ffi sources; returns the number of prototypes checked"""
    src = _ffi_src_dir()
    with open(os.path.join(SHIM, "src", "capi.rs")) as f:
        capi = f.read()
    texts = {}
    for k in KINDS:
        with open(os.path.join(src, k + ".rs")) as f:
            texts[k] = f.read()
    util = ""
    for fn in ("mod.rs", "interop.rs", "num.rs", "dddmp.rs"):
        with open(os.path.join(src, "util", fn)) as f:
            util += f.read() + "\n"
    bad, n = [], 0
    which = {"decl_common": KINDS, "decl_quant": ["bdd", "bcdd"], "decl_zbdd": ["zbdd"]}
    cur = None
    for line in capi.splitlines():
        m = re.match(r"macro_rules! (\w+)", line)
        if m:
            cur = m.group(1)
        m = re.search(r'#\[link_name = concat!\("oxidd_", \$k, "_(\w+)"\)\] pub fn \w+\((.*)\)(?: -> (.*))?;', line)
        if m and cur in which:
            for k in which[cur]:
                cname = "oxidd_%s_%s" % (k, m.group(1))
                mine = _sig(m.group(2), m.group(3))
                theirs = _find_def(texts[k], cname, k)
                n += 1
                if theirs != mine:
                    bad.append("%s: declared %s, defined %s" % (cname, mine, theirs))
            continue
        m = re.match(r"\s*pub fn (oxidd_\w+)\((.*)\)(?: -> (.*))?;", line)
        if m:
            mine = _sig(m.group(2), m.group(3))
            theirs = _find_def(util, m.group(1))
            n += 1
            if theirs != mine:
                bad.append("%s: declared %s, defined %s" % (m.group(1), mine, theirs))
    # struct layouts
    mine = _structs(capi)
    theirs = _structs(util)
    for name in ("var_no_range_t", "var_no_bool_pair_t", "duplicate_var_name_result_t",
                 "assignment_t", "str_t", "string_t", "error_t", "natural_t", "dddmp_export_settings_t", "opt",
                 "size_hint_t", "iter", "named"):
        n += 1
        if name not in theirs or mine.get(name) != theirs[name]:
            bad.append("struct %s: declared %s, defined %s" % (name, mine.get(name), theirs.get(name)))
    for k in KINDS:
        theirs = _structs(texts[k], k)
        for name in ("mgr_t", "fn_t", "fn_pair_t"):
            n += 1
            if name not in theirs or mine.get(name) != theirs[name]:
                bad.append("struct %s (%s): declared %s, defined %s" % (name, k, mine.get(name), theirs.get(name)))
    if bad:
        raise vlib.ToolError("ffi-shim/src/capi.rs does not match the ffi sources:\n  " + "\n  ".join(bad[:20]))
    return n


# ---------------------------------------------------------------------------

def _plan(tier, seed):
    plan = []
    th = tier == "thorough"
    for i, k in enumerate(KINDS):
        plan.append(("capi-mgr", {"kind": k, "seed": seed, "tier": tier}))
        plan.append(("capi-each", {"kind": k, "seed": seed, "tier": tier}))
        plan.append(("capi-enum", {"kind": k, "seed": seed * 7 + i, "tier": tier}))
        plan.append(("capi-oom", {"kind": k, "seed": seed * 11 + i, "tier": tier}))
        for j in range(4 if th else 1):
            plan.append(("capi-seq", {"kind": k, "seed": seed * 31 + i + 100 * j, "tier": tier,
                                      "count": 150 if th else 16, "nmax": 6 if th else 5}))
    return plan


def c19(ck, tier, seed):
    ck.cov["rule"] = (
        "MC: bounded ledger model CApi/MC_CApi (4 node ids, <= 2 owned references per handle, <= 2 manager "
        "references): invariants rc = ledger + parent edges, manager counter = manager + function references, "
        "invalid in => invalid out, empty after unref-all + gc, refinement of every call to Manager.tla's action. "
        "V: per kind (BDD, BCDD, ZBDD) through the extern \"C\" entry points, every call mirrored on the Rust API in a "
        "second manager and followed by a full-store snapshot (reference counts): one history per entry point, "
        "every operator on every operand tuple of a 7-function pool under 2 (quick) / 6 orders with 6 ownership "
        "patterns, every ref/unref/gc sequence up to length 3 (quick) / 4, scripted manager reference histories, "
        "tiny managers driven to out-of-memory with the invalid handle passed to every operation in every "
        "position, seeded random sequences over 2..5(6) variables; non-trivial = calls that returned a new owned "
        "handle")
    nproto = check_prototypes()
    ck.cov["prototypes_checked"] = nproto
    # design level
    res = vlib.model_check("CApi", "MC_CApi", workers=4, xmx="3g", timeout=900)
    ck.add_mc(res, must_cover=["Returns", "ReturnsInvalid", "Ref", "Unref", "RefInvalid", "MakeNode", "Gc",
                               "MgrRef", "MgrUnref", "ContainingManager"])
    # conformance
    binary = vlib.build_harness(features="idx,cache,mt", package_dir=SHIM, bin_name="oxc")
    files, cmds = [], []
    for i, (drv, args) in enumerate(_plan(tier, seed)):
        od = os.path.join(ck.outdir, "%02d-%s-%s" % (i, drv, args["kind"]))
        dres = vlib.run_driver(binary, drv, args, od)
        files += ck.add_driver(dres)
        cmds.append(" ".join(map(str, dres["cmd"])))
    ck.sample_from(files)
    results = vlib.validate("TraceCApi", files, ["C19"], jobs=min(vlib.JOBS, 8), xmx="2g")
    ck.add_validation(results, driver_cmd=cmds)
    ck.assumptions += [
        "the three handle types of the C interface have the same layout (checked textually against the ffi sources "
        "together with every prototype: %d items); the ffi sources are compiled as an rlib, not as the shipped "
        "cdylib/staticlib" % nproto,
        "the manager's reference counter is not readable through public API: observed as liveness of the manager's "
        "threads (collector thread + worker pool) at the points where it must be alive / must have terminated",
        "denotation of a C handle = DDSem!SemMap of the sub-graph reached from the handle viewed as a borrowed Rust "
        "function (from_raw in ManuallyDrop, as the ffi code does)",
        "out-of-memory (an invalid result on valid operands) is accepted only in managers with capacity < 100",
    ]


REGISTER = {"C19": (c19, "model_checking")}
TRACE_MODULE = {"C19": "TraceCApi"}
