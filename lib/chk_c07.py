"""C07: concurrent and parallel execution = sequential execution."""
import os

import vlib

KINDS = ["bdd", "bcdd", "zbdd"]


def c07(ck, tier, seed):
    ck.cov["rule"] = ("V: free-running runs: 2..4 application threads issue 40-60 operations each (connectives, not, ite, quantification and apply-and-quantify over a variable, substitute with a "
                      "substitution object of the thread's own, ZBDD family operations, handle clone, drops of handles created by any thread) on one manager with 2..16 pool workers and "
                      "split depth 0/1/3/8, a collector thread calls gc() every 50-450 microseconds; per-thread events are merged by a "
                      "stamp taken under the handle-table lock at publication (respects data dependencies); TLC validates every "
                      "result against the sequential specification (conc.sem, conc.canon), the ids of substitution objects created by all "
                      "threads at once are pairwise distinct (conc.substid.unique), and at quiescence the full snapshot "
                      "(structure, canonicity, exact reference counts, gc completeness)")
    binary = vlib.build_harness()
    files, cmds = [], []
    for i, k in enumerate(KINDS):
        od = os.path.join(ck.outdir, "conc-" + k)
        res = vlib.run_driver(binary, "conc", {"kind": k, "seed": seed * 3 + i, "tier": tier}, od, timeout=900)
        files += ck.add_driver(res)
        cmds.append(" ".join(map(str, res["cmd"])))
    # an application thread against the background collector (capacities 128..512: the node count crosses the
    # high-water mark again and again); snapshots under the exclusive lock
    for i, k in enumerate(KINDS):
        od = os.path.join(ck.outdir, "bggc-" + k)
        res = vlib.run_driver(binary, "bggc", {"kind": k, "seed": seed * 23 + i, "tier": tier}, od, timeout=900)
        files += ck.add_driver(res)
        cmds.append(" ".join(map(str, res["cmd"])))
    ck.sample_from(files)
    results = vlib.validate("TraceManager", files, ["C07"])
    ck.add_validation(results, driver_cmd=cmds)
    # a kind with a dynamic terminal manager: MTBDD<I64> arithmetic whose results are constants referenced by
    # nothing else, against a collector thread (terminals are swept after the inner nodes); TraceMV
    od = os.path.join(ck.outdir, "mtconc")
    res = vlib.run_driver(binary, "mtconc", {"seed": seed * 7 + 1, "tier": tier}, od, timeout=900)
    mfiles = ck.add_driver(res)
    ck.add_validation(vlib.validate("TraceMV", mfiles, ["C07"]), driver_cmd=[" ".join(map(str, res["cmd"]))])
    ck.cov["rule"] += ("; MTBDD<I64>: 2..4 threads apply add/sub/mul/min/max to 24-40 shared operand pairs (f, K - f) and drop "
                       "the results at once while a collector thread runs gc() every 20-220 microseconds (2..8 pool workers, cache "
                       "1/64/1024, schedule perturbation hook); every result (graph, eval table, node count) is validated against "
                       "the pointwise lifting (conc.sem, conc.eval, conc.canon, conc.graph), at quiescence every operand is "
                       "re-projected (conc.stable) and the collection must be exact for inner nodes and terminals")
    import checks
    checks.store_mc(ck, tier)
    checks.substid_mc(ck)
    ck.assumptions += ["schedules are those the OS produced (sampling); weak-memory effects are not modelled",
                       "design-level exploration of all interleavings: MC_StoreConc when present in model_checking_runs"]


REGISTER = {"C07": (c07, "model_checking")}
