"""C18 -- input parsers: Circuit::simplify is equivalence-preserving and total;
the DIMACS / AIGER / NNF parsers never panic; aag and aig agree.

Specification: spec/Circuit.tla (circuits as data, Eval / truth tables,
reachable cycles and unknown inputs, NF1..NF5, gate-map consistency, the
allowed outcomes of simplify) and spec/TraceCircuit.tla (named obligations on
recorded events).  Drivers: harness/src/drv_circuit.rs (`circuit-enum`,
`circuit-random`, `parse-mutate`).  Design-level model check:
spec/MC_Circuit.cfg (the contract is satisfiable: a reference simplifier
written in TLA+ produces an allowed outcome for every tiny circuit, and the
tabular evaluator used for trace validation agrees with the recursive
definition of Eval).
"""
import collections
import json
import os

import vlib

TRACE_MODULE = {"C18": "TraceCircuit"}

INFO = "C18I"      # informational obligations (never violations), see TraceCircuit.tla


def _plan(tier, seed):
    if tier == "quick":
        return [("circuit-enum", {"seed": seed, "tier": tier, "stride-e2": 16, "stride-g1": 2,
                                  "count-s3": 30000, "chunk": 6000}),
                ("circuit-random", {"seed": seed, "tier": tier, "count": 15000, "chunk": 1500}),
                ("parse-mutate", {"seed": seed, "tier": tier, "mutations": 150, "pairs": 3000,
                                  "gen-mutations": 2, "load-every": 10, "chunk": 4000})]
    return [("circuit-enum", {"seed": seed, "tier": tier, "stride-e2": 1, "stride-g1": 1,
                              "count-s3": 1000000, "chunk": 8000}),
            ("circuit-random", {"seed": seed, "tier": tier, "count": 150000, "chunk": 3000}),
            ("parse-mutate", {"seed": seed, "tier": tier, "mutations": 1500, "pairs": 20000,
                              "gen-mutations": 8, "load-every": 8, "chunk": 6000})]


def _condense(results, counts, info):
    """Thousands of events may fail the same obligation (one defect, many
    circuits).  Count them all, but hand only the smallest witness of every
    obligation per driver to the framework (it re-reads the chunk file for
    every failure it is given)."""
    best = {}          # (obligation, driver prefix) -> (size, result index, event index, property)
    for ri, r in enumerate(results):
        if r["tool_error"] or not r["fails"]:
            continue
        try:
            with open(r["file"]) as f:
                lines = f.readlines()
        except OSError:
            lines = []
        prefix = os.path.basename(r["file"]).split("-")[0]
        for idx, pairs in r["fails"]:
            size = len(lines[idx - 1]) if 0 < idx <= len(lines) else 1 << 30
            for (p, name) in pairs:
                if p == INFO:
                    info[name] += 1
                    if name not in info.samples and size < 1200:
                        info.samples[name] = json.loads(lines[idx - 1])
                    continue
                counts[name] += 1
                key = (name, prefix)
                if key not in best or size < best[key][0]:
                    best[key] = (size, ri, idx, p)
        r["fails"] = []
    keep = {}
    for (name, _), (_, ri, idx, p) in sorted(best.items()):
        keep.setdefault(ri, collections.OrderedDict()).setdefault(idx, []).append((p, name))
    for ri, d in keep.items():
        results[ri]["fails"] = list(d.items())


class _Info(collections.Counter):
    samples = {}


def c18(ck, tier, seed):
    ck.cov["rule"] = (
        "V: Circuit::simplify on (1) ALL circuits with <= 2 inputs, <= 2 gates, <= 2 literals per gate over the alphabet "
        "{F, T, +-inputs, +-the first unknown input (number = len), +-gates incl. self/mutual references} with 2-3 root "
        "sets each, (2) ALL single gates with <= 3 literals over <= 3 inputs and the unknown inputs len, len+1, "
        "2*len+gates, 2*len+gates+1, UNDEF, (3) a seeded sample of the circuits with <= 3 inputs, 2-3 gates, <= 3 "
        "literals, root = gate 0, (4) random circuits with <= 5 inputs, <= 8 gates, <= 5 literals, 1-3 roots, stored in "
        "non-topological order, (5) circuits produced by the parsers through Problem::simplify; quick tier: (1) every "
        "16th, (2) every 2nd circuit by seeded hash.  Every event is judged by TLC: truth tables over all assignments "
        "to the known and the referenced unknown inputs, NF1..NF5, gate map, topological order, error literal on a "
        "reachable cycle / reachable unknown input, no missed error.  Parsers: 41 member files (unit tests of "
        "dimacs.rs / aiger.rs / nnf.rs and variations), every truncation point, seeded byte mutations (1-3 edits), two "
        "option sets each, a share of them also through load_file (diagnostic rendering); random and-inverter graphs "
        "serialised by the harness as aag and as aig must parse to problems with equal projection (accessors + Debug). "
        "non-trivial = simplify changed the circuit or reported an error / distinct parser input different from a seed")
    binary = vlib.build_harness()
    files, cmds = [], []
    for i, (drv, args) in enumerate(_plan(tier, seed)):
        od = os.path.join(ck.outdir, "%02d-%s" % (i, drv))
        res = vlib.run_driver(binary, drv, args, od)
        files += ck.add_driver(res)
        cmds.append(" ".join(map(str, res["cmd"])))
        for s in res["summaries"]:
            ex = dict(s.get("extra", {}))
            ex.pop("classes", None)
            ck.cov.setdefault("drivers", {})[s.get("driver", drv)] = ex
    ck.sample_from(files, n=3)
    results = vlib.validate("TraceCircuit", files, ["C18", INFO])
    counts, info = collections.Counter(), _Info()
    _condense(results, counts, info)
    ck.add_validation(results, driver_cmd=cmds)
    ck.cov["failed_obligation_events"] = dict(counts)
    ck.cov["observations_not_violations"] = {
        "counts": dict(info),
        "meaning": {
            "simplify.info.masked_unknown": "simplify returned a result although a reachable gate refers to an unknown "
                                            "input that does not influence it (e.g. and(F, x9)); tolerated",
            "simplify.info.unknown_root": "a root literal is itself an unknown input; it is passed through; tolerated",
            "parse.valid_rejected:*": "a member of the format was answered with a diagnostic; C18 only demands "
                                      "'a problem or a diagnostic', so this is reported here and not as a violation"},
        "samples": {k: v for k, v in list(info.samples.items())[:6]}}
    # classes (1) and (2) are complete in the thorough tier; the 3-input / 3-gate / 3-literal space of the
    # property's quantifier (about 2*10^12 circuits) is sampled, not enumerated
    ck.cov["exhaustive"] = False
    ck.cov["exhaustive_note"] = ("thorough: classes (1) [381 372 circuits x root sets] and (2) [62 550 gates] complete; "
                                 "quick: seeded 1/16 and 1/2 of them; class (3) is a seeded sample in both tiers")

    # design level: the contract is satisfiable and the evaluator is the definition
    mc = vlib.model_check("Circuit", "MC_Circuit", workers=4, xmx="3g", timeout=1500,
                          env={"MC_NMAX": "1" if tier == "quick" else "2"})
    ck.add_mc(mc, must_cover=["Pick"])

    ck.assumptions += [
        "gate literals refer to existing gates (dangling gate numbers are outside the documented contract of simplify)",
        "a reachable unknown input that cannot influence any reachable gate may be answered by a result or by an error; "
        "an unknown input used directly as a root is passed through (the documentation speaks of the reachable circuit "
        "fragment); entries of unreachable gates in the gate map are unconstrained",
        "parsers: sampled mutations of small files, header numbers stay small (huge counts would only probe the "
        "allocator); Debug rendering + public accessors are the projection compared for aag/aig",
        "TLC's role: evaluation of the contract on every recorded event (states = events) plus a small design-level "
        "model check of the contract itself"]


REGISTER = {"C18": (c18, "model_checking")}
