"""C15: DDDMP export/import round trips; malformed files are rejected, not
crashed on (spec/Dddmp.tla, spec/TraceDddmp.tla, harness/src/drv_dddmp.rs)."""
import json
import os

import vlib

TRACE_MODULE = {"C15": "TraceDddmp"}

KINDS = ["bdd", "bcdd", "zbdd"]


def _scan(files, cov):
    """coverage figures read off the traces (no judgement)"""
    m = cov.setdefault("mutations", {"total": 0, "rejected_by_header": 0, "rejected_by_import": 0,
                                     "accepted_ascii_judged_by_FileSem": 0,
                                     "accepted_binary_structural_only": 0, "panics": 0,
                                     "skipped_too_many_vars": 0})
    e = cov.setdefault("exports", {"total": 0, "ok": 0, "strict_error": 0, "panic": 0,
                                   "by_mode_version": {}, "round_tripped_with_2plus_nodes": 0})
    for fn in files:
        last_export_nodes = 0
        same_ok = False
        with open(fn) as f:
            for line in f:
                if '"ev":"import_bad"' in line:
                    ev = json.loads(line)
                    m["total"] += 1
                    hc = ev["hres"]["c"]
                    c = ev.get("res", {}).get("c")
                    if hc == "panic" or c == "panic":
                        m["panics"] += 1
                    elif hc == "err":
                        m["rejected_by_header"] += 1
                    elif c == "ok":
                        if ev.get("file", {}).get("mode") == "B":
                            m["accepted_binary_structural_only"] += 1
                        elif "tts" in ev:
                            m["accepted_ascii_judged_by_FileSem"] += 1
                    elif c == "skipped":
                        m["skipped_too_many_vars"] += 1
                    else:
                        m["rejected_by_import"] += 1
                elif '"ev":"export"' in line:
                    ev = json.loads(line)
                    e["total"] += 1
                    c = ev["res"]["c"]
                    e["ok" if c == "ok" else "strict_error" if c == "err" else "panic"] += 1
                    key = "%s/%s" % (ev["file"].get("mode"), ev["set"]["ver"])
                    e["by_mode_version"][key] = e["by_mode_version"].get(key, 0) + 1
                    nn = [h["i"] for h in ev["file"]["hdr"] if h["k"] == ".nnodes"]
                    last_export_nodes = nn[-1][0] if nn and nn[-1] else 0
                    same_ok = False
                elif '"ev":"import_same"' in line:
                    ev = json.loads(line)
                    same_ok = ev["res"]["c"] == "ok" and all(ev.get("eq", [False]))
                elif '"ev":"import_fresh"' in line:
                    ev = json.loads(line)
                    if same_ok and ev.get("res", {}).get("c") == "ok" and last_export_nodes >= 2:
                        e["round_tripped_with_2plus_nodes"] += 1


def c15(ck, tier, seed):
    ck.cov["rule"] = (
        "V: (1) round trips: for BDD, BCDD, ZBDD (and MTBDD<i64>, random diagrams only): all 256 three-variable functions alive under each of the 6 orders "
        "(order set before or after building), 10 (quick) / 120 (thorough) sampled root multisets of 0..60 handles per order; "
        "36 / 400 random diagrams over 0..10 variables with unused variables and random orders, 3-4 root sets each; every "
        "export under sampled settings ASCII|binary x 2.0|3.0 x strict|relaxed x diagram name x root names (none, plain, empty, "
        "spaces/control, duplicates) with 8 variable-name schemes (unnamed, plain, unicode, spaces/control characters, partly "
        "unnamed with look-alikes of generated names, duplicates after sanitising, keywords of the format); each export is "
        "followed by DumpHeader::load, import into the same manager (== on handles) and import into a fresh manager with the "
        "header's names and support order; TLC judges the header against Dddmp.tla's contract, strict-mode outcome, "
        "FileSem(node list) = denotation of the roots (exporter) = truth tables of the imported handles (importer); "
        "(2) malformed input: every truncation point, byte flips/overwrites/deletions/insertions (every 3rd position in quick, all in "
        "thorough; all digits replaced by neighbours, sign insertion), deletion/duplication/swap of every line, double mutations of "
        "2 (quick) / 6 (thorough) valid files per kind and mode (ASCII; binary for BCDD): outcome must be err, or ok with a "
        "well-formed diagram, no leaked nodes and - ASCII - the denotation FileSem assigns to the mutated token list; a panic "
        "satisfies no obligation. non-trivial = exported files with >= 2 nodes that round-tripped in both managers + mutated "
        "files that the importer accepted")
    binary = vlib.build_harness()
    files, cmds = [], []
    for i, k in enumerate(KINDS):
        for drv in ("dddmp-roundtrip", "dddmp-mutate"):
            od = os.path.join(ck.outdir, "%s-%s" % (drv, k))
            res = vlib.run_driver(binary, drv, {"kind": k, "seed": seed * 11 + i, "tier": tier}, od)
            files += ck.add_driver(res)
            cmds.append(" ".join(map(str, res["cmd"])))
    # MTBDD (i64 terminals): ASCII round trips (binary mode and a complement function do not exist for this kind)
    od = os.path.join(ck.outdir, "dddmp-roundtrip-mtbdd")
    res = vlib.run_driver(binary, "dddmp-roundtrip", {"kind": "mtbdd", "seed": seed * 11 + 5, "tier": tier}, od)
    files += ck.add_driver(res)
    cmds.append(" ".join(map(str, res["cmd"])))
    _scan(files, ck.cov)
    # samples: an export event and an accepted mutated file
    for fn in files:
        if len(ck.cov["samples"]) >= 4:
            break
        with open(fn) as f:
            for line in f:
                if ('"ev":"export"' in line or ('"ev":"import_bad"' in line and '"tts"' in line)) and len(line) < 6000:
                    ev = json.loads(line)
                    ev.pop("snap", None)
                    ck.sample(ev)
                    break
    results = vlib.validate("TraceDddmp", files, ["C15"], jobs=min(vlib.JOBS, 8))
    ck.add_validation(results, driver_cmd=cmds)
    # measured, not estimated: files with >= 2 nodes that round-tripped in both managers +
    # mutated files the importer accepted (ASCII: judged by FileSem; binary: structure and leaks)
    ck.cov["distinct_nontrivial"] = (ck.cov["exports"]["round_tripped_with_2plus_nodes"]
                                     + ck.cov["mutations"]["accepted_ascii_judged_by_FileSem"]
                                     + ck.cov["mutations"]["accepted_binary_structural_only"])
    ck.assumptions += [
        "denotation of an exported handle = DDSem!SemMap of its logged sub-graph; of an imported handle = eval on all "
        "assignments (<= 10 variables) and SemMap of its sub-graph",
        "the complement function handed to import is BooleanFunction::not_edge_owned for every kind, as in oxidd-cli and both FFI crates",
        "the harness tokenises files lexically (lines, blank-separated tokens, decimal value of integer tokens); a sign separated "
        "from its number by blanks is joined to it, as the importer reads it",
        "mutated files in binary mode are judged for no-panic, well-formedness of the built diagram and leaks only (no TLA+ "
        "decoder of the byte codec); valid binary files are judged by the round trip",
        "terminal descriptions other than T/F (BDD, BCDD) and E/B (ZBDD) in mutated files are left open",
        "a 2.0 file cannot carry the numbers of variables outside the support: their names must survive as a set",
        "MTBDD<i64>: 40 (quick) / 300 (thorough) random diagrams over 0..8 variables with number, +-infinity and NaN terminals, "
        "ASCII round trips only; terminals with |value| >= 10^9 are left open; TDD export is not exercised by this check",
    ]


REGISTER = {"C15": (c15, "model_checking")}
