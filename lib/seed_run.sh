#!/bin/bash
# usage: seed_run.sh <seed-id> <check> [<check>...]
# Applies /verif/seeded/<id>/patch.diff to /repo, runs the given checks (quick
# tier), records their verdicts in /verif/seeded/<id>/detect.json, and always
# restores /repo.
set -u
ID=${1%%@*}; R=""; case "$1" in *@*) R="_${1##*@}";; esac; shift
S=/verif/seeded/$ID
cd /repo || exit 2
if [ -n "$(git status --porcelain --untracked-files=no)" ]; then echo "repo not clean"; exit 2; fi
P=$S/patch.diff; [ -f $S/patch_rebased.diff ] && P=$S/patch_rebased.diff
git apply $P || exit 2
trap 'git -C /repo checkout -q -- .' EXIT
echo "{" > $S/detect$R.json
first=1
for C in "$@"; do
  cd /verif
  ./check $C --tier quick > $S/check_$C$R.log 2>&1; rc=$?
  sigs=$(grep -A1 "^VIOLATION" $S/check_$C$R.log | grep "signature:" | sed 's/.*signature: //' | sort -u | head -8 | tr '\n' ';')
  [ $first = 0 ] && echo "," >> $S/detect$R.json; first=0
  echo " \"$C\": {\"exit\": $rc, \"signatures\": \"$sigs\"}" >> $S/detect$R.json
  echo "$ID$R $C exit=$rc $sigs"
done
echo "}" >> $S/detect$R.json
