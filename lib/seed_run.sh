#!/bin/bash
# usage: seed_run.sh <seed-id> <check> [<check>...]
# Applies /verif/seeded/<id>/patch.diff to /repo, runs the given checks (quick
# tier), records their verdicts in /verif/seeded/<id>/detect.json, and always
# restores /repo.
set -u
ID=$1; shift
S=/verif/seeded/$ID
cd /repo || exit 2
if [ -n "$(git status --porcelain --untracked-files=no)" ]; then echo "repo not clean"; exit 2; fi
git apply $S/patch.diff || exit 2
trap 'git -C /repo checkout -q -- .' EXIT
echo "{" > $S/detect.json
first=1
for C in "$@"; do
  cd /verif
  ./check $C --tier quick > $S/check_$C.log 2>&1; rc=$?
  sigs=$(grep -A1 "^VIOLATION" $S/check_$C.log | grep "signature:" | sed 's/.*signature: //' | sort -u | head -8 | tr '\n' ';')
  [ $first = 0 ] && echo "," >> $S/detect.json; first=0
  echo " \"$C\": {\"exit\": $rc, \"signatures\": \"$sigs\"}" >> $S/detect.json
  echo "$ID $C exit=$rc $sigs"
done
echo "}" >> $S/detect.json
