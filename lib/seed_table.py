#!/usr/bin/env python3
"""prints the markdown table of DESIGN.md section 14 from /verif/seeded/*/
(directories <id>-rN hold re-runs of the checks after they were strengthened;
the latest run per check counts, earlier misses are listed separately)"""
import glob
import json
import os
import re

seeds = {}
for d in sorted(glob.glob("/verif/seeded/*/")):
    sid = os.path.basename(d.rstrip("/"))
    m = re.match(r"(.*?)(?:-r(\d+))?$", sid)
    base, rnd = m.group(1), int(m.group(2) or 1)
    seeds.setdefault(base, []).append((rnd, d))

print("| seed | property | change (needs to manifest) | confirmed | caught by (signatures) | first missed by, caught after strengthening | still not caught by |")
print("|------|----------|----------------------------|-----------|------------------------|---------------------------------------------|---------------------|")
for base, runs in sorted(seeds.items()):
    runs.sort()
    d0 = runs[0][1]
    try:
        meta = json.load(open(d0 + "meta.json"))
    except Exception:
        meta = {}
    conf = {}
    for _, d in runs:
        try:
            c = json.load(open(d + "confirm.json"))
            if "suite_exit_with_change" in c:
                conf = c
        except Exception:
            pass
    confirmed = conf.get("suite_exit_with_change") == 0 and conf.get("demo_exit_clean") == 0 and conf.get("demo_exit_with_change", 0) != 0
    latest, first = {}, {}
    for _, d in runs:
        try:
            det = json.load(open(d + "detect.json"))
        except Exception:
            continue
        for c, r in det.items():
            first.setdefault(c, r)
            latest[c] = r
    caught = {c: r for c, r in latest.items() if r.get("exit") == 1}
    missed = [c for c, r in latest.items() if r.get("exit") == 0]
    improved = [c for c in caught if first[c].get("exit") == 0]
    sig = "; ".join("%s: %s" % (c, ", ".join(s for s in r.get("signatures", "").split(";") if s)[:90]) for c, r in sorted(caught.items()))
    what = (meta.get("summary") or "")[:170].replace("|", "/") + " — needs: " + (meta.get("needs_to_manifest") or "")[:170].replace("|", "/")
    print("| %s | %s | %s | %s | %s | %s | %s |" % (base, meta.get("property", "?"), what, "yes" if confirmed else "NO", sig or "-", ", ".join(sorted(improved)) or "-", ", ".join(sorted(missed)) or "-"))
