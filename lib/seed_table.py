#!/usr/bin/env python3
"""prints the markdown table of DESIGN.md section 14 from /verif/seeded/*/"""
import glob
import json
import os

rows = []
for d in sorted(glob.glob("/verif/seeded/*/")):
    sid = os.path.basename(d.rstrip("/"))
    try:
        meta = json.load(open(d + "meta.json"))
    except Exception:
        meta = {}
    try:
        conf = json.load(open(d + "confirm.json"))
    except Exception:
        conf = {}
    try:
        det = json.load(open(d + "detect.json"))
    except Exception:
        det = {}
    confirmed = conf.get("suite_exit_with_change") == 0 and conf.get("demo_exit_clean") == 0 and conf.get("demo_exit_with_change", 0) != 0
    caught = [c for c, r in det.items() if r.get("exit") == 1]
    missed = [c for c, r in det.items() if r.get("exit") == 0]
    broken = [c for c, r in det.items() if r.get("exit") not in (0, 1)]
    sigs = "; ".join(sorted({s for r in det.values() for s in r.get("signatures", "").split(";") if s}))[:160]
    rows.append("| %s | %s | %s | %s | %s | %s |" % (
        sid, meta.get("property", "?"), (meta.get("summary") or "")[:150].replace("|", "/"),
        "yes" if confirmed else "NO", ", ".join(caught) or "-",
        (", ".join(missed) or "-") + ((" (tool error: " + ", ".join(broken) + ")") if broken else "")))
print("| seed | property | change | confirmed | caught by | not caught by |")
print("|------|----------|--------|-----------|-----------|---------------|")
print("\n".join(rows))
