#!/usr/bin/env python3
"""prints the markdown table of DESIGN.md section 14 from /verif/seeded/<id>/
(detect.json = first run of the checks against the seed, detect_rN.json = re-runs
after the checks were strengthened; the latest run per check counts)"""
import glob
import json
import os
import re

print("| seed | change | needs to manifest | caught by (signatures of the latest run) | missed at first, caught after strengthening | other checks run, silent |")
print("|------|--------|-------------------|------------------------------------------|----------------------------------------------|--------------------------|")
for d in sorted(glob.glob("/verif/seeded/*/")):
    sid = os.path.basename(d.rstrip("/"))
    try:
        meta = json.load(open(d + "meta.json"))
    except Exception:
        meta = {}
    try:
        conf = json.load(open(d + "confirm.json"))
    except Exception:
        conf = {}
    confirmed = conf.get("suite_exit_with_change") == 0 and conf.get("demo_exit_clean") == 0 and conf.get("demo_exit_with_change", 0) != 0
    files = [d + "detect.json"] + sorted(glob.glob(d + "detect_r*.json"), key=lambda p: int(re.search(r"_r(\d+)", p).group(1)))
    latest, first = {}, {}
    for f in files:
        try:
            det = json.load(open(f))
        except Exception:
            continue
        for c, r in det.items():
            if r.get("exit") not in (0, 1):
                continue            # tool error / interrupted run: not a verdict
            first.setdefault(c, r)
            latest[c] = r
    caught = {c: r for c, r in latest.items() if r.get("exit") == 1}
    silent = [c for c, r in latest.items() if r.get("exit") == 0]
    improved = [c for c in caught if first[c].get("exit") == 0]
    sig = "; ".join("%s: %s" % (c, ", ".join(s for s in r.get("signatures", "").split(";") if s)[:80]) for c, r in sorted(caught.items()))
    esc = lambda s: (s or "").replace("|", "/").replace("\n", " ")
    print("| %s%s | %s | %s | %s | %s | %s |" % (sid, "" if confirmed else " (NOT confirmed)", esc(meta.get("summary"))[:200],
          esc(meta.get("needs_to_manifest"))[:200], sig or "**none**", ", ".join(sorted(improved)) or "-", ", ".join(sorted(silent)) or "-"))
