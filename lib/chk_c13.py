"""C13 cube picking, C12 model counting (count part; Natural arithmetic is in chk_num.py)."""
import os

import vlib

KINDS = ["bdd", "bcdd", "zbdd"]


def _run(ck, driver, acts, tier, seed):
    binary = vlib.build_harness()
    files, cmds = [], []
    for i, k in enumerate(KINDS):
        od = os.path.join(ck.outdir, "%s-%s" % (driver, k))
        res = vlib.run_driver(binary, driver, {"kind": k, "seed": seed * 11 + i, "tier": tier}, od)
        files += ck.add_driver(res)
        cmds.append(" ".join(map(str, res["cmd"])))
    ck.sample_from(files)
    results = vlib.validate("TraceManager", files, acts)
    ck.add_validation(results, driver_cmd=cmds)
    return files


def c13(ck, tier, seed):
    ck.cov["rule"] = ("V: pick_cube / pick_cube_dd with all 8 per-level choice vectors and pick_cube_dd_set with all 27 literal sets "
                      "for the 3-variable functions (every third function under 2 orders in quick, all 256 under 6 orders in thorough), "
                      "random functions and literal sets over 4..8 variables, for BDD, BCDD, ZBDD; obligations: none/false iff "
                      "unsatisfiable, result is a cube implying the function, forced / chosen / don't-care entries follow the semantic "
                      "walk of the variable order (DDSem), callback at most once per level with a node of that level; "
                      "pick_cube_uniform: never a non-model, frequency within [0.6,1.6] of draws*|cube|/|S| when >= 40 expected")
    _run(ck, "pick", ["C13"], tier, seed)
    ck.assumptions += ["'without bias' is only checked as a coarse frequency band on fixed seeds"]


REGISTER = {"C13": (c13, "model_checking")}


def c12(ck, tier, seed):
    ck.cov["rule"] = ("V: sat_count(vars) for all 256 three-variable functions under 2/6 orders x vars in {3,4,62,63,64,73,127,128,1100} "
                      "(ZBDD: vars = number of levels, the documented domain) x number types Saturating<u64>, Saturating<u128>, F64, "
                      "Natural, fresh and shared caches; cache histories over 3..12 variables: one cache across handles, gc with node-id "
                      "reuse, reordering, changing vars; expected value |S|*2^(vars-n) computed by TLC in base-2^15 limb arithmetic; "
                      "plus the Natural arithmetic part (Natural.tla) when available")
    _run(ck, "count", ["C12"], tier, seed)
    try:
        import chk_num
        chk_num.natural_part(ck, tier, seed)
    except ImportError:
        ck.assumptions.append("Natural arithmetic part (chk_num.natural_part) not available in this run")


REGISTER["C12"] = (c12, "model_checking")
